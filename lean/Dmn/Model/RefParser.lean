import Dmn.Gen.Prec

/-!
# C06 — reference parser and printers for the FEEL operator language

`feel-grammar/src/feel.y` resolves the ambiguity of its `expression` rule through the
`%precedence/%left/%right/%nonassoc` block; `feel-parser/src/lalr.rs` holds the LALR tables
bison generated from it and `parser.rs:155-316` drives them.  This file states *which tree
those declarations dictate* as a precedence-climbing parser (`Ref.parse`) over the token
alphabet of `lexer.rs`, driven by the table regenerated into `Dmn/Gen/Prec.lean`, together
with the two printers of the property (`Ref.print .full`, `Ref.print .minimal`) and
`needsParens`, all computed from the same table.

Trees are those `parser.rs` builds (`AstNode`): parentheses leave no node
(`LEFT_PAREN expression RIGHT_PAREN` has no action, feel.y:141).

The file imports only `Dmn/Gen/Prec.lean` (it is linked into the driver).
-/

namespace Dmn.Ref
open Dmn.Gen.Prec

/-- Binary operators of `textual_expression` (feel.y:117-131), `AstNode::{Or, And, Eq, Nq, Lt,
Le, Gt, Ge, In, Add, Sub, Mul, Div, Exp}` (parser.rs:320-577, 1013, 1202). -/
inductive BinOp where
  | or | and | eq | nq | lt | le | gt | ge | in_ | add | sub | mul | div | exp
  deriving DecidableEq, Repr, Inhabited

/-- Leaves: a (single-word, bound) name, a numeric literal, any other literal
(`true`, `false`, `null`, strings, `@"…"`), numbered by the harness. -/
inductive Atom where
  | name (n : Nat)
  | num (n : Nat)
  | lit (k : Nat)
  deriving DecidableEq, Repr, Inhabited

/-- Tokens of the operator language (`lalr.rs` `TokenType`, `lexer.rs:209-420`).
`band` is `BETWEEN_AND`: the `and` that the lexer returns while its `between` flag is set
(lexer.rs:276-284). -/
inductive Tok where
  | name (n : Nat) | num (n : Nat) | lit (k : Nat)
  | kor | kand | eq | nq | lt | le | gt | ge
  | between | band | kin
  | plus | minus | mul | div | exp
  | instance | kof
  | lparen | rparen | lbrack | rbrack | dot | comma
  | kif | kthen | kelse | kfor | kreturn | ksome | kevery | ksatisfies | kfunction
  | lbrace | rbrace | colon | ellipsis
  deriving DecidableEq, Repr, Inhabited

/-- The comparison that starts a `simple_positive_unary_test` (feel.y:159-162),
`AstNode::{UnaryLt, UnaryLe, UnaryGt, UnaryGe}` (parser.rs:430-456). -/
inductive Cmp where
  | lt | le | gt | ge
  deriving DecidableEq, Repr, Inhabited

/-- `endpoint` (feel.y:181-188): a qualified name or a simple literal (the harness never
numbers `null`, which is no `simple_literal`, here). -/
inductive End where
  | qn (q : Nat) (qs : List Nat)
  | num (n : Nat)
  | lit (k : Nat)
  deriving DecidableEq, Repr, Inhabited

/-- The three spellings of either end of an interval (feel.y:169-179): start `(` `]` `[`,
end `)` `[` `]`.  `AstNode::IntervalStart/IntervalEnd` keep only closed (`square`) or not. -/
inductive Bra where
  | round | rev | square
  deriving DecidableEq, Repr, Inhabited

/-- `key` (feel.y:215-218): a name or a string. -/
inductive Key where
  | name (n : Nat)
  | str (k : Nat)
  deriving DecidableEq, Repr, Inhabited

mutual
/-- The operator skeleton of `AstNode` (feel/src/ast.rs:44). -/
inductive Tree where
  | atom (a : Atom)
  | bin (o : BinOp) (l r : Tree)
  /-- `AstNode::Neg` (parser.rs:1058) -/
  | neg (e : Tree)
  /-- `AstNode::Between(lhs, mhs, rhs)` (parser.rs:329) -/
  | between (e lo hi : Tree)
  /-- `AstNode::InstanceOf(e, QualifiedName [q, qs…])` (parser.rs:803, 1105-1125) -/
  | instOf (e : Tree) (q : Nat) (qs : List Nat)
  /-- `AstNode::Path(e, Name n)` (parser.rs:1067) -/
  | path (e : Tree) (n : Nat)
  /-- `AstNode::Filter(e, i)` (parser.rs:595) -/
  | filter (e i : Tree)
  /-- `AstNode::FunctionInvocation(f, PositionalParameters args)` (parser.rs:744-759) -/
  | call (f : Tree) (args : Args)
  /-- `FunctionInvocation(f, NamedParameters [n: v, …])` (parser.rs:983-1007): at least one -/
  | callNamed (f : Tree) (n : Nat) (v : Tree) (more : Binds)
  /-- `In(e, ExpressionList [a, b, …])`: `e in (a, b, …)`, at least two items
  (`comparison_in`, feel.y:155-157) -/
  | inList (e a b : Tree) (more : Args)
  /-- `AstNode::If(c, a, b)` (parser.rs:779) -/
  | ite (c a b : Tree)
  /-- `For(IterationContexts [IterationContextSingle(v, d), …], EvaluatedExpression body)` -/
  | forS (v : Nat) (d : Tree) (its : Iters) (body : Tree)
  /-- the same with a first context `v in lo .. hi` (`IterationContextRange`) -/
  | forR (v : Nat) (lo hi : Tree) (its : Iters) (body : Tree)
  /-- `Some/Every(QuantifiedContexts [QuantifiedContext(v, d), …], Satisfies body)` -/
  | quant (every : Bool) (v : Nat) (d : Tree) (qs : Binds) (body : Tree)
  /-- `FunctionDefinition(FormalParameters ps (all of type Any), FunctionBody(body, false))` -/
  | fn (ps : List Nat) (body : Tree)
  /-- `AstNode::List` (parser.rs:921) -/
  | list (items : Args)
  /-- `AstNode::Context` (parser.rs:417-437) -/
  | ctx (es : Entries)
  /-- `Range(IntervalStart(lo, closed), IntervalEnd(hi, closed))` with the spelling of its ends -/
  | range (b1 : Bra) (lo hi : End) (b2 : Bra)
  /-- `< e`, `<= e`, `> e`, `>= e` -/
  | utest (c : Cmp) (e : End)
inductive Args where
  | nil
  | cons (a : Tree) (as : Args)
/-- `name sep value` lists: named parameters (`n : v`), quantified contexts (`n in v`). -/
inductive Binds where
  | nil
  | cons (n : Nat) (v : Tree) (bs : Binds)
inductive Entries where
  | nil
  | cons (k : Key) (v : Tree) (es : Entries)
/-- iteration contexts after the first -/
inductive Iters where
  | nil
  | single (v : Nat) (d : Tree) (its : Iters)
  | range (v : Nat) (lo hi : Tree) (its : Iters)
end

instance : Inhabited Tree := ⟨.atom (.name 0)⟩
instance : Inhabited Args := ⟨.nil⟩
instance : Inhabited Binds := ⟨.nil⟩
instance : Inhabited Entries := ⟨.nil⟩
instance : Inhabited Iters := ⟨.nil⟩

/-! ## The table: levels of tokens and rules -/

def BinOp.sym : BinOp → Sym
  | .or => .OR | .and => .AND
  | .eq => .EQ | .nq => .NQ | .lt => .LT | .le => .LE | .gt => .GT | .ge => .GE
  | .in_ => .IN | .add => .PLUS | .sub => .MINUS | .mul => .MUL | .div => .DIV | .exp => .EXP

/-- The precedence symbol yacc gives the operator's rule (feel.y:117-131). -/
def BinOp.rulePrec : BinOp → Option Sym
  | .or => rulePrec_disjunction | .and => rulePrec_conjunction
  | .eq => rulePrec_comparison_eq | .nq => rulePrec_comparison_nq
  | .lt => rulePrec_comparison_lt | .le => rulePrec_comparison_le
  | .gt => rulePrec_comparison_gt | .ge => rulePrec_comparison_ge
  | .in_ => rulePrec_comparison_in_2
  | .add => rulePrec_addition | .sub => rulePrec_subtraction
  | .mul => rulePrec_multiplication | .div => rulePrec_division
  | .exp => rulePrec_exponentiation

def symLevel : Option Sym → Nat
  | some s => level s
  | none => 0

/-- Level of the operator's token: what a waiting rule is compared with. -/
def lvl (o : BinOp) : Nat := level o.sym

/-- The smallest token level the right operand of `o` may absorb: yacc, in the state
`e o e .` with an operator token ahead, shifts when the token's level is above the rule's,
reduces when it is below, and on a tie asks the associativity (`%left`: reduce,
`%right`: shift, `%nonassoc`: error — see `nextForbid`). -/
def rhsMin (o : BinOp) : Nat :=
  match assoc o.sym with
  | .left => symLevel o.rulePrec + 1
  | .nonassoc => symLevel o.rulePrec + 1
  | _ => symLevel o.rulePrec

def isNonassoc (o : BinOp) : Bool := assoc o.sym == .nonassoc

/-- After a `%nonassoc` operator a second operator of the same level is a syntax error. -/
def nextForbid (o : BinOp) : Option Nat := if isNonassoc o then some (lvl o) else none

/-- `MINUS expression %prec PREC_NEG` (feel.y:132). -/
def negMin : Nat := symLevel rulePrec_negation
/-- Third operand of `between`: the rule's precedence is that of `BETWEEN_AND` (its last
terminal, feel.y:116) and that line is `%precedence` (no token of the same level can follow). -/
def hiMin : Nat := symLevel rulePrec_between + 1
def betweenLvl : Nat := level .BETWEEN
def instLvl : Nat := level .INSTANCE
def dotLvl : Nat := level .DOT
def parenLvl : Nat := level .LEFT_PAREN
def brackLvl : Nat := level .LEFT_BRACKET
/-- The last operand of `if`, `for`, `some`/`every` and the body of a function definition:
the rule's precedence is that of `ELSE` / `RETURN` / `SATISFIES` / `EXTERNAL` (feel.y:110-113,
355-356), all `%precedence` lines: yacc shifts every token above that line, so these operands
run as far right as they can. -/
def iteMin : Nat := symLevel rulePrec_if + 1
def forMin : Nat := symLevel rulePrec_for + 1
def someMin : Nat := symLevel rulePrec_some + 1
def everyMin : Nat := symLevel rulePrec_every + 1
def fnMin : Nat := symLevel rulePrec_function_body + 1
def quantMin (every : Bool) : Nat := if every then everyMin else someMin

def tokOf : BinOp → Tok
  | .or => .kor | .and => .kand
  | .eq => .eq | .nq => .nq | .lt => .lt | .le => .le | .gt => .gt | .ge => .ge
  | .in_ => .kin | .add => .plus | .sub => .minus | .mul => .mul | .div => .div | .exp => .exp

def binOf : Tok → Option BinOp
  | .kor => some .or | .kand => some .and
  | .eq => some .eq | .nq => some .nq | .lt => some .lt | .le => some .le
  | .gt => some .gt | .ge => some .ge
  | .kin => some .in_ | .plus => some .add | .minus => some .sub
  | .mul => some .mul | .div => some .div | .exp => some .exp
  | _ => none

/-- Level of a token that can continue an expression (infix or postfix position). -/
def opLevel (t : Tok) : Option Nat :=
  match binOf t with
  | some o => some (lvl o)
  | none =>
    match t with
    | .between => some betweenLvl
    | .instance => some instLvl
    | .dot => some dotLvl
    | .lparen => some parenLvl
    | .lbrack => some brackLvl
    | _ => none

/-- After `in`: the tokens after an opening parenthesis (where the list form may begin). -/
def inListOf (o : BinOp) (rest : List Tok) : Option (List Tok) :=
  match o, rest with
  | .in_, .lparen :: rest0 => some rest0
  | _, _ => none

/-- After the `(` of an invocation: `NAME :` starts named parameters (feel.y:253-255). -/
def namedStart : List Tok → Option (Nat × List Tok)
  | .name n :: .colon :: rest0 => some (n, rest0)
  | _ => none

def atomTok : Atom → Tok
  | .name n => .name n
  | .num n => .num n
  | .lit k => .lit k

/-! ## The reference parser -/

/-- `qualified_name` after the first segment (feel.y:275-278): `DOT NAME` repeated, greedily
(`DOT` is above `NAME` in the table, so yacc shifts). -/
def parseQual : List Tok → List Nat × List Tok
  | .dot :: .name n :: rest =>
    let r := parseQual rest
    (n :: r.1, r.2)
  | toks => ([], toks)

/-- `endpoint` (feel.y:181-188). -/
def parseEnd : List Tok → Option (End × List Tok)
  | .name q :: rest => some (.qn q (parseQual rest).1, (parseQual rest).2)
  | .num n :: rest => some (.num n, rest)
  | .lit k :: rest => some (.lit k, rest)
  | _ => none

def startTok : Bra → Tok
  | .round => .lparen | .rev => .rbrack | .square => .lbrack
def endTok : Bra → Tok
  | .round => .rparen | .rev => .lbrack | .square => .rbrack
def closerOf : Tok → Option Bra
  | .rparen => some .round | .lbrack => some .rev | .rbrack => some .square
  | _ => none

/-- `interval` after its opening token (feel.y:165-179): `endpoint .. endpoint` and a closer. -/
def parseRange (b1 : Bra) (rest : List Tok) : Option (Tree × List Tok) :=
  match parseEnd rest with
  | some (lo, .ellipsis :: r1) =>
    match parseEnd r1 with
    | some (hi, c :: r2) =>
      match closerOf c with
      | some b2 => some (.range b1 lo hi b2, r2)
      | none => none
    | _ => none
  | _ => none

/-- `formal_parameters` after `function (` (feel.y:340-353, without types). -/
def parseParamsTail : List Tok → Option (List Nat × List Tok)
  | .rparen :: rest => some ([], rest)
  | .comma :: .name p :: rest =>
    match parseParamsTail rest with
    | some (ps, rest') => some (p :: ps, rest')
    | none => none
  | _ => none

def parseParams : List Tok → Option (List Nat × List Tok)
  | .rparen :: rest => some ([], rest)
  | .name p :: rest =>
    match parseParamsTail rest with
    | some (ps, rest') => some (p :: ps, rest')
    | none => none
  | _ => none

/-- The token starts an `endpoint`. -/
def startsEnd : Tok → Bool
  | .name _ => true
  | .num _ => true
  | .lit _ => true
  | _ => false

/-- After `[`: the tokens after a `]` that closes the empty list.  A `]` followed by the first
token of an endpoint opens an interval instead (`[ ]1..2[ ]`; in the tables both readings
share the state after `[ ]` and the next token decides). -/
def emptyListRest : List Tok → Option (List Tok)
  | .rbrack :: t :: r => if startsEnd t then none else some (t :: r)
  | [.rbrack] => some []
  | _ => none

def cmpOf : Tok → Option Cmp
  | .lt => some .lt | .le => some .le | .gt => some .gt | .ge => some .ge
  | _ => none

def keyOf : Tok → Option Key
  | .name n => some (.name n)
  | .lit k => some (.str k)
  | _ => none

mutual
/-- An expression all of whose infix/postfix operators at the top have a level ≥ `min`.
The length tests before every continuation always succeed (a sub-parse returns a suffix of
its input); they make the recursion visibly terminating. -/
def parseExpr (min : Nat) (toks : List Tok) : Option (Tree × List Tok) :=
  match toks with
  | .name n :: rest => parseLoop min none (.atom (.name n)) rest
  | .num n :: rest => parseLoop min none (.atom (.num n)) rest
  | .lit k :: rest => parseLoop min none (.atom (.lit k)) rest
  | .lparen :: rest =>
    -- `( expression )` (feel.y:141) or `( endpoint .. endpoint` closer (feel.y:177)
    match parseExpr 0 rest with
    | some (e, .rparen :: rest') =>
      if _h : rest'.length ≤ rest.length then parseLoop min none e rest' else none
    | some (_, .ellipsis :: _) =>
      match parseRange .round rest with
      | some (r, rest') => if _h : rest'.length ≤ rest.length then parseLoop min none r rest' else none
      | none => none
    | _ => none
  | .rbrack :: rest =>
    match parseRange .rev rest with
    | some (r, rest') => if _h : rest'.length ≤ rest.length then parseLoop min none r rest' else none
    | none => none
  | .lbrack :: rest =>
    -- `list` (feel.y:220-232) or `[ endpoint .. endpoint` closer (feel.y:179)
    match emptyListRest rest with
    | some rest' => if _h : rest'.length ≤ rest.length then parseLoop min none (.list .nil) rest' else none
    | none =>
      match parseExpr 0 rest with
      | some (_, .ellipsis :: _) =>
        match parseRange .square rest with
        | some (r, rest') => if _h : rest'.length ≤ rest.length then parseLoop min none r rest' else none
        | none => none
      | some (a, rest1) =>
        if _h1 : rest1.length ≤ rest.length then
          match parseArgsTail .rbrack rest1 with
          | some (as, rest2) =>
            if _h2 : rest2.length ≤ rest.length then parseLoop min none (.list (.cons a as)) rest2 else none
          | none => none
        else none
      | none => none
  | .minus :: rest =>
    match parseExpr negMin rest with
    | some (e, rest') =>
      if _h : rest'.length ≤ rest.length then parseLoop min none (.neg e) rest' else none
    | none => none
  | .kif :: rest =>
    match parseExpr 0 rest with
    | some (c, .kthen :: rest1) =>
      if _h1 : rest1.length ≤ rest.length then
        match parseExpr 0 rest1 with
        | some (a, .kelse :: rest2) =>
          if _h2 : rest2.length ≤ rest.length then
            match parseExpr iteMin rest2 with
            | some (b, rest3) =>
              if _h3 : rest3.length ≤ rest.length then parseLoop min none (.ite c a b) rest3 else none
            | none => none
          else none
        | _ => none
      else none
    | _ => none
  | .kfor :: .name v :: .kin :: rest =>
    match parseExpr 0 rest with
    | some (lo, .ellipsis :: rest1) =>
      if _h1 : rest1.length ≤ rest.length then
        match parseExpr 0 rest1 with
        | some (hi, rest2) =>
          if _h2 : rest2.length ≤ rest.length then
            match parseItersTail rest2 with
            | some (its, rest3) =>
              if _h3 : rest3.length ≤ rest.length then
                match parseExpr forMin rest3 with
                | some (body, rest4) =>
                  if _h4 : rest4.length ≤ rest.length then parseLoop min none (.forR v lo hi its body) rest4 else none
                | none => none
              else none
            | none => none
          else none
        | none => none
      else none
    | some (d, rest1) =>
      if _h1 : rest1.length ≤ rest.length then
        match parseItersTail rest1 with
        | some (its, rest2) =>
          if _h2 : rest2.length ≤ rest.length then
            match parseExpr forMin rest2 with
            | some (body, rest3) =>
              if _h3 : rest3.length ≤ rest.length then parseLoop min none (.forS v d its body) rest3 else none
            | none => none
          else none
        | none => none
      else none
    | none => none
  | .ksome :: .name v :: .kin :: rest =>
    match parseExpr 0 rest with
    | some (d, rest1) =>
      if _h1 : rest1.length ≤ rest.length then
        match parseBindsTail .kin .ksatisfies rest1 with
        | some (qs, rest2) =>
          if _h2 : rest2.length ≤ rest.length then
            match parseExpr someMin rest2 with
            | some (body, rest3) =>
              if _h3 : rest3.length ≤ rest.length then parseLoop min none (.quant false v d qs body) rest3 else none
            | none => none
          else none
        | none => none
      else none
    | none => none
  | .kevery :: .name v :: .kin :: rest =>
    match parseExpr 0 rest with
    | some (d, rest1) =>
      if _h1 : rest1.length ≤ rest.length then
        match parseBindsTail .kin .ksatisfies rest1 with
        | some (qs, rest2) =>
          if _h2 : rest2.length ≤ rest.length then
            match parseExpr everyMin rest2 with
            | some (body, rest3) =>
              if _h3 : rest3.length ≤ rest.length then parseLoop min none (.quant true v d qs body) rest3 else none
            | none => none
          else none
        | none => none
      else none
    | none => none
  | .kfunction :: .lparen :: rest =>
    match parseParams rest with
    | some (ps, rest1) =>
      if _h1 : rest1.length ≤ rest.length then
        match parseExpr fnMin rest1 with
        | some (body, rest2) =>
          if _h2 : rest2.length ≤ rest.length then parseLoop min none (.fn ps body) rest2 else none
        | none => none
      else none
    | none => none
  | .lbrace :: .rbrace :: rest => parseLoop min none (.ctx .nil) rest
  | .lbrace :: k :: .colon :: rest =>
    match keyOf k with
    | some key =>
      match parseExpr 0 rest with
      | some (v, rest1) =>
        if _h1 : rest1.length ≤ rest.length then
          match parseEntriesTail rest1 with
          | some (es, rest2) =>
            if _h2 : rest2.length ≤ rest.length then parseLoop min none (.ctx (.cons key v es)) rest2 else none
          | none => none
        else none
      | none => none
    | none => none
  | t :: rest =>
    match cmpOf t with
    | some c =>
      match parseEnd rest with
      | some (e, rest') => if _h : rest'.length ≤ rest.length then parseLoop min none (.utest c e) rest' else none
      | none => none
    | none => none
  | [] => none
termination_by (toks.length, 1)

/-- Extends `lhs` by the operators whose token level is ≥ `min`; `fb` is the level a
preceding `%nonassoc` operator forbids. -/
def parseLoop (min : Nat) (fb : Option Nat) (lhs : Tree) (toks : List Tok) : Option (Tree × List Tok) :=
  match toks with
  | [] => some (lhs, [])
  | t :: rest =>
    match opLevel t with
    | none => some (lhs, t :: rest)
    | some L =>
      if L < min then some (lhs, t :: rest)
      else
        match t with
        | .between =>
          match parseExpr 0 rest with
          | some (lo, .band :: rest1) =>
            if _h1 : rest1.length ≤ rest.length then
              match parseExpr hiMin rest1 with
              | some (hi, rest2) =>
                if _h2 : rest2.length ≤ rest.length then parseLoop min none (.between lhs lo hi) rest2 else none
              | none => none
            else none
          | _ => none
        | .instance =>
          match rest with
          | .kof :: .name q :: rest1 =>
            match parseQual rest1 with
            | (qs, rest2) =>
              if _h : rest2.length ≤ rest1.length then parseLoop min none (.instOf lhs q qs) rest2 else none
          | _ => none
        | .dot =>
          match rest with
          | .name n :: rest1 => parseLoop min none (.path lhs n) rest1
          | _ => none
        | .lbrack =>
          match parseExpr 0 rest with
          | some (i, .rbrack :: rest1) =>
            if _h : rest1.length ≤ rest.length then parseLoop min none (.filter lhs i) rest1 else none
          | _ => none
        | .lparen =>
          -- `parameters` (feel.y:234-268): `)`, named parameters, or a positional list
          match namedStart rest with
          | some (n, rest0) =>
            if _h0 : rest0.length ≤ rest.length then
              match parseExpr 0 rest0 with
              | some (v, rest1) =>
                if _h1 : rest1.length ≤ rest0.length then
                  match parseBindsTail .colon .rparen rest1 with
                  | some (bs, rest2) =>
                    if _h2 : rest2.length ≤ rest0.length then parseLoop min none (.callNamed lhs n v bs) rest2 else none
                  | none => none
                else none
              | none => none
            else none
          | none =>
            match parseExpr 0 rest with
            | some (a, rest1) =>
              if _h1 : rest1.length ≤ rest.length then
                match parseArgsTail .rparen rest1 with
                | some (as, rest2) =>
                  if _h2 : rest2.length ≤ rest.length then parseLoop min none (.call lhs (.cons a as)) rest2 else none
                | none => none
              else none
            | none =>
              match rest with
              | .rparen :: rest1 => parseLoop min none (.call lhs .nil) rest1
              | _ => none
        | _ =>
          match binOf t with
          | some o =>
            if fb = some L then none
            else
              -- `expression IN LEFT_PAREN comparison_in` (feel.y:126, 155-157): a comma after the
              -- first expression within the parenthesis decides for the list
              match inListOf o rest with
              | some rest0 =>
                match (if rest0.length ≤ rest.length then parseExpr 0 rest0 else none) with
                | some (a, .comma :: rest1) =>
                  if _h1 : rest1.length + 1 ≤ rest0.length ∧ rest0.length ≤ rest.length then
                    match parseArgsTail .rparen (.comma :: rest1) with
                    | some (.cons b more, rest2) =>
                      if _h2 : rest2.length ≤ rest0.length then
                        parseLoop min (nextForbid o) (.inList lhs a b more) rest2
                      else none
                    | _ => none
                  else none
                | _ =>
                  match parseExpr (rhsMin o) rest with
                  | some (r, rest') =>
                    if _h : rest'.length ≤ rest.length then parseLoop min (nextForbid o) (.bin o lhs r) rest' else none
                  | none => none
              | none =>
                match parseExpr (rhsMin o) rest with
                | some (r, rest') =>
                  if _h : rest'.length ≤ rest.length then parseLoop min (nextForbid o) (.bin o lhs r) rest' else none
                | none => none
          | none => none
termination_by (toks.length, 0)

/-- `positional_parameters_tail` (feel.y:270-273), `list_tail` (feel.y:229-232) and the rest of
`comparison_in` (feel.y:148-157): `, expression` repeated up to the closing token. -/
def parseArgsTail (close : Tok) (toks : List Tok) : Option (Args × List Tok) :=
  match toks with
  | .comma :: rest =>
    match parseExpr 0 rest with
    | some (a, rest1) =>
      if _h : rest1.length ≤ rest.length then
        match parseArgsTail close rest1 with
        | some (as, rest2) => some (.cons a as, rest2)
        | none => none
      else none
    | none => none
  | t :: rest => if t = close then some (.nil, rest) else none
  | [] => none
termination_by (toks.length, 2)

/-- `named_parameters_tail` (feel.y:257-260; `sep` = `:`, `close` = `)`) and the further
`quantified_expression`s (feel.y:330-337; `sep` = `in`, `close` = `satisfies`). -/
def parseBindsTail (sep close : Tok) (toks : List Tok) : Option (Binds × List Tok) :=
  match toks with
  | .comma :: .name n :: s :: rest =>
    if s = sep then
      match parseExpr 0 rest with
      | some (v, rest1) =>
        if _h : rest1.length ≤ rest.length then
          match parseBindsTail sep close rest1 with
          | some (bs, rest2) => some (.cons n v bs, rest2)
          | none => none
        else none
      | none => none
    else none
  | t :: rest => if t = close then some (.nil, rest) else none
  | [] => none
termination_by (toks.length, 2)

/-- `context_entry_tail` (feel.y:210-213). -/
def parseEntriesTail (toks : List Tok) : Option (Entries × List Tok) :=
  match toks with
  | .rbrace :: rest => some (.nil, rest)
  | .comma :: k :: .colon :: rest =>
    match keyOf k with
    | some key =>
      match parseExpr 0 rest with
      | some (v, rest1) =>
        if _h : rest1.length ≤ rest.length then
          match parseEntriesTail rest1 with
          | some (es, rest2) => some (.cons key v es, rest2)
          | none => none
        else none
      | none => none
    | none => none
  | _ => none
termination_by (toks.length, 2)

/-- The further `iteration_context`s and `return` (feel.y:311-323). -/
def parseItersTail (toks : List Tok) : Option (Iters × List Tok) :=
  match toks with
  | .kreturn :: rest => some (.nil, rest)
  | .comma :: .name v :: .kin :: rest =>
    match parseExpr 0 rest with
    | some (lo, .ellipsis :: rest1) =>
      if _h1 : rest1.length ≤ rest.length then
        match parseExpr 0 rest1 with
        | some (hi, rest2) =>
          if _h2 : rest2.length ≤ rest.length then
            match parseItersTail rest2 with
            | some (its, rest3) => some (.range v lo hi its, rest3)
            | none => none
          else none
        | none => none
      else none
    | some (d, rest1) =>
      if _h : rest1.length ≤ rest.length then
        match parseItersTail rest1 with
        | some (its, rest2) => some (.single v d its, rest2)
        | none => none
      else none
    | none => none
  | _ => none
termination_by (toks.length, 2)
end

/-- The whole token list is one expression. -/
def parse (toks : List Tok) : Option Tree :=
  match parseExpr 0 toks with
  | some (t, []) => some t
  | _ => none

/-! ## Printers -/

inductive Mode where
  | full | minimal
  deriving DecidableEq, Repr, Inhabited

def isAtom : Tree → Bool
  | .atom _ => true
  | _ => false

/-- Is the operand parenthesised: always when it must be, and in `full` mode whenever it is
not a leaf. -/
def wrapped (m : Mode) (needs : Bool) (c : Tree) : Bool :=
  needs || (m == .full && !isAtom c)

/-- The level the loop that built this tree forbids next. -/
def fbOf : Tree → Option Nat
  | .bin o _ _ => nextForbid o
  | .inList _ _ _ _ => nextForbid .in_
  | _ => none

def levelGe (t : Tok) (k : Nat) : Bool :=
  match opLevel t with
  | some L => decide (k ≤ L)
  | none => false

def endIsQn : End → Bool
  | .qn _ _ => true
  | _ => false

mutual
/-- `absorbs m c t`: printed bare (in mode `m`) and followed by the token `t`, the tree `c`
would take `t` into itself: some operand loop left open along its bare right edge accepts
`t` (or, after `instance of` / a unary test, the qualified name continues with `.`; or, after
`[ ]`, the first token of an endpoint turns the `]` into the start of an interval). -/
def absorbs (m : Mode) : Tree → Tok → Bool
  | .atom _, _ => false
  | .bin o _ r, t =>
    levelGe t (rhsMin o) || (!wrapped m (!startsOk m (rhsMin o) r) r && absorbs m r t)
  | .neg e, t =>
    levelGe t negMin || (!wrapped m (!startsOk m negMin e) e && absorbs m e t)
  | .between _ _ hi, t =>
    levelGe t hiMin || (!wrapped m (!startsOk m hiMin hi) hi && absorbs m hi t)
  | .instOf _ _ _, t => t == .dot
  | .path _ _, _ => false
  | .filter _ _, _ => false
  | .call _ _, _ => false
  | .callNamed _ _ _ _, _ => false
  | .inList _ _ _ _, _ => false
  | .ite _ _ b, t =>
    levelGe t iteMin || (!wrapped m (!startsOk m iteMin b) b && absorbs m b t)
  | .forS _ _ _ b, t =>
    levelGe t forMin || (!wrapped m (!startsOk m forMin b) b && absorbs m b t)
  | .forR _ _ _ _ b, t =>
    levelGe t forMin || (!wrapped m (!startsOk m forMin b) b && absorbs m b t)
  | .quant ev _ _ _ b, t =>
    levelGe t (quantMin ev) || (!wrapped m (!startsOk m (quantMin ev) b) b && absorbs m b t)
  | .fn _ b, t =>
    levelGe t fnMin || (!wrapped m (!startsOk m fnMin b) b && absorbs m b t)
  | .list .nil, t => startsEnd t
  | .list (.cons _ _), _ => false
  | .ctx _, _ => false
  | .range _ _ _ _, _ => false
  | .utest _ e, t => endIsQn e && t == .dot

/-- `startsOk m min c`: printed bare, `c` is built completely by `parseExpr min`: every
operator down its bare left edge has a level ≥ `min`. -/
def startsOk (m : Mode) (min : Nat) : Tree → Bool
  | .atom _ => true
  | .neg _ => true
  | .bin o l _ =>
    decide (min ≤ lvl o) &&
      (wrapped m (absorbs m l (tokOf o) || fbOf l == some (lvl o)) l || startsOk m min l)
  | .between e _ _ =>
    decide (min ≤ betweenLvl) && (wrapped m (absorbs m e .between) e || startsOk m min e)
  | .instOf e _ _ =>
    decide (min ≤ instLvl) && (wrapped m (absorbs m e .instance) e || startsOk m min e)
  | .path e _ =>
    decide (min ≤ dotLvl) && (wrapped m (absorbs m e .dot) e || startsOk m min e)
  | .filter e _ =>
    decide (min ≤ brackLvl) && (wrapped m (absorbs m e .lbrack) e || startsOk m min e)
  | .call f _ =>
    decide (min ≤ parenLvl) && (wrapped m (absorbs m f .lparen) f || startsOk m min f)
  | .callNamed f _ _ _ =>
    decide (min ≤ parenLvl) && (wrapped m (absorbs m f .lparen) f || startsOk m min f)
  | .inList e _ _ _ =>
    decide (min ≤ lvl .in_) &&
      (wrapped m (absorbs m e .kin || fbOf e == some (lvl .in_)) e || startsOk m min e)
  | .ite _ _ _ => true
  | .forS _ _ _ _ => true
  | .forR _ _ _ _ _ => true
  | .quant _ _ _ _ _ => true
  | .fn _ _ => true
  | .list _ => true
  | .ctx _ => true
  | .range _ _ _ _ => true
  | .utest _ _ => true
end

/-- Operand positions.  `delim`: between two tokens that are no operators (the condition and
the first branch of `if`, iteration domains, list items, context values, named parameters, the
items of `in (…)`); `open k`: a last operand read under the minimum `k` (`else` branch, `return`
/ `satisfies` operand, function body). -/
inductive Pos where
  | binL (o : BinOp) | binR (o : BinOp) | negArg
  | betweenE | betweenLo | betweenHi
  | instE | pathE | filterE | filterI | callF | callArg
  | delim | «open» (k : Nat)
  deriving DecidableEq, Repr

/-- Must the child `c` at position `pos` be parenthesised (its siblings and itself being
printed in mode `m`)? -/
def needs (m : Mode) (pos : Pos) (c : Tree) : Bool :=
  match pos with
  | .binL o => absorbs m c (tokOf o) || fbOf c == some (lvl o)
  | .binR o => !startsOk m (rhsMin o) c
  | .negArg => !startsOk m negMin c
  | .betweenE => absorbs m c .between
  | .betweenLo => false
  | .betweenHi => !startsOk m hiMin c
  | .instE => absorbs m c .instance
  | .pathE => absorbs m c .dot
  | .filterE => absorbs m c .lbrack
  | .filterI => false
  | .callF => absorbs m c .lparen
  | .callArg => false
  | .delim => false
  | .open k => !startsOk m k c

/-- `needsParens parent-position child`: the decision of the minimal printer. -/
def needsParens (pos : Pos) (c : Tree) : Bool := needs .minimal pos c

def par (w : Bool) (p : List Tok) : List Tok :=
  if w then .lparen :: p ++ [.rparen] else p

def prQual : List Nat → List Tok
  | [] => []
  | n :: ns => .dot :: .name n :: prQual ns

def prEnd : End → List Tok
  | .qn q qs => .name q :: prQual qs
  | .num n => [.num n]
  | .lit k => [.lit k]

def cmpTok : Cmp → Tok
  | .lt => .lt | .le => .le | .gt => .gt | .ge => .ge

def keyTok : Key → Tok
  | .name n => .name n
  | .str k => .lit k

def prParamsTail : List Nat → List Tok
  | [] => [.rparen]
  | p :: ps => .comma :: .name p :: prParamsTail ps

def prParams : List Nat → List Tok
  | [] => [.rparen]
  | p :: ps => .name p :: prParamsTail ps

def quantTok (every : Bool) : Tok := if every then .kevery else .ksome

mutual
def pr (m : Mode) : Tree → List Tok
  | .atom a => [atomTok a]
  | .bin o l r =>
    par (wrapped m (needs m (.binL o) l) l) (pr m l) ++
      tokOf o :: par (wrapped m (needs m (.binR o) r) r) (pr m r)
  | .neg e => .minus :: par (wrapped m (needs m .negArg e) e) (pr m e)
  | .between e lo hi =>
    par (wrapped m (needs m .betweenE e) e) (pr m e) ++
      .between :: (par (wrapped m (needs m .betweenLo lo) lo) (pr m lo) ++
        .band :: par (wrapped m (needs m .betweenHi hi) hi) (pr m hi))
  | .instOf e q qs =>
    par (wrapped m (needs m .instE e) e) (pr m e) ++ .instance :: .kof :: .name q :: prQual qs
  | .path e n => par (wrapped m (needs m .pathE e) e) (pr m e) ++ [.dot, .name n]
  | .filter e i =>
    par (wrapped m (needs m .filterE e) e) (pr m e) ++
      .lbrack :: (par (wrapped m (needs m .filterI i) i) (pr m i) ++ [.rbrack])
  | .call f as =>
    par (wrapped m (needs m .callF f) f) (pr m f) ++ .lparen :: prArgs m .rparen as
  | .callNamed f n v bs =>
    par (wrapped m (needs m .callF f) f) (pr m f) ++
      .lparen :: .name n :: .colon :: (par (wrapped m (needs m .delim v) v) (pr m v) ++
        prBindsTail m .colon .rparen bs)
  | .inList e a b more =>
    par (wrapped m (needs m (.binL .in_) e) e) (pr m e) ++
      .kin :: .lparen :: (par (wrapped m (needs m .delim a) a) (pr m a) ++
        .comma :: (par (wrapped m (needs m .delim b) b) (pr m b) ++ prArgsTail m .rparen more))
  | .ite c a b =>
    .kif :: (par (wrapped m (needs m .delim c) c) (pr m c) ++
      .kthen :: (par (wrapped m (needs m .delim a) a) (pr m a) ++
        .kelse :: par (wrapped m (needs m (.open iteMin) b) b) (pr m b)))
  | .forS v d its body =>
    .kfor :: .name v :: .kin :: (par (wrapped m (needs m .delim d) d) (pr m d) ++
      (prItersTail m its ++ par (wrapped m (needs m (.open forMin) body) body) (pr m body)))
  | .forR v lo hi its body =>
    .kfor :: .name v :: .kin :: (par (wrapped m (needs m .delim lo) lo) (pr m lo) ++
      .ellipsis :: (par (wrapped m (needs m .delim hi) hi) (pr m hi) ++
        (prItersTail m its ++ par (wrapped m (needs m (.open forMin) body) body) (pr m body))))
  | .quant ev v d qs body =>
    quantTok ev :: .name v :: .kin :: (par (wrapped m (needs m .delim d) d) (pr m d) ++
      (prBindsTail m .kin .ksatisfies qs ++
        par (wrapped m (needs m (.open (quantMin ev)) body) body) (pr m body)))
  | .fn ps body =>
    .kfunction :: .lparen :: (prParams ps ++ par (wrapped m (needs m (.open fnMin) body) body) (pr m body))
  | .list items => .lbrack :: prArgs m .rbrack items
  | .ctx es => .lbrace :: prEntries m es
  | .range b1 lo hi b2 => startTok b1 :: (prEnd lo ++ .ellipsis :: (prEnd hi ++ [endTok b2]))
  | .utest c e => cmpTok c :: prEnd e
/-- The items and the closing token. -/
def prArgs (m : Mode) (close : Tok) : Args → List Tok
  | .nil => [close]
  | .cons a as => par (wrapped m (needs m .callArg a) a) (pr m a) ++ prArgsTail m close as
def prArgsTail (m : Mode) (close : Tok) : Args → List Tok
  | .nil => [close]
  | .cons a as => .comma :: (par (wrapped m (needs m .callArg a) a) (pr m a) ++ prArgsTail m close as)
def prBindsTail (m : Mode) (sep close : Tok) : Binds → List Tok
  | .nil => [close]
  | .cons n v bs =>
    .comma :: .name n :: sep :: (par (wrapped m (needs m .delim v) v) (pr m v) ++ prBindsTail m sep close bs)
def prEntries (m : Mode) : Entries → List Tok
  | .nil => [.rbrace]
  | .cons k v es => keyTok k :: .colon :: (par (wrapped m (needs m .delim v) v) (pr m v) ++ prEntriesTail m es)
def prEntriesTail (m : Mode) : Entries → List Tok
  | .nil => [.rbrace]
  | .cons k v es =>
    .comma :: keyTok k :: .colon :: (par (wrapped m (needs m .delim v) v) (pr m v) ++ prEntriesTail m es)
def prItersTail (m : Mode) : Iters → List Tok
  | .nil => [.kreturn]
  | .single v d its =>
    .comma :: .name v :: .kin :: (par (wrapped m (needs m .delim d) d) (pr m d) ++ prItersTail m its)
  | .range v lo hi its =>
    .comma :: .name v :: .kin :: (par (wrapped m (needs m .delim lo) lo) (pr m lo) ++
      .ellipsis :: (par (wrapped m (needs m .delim hi) hi) (pr m hi) ++ prItersTail m its))
end

/-- The rendering of the property: `full` parenthesises every operand that is not a leaf,
`minimal` exactly those `needsParens` demands. -/
def print (m : Mode) (t : Tree) : List Tok := pr m t

/-- The `i`-th operand of the root (in print order) with its position — those operands whose
pair of parentheses can be needed: the first operand of a postfix/infix construct and the last
operand of an open one (operands between delimiters never need a pair). -/
def operand : Tree → Nat → Option (Pos × Tree)
  | .bin o l _, 0 => some (.binL o, l)
  | .bin o _ r, 1 => some (.binR o, r)
  | .neg e, 0 => some (.negArg, e)
  | .between e _ _, 0 => some (.betweenE, e)
  | .between _ lo _, 1 => some (.betweenLo, lo)
  | .between _ _ hi, 2 => some (.betweenHi, hi)
  | .instOf e _ _, 0 => some (.instE, e)
  | .path e _, 0 => some (.pathE, e)
  | .filter e _, 0 => some (.filterE, e)
  | .filter _ i, 1 => some (.filterI, i)
  | .call f _, 0 => some (.callF, f)
  | .callNamed f _ _ _, 0 => some (.callF, f)
  | .inList e _ _ _, 0 => some (.binL .in_, e)
  | .ite _ _ b, 0 => some (.open iteMin, b)
  | .forS _ _ _ b, 0 => some (.open forMin, b)
  | .forR _ _ _ _ b, 0 => some (.open forMin, b)
  | .quant ev _ _ _ b, 0 => some (.open (quantMin ev), b)
  | .fn _ b, 0 => some (.open fnMin, b)
  | _, _ => none

/-- The minimal rendering with the `i`-th operand of the root left without parentheses
(the arguments of an invocation never have any). -/
def printWithout (t : Tree) (i : Nat) : List Tok :=
  let w := fun (j : Nat) (pos : Pos) (c : Tree) =>
    if j = i then false else wrapped .minimal (needs .minimal pos c) c
  let m := Mode.minimal
  match t with
  | .bin o l r => par (w 0 (.binL o) l) (pr .minimal l) ++ tokOf o :: par (w 1 (.binR o) r) (pr .minimal r)
  | .neg e => .minus :: par (w 0 .negArg e) (pr .minimal e)
  | .between e lo hi =>
    par (w 0 .betweenE e) (pr .minimal e) ++
      .between :: (par (w 1 .betweenLo lo) (pr .minimal lo) ++
        .band :: par (w 2 .betweenHi hi) (pr .minimal hi))
  | .instOf e q qs => par (w 0 .instE e) (pr .minimal e) ++ .instance :: .kof :: .name q :: prQual qs
  | .path e n => par (w 0 .pathE e) (pr .minimal e) ++ [.dot, .name n]
  | .filter e i' =>
    par (w 0 .filterE e) (pr .minimal e) ++
      .lbrack :: (par (w 1 .filterI i') (pr .minimal i') ++ [.rbrack])
  | .call f as => par (w 0 .callF f) (pr .minimal f) ++ .lparen :: prArgs .minimal .rparen as
  | .callNamed f n v bs =>
    par (w 0 .callF f) (pr m f) ++
      .lparen :: .name n :: .colon :: (par (wrapped m (needs m .delim v) v) (pr m v) ++
        prBindsTail m .colon .rparen bs)
  | .inList e a b more =>
    par (w 0 (.binL .in_) e) (pr m e) ++
      .kin :: .lparen :: (par (wrapped m (needs m .delim a) a) (pr m a) ++
        .comma :: (par (wrapped m (needs m .delim b) b) (pr m b) ++ prArgsTail m .rparen more))
  | .ite c a b =>
    .kif :: (par (wrapped m (needs m .delim c) c) (pr m c) ++
      .kthen :: (par (wrapped m (needs m .delim a) a) (pr m a) ++
        .kelse :: par (w 0 (.open iteMin) b) (pr m b)))
  | .forS v d its body =>
    .kfor :: .name v :: .kin :: (par (wrapped m (needs m .delim d) d) (pr m d) ++
      (prItersTail m its ++ par (w 0 (.open forMin) body) (pr m body)))
  | .forR v lo hi its body =>
    .kfor :: .name v :: .kin :: (par (wrapped m (needs m .delim lo) lo) (pr m lo) ++
      .ellipsis :: (par (wrapped m (needs m .delim hi) hi) (pr m hi) ++
        (prItersTail m its ++ par (w 0 (.open forMin) body) (pr m body))))
  | .quant ev v d qs body =>
    quantTok ev :: .name v :: .kin :: (par (wrapped m (needs m .delim d) d) (pr m d) ++
      (prBindsTail m .kin .ksatisfies qs ++ par (w 0 (.open (quantMin ev)) body) (pr m body)))
  | .fn ps body => .kfunction :: .lparen :: (prParams ps ++ par (w 0 (.open fnMin) body) (pr m body))
  | t => pr m t

/-! ## Every rendering with one pair of parentheses left out

A rendering is a sequence of segments: fixed tokens and operands.  `Seg` carries the normal
token list of a segment and its variants with one pair of parentheses missing somewhere inside
(none for fixed tokens).  `drops m t` lists the renderings of `t` in mode `m` in which exactly
one operand that `pr m` parenthesises — at any depth — is written bare.  In `minimal` mode every
such pair is one `needsParens` demands. -/

abbrev Seg := List Tok × List (List Tok)

def Seg.fixed (p : List Tok) : Seg := (p, [])

def segsFlat : List Seg → List Tok
  | [] => []
  | (p, _) :: rest => p ++ segsFlat rest

def combine : List Seg → List (List Tok)
  | [] => []
  | (p, ds) :: rest => ds.map (· ++ segsFlat rest) ++ (combine rest).map (p ++ ·)

/-- An operand: parenthesised iff `w`; `ds` are the variants of its bare rendering `p`. -/
def Seg.opd (w : Bool) (p : List Tok) (ds : List (List Tok)) : Seg :=
  (par w p, (if w then [p] else []) ++ ds.map (par w))

mutual
def drops (m : Mode) : Tree → List (List Tok)
  | .atom _ => []
  | .bin o l r =>
    combine [.opd (wrapped m (needs m (.binL o) l) l) (pr m l) (drops m l), .fixed [tokOf o],
      .opd (wrapped m (needs m (.binR o) r) r) (pr m r) (drops m r)]
  | .neg e => combine [.fixed [.minus], .opd (wrapped m (needs m .negArg e) e) (pr m e) (drops m e)]
  | .between e lo hi =>
    combine [.opd (wrapped m (needs m .betweenE e) e) (pr m e) (drops m e), .fixed [.between],
      .opd (wrapped m (needs m .betweenLo lo) lo) (pr m lo) (drops m lo), .fixed [.band],
      .opd (wrapped m (needs m .betweenHi hi) hi) (pr m hi) (drops m hi)]
  | .instOf e q qs =>
    combine [.opd (wrapped m (needs m .instE e) e) (pr m e) (drops m e),
      .fixed (.instance :: .kof :: .name q :: prQual qs)]
  | .path e n => combine [.opd (wrapped m (needs m .pathE e) e) (pr m e) (drops m e), .fixed [.dot, .name n]]
  | .filter e i =>
    combine [.opd (wrapped m (needs m .filterE e) e) (pr m e) (drops m e), .fixed [.lbrack],
      .opd (wrapped m (needs m .filterI i) i) (pr m i) (drops m i), .fixed [.rbrack]]
  | .call f as =>
    combine (.opd (wrapped m (needs m .callF f) f) (pr m f) (drops m f) :: .fixed [.lparen] :: segsArgs m .rparen as)
  | .callNamed f n v bs =>
    combine (.opd (wrapped m (needs m .callF f) f) (pr m f) (drops m f) :: .fixed [.lparen, .name n, .colon] ::
      .opd (wrapped m (needs m .delim v) v) (pr m v) (drops m v) :: segsBindsTail m .colon .rparen bs)
  | .inList e a b more =>
    combine (.opd (wrapped m (needs m (.binL .in_) e) e) (pr m e) (drops m e) :: .fixed [.kin, .lparen] ::
      .opd (wrapped m (needs m .delim a) a) (pr m a) (drops m a) :: .fixed [.comma] ::
      .opd (wrapped m (needs m .delim b) b) (pr m b) (drops m b) :: segsArgsTail m .rparen more)
  | .ite c a b =>
    combine [.fixed [.kif], .opd (wrapped m (needs m .delim c) c) (pr m c) (drops m c), .fixed [.kthen],
      .opd (wrapped m (needs m .delim a) a) (pr m a) (drops m a), .fixed [.kelse],
      .opd (wrapped m (needs m (.open iteMin) b) b) (pr m b) (drops m b)]
  | .forS v d its body =>
    combine (.fixed [.kfor, .name v, .kin] :: .opd (wrapped m (needs m .delim d) d) (pr m d) (drops m d) ::
      (segsItersTail m its ++
        [.opd (wrapped m (needs m (.open forMin) body) body) (pr m body) (drops m body)]))
  | .forR v lo hi its body =>
    combine (.fixed [.kfor, .name v, .kin] :: .opd (wrapped m (needs m .delim lo) lo) (pr m lo) (drops m lo) ::
      .fixed [.ellipsis] :: .opd (wrapped m (needs m .delim hi) hi) (pr m hi) (drops m hi) ::
      (segsItersTail m its ++
        [.opd (wrapped m (needs m (.open forMin) body) body) (pr m body) (drops m body)]))
  | .quant ev v d qs body =>
    combine (.fixed [quantTok ev, .name v, .kin] :: .opd (wrapped m (needs m .delim d) d) (pr m d) (drops m d) ::
      (segsBindsTail m .kin .ksatisfies qs ++
        [.opd (wrapped m (needs m (.open (quantMin ev)) body) body) (pr m body) (drops m body)]))
  | .fn ps body =>
    combine [.fixed (.kfunction :: .lparen :: prParams ps),
      .opd (wrapped m (needs m (.open fnMin) body) body) (pr m body) (drops m body)]
  | .list items => combine (.fixed [.lbrack] :: segsArgs m .rbrack items)
  | .ctx es => combine (.fixed [.lbrace] :: segsEntries m es)
  | .range _ _ _ _ => []
  | .utest _ _ => []
def segsArgs (m : Mode) (close : Tok) : Args → List Seg
  | .nil => [.fixed [close]]
  | .cons a as => .opd (wrapped m (needs m .callArg a) a) (pr m a) (drops m a) :: segsArgsTail m close as
def segsArgsTail (m : Mode) (close : Tok) : Args → List Seg
  | .nil => [.fixed [close]]
  | .cons a as =>
    .fixed [.comma] :: .opd (wrapped m (needs m .callArg a) a) (pr m a) (drops m a) :: segsArgsTail m close as
def segsBindsTail (m : Mode) (sep close : Tok) : Binds → List Seg
  | .nil => [.fixed [close]]
  | .cons n v bs =>
    .fixed [.comma, .name n, sep] :: .opd (wrapped m (needs m .delim v) v) (pr m v) (drops m v) ::
      segsBindsTail m sep close bs
def segsEntries (m : Mode) : Entries → List Seg
  | .nil => [.fixed [.rbrace]]
  | .cons k v es =>
    .fixed [keyTok k, .colon] :: .opd (wrapped m (needs m .delim v) v) (pr m v) (drops m v) :: segsEntriesTail m es
def segsEntriesTail (m : Mode) : Entries → List Seg
  | .nil => [.fixed [.rbrace]]
  | .cons k v es =>
    .fixed [.comma, keyTok k, .colon] :: .opd (wrapped m (needs m .delim v) v) (pr m v) (drops m v) ::
      segsEntriesTail m es
def segsItersTail (m : Mode) : Iters → List Seg
  | .nil => [.fixed [.kreturn]]
  | .single v d its =>
    .fixed [.comma, .name v, .kin] :: .opd (wrapped m (needs m .delim d) d) (pr m d) (drops m d) :: segsItersTail m its
  | .range v lo hi its =>
    .fixed [.comma, .name v, .kin] :: .opd (wrapped m (needs m .delim lo) lo) (pr m lo) (drops m lo) ::
      .fixed [.ellipsis] :: .opd (wrapped m (needs m .delim hi) hi) (pr m hi) (drops m hi) :: segsItersTail m its
end

/-! ## The `between` flag of the lexer

`parser.rs:339` (`between_begin`, run right after `between` is shifted) sets the lexer's flag
`between`; `lexer.rs:276-284` returns the next `and` as `BETWEEN_AND` and clears the flag.
The flag is one boolean for the whole input — it knows nothing about nesting.  `relex`
replays that on a token list in which both kinds of `and` are written alike. -/
def relex (flag : Bool) : List Tok → List Tok
  | [] => []
  | .between :: ts => .between :: relex true ts
  | .kand :: ts => if flag then .band :: relex false ts else .kand :: relex false ts
  | .band :: ts => if flag then .band :: relex false ts else .kand :: relex false ts
  | t :: ts => t :: relex flag ts

mutual
/-- Neither `and` nor `between` occurs anywhere in the rendering of the tree. -/
def noAnd : Tree → Bool
  | .atom _ => true
  | .bin o l r => o != .and && noAnd l && noAnd r
  | .neg e => noAnd e
  | .between _ _ _ => false
  | .instOf e _ _ => noAnd e
  | .path e _ => noAnd e
  | .filter e i => noAnd e && noAnd i
  | .call f as => noAnd f && noAndArgs as
  | .callNamed f _ v bs => noAnd f && noAnd v && noAndBinds bs
  | .inList e a b more => noAnd e && noAnd a && noAnd b && noAndArgs more
  | .ite c a b => noAnd c && noAnd a && noAnd b
  | .forS _ d its body => noAnd d && noAndIters its && noAnd body
  | .forR _ lo hi its body => noAnd lo && noAnd hi && noAndIters its && noAnd body
  | .quant _ _ d qs body => noAnd d && noAndBinds qs && noAnd body
  | .fn _ body => noAnd body
  | .list items => noAndArgs items
  | .ctx es => noAndEntries es
  | .range _ _ _ _ => true
  | .utest _ _ => true
def noAndArgs : Args → Bool
  | .nil => true
  | .cons a as => noAnd a && noAndArgs as
def noAndBinds : Binds → Bool
  | .nil => true
  | .cons _ v bs => noAnd v && noAndBinds bs
def noAndEntries : Entries → Bool
  | .nil => true
  | .cons _ v es => noAnd v && noAndEntries es
def noAndIters : Iters → Bool
  | .nil => true
  | .single _ d its => noAnd d && noAndIters its
  | .range _ lo hi its => noAnd lo && noAnd hi && noAndIters its
end

mutual
/-- The one-boolean flag of the lexer is enough for this tree: no `between` has an `and` or
another `between` inside its middle operand. -/
def betweenSafe : Tree → Bool
  | .atom _ => true
  | .bin _ l r => betweenSafe l && betweenSafe r
  | .neg e => betweenSafe e
  | .between e lo hi => betweenSafe e && noAnd lo && betweenSafe hi
  | .instOf e _ _ => betweenSafe e
  | .path e _ => betweenSafe e
  | .filter e i => betweenSafe e && betweenSafe i
  | .call f as => betweenSafe f && betweenSafeArgs as
  | .callNamed f _ v bs => betweenSafe f && betweenSafe v && betweenSafeBinds bs
  | .inList e a b more => betweenSafe e && betweenSafe a && betweenSafe b && betweenSafeArgs more
  | .ite c a b => betweenSafe c && betweenSafe a && betweenSafe b
  | .forS _ d its body => betweenSafe d && betweenSafeIters its && betweenSafe body
  | .forR _ lo hi its body => betweenSafe lo && betweenSafe hi && betweenSafeIters its && betweenSafe body
  | .quant _ _ d qs body => betweenSafe d && betweenSafeBinds qs && betweenSafe body
  | .fn _ body => betweenSafe body
  | .list items => betweenSafeArgs items
  | .ctx es => betweenSafeEntries es
  | .range _ _ _ _ => true
  | .utest _ _ => true
def betweenSafeArgs : Args → Bool
  | .nil => true
  | .cons a as => betweenSafe a && betweenSafeArgs as
def betweenSafeBinds : Binds → Bool
  | .nil => true
  | .cons _ v bs => betweenSafe v && betweenSafeBinds bs
def betweenSafeEntries : Entries → Bool
  | .nil => true
  | .cons _ v es => betweenSafe v && betweenSafeEntries es
def betweenSafeIters : Iters → Bool
  | .nil => true
  | .single _ d its => betweenSafe d && betweenSafeIters its
  | .range _ lo hi its => betweenSafe lo && betweenSafe hi && betweenSafeIters its
end

/-! ## A path of three names right after an opening parenthesis

`interval_start: LEFT_PAREN endpoint ELLIPSIS` (feel.y:177) with `endpoint → qualified_name:
NAME DOT qualified_name | NAME` (feel.y:275-278) competes with `LEFT_PAREN expression
RIGHT_PAREN` where `expression → NAME DOT NAME` (`path_names`, feel.y:134).  After
`( NAME DOT NAME` with `DOT` ahead the generated tables shift (`DOT` is above `NAME`), which
commits the parser to the qualified name of an interval: `( a . b . c` can then only go on
as `( a.b.c .. x )`.  The same holds after the `[` of a list (`interval_start: LEFT_BRACKET
endpoint ELLIPSIS`, feel.y:179) and the `(` of `in (…)`.  An interval literal itself
(`( a.b.c .. d ]`) is read as the grammar says. -/

/-- Ends an operand: a `(` after it is an invocation, not a grouping parenthesis. -/
def operandEnd : Tok → Bool
  | .name _ => true
  | .num _ => true
  | .lit _ => true
  | .rparen => true
  | .rbrack => true
  | .rbrace => true
  | _ => false

def startsThreeNames : List Tok → Bool
  | .name _ :: .dot :: .name _ :: .dot :: _ => true
  | _ => false

/-- The number of tokens of an interval literal after its opening token. -/
def rangeLen (rest : List Tok) : Option Nat :=
  match parseRange .round rest with
  | some (_, r2) => some (rest.length - r2.length)
  | none => none

def opensGroup (t : Tok) : Bool := t == .lparen || t == .lbrack

/-- `skip`: tokens of an interval literal still to pass. -/
def pathQuirkAux (prevEnd : Bool) (skip : Nat) : List Tok → Bool
  | [] => false
  | t :: rest =>
    match skip with
    | k + 1 => pathQuirkAux (k == 0) k rest
    | 0 =>
      if !prevEnd && (opensGroup t || t == .rbrack) then
        match rangeLen rest with
        | some n => pathQuirkAux (n == 0) n rest
        | none => (opensGroup t && startsThreeNames rest) || pathQuirkAux (operandEnd t) 0 rest
      else pathQuirkAux (operandEnd t) 0 rest

def pathQuirk (prevEnd : Bool) (toks : List Tok) : Bool := pathQuirkAux prevEnd 0 toks

/-- What the implementation makes of the text of a token list: the lexer decides which
`and` is which, the tables refuse `( a . b . c`, otherwise the grammar applies. -/
def parseSurface (toks : List Tok) : Option Tree :=
  if pathQuirk false toks then none else parse (relex false toks)

end Dmn.Ref
