/-!
# Outcome of a modelled Rust computation

`ok` — the function returns; `panic site` — the Rust code would panic at `site` (slice
index out of bounds, `unwrap` on `None`, checked integer overflow, …); `diverge` — the
fuel of the model ran out (unbounded recursion through function values).
-/

namespace Dmn

inductive Outcome (α : Type) where
  | ok (a : α)
  | panic (site : String)
  | diverge
  deriving Repr, Inhabited

namespace Outcome

def map {α β : Type} (f : α → β) : Outcome α → Outcome β
  | .ok a => .ok (f a)
  | .panic s => .panic s
  | .diverge => .diverge

def bind {α β : Type} (o : Outcome α) (f : α → Outcome β) : Outcome β :=
  match o with
  | .ok a => f a
  | .panic s => .panic s
  | .diverge => .diverge

def isPanic {α : Type} : Outcome α → Bool
  | .panic _ => true
  | _ => false

end Outcome
end Dmn
