/-!
# The cycle check of `ModelEvaluator::new` as a graph traversal, with a cost model (C12)

`check_requirements` (`model-evaluator/src/model_evaluator.rs:54-106`) and `check_references`
(`model-evaluator/src/builders/item_definition.rs:74-97`) follow references through a map
`id ↦ required ids` and must answer "does some chain of references come back to an element".

* Before the repairs ba4278d / 5e48a41 both counted the length of the chain and gave up when it
  exceeded the number of elements (`chainOk`).  That is correct, and it terminates, but it walks
  every *path* of the graph: on a diamond-shaped graph (layers of two elements that both require both
  elements of the next layer) the number of calls doubles with every layer (`chainVisits`).
* Since the repairs both are a depth-first search with two sets: `chain` (the elements on the
  current chain: meeting one again is the error) and `checked` (the elements whose requirements were
  followed to their ends: they are not followed again) — `dfs`.  Every element is expanded at most
  once (`expansions` counts the calls that get past the two tests).

The graph is abstract here: `succ id = none` when `id` has no entry in the map
(`requirements.get(id)` is `None`), `some rs` otherwise.  `Dmn.MB` (C12) and `Dmn.Drg` (C04)
instantiate it.  The recursion of the Rust code is bounded by the size of `chain`; here it is structural
on `fuel`, and `Dmn.ReqDfs.dfs_fuel` (Lemmas) shows that the number of elements is enough fuel.
-/

namespace Dmn.ReqDfs

variable {ν : Type} [DecidableEq ν]

/-- The check before the repair: `check_chain(id, requirements, length)` with `budget` = the number of
further elements the chain may still visit (`length > requirements.len()` is `budget = 0`). -/
def chainOk (succ : ν → Option (List ν)) : Nat → ν → Bool
  | budget, id =>
    match succ id with
    | none => true
    | some rs =>
      match budget with
      | 0 => false
      | b + 1 => rs.all (chainOk succ b)

/-- Cost model of the check before the repair: the number of calls of `check_chain` below (and
including) the call for `id`, when no call returns the error (on a graph that passes the check no
call is cut short by `?`). -/
def chainVisits (succ : ν → Option (List ν)) : Nat → ν → Nat
  | budget, id =>
    match succ id with
    | none => 1
    | some rs =>
      match budget with
      | 0 => 1
      | b + 1 => 1 + (rs.map (chainVisits succ b)).sum

/-- `requirements.keys().try_for_each(|id| check_chain(id, &requirements, 1))`: all calls. -/
def checkVisits (succ : ν → Option (List ν)) (keys : List ν) (n : Nat) : Nat :=
  (keys.map (chainVisits succ n)).sum

/-- The two sets of the repaired check and the cost counter. -/
structure St (ν : Type) where
  /-- `chain: &mut HashSet<&str>` -/
  chain : List ν
  /-- `checked: &mut HashSet<&str>` -/
  checked : List ν
  /-- calls that got past `checked.contains(id)` and `chain.insert(id)` -/
  expansions : Nat
  deriving Repr

/-- `for required_id in required { check_chain(required_id, …)? }`: the state is threaded, the first
error ends the loop (and leaves the sets as they are: `chain.remove` is not reached).  `none` = out of fuel. -/
def foldReq (step : ν → St ν → Option (Bool × St ν)) : List ν → St ν → Option (Bool × St ν)
  | [], s => some (true, s)
  | r :: rs, s =>
    match step r s with
    | none => none
    | some (false, s') => some (false, s')
    | some (true, s') => foldReq step rs s'

/-- The repaired `check_chain` (`model_evaluator.rs:88-103`):
```
if let Some(required) = requirements.get(id) {
  if checked.contains(id) { return Ok(()); }
  if !chain.insert(id) { return Err(err_cyclic_requirements(id)); }
  for required_id in required { check_chain(required_id, requirements, chain, checked)?; }
  chain.remove(id);
  checked.insert(id);
}
Ok(())
```
`true` = `Ok(())`, `false` = the error. -/
def dfs (succ : ν → Option (List ν)) : Nat → ν → St ν → Option (Bool × St ν)
  | fuel, id, s =>
    match succ id with
    | none => some (true, s)
    | some rs =>
      if id ∈ s.checked then some (true, s)
      else if id ∈ s.chain then some (false, s)
      else
        match fuel with
        | 0 => none
        | f + 1 =>
          match foldReq (dfs succ f) rs { s with chain := id :: s.chain, expansions := s.expansions + 1 } with
          | none => none
          | some (false, s') => some (false, s')
          | some (true, s') => some (true, { s' with chain := s'.chain.erase id, checked := id :: s'.checked })

/-- `let mut checked = HashSet::new(); requirements.keys().try_for_each(|id| check_chain(id, &requirements,
&mut HashSet::new(), &mut checked))`: a fresh `chain` for every key, one `checked` for all. -/
def checkAll (succ : ν → Option (List ν)) (fuel : Nat) (keys : List ν) : Option (Bool × St ν) :=
  foldReq (fun id s => dfs succ fuel id { s with chain := [] }) keys ⟨[], [], 0⟩

/-- The answer of the repaired check with the number of keys as fuel (enough: `dfsCheck_eq`);
running out of fuel would be the stack overflow of the implementation and counts as "not ok". -/
def dfsCheck (succ : ν → Option (List ν)) (keys : List ν) : Bool :=
  match checkAll succ keys.length keys with
  | some (b, _) => b
  | none => false

/-- The cost of the repaired check: the number of expansions (0 when out of fuel, which does not happen). -/
def dfsExpansions (succ : ν → Option (List ν)) (keys : List ν) : Nat :=
  match checkAll succ keys.length keys with
  | some (_, s) => s.expansions
  | none => 0

/-! ## The diamond family (the generator `gen_diamond_decisions` of `harness/src/c12.rs`) -/

/-- `layers` layers of two elements `2l`, `2l+1`; both require both elements of the next layer. -/
def diamond (layers : Nat) : Nat → Option (List Nat) := fun id =>
  if id < 2 * layers then
    (if id / 2 + 1 < layers then some [2 * (id / 2 + 1), 2 * (id / 2 + 1) + 1] else some [])
  else none

def diamondKeys (layers : Nat) : List Nat := List.range (2 * layers)

end Dmn.ReqDfs
