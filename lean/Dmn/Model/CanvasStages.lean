import Dmn.Model.Canvas

/-!
# The stages of the scanner on the drawing of a table

`scanText` (Model/Canvas.lean) cut into the stages of `canvas.rs`, with a written-out expectation
for what each stage yields on the drawing `draw d L t` of a table, in the pixel coordinates of
the sheet (`Sheet.xPos` / `Sheet.yPos`: the positions of the boundary columns / rows):

1. **content**: text → canvas content (`buildContent`): the drawing itself in the text layer
   (`canvasOf`).  Proved for every table and layout (`canvas_content_of_draw`, Props/C19.lean).
2. **marks** (`scanMarks`): the information item name, the double crossings and the body
   rectangle = `expectedMarks` (the crossing at the meeting of the double lines, the second
   crossing where the annotation double line meets it, the body = the whole sheet).
3. **regions** (`scanLayers`, `recognizeRegions`): the thin / body / grid layers are computed
   and the regions found in the thin layer are `expectedRegions`: the information item box, then
   ONE RECTANGLE PER CELL of the sheet (merged cells: one per region) in reading order.
4. **plane** (`planeWith`): the rows of cells built from the grid layer and the regions are the
   plane the drawing denotes (`planeDrawn`).

`stageMarks`, `stageRegions`, `stagePlane` are decidable; the driver evaluates them for every
generated table.  `scanInvertsDraw_of_stages` (Lemmas/CanvasStages.lean): they imply
`scanInvertsDraw`.
-/

namespace Dmn.Recog
open Scan (ok error)

/-! ## Stage 1: the canvas of a drawing -/

/-- the position a character of the text occupies in the canvas: the text layer holds the
character, the other layers a blank -/
def textPx (ch : Char) : Px := ⟨ch, charWhite, charWhite, charWhite⟩

/-- the rows of the canvas that hold the given lines -/
def rowsOf (ls : List Text) : Content := (ls.map (fun l => (l.map textPx).toArray)).toArray

/-- the running maximum of `scan`: `if count > width { width = count }` -/
def maxLenFrom (w : Nat) (ls : List Text) : Nat :=
  ls.foldl (fun m l => if l.length > m then l.length else m) w

/-- the width of the canvas: the length of the longest line -/
def maxLen (lines : List Text) : Nat := maxLenFrom 0 lines

/-- The canvas content of a drawing: the lines in the text layer (blank in the other layers),
each completed with `CHAR_OUTER` to the length of the longest, followed by one row of
`CHAR_OUTER`. -/
def canvasOf (lines : List Text) : Content :=
  ((rowsOf lines).push #[]).map fun row =>
    row ++ Array.replicate (maxLen lines - row.size) (Px.fill charOuter)

/-! ## The stages after the content -/

/-- what `scan` finds in the text layer before it computes the other layers -/
structure Marks where
  name : Option Text
  cross : Point
  crossHorz : Option Point
  crossVert : Option Point
  bodyRect : Rect
  deriving DecidableEq, Repr, Inhabited

/-- canvas.rs:662-666: information item name, crossings, body rectangle -/
def scanMarks (c : Content) : Scan Marks := do
  let name ← recognizeInformationItemName c
  let (cross, crossHorz, crossVert) ← recognizeCrossings c
  let bodyRect ← recognizeBodyRect c
  ok ⟨name, cross, crossHorz, crossVert, bodyRect⟩

/-- canvas.rs:667-669: the thin, body and grid layers -/
def scanLayers (c : Content) (bodyRect : Rect) : Scan Content := do
  let c := prepareRegions c .text .thin
  let c ← removeInformationItemRegion c bodyRect .thin .body
  makeGrid c bodyRect .body .grid

def Marks.canvas (m : Marks) (c : Content) : Canvas :=
  ⟨c, some m.cross, m.crossHorz, m.crossVert, m.name, some m.bodyRect⟩

/-- `Canvas::plane` after `recognize_regions` -/
def planeWith (cv : Canvas) (regions : List Rect) : Scan (List (List SCell)) := do
  let st ← Scan.forRange (planeRow cv regions) cv.content.size 0 ⟨#[#[]], 0, 0, none, none⟩
  let rows ← finalizePlane st.rows
  ok (rows.toList.map Array.toList)

/-- the scanner from the canvas content on -/
def scanFromContent (c : Content) : Scan Scanned := do
  let m ← scanMarks c
  let c' ← scanLayers c m.bodyRect
  let regions ← recognizeRegions c'
  let rows ← planeWith (m.canvas c') regions
  ok ⟨m.name, rows⟩

/-! ## The sheet in pixel coordinates -/

namespace Sheet

/-- x position of boundary column `bc` in the rendered sheet -/
def xPos (s : Sheet) (bc : Nat) : Nat := ((List.range bc).map (fun c => s.w c + 1)).sum

/-- y position of boundary row `br` in the rendered sheet -/
def yPos (s : Sheet) (br : Nat) : Nat := ((List.range br).map (fun r => s.h r + 1)).sum

/-- the rectangle (canvas.rs convention: right / bottom exclusive, borders included) of the
region of key `k`, the sheet drawn `o` lines below the top of the canvas -/
def regionRect (s : Sheet) (o : Nat) (k : Key) : Rect :=
  match s.locate k with
  | none => ⟨0, 0, 0, 0⟩
  | some (r, c) =>
    let c1 := s.lastCol r s.ncols c
    let r1 := s.lastRow c s.nrows r
    ⟨s.xPos c, o + s.yPos r, s.xPos (c1 + 1) + 1, o + s.yPos (r1 + 1) + 1⟩

end Sheet

/-- the number of lines of the drawing above the body: the information item box without its
bottom edge (which is the top border of the body) -/
def nameLines (t : TableSpec) : Nat :=
  match t.infoName with
  | none => 0
  | some name => 1 + (splitLines name).length

/-- What the scanner is expected to find in the text layer of the drawing of `t`: the name as
drawn; the crossing where the double lines meet; for a rules-as-rows table with annotations the
crossing of the annotation double line to the right of it, for a rules-as-columns table with
annotations the one below it; the body rectangle = the whole sheet. -/
def expectedMarks (d : Decor) (L : Layout) (t : TableSpec) : Marks :=
  let s := sheetOf d L t
  let o := nameLines t
  let H := t.headerRows
  let n := t.inputs.length
  let m := t.outputs.length
  let k := t.annotations.length
  let body : Rect := ⟨0, o, s.xPos s.ncols + 1, o + s.yPos s.nrows + 1⟩
  let name := t.infoName.map fun nm =>
    joinLines ((splitLines nm).map (padTo (L.boxRight - 1)))
  match t.orientation with
  | .ruleAsRow =>
    ⟨name, ⟨s.xPos (1 + n), o + s.yPos H⟩,
      if k = 0 then none else some ⟨s.xPos (1 + n + m), o + s.yPos H⟩, none, body⟩
  | _ =>
    ⟨name, ⟨s.xPos H, o + s.yPos n⟩, none,
      if k = 0 then none else some ⟨s.xPos H, o + s.yPos (n + m)⟩, body⟩

/-- The regions the scanner is expected to find in the thin layer: the information item box
(when there is a name), then one rectangle per region of the sheet, in reading order of their
top left corners. -/
def expectedRegions (d : Decor) (L : Layout) (t : TableSpec) : List Rect :=
  let s := sheetOf d L t
  let o := nameLines t
  (match t.infoName with
   | none => []
   | some _ => [⟨0, 0, L.boxRight + 1, o + 1⟩]) ++ s.keysInOrder.map (s.regionRect o)


/-! ## Legal drawings (decidable form; `Fits` of Lemmas/CanvasMarksG.lean) -/

/-- the box-drawing characters of the format, and `CHAR_OUTER` -/
def boxChars : List Char :=
  ['┌', '┐', '└', '┘', '┬', '┴', '├', '┤', '┼', '─', '│', '╥', '╤', '║', '╨', '╧', '═', '╞', '╟',
   '╡', '╢', '╫', '╪', '╬', '╠', '╣', '╦', '╩', '░']

/-- not a box-drawing character -/
def plain (ch : Char) : Bool := !boxChars.contains ch

def plainText (t : Text) : Bool := t.all plain
def plainTexts (ts : List Text) : Bool := ts.all plainText

/-- The drawing of the table is a legal one (decidable): no text of the table or of the
decoration contains a box-drawing character or `░`; the name contains none either, the information
item box has an interior, is not wider than the body and its right edge does not stand over a
double line. -/
def fitsB (d : Decor) (L : Layout) (t : TableSpec) : Bool :=
  let s := sheetOf d L t
  plainText d.hp && plainText d.hpBlank && plainText t.labelText && plainTexts t.exprs &&
  plainTexts t.names && plainTexts (t.ivals d) && plainTexts (t.ovals d) &&
  plainTexts t.annotations && plainTexts d.annBlanks && plainTexts d.ruleNos &&
  plainTexts (t.rules.flatMap (·.ins)) && plainTexts (t.rules.flatMap (·.outs)) &&
  plainTexts (t.rules.flatMap (·.anns)) &&
  (match t.infoName with
   | none => true
   | some nm => plainText nm && decide (2 ≤ L.boxRight) && decide (L.boxRight ≤ s.xPos s.ncols) &&
      (List.range (s.ncols + 1)).all (fun bc => !s.vDbl bc || L.boxRight != s.xPos bc)) &&
  decide (0 < s.nrows) && decide (0 < s.ncols)

/-! ## The stage predicates (decidable; evaluated by the driver for every generated table) -/

/-- stage 2: the marks are found where the sheet has them -/
def stageMarks (d : Decor) (L : Layout) (t : TableSpec) : Bool :=
  scanMarks (canvasOf (draw d L t)) == ok (expectedMarks d L t)

/-- stage 3: the layers are computed and the regions of the thin layer are the information item
box and one rectangle per cell of the sheet -/
def stageRegions (d : Decor) (L : Layout) (t : TableSpec) : Bool :=
  match scanLayers (canvasOf (draw d L t)) (expectedMarks d L t).bodyRect with
  | .ok c' => recognizeRegions c' == ok (expectedRegions d L t)
  | _ => false

/-- stage 4: the cells built from the grid layer and these regions are the plane the drawing
denotes -/
def stagePlane (d : Decor) (L : Layout) (t : TableSpec) : Bool :=
  let m := expectedMarks d L t
  match scanLayers (canvasOf (draw d L t)) m.bodyRect with
  | .ok c' =>
    match planeWith (m.canvas c') (expectedRegions d L t) with
    | .ok rows => (Scanned.mk m.name rows).toPlane == planeDrawn d t
    | _ => false
  | _ => false

/-- the stages of the scanner after the (proved) first one -/
def laterStages (d : Decor) (L : Layout) (t : TableSpec) : Bool :=
  stageMarks d L t && stageRegions d L t && stagePlane d L t

/-- the names of the stages that fail (for the driver) -/
def failingStages (d : Decor) (L : Layout) (t : TableSpec) : List String :=
  (if stageMarks d L t then [] else ["marks"]) ++
  (if stageRegions d L t then [] else ["regions"]) ++
  (if stagePlane d L t then [] else ["plane"])

end Dmn.Recog
