/-!
# FEEL types: model of `feel/src/types.rs`

`equiv` mirrors `FeelType::is_equivalent`, `conf` mirrors
`FeelType::is_conformant` (`self` is the first argument, `other` the second).
Context types are `BTreeMap<Name, FeelType>` in the code: here an association
list whose keys are pairwise distinct (`FType.WF`, a separate predicate).
-/

namespace Dmn

inductive FType where
  | any | boolean | date | dateTime | dtDur | null | number | string | time | ymDur
  | list (t : FType)
  | range (t : FType)
  | ctx (es : List (String × FType))
  | fn (ps : List FType) (r : FType)
  deriving Repr, Inhabited

namespace FType

/-- `BTreeMap::get`. -/
def lookup (es : List (String × FType)) (k : String) : Option FType :=
  match es with
  | [] => none
  | (k', t) :: es => if k' = k then some t else lookup es k

theorem lookup_sizeOf {es : List (String × FType)} {k : String} {t : FType}
    (h : lookup es k = some t) : sizeOf t < sizeOf es := by
  induction es with
  | nil => simp [lookup] at h
  | cons e es ih =>
    obtain ⟨k', t'⟩ := e
    simp only [lookup] at h
    split at h
    · cases h; simp; omega
    · have := ih h; simp; omega

mutual
/-- `self.is_equivalent(other)`; `a` is `self`. -/
def equiv (a : FType) (b : FType) : Bool :=
  match a, b with
  | .any, .any | .boolean, .boolean | .date, .date | .dateTime, .dateTime | .dtDur, .dtDur
  | .null, .null | .number, .number | .string, .string | .time, .time | .ymDur, .ymDur => true
  | .list a, .list b => equiv a b
  | .range a, .range b => equiv a b
  | .ctx es, .ctx fs => es.length == fs.length && equivEntries es fs
  | .fn ps r, .fn qs s => ps.length == qs.length && (equivParams ps qs && equiv r s)
  | _, _ => false
termination_by structural a
/-- The loop over `entries_self`, each name looked up in `entries_other`. -/
def equivEntries (es : List (String × FType)) (fs : List (String × FType)) : Bool :=
  match es with
  | [] => true
  | (k, t) :: es =>
    match lookup fs k with
    | some u => equiv t u && equivEntries es fs
    | none => false
termination_by structural es
/-- The loop over `params_self` with `params_other[i]` (lengths are equal when it runs). -/
def equivParams (ps : List FType) (qs : List FType) : Bool :=
  match ps, qs with
  | [], _ => true
  | _ :: _, [] => true
  | p :: ps, q :: qs => equiv p q && equivParams ps qs
termination_by structural ps
end

mutual
/-- `self.is_conformant(other)`; `a` is `self`. -/
def conf (a : FType) (b : FType) : Bool :=
  if equiv a b then true else
  match a, b with
  | .null, _ => true
  | _, .any => true
  | .list ta, .list tb => conf ta tb
  | .range ta, .range tb => conf ta tb
  | .ctx ea, .ctx eb => confEntries ea eb
  | .fn pa ra, .fn pb rb => pa.length == pb.length && (confParams pa pb && conf ra rb)
  | _, _ => false
termination_by sizeOf a + sizeOf b
decreasing_by all_goals (simp_wf; omega)
/-- The loop over `entries_other`, each name looked up in `entries_self`. -/
def confEntries (ea : List (String × FType)) (eb : List (String × FType)) : Bool :=
  match eb with
  | [] => true
  | (k, tb) :: eb =>
    match _h : lookup ea k with
    | some ta => conf ta tb && confEntries ea eb
    | none => false
termination_by sizeOf ea + sizeOf eb
decreasing_by
  · have := lookup_sizeOf _h; simp_wf; omega
  · simp_wf; omega
/-- The loop over `parameters_other`: `parameter_other.is_conformant(&parameters_self[i])`. -/
def confParams (pa : List FType) (pb : List FType) : Bool :=
  match pa, pb with
  | [], _ => true
  | _ :: _, [] => true
  | p :: pa, q :: pb => conf q p && confParams pa pb
termination_by sizeOf pa + sizeOf pb
decreasing_by all_goals (simp_wf; omega)
end

-- Structural equality (`PartialEq` is derived on `FeelType`).
mutual
def beq (a b : FType) : Bool :=
  match a, b with
  | .any, .any | .boolean, .boolean | .date, .date | .dateTime, .dateTime | .dtDur, .dtDur
  | .null, .null | .number, .number | .string, .string | .time, .time | .ymDur, .ymDur => true
  | .list a, .list b => beq a b
  | .range a, .range b => beq a b
  | .ctx es, .ctx fs => beqEntries es fs
  | .fn ps r, .fn qs s => beqList ps qs && beq r s
  | _, _ => false
termination_by structural a
def beqEntries (es fs : List (String × FType)) : Bool :=
  match es, fs with
  | [], [] => true
  | (k, t) :: es, (k', u) :: fs => k == k' && beq t u && beqEntries es fs
  | _, _ => false
termination_by structural es
def beqList (ps qs : List FType) : Bool :=
  match ps, qs with
  | [], [] => true
  | p :: ps, q :: qs => beq p q && beqList ps qs
  | _, _ => false
termination_by structural ps
end

-- Keys of every context type are pairwise distinct (the `BTreeMap` invariant).
mutual
def WF : FType → Prop
  | .list t => WF t
  | .range t => WF t
  | .ctx es => (es.map Prod.fst).Nodup ∧ WFEntries es
  | .fn ps r => WFList ps ∧ WF r
  | _ => True
def WFEntries : List (String × FType) → Prop
  | [] => True
  | (_, t) :: es => WF t ∧ WFEntries es
def WFList : List FType → Prop
  | [] => True
  | t :: ts => WF t ∧ WFList ts
end

end FType
end Dmn
