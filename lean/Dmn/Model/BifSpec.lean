import Dmn.Model.BifTable

/-!
# What the built-in functions are specified to return (DMN 1.3, 10.3.4)

Written from the specification text, independently of `core.rs`: positions count from 1,
negative positions from the end, `null` outside the domain.  Where the text is silent the
choice is stated next to the definition.  `Spec.apply name args` is the value of the FEEL
invocation `name(args…)`; `none` = no specification written here (other families, regular
expressions with metacharacters, number / temporal printing).

Numbers: the specification is about values, not representations — a position may be written
`2`, `2.0` or `20E-1`.
-/

namespace Dmn
namespace Spec

open Bif (Signature)

/-- Parameter names of the built-in functions in the order of the specification's tables
(10.3.4.1 – 10.3.4.10); `required` = how many of them are mandatory.  Functions with a
variable number of parameters (`append`, `concatenate`, `union`) have no named form. -/
def signatures : List Signature := [
  -- conversion
  ⟨"date", ["from"], 1⟩, ⟨"date", ["year", "month", "day"], 3⟩,
  ⟨"date and time", ["from"], 1⟩, ⟨"date and time", ["date", "time"], 2⟩,
  ⟨"time", ["from"], 1⟩, ⟨"time", ["hour", "minute", "second", "offset"], 3⟩,
  ⟨"number", ["from", "grouping separator", "decimal separator"], 3⟩,
  ⟨"string", ["from"], 1⟩,
  ⟨"duration", ["from"], 1⟩,
  ⟨"years and months duration", ["from", "to"], 2⟩,
  -- boolean
  ⟨"not", ["negand"], 1⟩,
  -- string
  ⟨"substring", ["string", "start position", "length"], 2⟩,
  ⟨"string length", ["string"], 1⟩,
  ⟨"upper case", ["string"], 1⟩,
  ⟨"lower case", ["string"], 1⟩,
  ⟨"substring before", ["string", "match"], 2⟩,
  ⟨"substring after", ["string", "match"], 2⟩,
  ⟨"replace", ["input", "pattern", "replacement", "flags"], 3⟩,
  ⟨"contains", ["string", "match"], 2⟩,
  ⟨"starts with", ["string", "match"], 2⟩,
  ⟨"ends with", ["string", "match"], 2⟩,
  ⟨"matches", ["input", "pattern", "flags"], 2⟩,
  ⟨"split", ["string", "delimiter"], 2⟩,
  -- list
  ⟨"list contains", ["list", "element"], 2⟩,
  ⟨"count", ["list"], 1⟩,
  ⟨"min", ["list"], 1⟩,
  ⟨"max", ["list"], 1⟩,
  ⟨"sum", ["list"], 1⟩,
  ⟨"mean", ["list"], 1⟩,
  ⟨"all", ["list"], 1⟩,
  ⟨"any", ["list"], 1⟩,
  ⟨"sublist", ["list", "start position", "length"], 2⟩,
  ⟨"insert before", ["list", "position", "newItem"], 3⟩,
  ⟨"remove", ["list", "position"], 2⟩,
  ⟨"reverse", ["list"], 1⟩,
  ⟨"index of", ["list", "match"], 2⟩,
  ⟨"distinct values", ["list"], 1⟩,
  ⟨"flatten", ["list"], 1⟩,
  ⟨"product", ["list"], 1⟩,
  ⟨"median", ["list"], 1⟩,
  ⟨"stddev", ["list"], 1⟩,
  ⟨"mode", ["list"], 1⟩,
  ⟨"sort", ["list", "precedes"], 2⟩,
  -- numeric
  ⟨"decimal", ["n", "scale"], 2⟩,
  ⟨"floor", ["n"], 1⟩,
  ⟨"ceiling", ["n"], 1⟩,
  ⟨"abs", ["n"], 1⟩,
  ⟨"modulo", ["dividend", "divisor"], 2⟩,
  ⟨"sqrt", ["number"], 1⟩,
  ⟨"log", ["number"], 1⟩,
  ⟨"exp", ["number"], 1⟩,
  ⟨"odd", ["number"], 1⟩,
  ⟨"even", ["number"], 1⟩,
  -- context
  ⟨"get value", ["m", "key"], 2⟩,
  ⟨"get entries", ["m"], 1⟩
]

/-! ## positions -/

/-- The zero-based index a FEEL position denotes in a sequence of `len` elements:
`1 … len` from the start, `-1 … -len` from the end; nothing else is a position. -/
def startIndex (len : Nat) (p : Int) : Option Nat :=
  if 1 ≤ p ∧ p ≤ (len : Int) then some (p - 1).toNat
  else if -(len : Int) ≤ p ∧ p ≤ -1 then some ((len : Int) + p).toNat
  else none

/-- `substring(string, start position, length?)`: `length` (or all) characters starting at
the position.  The text does not say what happens when fewer than `length` characters
remain; the repository's own tests (`core.rs:1362`, `substring("homeless", 1, 9)` is null)
pin null, and so does this definition.  A length below 1 is outside the domain. -/
def substringChars (cs : List Char) (p : Int) (n : Option Nat) : Option (List Char) :=
  match startIndex cs.length p, n with
  | some st, none => some (cs.drop st)
  | some st, some k => if 1 ≤ k ∧ st + k ≤ cs.length then some ((cs.drop st).take k) else none
  | none, _ => none

/-- `sublist(list, start position, length?)` (same convention; a length of 0 gives `[]`). -/
def sublistAt {α : Type} (xs : List α) (p : Int) (n : Option Nat) : Option (List α) :=
  match startIndex xs.length p, n with
  | some st, none => some (xs.drop st)
  | some st, some k => if st + k ≤ xs.length then some ((xs.drop st).take k) else none
  | none, _ => none

/-- `insert before(list, position, newItem)` -/
def insertBeforeAt {α : Type} (xs : List α) (p : Int) (x : α) : Option (List α) :=
  (startIndex xs.length p).map (fun i => xs.take i ++ [x] ++ xs.drop i)

/-- `remove(list, position)` -/
def removeAt {α : Type} (xs : List α) (p : Int) : Option (List α) :=
  (startIndex xs.length p).map (fun i => xs.take i ++ xs.drop (i + 1))

/-! ## strings -/

/-- the positions at which `pat` occurs in `cs` -/
def occursAt (pat cs : List Char) (i : Nat) : Bool := pat.isPrefixOf (cs.drop i)

def containsChars (pat cs : List Char) : Bool := (List.range (cs.length + 1)).any (occursAt pat cs)

def firstOccurrence (pat cs : List Char) : Option Nat := (List.range (cs.length + 1)).find? (occursAt pat cs)

def substringBeforeChars (pat cs : List Char) : List Char :=
  match firstOccurrence pat cs with
  | some i => cs.take i
  | none => []

def substringAfterChars (pat cs : List Char) : List Char :=
  match firstOccurrence pat cs with
  | some i => cs.drop (i + pat.length)
  | none => []

/-! ## lists -/

def feq (a b : Value) : Bool := Bif.eqB a b

/-- `index of(list, match)`: ascending positions (from 1) of the items equal to `match` -/
def indexOf (xs : List Value) (e : Value) : List Nat :=
  xs.zipIdx.filterMap (fun p => if feq p.1 e then some (p.2 + 1) else none)

def isTrueV (v : Value) : Bool :=
  match v with
  | .bool true => true
  | _ => false

def isFalseV (v : Value) : Bool :=
  match v with
  | .bool false => true
  | _ => false

/-- `all(list)`: false if any item is false, else true if empty or all items are true, else null -/
def all3 (xs : List Value) : Value :=
  if xs.any isFalseV then .bool false
  else if xs.all isTrueV then .bool true
  else .null

/-- `any(list)`: true if any item is true, else false if empty or all items are false, else null -/
def any3 (xs : List Value) : Value :=
  if xs.any isTrueV then .bool true
  else if xs.all isFalseV then .bool false
  else .null

/-- removal of duplicates keeping first occurrences (w.r.t. FEEL equality) -/
def dedup (xs : List Value) : List Value :=
  xs.foldl (fun acc x => if acc.any (fun v => feq v x) then acc else acc ++ [x]) []

def itemsOfLists : List Value → Option (List Value)
  | [] => some []
  | .list xs :: rest => (itemsOfLists rest).map (xs ++ ·)
  | _ :: _ => none

def allNums : List Value → Option (List Dec)
  | [] => some []
  | .num d :: rest => (allNums rest).map (d :: ·)
  | _ :: _ => none

def allStrs : List Value → Option (List String)
  | [] => some []
  | .str s :: rest => (allStrs rest).map (s :: ·)
  | _ :: _ => none

/-- `min(list)` / `max(list)`: the least / greatest item of a non-empty list of numbers or of
strings; null otherwise (an item that is not comparable with the others, `null` included,
takes the list out of the domain). -/
def extremum (pickNum : Dec → Dec → Dec) (pickStr : String → String → String) (xs : List Value) : Value :=
  match allNums xs with
  | some (d :: ds) => .num (ds.foldl pickNum d)
  | some [] => .null
  | none =>
    match allStrs xs with
    | some (s :: ss) => .str (ss.foldl pickStr s)
    | _ => .null

def minV := extremum (fun a b => if Dec.cmp b a == .lt then b else a) (fun a b => if compare b a == .lt then b else a)
def maxV := extremum (fun a b => if Dec.cmp b a == .gt then b else a) (fun a b => if compare b a == .gt then b else a)

/-- `sum(list)` of a non-empty list of numbers -/
def sumV (xs : List Value) : Value :=
  match allNums xs with
  | some (d :: ds) => .num (ds.foldl Dec.addR d)
  | _ => .null

/-- `mean(list)` = total / count, the total accumulated from zero -/
def meanV (xs : List Value) : Value :=
  match allNums xs with
  | some (d :: ds) => .num (Dec.divR ((d :: ds).foldl Dec.addR Dec.zero) (Dec.ofNat xs.length))
  | _ => .null

/-- `median(list)`: the middle of the ascending list, the mean of the two middle items when
the count is even; null for the empty list -/
def medianV (xs : List Value) : Value :=
  match allNums xs with
  | some [] => .null
  | some ds =>
    let s := Bif.sortBy Dec.cmp ds
    let n := s.length
    if n % 2 == 1 then
      match s[n / 2]? with
      | some d => .num d
      | none => .null
    else
      match s[n / 2 - 1]?, s[n / 2]? with
      | some a, some b => .num (Dec.divR (Dec.addR a b) ⟨false, 2, 0⟩)
      | _, _ => .null
  | none => .null

/-- number of items of `ds` numerically equal to `d` -/
def freq (ds : List Dec) (d : Dec) : Nat := (ds.filter (fun x => Dec.cmp x d == .eq)).length

/-- `mode(list)`: the most frequent numbers, ascending; `[]` for the empty list -/
def modeV (xs : List Value) : Value :=
  match allNums xs with
  | some ds =>
    let s := Bif.sortBy Dec.cmp ds
    let best := (s.map (freq s)).foldl max 0
    -- first representative of every run of equal numbers whose frequency is maximal
    let firsts := (List.range s.length).filterMap (fun i =>
      match s[i]? with
      | some d =>
        let isFirst := match i with
          | 0 => true
          | j + 1 => match s[j]? with
            | some e => Dec.cmp e d != .eq
            | none => true
        if isFirst && freq s d == best then some (Value.num d) else none
      | none => none)
    .list firsts
  | none => .null

/-! ### `mode`, declaratively (theorems `core_mode_spec`, `mode_ascending`, `mem_mode_iff`,
`mode_unique` of `Props/C08.lean`)

Numbers are compared as `FeelNumber == FeelNumber` compares them, by value: `1`, `1.0` and
`1.00` are one value.  A value that occurs in several spellings is shown in the spelling of its
first occurrence in the argument list (the specification is silent; the choice is the code's,
whose sort is stable). -/

/-- numeric equality (`1.0 = 1`) -/
def numEq (a b : Dec) : Bool := Dec.cmp a b == .eq

/-- the number of items of `ds` that have the value of `d` -/
def occurrences (ds : List Dec) (d : Dec) : Nat := ds.countP (fun x => numEq x d)

/-- the distinct values of `ds`, each in the spelling of its first occurrence -/
def firstSpellings : List Dec → List Dec
  | [] => []
  | d :: ds => d :: (firstSpellings ds).filter (fun x => !numEq x d)

/-- no value of `ds` occurs more often than `d` -/
def occursMost (ds : List Dec) (d : Dec) : Bool :=
  ds.all (fun e => decide (occurrences ds e ≤ occurrences ds d))

/-- `mode(list)` of a list of numbers: the values whose number of occurrences is maximal,
without repetition, in ascending order (`[]` for the empty list).  "Ascending" is computed by an
insertion sort here; `mode_ascending` / `mem_mode_iff` / `mode_unique` say that the result is
THE strictly ascending list whose members are the most frequent values. -/
def mode (ds : List Dec) : List Dec :=
  Bif.sortBy Dec.cmp ((firstSpellings ds).filter (occursMost ds))

/-- `mode` on argument values: null when an item is not a number -/
def modeSpecV (xs : List Value) : Value :=
  match allNums xs with
  | some ds => .list ((mode ds).map .num)
  | none => .null

/-! ### `stddev`: the sample standard deviation `sqrt( Σ (xᵢ − mean)² / (n − 1) )` over the
rounded operations of `FeelNumber` (every operation rounds to 34 digits, half-even, and
reduces), sums taken from the left starting at zero; null for fewer than two items or an item
that is not a number. -/

/-- `Σ` with the rounded addition, from the left, starting at 0 -/
def sumR (ds : List Dec) : Dec := ds.foldl Dec.addR Dec.zero

/-- `x²` with the rounded multiplication -/
def squareR (x : Dec) : Dec := Dec.mulR x x

/-- `mean` = `Σ xᵢ / n` -/
def meanR (ds : List Dec) : Dec := Dec.divR (sumR ds) (Dec.ofNat ds.length)

/-- `sqrt( Σ (xᵢ − mean)² / (n − 1) )` -/
def stddev (ds : List Dec) : Dec :=
  let mean := meanR ds
  Dec.sqrtR (Dec.divR (sumR (ds.map (fun x => squareR (Dec.subR x mean)))) (Dec.subR (Dec.ofNat ds.length) Dec.one))

def stddevV (xs : List Value) : Value :=
  if xs.length < 2 then .null
  else
    match allNums xs with
    | some ds => .num (stddev ds)
    | none => .null

/-! ### `sort(list, precedes)`: the stable arrangement

`stableArrangement lt xs` inserts the items one after the other, each one behind all items
placed before it except those it precedes at the end — the procedure `sort_law` of
`harness/src/c08.rs` runs on the implementation's own answers.  `core_sort_stable_spec` proves
that the merge sort of `core::sort` returns this list whenever `lt` is a strict weak order on
the items. -/

/-- neither precedes the other: the two items have the same rank -/
def sameRank {α : Type} (lt : α → α → Bool) (a b : α) : Bool := !lt a b && !lt b a

/-- `lt` is a strict weak order on the items of `xs` (the four conditions `sort_law` tests on the
table of the implementation's answers `f(i, j)`); nothing is asked of `lt` elsewhere. -/
structure StrictWeakOrderOn {α : Type} (lt : α → α → Bool) (xs : List α) : Prop where
  irrefl : ∀ a ∈ xs, lt a a = false
  asymm : ∀ a ∈ xs, ∀ b ∈ xs, lt a b = true → lt b a = false
  trans : ∀ a ∈ xs, ∀ b ∈ xs, ∀ c ∈ xs, lt a b = true → lt b c = true → lt a c = true
  sameRank_trans : ∀ a ∈ xs, ∀ b ∈ xs, ∀ c ∈ xs, sameRank lt a b = true → sameRank lt b c = true → sameRank lt a c = true

/-- `r` is a stable arrangement of `xs` in the order `lt`: the same items, no item precedes an
earlier one, and the items of every rank keep the order they have in `xs`. -/
def StableSortOf {α : Type} (lt : α → α → Bool) (xs r : List α) : Prop :=
  r.Perm xs ∧ r.Pairwise (fun a b => lt b a = false) ∧
    ∀ a ∈ xs, r.filter (sameRank lt a) = xs.filter (sameRank lt a)

/-- `x` goes behind `placed`, moving left past the items it precedes (`placed` is kept reversed:
its head is the last item) -/
def placeRev {α : Type} (lt : α → α → Bool) (x : α) : List α → List α
  | [] => [x]
  | y :: ys => if lt x y then y :: placeRev lt x ys else x :: y :: ys

def stableArrangement {α : Type} (lt : α → α → Bool) (xs : List α) : List α :=
  (xs.foldl (fun placed x => placeRev lt x placed) []).reverse

/-- `flatten(list)` is characterised by the equations proved in `Props/C08.lean`
(`flatten_no_lists`, `flatten_of_flat`, `flatten_append`, `flatten_nested`); the executable
form is the obvious recursion. -/
def flattenV (xs : List Value) : List Value := Bif.flattenItems xs

/-! ## conversions -/

/-- a FEEL numeric literal with an optional sign: `-? (digits (. digits)? | . digits)` -/
def parseFeelNumber (cs : List Char) : Option Dec :=
  let (neg, cs) := match cs with
    | '-' :: r => (true, r)
    | r => (false, r)
  let ip := cs.takeWhile Bif.isDigitC
  match cs.dropWhile Bif.isDigitC with
  | [] => if ip.isEmpty then none else some (Dec.round34 neg (Bif.digitsVal ip) 0)
  | '.' :: fp =>
    if !fp.isEmpty && fp.all Bif.isDigitC then some (Dec.round34 neg (Bif.digitsVal (ip ++ fp)) (-(fp.length : Int)))
    else none
  | _ :: _ => none

/-- `number(from, grouping separator, decimal separator)`: remove the grouping separator,
write the decimal separator as a period, read the result as a FEEL number.  The separators
must be of the stated kinds and different. -/
def numberV (from_ grouping decimal : Value) : Value :=
  let sepOk (v : Value) (allowed : List String) : Option (Option String) :=
    match v with
    | .null => some none
    | .str s => if allowed.contains s then some (some s) else none
    | _ => none
  match from_, sepOk grouping [" ", ".", ","], sepOk decimal [".", ","] with
  | .str text, some g, some d =>
    if g.isSome && g == d then .null
    else
      let cs := text.toList
      let cs := match g with
        | some g => cs.filter (fun c => [c] != g.toList)
        | none => cs
      let cs := match d with
        | some d => cs.map (fun c => if [c] == d.toList then '.' else c)
        | none => cs
      match parseFeelNumber cs with
      | some n => .num n
      | none => .null
  | _, _, _ => .null

/-- `replace`, `matches`, `split` when the pattern is a literal (no metacharacters), the
replacement contains neither `$` nor `\` and no flags are given: plain text replacement of
the non-overlapping occurrences from the left / containment / splitting. -/
def plainReplacement (r : List Char) : Bool := r.all (fun c => c != '$' && c != '\\')

/-! ## the invocation level -/

def intOf (v : Value) : Option Int :=
  match v with
  | .num d => d.toInt?
  | _ => none

/-- a length argument of `sublist`: a non-negative integer (the text is silent on
fractions; the code rejects them and so does this definition) -/
def natOfInt (v : Value) : Option Nat :=
  match v with
  | .num d =>
    match d.toInt? with
    | some i => if 0 ≤ i then some i.toNat else none
    | none => none
  | _ => none

/-- a length argument of `substring`: a number, of which the integer part counts (the text
is silent on fractions; the code truncates and so does this definition) -/
def natOf (v : Value) : Option Nat :=
  match v with
  | .num d => if d.neg && d.coeff != 0 then none else
    match (Dec.trunc d).toInt? with
    | some i => some i.toNat
    | none => none
  | _ => none

def optV {α : Type} (f : α → Value) (o : Option α) : Value :=
  match o with
  | some a => f a
  | none => .null

def strV (cs : List Char) : Value := .str (String.ofList cs)

/-- A function declared with one list parameter may be invoked with several arguments, which
then are the list; a single argument that is not a list is a list of one item (10.3.2.9.4 /
10.3.4.4 `min(c1,…,cN)`). -/
def listArg (args : List Value) : Option (List Value) :=
  match args with
  | [] => none
  | [.list xs] => some xs
  | args => some args

/-! Every function below is total on argument lists: wrong arity or an argument outside the
domain gives null. -/

def substringV : List Value → Value
  | [.str s, p] => optV strV ((intOf p).bind (fun p => substringChars s.toList p none))
  | [.str s, p, .null] => optV strV ((intOf p).bind (fun p => substringChars s.toList p none))
  | [.str s, p, n] => optV strV ((intOf p).bind (fun p => (natOf n).bind (fun n => substringChars s.toList p (some n))))
  | _ => .null

def stringLengthV : List Value → Value
  | [.str s] => Bif.numOfNat s.toList.length
  | _ => .null

def containsV : List Value → Value
  | [.str s, .str m] => .bool (containsChars m.toList s.toList)
  | _ => .null

def startsWithV : List Value → Value
  | [.str s, .str m] => .bool (occursAt m.toList s.toList 0)
  | _ => .null

def endsWithV : List Value → Value
  | [.str s, .str m] =>
    .bool (m.toList.length ≤ s.toList.length && occursAt m.toList s.toList (s.toList.length - m.toList.length))
  | _ => .null

def substringBeforeV : List Value → Value
  | [.str s, .str m] => strV (substringBeforeChars m.toList s.toList)
  | _ => .null

def substringAfterV : List Value → Value
  | [.str s, .str m] => strV (substringAfterChars m.toList s.toList)
  | _ => .null

def countV : List Value → Value
  | [.list xs] => Bif.numOfNat xs.length
  | _ => .null

def sublistV : List Value → Value
  | [.list xs, p] => optV .list ((intOf p).bind (fun p => sublistAt xs p none))
  | [.list xs, p, n] => optV .list ((intOf p).bind (fun p => (natOfInt n).bind (fun n => sublistAt xs p (some n))))
  | _ => .null

def appendV : List Value → Value
  | .list xs :: item :: items => .list (xs ++ item :: items)
  | _ => .null

def concatenateV : List Value → Value
  | [] => .null
  | args => optV .list (itemsOfLists args)

def insertBeforeV : List Value → Value
  | [.list xs, p, x] => optV .list ((intOf p).bind (fun p => insertBeforeAt xs p x))
  | _ => .null

def removeV : List Value → Value
  | [.list xs, p] => optV .list ((intOf p).bind (fun p => removeAt xs p))
  | _ => .null

def reverseV : List Value → Value
  | [.list xs] => .list xs.reverse
  | _ => .null

def indexOfV : List Value → Value
  | [.list xs, e] => .list ((indexOf xs e).map Bif.numOfNat)
  | _ => .null

def unionV : List Value → Value
  | [] => .null
  | args => optV (fun xs => .list (dedup xs)) (itemsOfLists args)

def distinctValuesV : List Value → Value
  | [.list xs] => .list (dedup xs)
  | _ => .null

def flattenVV : List Value → Value
  | [.list xs] => .list (flattenV xs)
  | _ => .null

def listContainsV : List Value → Value
  | [.list xs, e] => .bool (xs.any (fun x => feq x e))
  | _ => .null

def getValueV : List Value → Value
  | [.ctx es, .str k] => (Ctx.get es k).getD .null
  | _ => .null

def getEntriesV : List Value → Value
  | [.ctx es] => .list (es.map (fun e => .ctx [("key", .str e.1), ("value", e.2)]))
  | _ => .null

def notV : List Value → Value
  | [.bool b] => .bool (!b)
  | _ => .null

def numberVV : List Value → Value
  | [a, b, c] => numberV a b c
  | _ => .null

/-- The specified value of `name(args…)`; `none`: not specified in this file. -/
def apply (name : String) (args : List Value) : Option Value :=
  match name with
  | "substring" => some (substringV args)
  | "string length" => some (stringLengthV args)
  | "contains" => some (containsV args)
  | "starts with" => some (startsWithV args)
  | "ends with" => some (endsWithV args)
  | "substring before" => some (substringBeforeV args)
  | "substring after" => some (substringAfterV args)
  | "count" => some (countV args)
  | "all" => some (optV all3 (listArg args))
  | "any" => some (optV any3 (listArg args))
  | "min" => some (optV minV (listArg args))
  | "max" => some (optV maxV (listArg args))
  | "sum" => some (optV sumV (listArg args))
  | "mean" => some (optV meanV (listArg args))
  | "median" => some (optV medianV (listArg args))
  | "mode" => some (optV modeV (listArg args))
  | "sublist" => some (sublistV args)
  | "append" => some (appendV args)
  | "concatenate" => some (concatenateV args)
  | "insert before" => some (insertBeforeV args)
  | "remove" => some (removeV args)
  | "reverse" => some (reverseV args)
  | "index of" => some (indexOfV args)
  | "union" => some (unionV args)
  | "distinct values" => some (distinctValuesV args)
  | "flatten" => some (flattenVV args)
  | "list contains" => some (listContainsV args)
  | "get value" => some (getValueV args)
  | "get entries" => some (getEntriesV args)
  | "not" => some (notV args)
  | "number" => some (numberVV args)
  | "replace" =>
    match args with
    | [.str s, .str p, .str r] =>
      if Bif.isLiteralPattern p.toList && plainReplacement r.toList then
        some (strV (Bif.replaceAllLit p.toList r.toList (s.toList.length + 1) s.toList))
      else none
    | _ => none
  | "matches" =>
    match args with
    | [.str s, .str p] =>
      if Bif.isLiteralPattern p.toList then some (.bool (containsChars p.toList s.toList)) else none
    | _ => none
  | "split" =>
    match args with
    | [.str s, .str d] =>
      if Bif.isLiteralPattern d.toList then
        some (.list ((Bif.splitLit d.toList (s.toList.length + 1) [] s.toList).map strV))
      else none
    | _ => none
  | "string" =>
    match args with
    | [.null] => some .null
    | [.str s] => some (.str s)
    | [.bool b] => some (.str (if b then "true" else "false"))
    | [_] => none
    | _ => some .null
  | _ => none

/-- The declarative specifications of the statistics functions (`mode`, `stddev`), to which
`core_mode_spec` / `core_stddev_spec` of `Props/C08.lean` prove the model equal; `none` for the
other functions.  Executed by `(c08 spec mode …)` / `(c08 spec stddev …)`. -/
def applyStats (name : String) (args : List Value) : Option Value :=
  match name with
  | "mode" => some (optV modeSpecV (listArg args))
  | "stddev" => some (optV stddevV (listArg args))
  | _ => none

end Spec
end Dmn
