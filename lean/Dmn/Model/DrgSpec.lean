import Dmn.Model.Drg

/-!
# What C04 prescribes for a requirement graph (the specification the model is compared with)

The same strict, requirement-by-requirement evaluation as `Dmn.Drg.graphStep`, with the two
places changed in which the code departs from the property:

* the logic of a decision sees every required decision's variable bound to **that decision's
  own value**: entries of the input data do not replace the values of required decisions,
  knowledge models or decision services.  Only inside a decision service are the service's
  *input decisions* parameters: their names (`sup`) are the only ones that may be replaced
  (by the values the caller of the service supplied);
* a knowledge model binds every required knowledge model **and decision service** to a
  function value (the code *evaluates* a decision service required by a knowledge model on the
  input data and binds the result).  Hence a knowledge model's closure reads no input data
  here (its registry has no input parameter).

Everything else is as in the code, including what is evaluated although its value is not
used: a decision service evaluates its input decisions on the input data (the values are then
replaced by the supplied ones); while it does so, the specification lets the input data
replace what the code lets them replace (the values are discarded).
-/

namespace Dmn.Drg.Spec

/-- The entries of `input` whose names are listed in `sup`. -/
def restrict (sup : List String) (input : Ctx) : Ctx :=
  input.filter (fun e => sup.contains e.1)

/-- The registries of the specification: decisions additionally receive the names that are
parameters of the enclosing decision service; knowledge models receive no input data. -/
structure SGraph where
  decision : String → List String → Ctx → Ctx → Outcome (Option String × Ctx)
  bkm : String → Ctx → Outcome Ctx
  service : String → Ctx → Ctx → Outcome (Option String × Ctx)

def callBkm (g : Drg) (prev : SGraph) (id : String) (c : Ctx) : Outcome Ctx :=
  match g.findBkm id with
  | some _ => prev.bkm id c
  | none => .ok c

def callDecision (g : Drg) (prev : SGraph) (id : String) (sup : List String) (input c : Ctx) :
    Outcome (Option String × Ctx) :=
  match g.findDecision id with
  | some _ => prev.decision id sup input c
  | none => .ok (none, c)

/-- One knowledge requirement of a knowledge model: the required knowledge model's function
values, or the required decision service as a function. -/
def bkmRequirement (g : Drg) (prev : SGraph) (id : String) (c : Ctx) : Outcome Ctx :=
  match callBkm g prev id c with
  | .ok c1 => .ok (g.serviceFns [id] c1)
  | .panic p => .panic p
  | .diverge => .diverge

def bkmClosure (g : Drg) (prev : SGraph) (b : Bkm) (out : Ctx) : Outcome Ctx :=
  match foldCtx (bkmRequirement g prev) b.reqKnowledge out with
  | .ok out1 => .ok (Ctx.set out1 b.var (.fn b.params b.body b.ty.ftype))
  | .panic p => .panic p
  | .diverge => .diverge

/-- The context the logic of decision `d` is evaluated in: the typed values of the required
inputs, then — shadowing them — the function values of the required knowledge `k1`, the
required decision services as functions, the values of the required decisions. -/
def decisionContext (g : Drg) (d : Decision) (sup : List String) (input k3 : Ctx) : Ctx :=
  -- only the parameters of the enclosing decision service replace required decisions
  let k4 := Ctx.overwrite k3 (restrict sup input)
  let inputs := g.typedInputs d.reqInputs input []
  Ctx.zip inputs k4

/-- the result of the logic, coerced to the type of the output variable -/
def coerceResult (t : FType) (o : Outcome (Value × Scope)) : Outcome Value :=
  match o with
  | .ok (v, _) => .ok (Value.coerced t v)
  | .panic p => .panic p
  | .diverge => .diverge

/-- The value of decision `d`: its logic evaluated in `decisionContext`, coerced to the type of
its output variable. -/
def decisionValue (g : Drg) (env : Env) (prev : SGraph) (d : Decision)
    (sup : List String) (input : Ctx) : Outcome Value :=
  match foldCtx (fun id c => callBkm g prev id c) d.reqKnowledge [] with
  | .ok k1 =>
    let k2 := g.serviceFns d.reqKnowledge k1
    match foldCtx (fun id c => dropName (callDecision g prev id sup input c)) d.reqDecisions k2 with
    | .ok k3 =>
      coerceResult d.ty.ftype (evalBoxed env d.logic [decisionContext g d sup input k3])
    | .panic p => .panic p
    | .diverge => .diverge
  | .panic p => .panic p
  | .diverge => .diverge

/-- storing a value under the output variable -/
def store (var : String) (o : Outcome Value) (out : Ctx) : Outcome (Option String × Ctx) :=
  match o with
  | .ok v => .ok (some var, Ctx.set out var v)
  | .panic p => .panic p
  | .diverge => .diverge

def decisionClosure (g : Drg) (env : Env) (prev : SGraph) (d : Decision)
    (sup : List String) (input out : Ctx) : Outcome (Option String × Ctx) :=
  store d.var (decisionValue g env prev d sup input) out

/-! ### what the names in `decisionContext` are bound to (a later requirement shadows an earlier one) -/

/-- a name among the required inputs: the supplied value, type-checked -/
def inputBinding (g : Drg) (input : Ctx) (n : String) : List String → Option Value
  | [] => none
  | id :: ids =>
    match inputBinding g input n ids with
    | some v => some v
    | none =>
      match g.findInput id with
      | some i => if i.name = n then some (i.ty.check i.name input) else none
      | none => none

/-- a name among the required decision services: the service as a function -/
def serviceBinding (g : Drg) (n : String) : List String → Option Value
  | [] => none
  | id :: ids =>
    match serviceBinding g n ids with
    | some v => some v
    | none =>
      match g.findService id with
      | some s => if s.var = n then some (g.serviceFn s) else none
      | none => none

/-- a name among the variables of the required decisions: that decision's own value -/
def decisionBinding (g : Drg) (env : Env) (prev : SGraph) (sup : List String) (input : Ctx) (n : String) :
    List String → Option Value
  | [] => none
  | id :: ids =>
    match decisionBinding g env prev sup input n ids with
    | some v => some v
    | none =>
      match g.findDecision id with
      | some d =>
        if d.var = n then
          match decisionValue g env prev d sup input with
          | .ok v => some v
          | _ => none
        else none
      | none => none

def serviceClosure (g : Drg) (prev : SGraph) (s : Service) (input out : Ctx) :
    Outcome (Option String × Ctx) :=
  -- the input decisions are evaluated as the code evaluates them; their values are replaced
  -- by the supplied ones (`serviceInputs`)
  match foldCtx (fun id c => dropName (callDecision g prev id (Ctx.keys input) input c)) s.inputDecisions [] with
  | .ok results =>
    let evaluatedInput := g.serviceInputs s results input
    let sup := (g.inputDecisionVars s).map Prod.fst
    match foldCtx (fun id c => dropName (callDecision g prev id sup evaluatedInput c)) s.encapsulated [] with
    | .ok c1 =>
      match outputLoop (fun id c => callDecision g prev id sup evaluatedInput c) s.output [] c1 with
      | .ok (names, c2) => .ok (some s.var, serviceResult s.ty.ftype names c2 s.var out)
      | .panic p => .panic p
      | .diverge => .diverge
    | .panic p => .panic p
    | .diverge => .diverge
  | .panic p => .panic p
  | .diverge => .diverge

def graphStep (g : Drg) (env : Env) (prev : SGraph) : SGraph where
  decision := fun id sup input out =>
    match g.findDecision id with
    | some d => decisionClosure g env prev d sup input out
    | none => .ok (none, out)
  bkm := fun id out =>
    match g.findBkm id with
    | some b => bkmClosure g prev b out
    | none => .ok out
  service := fun id input out =>
    match g.findService id with
    | some s => serviceClosure g prev s input out
    | none => .ok (none, out)

def divergeGraph : SGraph where
  decision := fun _ _ _ _ => .diverge
  bkm := fun _ _ => .diverge
  service := fun _ _ _ => .diverge

def graphAt (g : Drg) (env : Env) (bot : SGraph) : Nat → SGraph
  | 0 => graphStep g env bot
  | n + 1 => graphStep g env (graphAt g env bot n)

def serviceCall (gr : SGraph) (id : String) : EvalM Value := fun s =>
  serviceCallResult (gr.service id (Scope.peek s) []) s

def callBody (env : Env) (gr : SGraph) (body : Ast) : EvalM Value :=
  match serviceBody? body with
  | some id => serviceCall gr id
  | none => evalBoxed env body

structure SLevel where
  env : Env
  graph : Nat → SGraph

def level (base : Env) (g : Drg) (G : Nat) : Nat → SLevel
  | 0 =>
    let env : Env := { base with call := fun _ => EvalM.diverge }
    { env := env, graph := graphAt g env divergeGraph }
  | ff + 1 =>
    let p := level base g G ff
    let env : Env := { base with call := callBody p.env (p.graph G) }
    { env := env, graph := graphAt g env divergeGraph }

def evalDecision (base : Env) (g : Drg) (ff gf : Nat) (id : String) (input : Ctx) : Outcome Value :=
  namedResult (((level base g gf ff).graph gf).decision id [] input [])

def evalService (base : Env) (g : Drg) (ff gf : Nat) (id : String) (input : Ctx) : Outcome Value :=
  namedResult (((level base g gf ff).graph gf).service id input [])

/-- A knowledge model invoked by name: its body on the arguments found in the input data
(and the function values of its knowledge requirements). -/
def evalBkm (base : Env) (g : Drg) (ff gf : Nat) (id var : String) (input : Ctx) : Outcome Value :=
  let l := level base g gf ff
  match (l.graph gf).bkm id [] with
  | .ok evaluated =>
    match Ctx.get evaluated var with
    | some (.fn params body rt) =>
      let args := Ctx.zip (bkmArgs params input) evaluated
      match l.env.call body [args] with
      | .ok (r, _) => .ok (Value.coerced rt r)
      | .panic p => .panic p
      | .diverge => .diverge
    | _ => .ok .null
  | .panic p => .panic p
  | .diverge => .diverge

def evaluateInvocable (base : Env) (g : Drg) (ff gf : Nat) (name : String) (input : Ctx) : Outcome Value :=
  match g.invocable name with
  | some (.decision id) => evalDecision base g ff gf id input
  | some (.bkm id var) => evalBkm base g ff gf id var input
  | some (.service id) => evalService base g ff gf id input
  | none => .ok .null

end Dmn.Drg.Spec
