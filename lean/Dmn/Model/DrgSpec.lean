import Dmn.Model.Drg

/-!
# What C04 prescribes for a requirement graph (the specification the model is compared with)

The value of a decision (`decisionValue`) is its logic evaluated in one context
(`decisionContext`) and coerced to the type of the output variable.  The context binds

* every required input to the supplied value, type-checked;
* every required decision's variable to **that decision's own value** — except, inside a
  decision service, the variables of the service's *input decisions*, which are parameters:
  `sup` holds the values the caller of the service supplied for them, and only these replace
  values of required decisions (nothing does for a decision invoked by name);
* every required knowledge model **and decision service** to a function value; a knowledge
  model's closure therefore reads no input data (its registry has no input parameter).

A decision service evaluates its input decisions on the input data (strictly, although the
values are then replaced by the supplied ones), then its encapsulated and output decisions on
the typed input data and supplied input decisions, and returns its output decisions' values.

(Before the repairs of findings F14 and F28 the code departed from this in two places: the
input data replaced the values of required decisions of the same name, and a decision service
required by a knowledge model was evaluated instead of bound.  `Dmn.Drg` mirrors the repaired
code and `eval_invocable_spec` holds without hypotheses.)
-/

namespace Dmn.Drg.Spec

/-- The registries of the specification: decisions additionally receive the values supplied
for the input decisions of the enclosing decision service; knowledge models receive no input
data. -/
structure SGraph where
  decision : String → Ctx → Ctx → Ctx → Outcome (Option String × Ctx)
  bkm : String → Ctx → Outcome Ctx
  service : String → Ctx → Ctx → Outcome (Option String × Ctx)

def callBkm (g : Drg) (prev : SGraph) (id : String) (c : Ctx) : Outcome Ctx :=
  match g.findBkm id with
  | some _ => prev.bkm id c
  | none => .ok c

def callDecision (g : Drg) (prev : SGraph) (id : String) (sup : Ctx) (input c : Ctx) :
    Outcome (Option String × Ctx) :=
  match g.findDecision id with
  | some _ => prev.decision id sup input c
  | none => .ok (none, c)

/-- One knowledge requirement of a knowledge model: the required knowledge model's function
values, or the required decision service as a function. -/
def bkmRequirement (g : Drg) (prev : SGraph) (id : String) (c : Ctx) : Outcome Ctx :=
  match callBkm g prev id c with
  | .ok c1 => .ok (g.serviceFns [id] c1)
  | .panic p => .panic p
  | .diverge => .diverge

def bkmClosure (g : Drg) (prev : SGraph) (b : Bkm) (out : Ctx) : Outcome Ctx :=
  match foldCtx (bkmRequirement g prev) b.reqKnowledge out with
  | .ok out1 => .ok (Ctx.set out1 b.var (.fn b.params b.body (b.ty.ftype g.items)))
  | .panic p => .panic p
  | .diverge => .diverge

/-- The context the logic of decision `d` is evaluated in: the typed values of the required
inputs, then — shadowing them — the function values of the required knowledge `k1`, the
required decision services as functions, the values of the required decisions. -/
def decisionContext (g : Drg) (d : Decision) (sup : Ctx) (input k3 : Ctx) : Ctx :=
  -- only the parameters of the enclosing decision service replace required decisions
  let k4 := Ctx.overwrite k3 sup
  let inputs := g.typedInputs d.reqInputs input []
  Ctx.zip inputs k4

/-- the result of the logic, coerced to the type of the output variable -/
def coerceResult (t : FType) (o : Outcome (Value × Scope)) : Outcome Value :=
  match o with
  | .ok (v, _) => .ok (Value.coerced t v)
  | .panic p => .panic p
  | .diverge => .diverge

/-- The value of decision `d`: its logic evaluated in `decisionContext`, coerced to the type of
its output variable. -/
def decisionValue (g : Drg) (env : Env) (prev : SGraph) (d : Decision)
    (sup : Ctx) (input : Ctx) : Outcome Value :=
  match foldCtx (fun id c => callBkm g prev id c) d.reqKnowledge [] with
  | .ok k1 =>
    let k2 := g.serviceFns d.reqKnowledge k1
    match foldCtx (fun id c => dropName (callDecision g prev id sup input c)) d.reqDecisions k2 with
    | .ok k3 =>
      coerceResult (d.ty.ftype g.items) (evalBoxed env d.logic [decisionContext g d sup input k3])
    | .panic p => .panic p
    | .diverge => .diverge
  | .panic p => .panic p
  | .diverge => .diverge

/-- storing a value under the output variable -/
def store (var : String) (o : Outcome Value) (out : Ctx) : Outcome (Option String × Ctx) :=
  match o with
  | .ok v => .ok (some var, Ctx.set out var v)
  | .panic p => .panic p
  | .diverge => .diverge

def decisionClosure (g : Drg) (env : Env) (prev : SGraph) (d : Decision)
    (sup : Ctx) (input out : Ctx) : Outcome (Option String × Ctx) :=
  store d.var (decisionValue g env prev d sup input) out

/-! ### what the names in `decisionContext` are bound to (a later requirement shadows an earlier one) -/

/-- a name among the required inputs: the supplied value, type-checked -/
def inputBinding (g : Drg) (input : Ctx) (n : String) : List String → Option Value
  | [] => none
  | id :: ids =>
    match inputBinding g input n ids with
    | some v => some v
    | none =>
      match g.findInput id with
      | some i => if i.name = n then some (i.ty.check g.items i.name input) else none
      | none => none

/-- a name among the required decision services: the service as a function -/
def serviceBinding (g : Drg) (n : String) : List String → Option Value
  | [] => none
  | id :: ids =>
    match serviceBinding g n ids with
    | some v => some v
    | none =>
      match g.findService id with
      | some s => if s.var = n then some (g.serviceFn s) else none
      | none => none

/-- a name among the variables of the required decisions: that decision's own value -/
def decisionBinding (g : Drg) (env : Env) (prev : SGraph) (sup : Ctx) (input : Ctx) (n : String) :
    List String → Option Value
  | [] => none
  | id :: ids =>
    match decisionBinding g env prev sup input n ids with
    | some v => some v
    | none =>
      match g.findDecision id with
      | some d =>
        if d.var = n then
          match decisionValue g env prev d sup input with
          | .ok v => some v
          | _ => none
        else none
      | none => none

def serviceClosure (g : Drg) (prev : SGraph) (s : Service) (input out : Ctx) :
    Outcome (Option String × Ctx) :=
  -- the input decisions are evaluated on the input data, outside any decision service; their
  -- values are replaced by the supplied ones (`serviceInputDecisions`)
  match foldCtx (fun id c => dropName (callDecision g prev id [] input c)) s.inputDecisions [] with
  | .ok results =>
    let evaluatedInput := g.serviceInputs s results input
    let sup := g.serviceInputDecisions s results input
    match foldCtx (fun id c => dropName (callDecision g prev id sup evaluatedInput c)) s.encapsulated [] with
    | .ok c1 =>
      match outputLoop (fun id c => callDecision g prev id sup evaluatedInput c) s.output [] c1 with
      | .ok (names, c2) => .ok (some s.var, serviceResult (s.ty.ftype g.items) names c2 s.var out)
      | .panic p => .panic p
      | .diverge => .diverge
    | .panic p => .panic p
    | .diverge => .diverge
  | .panic p => .panic p
  | .diverge => .diverge

def graphStep (g : Drg) (env : Env) (prev : SGraph) : SGraph where
  decision := fun id sup input out =>
    match g.findDecision id with
    | some d => decisionClosure g env prev d sup input out
    | none => .ok (none, out)
  bkm := fun id out =>
    match g.findBkm id with
    | some b => bkmClosure g prev b out
    | none => .ok out
  service := fun id input out =>
    match g.findService id with
    | some s => serviceClosure g prev s input out
    | none => .ok (none, out)

def divergeGraph : SGraph where
  decision := fun _ _ _ _ => .diverge
  bkm := fun _ _ => .diverge
  service := fun _ _ _ => .diverge

def graphAt (g : Drg) (env : Env) (bot : SGraph) : Nat → SGraph
  | 0 => graphStep g env bot
  | n + 1 => graphStep g env (graphAt g env bot n)

def serviceCall (gr : SGraph) (id : String) : EvalM Value := fun s =>
  serviceCallResult (gr.service id (Scope.peek s) []) s

def callBody (env : Env) (gr : SGraph) (body : Ast) : EvalM Value :=
  match serviceBody? body with
  | some id => serviceCall gr id
  | none => evalBoxed env body

structure SLevel where
  env : Env
  graph : Nat → SGraph

def level (base : Env) (g : Drg) (G : Nat) : Nat → SLevel
  | 0 =>
    let env : Env := { base with call := fun _ => EvalM.diverge }
    { env := env, graph := graphAt g env divergeGraph }
  | ff + 1 =>
    let p := level base g G ff
    let env : Env := { base with call := callBody p.env (p.graph G) }
    { env := env, graph := graphAt g env divergeGraph }

def evalDecision (base : Env) (g : Drg) (ff gf : Nat) (id : String) (input : Ctx) : Outcome Value :=
  namedResult (((level base g gf ff).graph gf).decision id [] input [])

def evalService (base : Env) (g : Drg) (ff gf : Nat) (id : String) (input : Ctx) : Outcome Value :=
  namedResult (((level base g gf ff).graph gf).service id input [])

/-- A knowledge model invoked by name: its body on the arguments found in the input data
(and the function values of its knowledge requirements). -/
def evalBkm (base : Env) (g : Drg) (ff gf : Nat) (id var : String) (input : Ctx) : Outcome Value :=
  let l := level base g gf ff
  match (l.graph gf).bkm id [] with
  | .ok evaluated =>
    match Ctx.get evaluated var with
    | some (.fn params body rt) =>
      let args := Ctx.zip (bkmArgs params input) evaluated
      match l.env.call body [args] with
      | .ok (r, _) => .ok (Value.coerced rt r)
      | .panic p => .panic p
      | .diverge => .diverge
    | _ => .ok .null
  | .panic p => .panic p
  | .diverge => .diverge

def evaluateInvocable (base : Env) (g : Drg) (ff gf : Nat) (name : String) (input : Ctx) : Outcome Value :=
  match g.invocable name with
  | some (.decision id) => evalDecision base g ff gf id input
  | some (.bkm id var) => evalBkm base g ff gf id var input
  | some (.service id) => evalService base g ff gf id input
  | none => .ok .null

end Dmn.Drg.Spec
