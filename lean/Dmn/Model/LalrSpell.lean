import Dmn.Model.LalrStack
import Dmn.Gen.LalrAcc
import Dmn.Gen.ParserScope

/-!
# The reductions of the committed tables spell the rules of feel.y

`lalr.rs` holds bison's packed tables, not the automaton and not the grammar.  What ties them to
`feel-grammar/src/feel.y`, decided here on the regenerated tables:

* every state has ONE accessing symbol (witness `Dmn.Gen.LalrAcc.ACC`, computed by
  `translate/lalr_acc.py` from the tables alone): every shift the tables allow on a token enters a
  state accessed by that token's symbol;
* for every reduction the tables allow in a state `s` by a rule `r` — an entry of `YY_TABLE`, or the
  default action of a state other than `YY_FINAL` — with `r : A → X₁ … Xₙ` AS WRITTEN IN feel.y
  (`Dmn.Gen.ParserScope.grammar`, the rules in bison's numbering): `YY_R1[r] = A`, `YY_R2[r] = n`, and
  walking back from `s` along the predecessor witness (`PREDS`, complete by `lalr_stack_ok`) the
  states popped are accessed by `Xₙ`, …, `X₁` in this order, and every state uncovered goes, on `A`,
  to a state accessed by `A`.

Since the state stack of the driver is at all times a path of the automaton (`lalr_stack_nonempty`,
`run_stack`), the symbols accessing the stacked states form the sentential prefix read so far, and each
reduction replaces a right-hand side of a rule of feel.y on top of it by the rule's left-hand side:
the sequence of reductions of an accepting run is a rightmost derivation, in feel.y's grammar, of
the token sequence — read backwards.  The tables accept only sentences of the grammar and build
them by its rules (soundness).  NOT covered: completeness — that every sentence is accepted and
that conflicts are resolved as the `%left / %right / %nonassoc / %prec` declarations say; that is
what C06's correspondence with the reference parser exercises.
-/

namespace Dmn.Lalr

/-- the recorded accessing symbol of state `v` (`-1`: none) -/
def accOf (acc : List Int) (v : Int) : Int :=
  if v < 0 then -1 else acc.getD v.toNat (-1)

/-- Walking back from the states `B` over the symbols `Xₙ … X₁` (the right-hand side, last symbol
first): the states popped at each step are accessed by the symbol of the step; every state `u`
uncovered at the end has a goto on the left-hand side `lhs` into a state accessed by `lhs`. -/
def backSpell (T : Tables) (preds : List (List Int)) (acc : List Int) (lhs : Int) :
    List Int → List Int → Bool
  | [], B => B.all (fun u =>
      match gotoOf T u (lhs - T.nTokens) with
      | some g => accOf acc g == lhs
      | none => false)
  | x :: xs, B =>
    B.all (fun v => accOf acc v == x) &&
      backSpell T preds acc lhs xs (dedup (B.flatMap (predsOf preds)))

/-- reducing rule `r` in state `s`: the rule is the one of the grammar `G` (left-hand side and length
as in `YY_R1`, `YY_R2`) and the stack spells its right-hand side -/
def redSpells (T : Tables) (preds : List (List Int)) (acc : List Int) (G : List (Int × List Int))
    (s r : Int) : Bool :=
  if r < 0 then false
  else
    match G[r.toNat]? with
    | some (lhs, rhs) =>
      idx T.r1 r == some lhs && idx T.r2 r == some (rhs.length : Int) &&
        backSpell T preds acc lhs rhs.reverse [s]
    | none => false

/-- One `YY_TABLE`/`YY_CHECK` position as an action entry of every state whose row reaches it with
the token symbol `c`: a shift enters a state accessed by `c`; a reduction spells its rule. -/
def spellEntryOk (T : Tables) (preds : List (List Int)) (acc : List Int) (G : List (Int × List Int))
    (i : Nat) (t c : Int) : Bool :=
  decide (c < 0) ||
  allIdx (fun s b =>
    !(b == (i : Int) - c) ||
    (if 0 < t then accOf acc t == c
     else t == T.tableNInf || redSpells T preds acc G s (-t))) 0 T.pact

def spellOk (T : Tables) (preds : List (List Int)) (acc : List Int) (G : List (Int × List Int)) : Bool :=
  allIdx2 (spellEntryOk T preds acc G) 0 T.table T.check &&
  allIdx (fun s d => (s : Int) == T.final || d == 0 || redSpells T preds acc G s d) 0 T.defAct

/-- the rules of feel.y (bison's numbering, symbols by bison's symbol numbers), regenerated -/
def feelGrammar : List (Int × List Int) :=
  Dmn.Gen.ParserScope.grammar.map (fun r => (Int.ofNat r.lhs, r.rhs.map Int.ofNat))

end Dmn.Lalr
