import Dmn.Model.Dec

/-!
# Specification of decimal128 rounding, in scaled integers

`RoundsHalfEven neg N D e r`: `r` is the decimal128 result for the exact value
`(-1)^neg · (N/D) · 10^e` (`N, D > 0`): the nearest representable value at precision 34 within
the exponent range, ties to the even coefficient; `±Infinity` exactly when the exact value
rounds above `(10^34 − 1)·10^6111`; subnormal results are rounded at the fixed exponent −6176.

Everything is stated with natural-number products at a common scale (no rationals), so the
predicate is decidable: the driver *executes* it on the implementation's answers, and the
theorems of `Props/C02.lean` prove it of the model's answers for all operands.

This file is import-free apart from `D128` (it is linked into the driver).
-/

namespace Dmn
namespace D128

/-- `|a - b|` on naturals -/
def absDiff (a b : Nat) : Nat := if a ≤ b then b - a else a - b

/-- the exact magnitude `(N/D)·10^e` rounds (half-even, precision 34, unbounded exponent) to at
least `10^34 · 10^6111`, i.e. `N/D·10^e ≥ (10^34 − 1/2)·10^6111` -/
def Overflows (N D : Nat) (e : Int) : Prop :=
  let s := min e eTop
  2 * N * 10 ^ (e - s).toNat ≥ (2 * 10 ^ 34 - 1) * 10 ^ (eTop - s).toNat * D

instance (N D : Nat) (e : Int) : Decidable (Overflows N D e) := by
  unfold Overflows; exact inferInstance

/-- Core of "correctly rounded", on three naturals at one common scale: `X` the exact value,
`Y = coeff·U` the result, `U` one unit in the last place of the result:
* nearest: `2·|X − Y| ≤ U`, and a tie has an even coefficient;
* the precision is used: an inexact result has 34 digits or the minimum exponent;
* at a power of ten reached from below (where the spacing below is ten times finer) the error
  is at most half of the *finer* unit. -/
def NECore (X Y U : Nat) (d : D128) : Prop :=
  2 * absDiff X Y ≤ U ∧
  (2 * absDiff X Y = U → d.coeff % 2 = 0) ∧
  (X = Y ∨ 10 ^ 33 ≤ d.coeff ∨ d.exp = eTiny) ∧
  (d.coeff = 10 ^ 33 ∧ X < Y ∧ d.exp ≠ eTiny → 20 * (Y - X) ≤ U)

instance (X Y U : Nat) (d : D128) : Decidable (NECore X Y U d) := by
  unfold NECore; exact inferInstance

/-- `d` (magnitude) is a correct rounding of the magnitude `(N/D)·10^e`: `NECore` at the common
scale `s = min e d.exp`, where `X = N·10^(e−s)`, `U = 10^(exp−s)·D`, `Y = coeff·U`
(all three are the real quantities times `D·10^(−s)`). -/
def NearestEven (N D : Nat) (e : Int) (d : D128) : Prop :=
  NECore (N * 10 ^ (e - min e d.exp).toNat) (d.coeff * (10 ^ (d.exp - min e d.exp).toNat * D))
    (10 ^ (d.exp - min e d.exp).toNat * D) d

instance (N D : Nat) (e : Int) (d : D128) : Decidable (NearestEven N D e d) := by
  unfold NearestEven; exact inferInstance

/-- The decimal128 result for the exact non-zero value `(-1)^neg · (N/D) · 10^e`.
(For a finite result, "does not overflow" is implied: a representable `d` within half a unit
of the exact value, ties to even, cannot be the rounding of a value ≥ `(10^34 − 1/2)·10^6111`,
because `10^34 − 1` is odd.) -/
def RoundsHalfEven (neg : Bool) (N D : Nat) (e : Int) (r : D128R) : Prop :=
  match r with
  | .nan => False
  | .inf s => s = neg ∧ Overflows N D e
  | .fin d => d.neg = neg ∧ WF d ∧ NearestEven N D e d

instance (neg : Bool) (N D : Nat) (e : Int) (r : D128R) : Decidable (RoundsHalfEven neg N D e r) := by
  unfold RoundsHalfEven
  cases r <;> exact inferInstance

/-- integer `(-1)^neg·c·10^(exp−s)` of `d` at a scale `s ≤ d.exp` -/
def scaled (d : D128) (s : Int) : Int := sint d.neg (d.coeff * 10 ^ (d.exp - s).toNat)

/-- numeric equality of two finite decimals (at the common scale) -/
def SameValue (a b : D128) : Prop :=
  scaled a (min a.exp b.exp) = scaled b (min a.exp b.exp)

instance (a b : D128) : Decidable (SameValue a b) := by unfold SameValue; exact inferInstance

/-- `r` is an exact zero with the given sign -/
def IsZeroWith (neg : Bool) (r : D128R) : Prop :=
  match r with
  | .fin d => d.coeff = 0 ∧ d.neg = neg ∧ WF d
  | _ => False

instance (neg : Bool) (r : D128R) : Decidable (IsZeroWith neg r) := by
  unfold IsZeroWith; cases r <;> exact inferInstance

/-! ### specifications of the operations (what the exact result is) -/

/-- exact sum at the common exponent -/
def exactSum (a b : D128) : Int :=
  scaled a (min a.exp b.exp) + scaled b (min a.exp b.exp)

/-- `r` is the correctly rounded sum -/
def AddSpec (a b : D128) (r : D128R) : Prop :=
  let s := exactSum a b
  if s = 0 then IsZeroWith (a.neg && b.neg) r
  else RoundsHalfEven (decide (s < 0)) s.natAbs 1 (min a.exp b.exp) r

instance (a b : D128) (r : D128R) : Decidable (AddSpec a b r) := by unfold AddSpec; exact inferInstance

/-- `r` is the correctly rounded product -/
def MulSpec (a b : D128) (r : D128R) : Prop :=
  if a.coeff * b.coeff = 0 then IsZeroWith (a.neg != b.neg) r
  else RoundsHalfEven (a.neg != b.neg) (a.coeff * b.coeff) 1 (a.exp + b.exp) r

instance (a b : D128) (r : D128R) : Decidable (MulSpec a b r) := by unfold MulSpec; exact inferInstance

/-- `r` is the correctly rounded quotient (`0/0` NaN, `x/0` infinite) -/
def DivSpec (a b : D128) (r : D128R) : Prop :=
  if b.coeff = 0 then (if a.coeff = 0 then r = .nan else r = .inf (a.neg != b.neg))
  else if a.coeff = 0 then IsZeroWith (a.neg != b.neg) r
  else RoundsHalfEven (a.neg != b.neg) a.coeff b.coeff (a.exp - b.exp) r

instance (a b : D128) (r : D128R) : Decidable (DivSpec a b r) := by unfold DivSpec; exact inferInstance

/-- `Y` is within half a unit `U` of `√X`, stated through squares:
`(2Y − U)² ≤ 4·X ≤ (2Y + U)²` (and `U ≤ 2Y`, so that the subtraction is a real one) -/
def SqrtCore (X Y U : Nat) : Prop :=
  (2 * Y - U) * (2 * Y - U) ≤ 4 * X ∧ 4 * X ≤ (2 * Y + U) * (2 * Y + U) ∧ U ≤ 2 * Y

instance (X Y U : Nat) : Decidable (SqrtCore X Y U) := by unfold SqrtCore; exact inferInstance

/-- `r` is the correctly rounded square root of `a`: with `V = √(c·10^e)`, `|V − r| ≤ ulp/2`
(`SqrtCore` at the common scale `s` for the root, `2s` for the radicand; an irrational root is
never a tie).  The result is the exact root with the ideal exponent `⌊e/2⌋`, or has 34 digits. -/
def SqrtSpec (a : D128) (r : D128R) : Prop :=
  if a.coeff = 0 then r = .fin ⟨a.neg, 0, a.exp / 2⟩
  else if a.neg then r = .nan
  else
    match r with
    | .fin d =>
      d.neg = false ∧ WF d ∧
      SqrtCore (a.coeff * 10 ^ (a.exp - 2 * min (a.exp / 2) d.exp).toNat)
        (d.coeff * 10 ^ (d.exp - min (a.exp / 2) d.exp).toNat) (10 ^ (d.exp - min (a.exp / 2) d.exp).toNat) ∧
      ((d.coeff * 10 ^ (d.exp - min (a.exp / 2) d.exp).toNat) * (d.coeff * 10 ^ (d.exp - min (a.exp / 2) d.exp).toNat)
          = a.coeff * 10 ^ (a.exp - 2 * min (a.exp / 2) d.exp).toNat ∧ d.exp = a.exp / 2
        ∨ 10 ^ 33 ≤ d.coeff)
    | _ => False

instance (a : D128) (r : D128R) : Decidable (SqrtSpec a r) := by
  unfold SqrtSpec
  cases r <;> exact inferInstance

/-- `r = ⌊a⌋` as `dec_floor` gives it: unchanged when `exp ≥ 0`, else exponent 0 and
`r ≤ a < r + 1` on signed scaled integers -/
def FloorSpec (a r : D128) : Prop :=
  if a.exp ≥ 0 then r = a
  else
    let p : Int := (10 ^ (-a.exp).toNat : Nat)
    r.exp = 0 ∧ r.neg = a.neg ∧
    sint r.neg r.coeff * p ≤ sint a.neg a.coeff ∧ sint a.neg a.coeff < (sint r.neg r.coeff + 1) * p

instance (a r : D128) : Decidable (FloorSpec a r) := by unfold FloorSpec; exact inferInstance

/-- `r = ⌈a⌉`: `r − 1 < a ≤ r`; the sign of a zero result is positive for a negative non-zero
argument (`dec.rs:245`) -/
def CeilSpec (a r : D128) : Prop :=
  if a.exp ≥ 0 then r = a
  else
    let p : Int := (10 ^ (-a.exp).toNat : Nat)
    r.exp = 0 ∧
    (sint r.neg r.coeff - 1) * p < sint a.neg a.coeff ∧ sint a.neg a.coeff ≤ sint r.neg r.coeff * p

instance (a r : D128) : Decidable (CeilSpec a r) := by unfold CeilSpec; exact inferInstance

/-- FEEL `decimal(a, scale)`: the multiple of `10^(−scale)` nearest to `a`, ties to even,
or `NaN` when that needs more than 34 digits -/
def RescaleSpec (a : D128) (scale : Int) (r : D128R) : Prop :=
  let ne := -scale
  match r with
  | .fin d =>
    d.exp = ne ∧ d.neg = a.neg ∧ d.coeff < 10 ^ 34 ∧
    (let s := min a.exp ne
     let X := a.coeff * 10 ^ (a.exp - s).toNat
     let U := 10 ^ (ne - s).toNat
     let Y := d.coeff * U
     2 * absDiff X Y ≤ U ∧ (2 * absDiff X Y = U → d.coeff % 2 = 0))
  | .nan =>
    -- the rounded coefficient does not fit
    (let s := min a.exp ne
     let X := a.coeff * 10 ^ (a.exp - s).toNat
     let U := 10 ^ (ne - s).toNat
     2 * X + U ≥ 2 * 10 ^ 34 * U)
  | .inf _ => False

instance (a : D128) (scale : Int) (r : D128R) : Decidable (RescaleSpec a scale r) := by
  unfold RescaleSpec
  cases r <;> exact inferInstance

/-! ### FEEL `modulo` (DMN 1.3, 10.3.4.5): `dividend − divisor·⌊dividend / divisor⌋`, mathematically -/

/-- `⌊a / b⌋` as an integer, on the exact values (floor division of the two scaled integers at
the common exponent; `b ≠ 0`) -/
def floorQuot (a b : D128) : Int :=
  Int.fdiv (scaled a (min a.exp b.exp)) (scaled b (min a.exp b.exp))

/-- the exact modulo `a − b·⌊a/b⌋` as an integer at the common exponent `min a.exp b.exp`
(no intermediate rounding; its sign is the sign of the divisor) -/
def exactMod (a b : D128) : Int :=
  scaled a (min a.exp b.exp) - scaled b (min a.exp b.exp) * floorQuot a b

/-- `r` is the mathematical modulo `a − b·⌊a/b⌋`, computed exactly and then rounded once to 34
digits (half-even); an exact zero is a representable zero of either sign.  (`b ≠ 0`.) -/
def ModuloSpec (a b : D128) (r : D128R) : Prop :=
  if exactMod a b = 0 then IsZeroWith false r ∨ IsZeroWith true r
  else RoundsHalfEven (decide (exactMod a b < 0)) (exactMod a b).natAbs 1 (min a.exp b.exp) r

instance (a b : D128) (r : D128R) : Decidable (ModuloSpec a b r) := by unfold ModuloSpec; exact inferInstance

/-- The exact condition under which the formula of `core::modulo` / `impl Rem` — every step
rounded to 34 digits — is the mathematical modulo: (i) the floor of the *rounded* quotient is the
floor of the exact quotient, and (ii) the product `b·⌊a/b⌋` is computed exactly.  (Then the last
step, the subtraction, is the one rounding the specification allows.) -/
def modExact (a b : D128) : Bool :=
  match FNum.floor (FNum.div (.fin a) (.fin b)) with
  | .fin f =>
    match FNum.mul (.fin b) (.fin f), toInt? f with
    | .fin p, some q =>
      decide (q = floorQuot a b) && decide (scaled p (min p.exp b.exp) = scaled b (min p.exp b.exp) * q)
    | _, _ => false
  | _ => false

end D128
end Dmn
