import Dmn.Model.Outcome
import Dmn.Model.Bifs
import Dmn.Model.TemporalMachine

/-!
# The machine-integer index arithmetic of the string built-ins (C05, part (a))

`Dmn/Model/Bifs.lean` (C08) models `substring`, `substring before`, `substring after`, `split`,
`replace` on unbounded integers and on Unicode scalar values.  This file models what the same Rust
statements of `feel-evaluator/src/bifs/core.rs` do with their machine types and with the BYTES of
the strings:

* `usize` is an `Int` in `[0, 2^64)`, `isize` an `Int` in `[-2^63, 2^63)` (`Dmn.TemporalMachine.tUsize`,
  `tIsize`); every `+`, `-` is `IntTy.arith` (checked mode: overflow is a panic; wrapping mode: it
  wraps), every `as` cast is `IntTy.wrap`, every `checked_add` is `IntTy.checkedOp`;
* a `String` is the list of its code points; where the code indexes bytes (`str::find`, `&s[..i]`,
  `&s[i..]`, the `regex` crate's match offsets) the model works on the UTF-8 bytes (`bytes`) and a
  slice that does not start and end on a character boundary is a panic, as in `core::str`
  (`is_char_boundary`, `slice_error_fail`).

The numeric arguments arrive already converted: what `FeelNumber::to_isize` / `to_usize` returned
(`none` or ANY value of the type).

Covered, statement by statement:

* `substring` (`core.rs:1119-1177`): `chars().count()`, `start - 1`, `as usize`, `index <
  input_string_len`, `checked_add`, `input_string_len as isize`, `+ start`, `index >= 0`, `skip`,
  `take`;
* `substring_before` / `substring_after` (`core.rs:1180-1205`): `find`, `&s[..index]`,
  `match_string.len() + index`, `&s[…..]`;
* `split` (`core.rs:941-953`) and `replace` (`core.rs:827-880`): the slices between the matches that
  the `regex` crate takes (`regex-automata` `Splits::next`: `last..mat.start()`, `last = mat.end()`,
  `last..len`; `Regex::replacen`: `&haystack[last_match..m.start()]`, `last_match = m.end()`,
  `&haystack[last_match..]`) for ANY list of matches, and the matches of a literal (metacharacter
  free) pattern.

Not here: `sublist`, `insert before`, `remove`, `index of` — their `usize` arithmetic is in
`Dmn/Model/Bifs.lean` with the same two modes (`Usz.sub`, `Usz.add`, `slice`, `vecInsert`,
`vecRemove`; C08's `bif_no_panic`); the matching engine and `$N` expansion inside the `regex` crate.
-/

namespace Dmn.StringIndex
open Dmn Dmn.TemporalMachine

def site : String := "feel-evaluator/src/bifs/core.rs"

/-! ## `substring` -/

/-- The third argument of `core::substring` after the conversions. -/
inductive LenArg where
  /-- `Value::Null`: to the end of the string -/
  | toEnd
  /-- a number below 1 (`*length < FeelNumber::one()`, `core.rs:1130`) -/
  | below1
  /-- a number `≥ 1`: what `length.trunc().to_usize()` returned (`core.rs:1133`) -/
  | count (c : Option Int)
  /-- any other value -/
  | other
  deriving Repr, DecidableEq

/-- The block `if start > 0 { … }` (`core.rs:1138-1143`, `:1153-1158`); `ok none`: control falls
through.  `n` is `input_string_len`. -/
def substrFromStart {α : Type} (m : IntMode) (cs : List α) (n : Int) (st : Int) (count : Option Int) :
    Outcome (Option (List α)) :=
  if st > 0 then
    (tIsize.arith m (st - 1) site).bind fun d =>              -- `start - 1` on `isize`
    let index := tUsize.wrap d                                 -- `as usize`
    match count with
    | some count =>
      if index < n then
        match tUsize.checkedOp (index + count) with            -- `index.checked_add(count)`
        | some last =>
          if last ≤ n then .ok (some ((cs.drop index.toNat).take count.toNat))   -- `skip(index).take(count)`
          else .ok none
        | none => .ok none
      else .ok none
    | none => if index < n then .ok (some (cs.drop index.toNat)) else .ok none
  else .ok none

/-- The block `if start < 0 { … }` (`core.rs:1144-1149`, `:1159-1164`). -/
def substrFromEnd {α : Type} (m : IntMode) (cs : List α) (n : Int) (st : Int) (count : Option Int) :
    Outcome (Option (List α)) :=
  if st < 0 then
    let lenI := tIsize.wrap n                                  -- `input_string_len as isize`
    (tIsize.arith m (lenI + st) site).bind fun index =>        -- `… + start` on `isize`
    match count with
    | some count =>
      if index ≥ 0 then
        let iu := tUsize.wrap index                            -- `index as usize`
        match tUsize.checkedOp (iu + count) with
        | some last =>
          if last ≤ n then .ok (some ((cs.drop iu.toNat).take count.toNat)) else .ok none
        | none => .ok none
      else .ok none
    | none => if index ≥ 0 then .ok (some (cs.drop (tUsize.wrap index).toNat)) else .ok none
  else .ok none

/-- The two blocks one after the other, then `value_null!()`. -/
def substringAt {α : Type} (m : IntMode) (cs : List α) (st : Int) (count : Option Int) : Outcome (Option (List α)) :=
  let n : Int := cs.length                                     -- `input_string.chars().count()`
  (substrFromStart m cs n st count).bind fun r =>
  match r with
  | some s => .ok (some s)
  | none => substrFromEnd m cs n st count

/-- `core::substring` (`core.rs:1119`) on a string and converted arguments; `ok none` is null. -/
def substring {α : Type} (m : IntMode) (cs : List α) (start : Option Int) (len : LenArg) : Outcome (Option (List α)) :=
  match start with
  | none => .ok none                                           -- `to_isize()` is `None` (`:1125`)
  | some st =>
    match len with
    | .below1 => .ok none
    | .count none => .ok none                                  -- `to_usize()` is `None` (`:1136`)
    | .count (some c) => substringAt m cs st (some c)
    | .toEnd => substringAt m cs st none
    | .other => .ok none

/-! ## UTF-8 -/

/-- `char::encode_utf8` -/
def enc (c : Nat) : List Nat :=
  if c < 0x80 then [c]
  else if c < 0x800 then [0xC0 + c / 64, 0x80 + c % 64]
  else if c < 0x10000 then [0xE0 + c / 4096, 0x80 + c / 64 % 64, 0x80 + c % 64]
  else [0xF0 + c / 262144, 0x80 + c / 4096 % 64, 0x80 + c / 64 % 64, 0x80 + c % 64]

/-- the bytes of a string -/
def bytes : List Nat → List Nat
  | [] => []
  | c :: cs => enc c ++ bytes cs

/-- a continuation byte `10xxxxxx`: `(b as i8) < -0x40` -/
def isCont (b : Nat) : Bool := decide (128 ≤ b) && decide (b < 192)

/-- `str::is_char_boundary` -/
def isCharBoundary (bs : List Nat) (i : Nat) : Bool :=
  if i = 0 then true
  else if i ≥ bs.length then i == bs.length
  else
    match bs[i]? with
    | some b => !isCont b
    | none => false

/-- `&s[a..]` -/
def strFrom (bs : List Nat) (a : Nat) : Outcome (List Nat) :=
  if isCharBoundary bs a then .ok (bs.drop a) else .panic site

/-- `&s[..b]` -/
def strTo (bs : List Nat) (b : Nat) : Outcome (List Nat) :=
  if isCharBoundary bs b then .ok (bs.take b) else .panic site

/-- `&s[a..b]` -/
def strRange (bs : List Nat) (a b : Nat) : Outcome (List Nat) :=
  if a ≤ b ∧ isCharBoundary bs a = true ∧ isCharBoundary bs b = true then .ok ((bs.drop a).take (b - a))
  else .panic site

/-- `str::find(&str)`: the least byte offset at which the bytes of the needle occur. -/
def findBytes (pat : List Nat) : List Nat → Option Nat
  | [] => if pat.isEmpty then some 0 else none
  | b :: bs => if pat.isPrefixOf (b :: bs) then some 0 else (findBytes pat bs).map (· + 1)

/-- the byte offsets at which a character of `cs` starts, and the end -/
def isOff : List Nat → Nat → Bool
  | _, 0 => true
  | [], _ + 1 => false
  | c :: cs, i + 1 => decide ((enc c).length ≤ i + 1) && isOff cs (i + 1 - (enc c).length)

/-! ## `substring before`, `substring after` -/

/-- `core::substring_before` (`core.rs:1194`): the bytes of the result. -/
def substringBefore (cs pat : List Nat) : Outcome (List Nat) :=
  let bs := bytes cs
  match findBytes (bytes pat) bs with
  | some index => strTo bs index                               -- `input_string[..index]`
  | none => .ok []

/-- `core::substring_after` (`core.rs:1180`). -/
def substringAfter (m : IntMode) (cs pat : List Nat) : Outcome (List Nat) :=
  let bs := bytes cs
  let pb := bytes pat
  match findBytes pb bs with
  | some index =>
    (tUsize.arith m ((pb.length : Int) + index) site).bind fun a =>   -- `match_string.len() + index`
    strFrom bs a.toNat                                         -- `input_string[…..]`
  | none => .ok []

/-! ## the slices of `split` and `replace` -/

/-- a match of the `regex` crate: byte offsets of its start and its end -/
abbrev Match := Nat × Nat

/-- `Regex::split` (`regex-automata`, `Splits::next`): `haystack[last..mat.start()]`,
`last = mat.end()`, at the end `haystack[last..len]`. -/
def splitSlices (bs : List Nat) : Nat → List Match → Outcome (List (List Nat))
  | last, [] => (strRange bs last bs.length).map fun piece => [piece]
  | last, (s, e) :: ms =>
    (strRange bs last s).bind fun piece => (splitSlices bs e ms).map fun rest => piece :: rest

/-- `Regex::replace_all` (`replacen` with `limit = 0`): `new.push_str(&haystack[last_match..m.start()])`,
the replacement of the match, `last_match = m.end()`, at the end `&haystack[last_match..]`.
`reps` are the expanded replacements, one per match (missing ones count as empty). -/
def replaceSlices (bs : List Nat) : Nat → List Match → List (List Nat) → Outcome (List Nat)
  | last, [], _ => strFrom bs last
  | last, (s, e) :: ms, reps =>
    (strRange bs last s).bind fun piece =>
      (replaceSlices bs e ms reps.tail).map fun rest => piece ++ reps.headD [] ++ rest

/-- What the `regex` crate promises about the matches it reports for a string (`find_iter` /
`captures_iter`): each lies on character boundaries, starts where or after the previous one ended,
and ends where or after it starts. -/
def matchesOk (cs : List Nat) : Nat → List Match → Bool
  | last, [] => isOff cs last
  | last, (s, e) :: ms => isOff cs last && decide (last ≤ s) && isOff cs s && decide (s ≤ e) && matchesOk cs e ms

/-- `find_iter` for a pattern that denotes itself (no metacharacter, not empty): the non-overlapping
occurrences from left to right.  `off` is the offset of `bs` in the whole string. -/
def litMatches (pb : List Nat) : Nat → Nat → List Nat → List Match
  | 0, _, _ => []
  | fuel + 1, off, bs =>
    match findBytes pb bs with
    | none => []
    | some i =>
      (off + i, off + i + pb.length) :: litMatches pb fuel (off + i + pb.length) (bs.drop (i + pb.length))

/-- `core::split` (`core.rs:941`) with a delimiter that denotes itself; `ok none` is null (the empty
delimiter matches the empty string, `:946`). -/
def splitLiteral (cs pat : List Nat) : Outcome (Option (List (List Nat))) :=
  let bs := bytes cs
  let pb := bytes pat
  if pb.isEmpty then .ok none
  else (splitSlices bs 0 (litMatches pb (bs.length + 1) 0 bs)).map some

/-- `find_iter` for the empty pattern: the empty match in front of every character and at the end. -/
def emptyMatches : Nat → List Nat → List Match
  | off, [] => [(off, off)]
  | off, c :: cs => (off, off) :: emptyMatches (off + (enc c).length) cs

/-- `core::replace` (`core.rs:827`) with a pattern that denotes itself (or is empty) and a replacement
without `$` (no expansion), before `trim()`. -/
def replaceLiteral (cs pat rep : List Nat) : Outcome (List Nat) :=
  let bs := bytes cs
  let pb := bytes pat
  let ms := if pb.isEmpty then emptyMatches 0 cs else litMatches pb (bs.length + 1) 0 bs
  replaceSlices bs 0 ms (ms.map fun _ => bytes rep)

/-! ## all operations under one name -/

inductive Op where
  | substring (cs : List Nat) (start : Option Int) (len : LenArg)
  | before (cs pat : List Nat)
  | after (cs pat : List Nat)
  | split (cs pat : List Nat)
  | replace (cs pat rep : List Nat)
  /-- the slices of `split` for a given list of matches -/
  | splitAt (cs : List Nat) (ms : List Match)
  /-- the slices of `replace` for a given list of matches and their expanded replacements -/
  | replaceAt (cs : List Nat) (ms : List Match) (reps : List (List Nat))

inductive Res where
  | null
  /-- a string, as code points -/
  | chars (cs : List Nat)
  /-- a string, as UTF-8 bytes -/
  | utf8 (bs : List Nat)
  /-- a list of strings, as UTF-8 bytes -/
  | pieces (ps : List (List Nat))
  deriving Repr, DecidableEq

/-- `isize::MAX`: no Rust allocation, hence no `String`, has more bytes. -/
def allocMax : Int := 9223372036854775807

/-- The operands are values of the Rust types: the start position an `isize`, the length a `usize`,
the string at most `isize::MAX` bytes long; the given matches are as the `regex` crate reports them. -/
def Op.wellTyped : Op → Bool
  | .substring cs start len =>
    (match start with | some s => tIsize.fits s | none => true) &&
    (match len with | .count (some c) => tUsize.fits c | _ => true) &&
    decide ((cs.length : Int) ≤ allocMax)
  | .before _ _ => true
  | .after cs _ => decide (((bytes cs).length : Int) ≤ allocMax)
  | .split _ _ => true
  | .replace _ _ _ => true
  | .splitAt cs ms => matchesOk cs 0 ms
  | .replaceAt cs ms _ => matchesOk cs 0 ms

def run (m : IntMode) : Op → Outcome Res
  | .substring cs start len =>
    (substring m cs start len).map fun r => match r with | some s => .chars s | none => .null
  | .before cs pat => (substringBefore cs pat).map .utf8
  | .after cs pat => (substringAfter m cs pat).map .utf8
  | .split cs pat => (splitLiteral cs pat).map fun r => match r with | some ps => .pieces ps | none => .null
  | .replace cs pat rep => (replaceLiteral cs pat rep).map .utf8
  | .splitAt cs ms => (splitSlices (bytes cs) 0 ms).map .pieces
  | .replaceAt cs ms reps => (replaceSlices (bytes cs) 0 ms reps).map .utf8

/-! ## decoding (for the driver: answers travel as code points) -/

/-- UTF-8 decoding of well-formed bytes (by the leading byte). -/
def decode : Nat → List Nat → List Nat
  | 0, _ => []
  | _, [] => []
  | fuel + 1, b :: bs =>
    if b < 0x80 then b :: decode fuel bs
    else if b < 0xE0 then
      match bs with
      | b1 :: r => ((b - 0xC0) * 64 + (b1 - 0x80)) :: decode fuel r
      | _ => []
    else if b < 0xF0 then
      match bs with
      | b1 :: b2 :: r => ((b - 0xE0) * 4096 + (b1 - 0x80) * 64 + (b2 - 0x80)) :: decode fuel r
      | _ => []
    else
      match bs with
      | b1 :: b2 :: b3 :: r => ((b - 0xF0) * 262144 + (b1 - 0x80) * 4096 + (b2 - 0x80) * 64 + (b3 - 0x80)) :: decode fuel r
      | _ => []

def decodeAll (bs : List Nat) : List Nat := decode bs.length bs

/-- `char::is_whitespace` on a code point -/
def isWhiteN (n : Nat) : Bool :=
  (9 ≤ n && n ≤ 13) || n == 32 || n == 0x85 || n == 0xA0 || n == 0x1680
    || (0x2000 ≤ n && n ≤ 0x200A) || n == 0x2028 || n == 0x2029 || n == 0x202F || n == 0x205F
    || n == 0x3000

/-- `str::trim` -/
def trimN (cs : List Nat) : List Nat := ((cs.dropWhile isWhiteN).reverse.dropWhile isWhiteN).reverse

end Dmn.StringIndex
