import Dmn.Model.DTValue

/-!
# Decision tables: model of `model-evaluator/src/builders/decision_table.rs`

FEEL evaluation is *given data* here: a table arrives with, per rule, the results of its
input-entry evaluators (`In(input expression, input entry)`, conjoined with the input-values
test when the clause has input values — `decision_table.rs:296-306`) and the values of its
output-entry evaluators (`decision_table.rs:310-318`), plus what the output-values and
default-output-entry cells evaluated to.  Everything the Rust code does *with* these values
(`evaluate_parsed_decision_table` and the `EvaluatedDecisionTable` methods, lines 76-257 and
349-413) is mirrored below.

`DT.Spec` (second half) is the declarative reading of the property; `Props/C03.lean` relates
the two.
-/

namespace Dmn.DT

open Dmn DTValue

/-- `HitPolicy` with `Collect(BuiltinAggregator)` flattened (`model/src/model/mod.rs`). -/
inductive HitPolicy where
  | unique | any | priority | first | ruleOrder | outputOrder
  | collectList | collectCount | collectSum | collectMin | collectMax
  deriving Repr, Inhabited, DecidableEq

/-- What an input-entry evaluator returned: `Boolean(true)`, `Boolean(false)`, anything else. -/
inductive Tri where
  | t | f | o
  deriving Repr, Inhabited, DecidableEq

/-- `Value::is_true`. -/
def Tri.isTrue : Tri → Bool
  | .t => true
  | _ => false

/-- One rule after its evaluators ran (before `matches` is computed). -/
structure Rule where
  inputs : List Tri
  outputs : List DTValue
  deriving Repr, Inhabited, DecidableEq

/-- What an optional unary-tests cell (output values, default output entry) evaluated to:
no cell, `Value::ExpressionList(values)`, or some other value. -/
inductive Cell where
  | none
  | exprList (vs : List DTValue)
  | other
  deriving Repr, Inhabited, DecidableEq

/-- The values of a cell that evaluated to a list of values; none otherwise. -/
def Cell.values : Cell → List DTValue
  | .exprList vs => vs
  | _ => []

/-- The default output value of a clause (`decision_table.rs:383-393`): defined when the cell
evaluated to an expression list of exactly one value. -/
def Cell.single : Cell → Option DTValue
  | .exprList [v] => Option.some v
  | _ => Option.none

structure Table where
  hitPolicy : HitPolicy
  /-- names of the output clauses that have a `name` attribute (`decision_table.rs:287-289`) -/
  componentNames : List (List Char)
  /-- one per output clause -/
  outputValues : List Cell
  /-- one per output clause -/
  defaultOutputs : List Cell
  rules : List Rule
  deriving Repr, Inhabited

/-- `EvaluatedRule`. -/
structure ERule where
  «matches» : Bool
  outputs : List DTValue
  deriving Repr, Inhabited, DecidableEq

/-- The flag loop of `decision_table.rs:369-376`: `matches = true; for e { if !e.is_true() { matches = false } }`. -/
def matchesLoop : List Tri → Bool → Bool
  | [], m => m
  | e :: es, m => matchesLoop es (if e.isTrue then m else false)

def evalRule (r : Rule) : ERule := ⟨matchesLoop r.inputs true, r.outputs⟩

/-- `EvaluatedDecisionTable`. -/
structure ETable where
  componentNames : List (List Char)
  /-- one list per output clause, empty when the clause defines no output values or they did not
  evaluate to an expression list (`decision_table.rs:351-361`, since f5ce13a; before, the lists of
  all clauses were appended into one) -/
  outputValues : List (List DTValue)
  /-- one per output clause; `some v` when the default output entry evaluated to exactly one value -/
  defaultOutputValues : List (Option DTValue)
  rules : List ERule
  deriving Repr, Inhabited

/-- `evaluate_parsed_decision_table`. -/
def evalTable (t : Table) : ETable :=
  ⟨t.componentNames, t.outputValues.map Cell.values, t.defaultOutputs.map Cell.single, t.rules.map evalRule⟩

/-- `get_matching_rules`: `iter().filter(|r| r.matches).collect()`. -/
def matching : List ERule → List ERule
  | [] => []
  | r :: rs => if r.matches then r :: matching rs else matching rs

/-- `output_values.iter().position(|o| o == v)`. -/
def position (ov : List DTValue) (v : DTValue) : Option Nat :=
  match ov with
  | [] => none
  | o :: os => if o = v then some 0 else (position os v).map (· + 1)

/-- The comparator closure of `get_matching_rules_prioritized` (`decision_table.rs:84-104`): the
output entries of the two rules are walked together with the output-values lists of their
clauses (the `zip`s stop at the shortest list); an entry's priority is its position among the
output values of its own clause. -/
def compareOutputs : List (List DTValue) → List DTValue → List DTValue → Ordering
  | ov :: ovs, v1 :: xs, v2 :: ys =>
    match position ov v1, position ov v2 with
    | some i, some j =>
      if i < j then .lt else if i > j then .gt else compareOutputs ovs xs ys
    | some _, none => .lt
    | none, some _ => .gt
    | none, none => compareOutputs ovs xs ys
  | _, _, _ => .eq

/-- Insertion of `x` (which precedes all of `ys` in the original order) before the first
element that is not smaller: keeps equal elements in their original order. -/
def insertStable {α : Type} (cmp : α → α → Ordering) (x : α) : List α → List α
  | [] => [x]
  | y :: ys => if cmp x y = .gt then y :: insertStable cmp x ys else x :: y :: ys

/-- `sort_by(compare)`: Rust's `sort_by` is a stable sort; modelled by an explicit stable
insertion sort (the stability contract of `slice::sort_by` is in the trusted base). -/
def sortStable {α : Type} (cmp : α → α → Ordering) : List α → List α
  | [] => []
  | x :: xs => insertStable cmp x (sortStable cmp xs)

/-- `get_matching_rules_prioritized`. -/
def prioritized (e : ETable) : List ERule :=
  sortStable (fun x y => compareOutputs e.outputValues x.outputs y.outputs) (matching e.rules)

/-- The `for (i, value) in outputs.enumerate() { result.set_entry(&names[i], value) }` loop
(lengths are equal when it runs). -/
def buildCtx : List (List Char) → List DTValue → List (List Char × DTValue) → List (List Char × DTValue)
  | n :: ns, v :: vs, acc => buildCtx ns vs (ctxInsert n v acc)
  | _, _, acc => acc

/-- `get_result` (`decision_table.rs:108-121`); `output_entry_values[0]` panics on a rule
without output entries. -/
def getResult (e : ETable) (r : ERule) : Outcome DTValue :=
  if r.outputs.length > 1 then
    if r.outputs.length ≠ e.componentNames.length then .ok .null
    else .ok (.ctx (buildCtx e.componentNames r.outputs []))
  else
    match r.outputs with
    | v :: _ => .ok v
    | [] => .panic "decision_table.rs:120 evaluated_rule.output_entry_values[0]"

/-- `get_results`: the loop pushing `get_result` of every rule. -/
def getResults (e : ETable) : List ERule → Outcome (List DTValue)
  | [] => .ok []
  | r :: rs =>
    match getResult e r with
    | .ok v =>
      match getResults e rs with
      | .ok vs => .ok (v :: vs)
      | .error m => .error m
      | .panic s => .panic s
    | .error m => .error m
    | .panic s => .panic s

def getResultsList (e : ETable) (rs : List ERule) : Outcome DTValue :=
  match getResults e rs with
  | .ok vs => .ok (.list vs)
  | .error m => .error m
  | .panic s => .panic s

/-- The loop `result.set_entry(&self.component_names[i], value.clone().unwrap_or(null))` over the
default output values (lengths are equal when it runs). -/
def defaultLoop : List (List Char) → List (Option DTValue) → List (List Char × DTValue) → List (List Char × DTValue)
  | n :: ns, d :: ds, acc => defaultLoop ns ds (ctxInsert n (d.getD .null) acc)
  | _, _, acc => acc

/-- `evaluate_default_output_value` (`decision_table.rs:132-150`, since 620a0fd): null when no
clause defines a default; for several output clauses the context of the clauses' defaults keyed
by the component names; for one clause its default.  (`default_output_values[0]` cannot fail:
the list is not empty when not all of its items are `None`.) -/
def defaultOutput (e : ETable) : DTValue :=
  if e.defaultOutputValues.all (·.isNone) then .null
  else if e.defaultOutputValues.length > 1 then
    if e.defaultOutputValues.length ≠ e.componentNames.length then .null
    else .ctx (defaultLoop e.componentNames e.defaultOutputValues [])
  else
    match e.defaultOutputValues with
    | d :: _ => d.getD .null
    | [] => .null

def hitUnique (e : ETable) : Outcome DTValue :=
  match matching e.rules with
  | [] => .ok (defaultOutput e)
  | [r] => getResult e r
  | _ :: _ :: _ => .ok .null

/-- The loop of `evaluate_hit_policy_any` (`decision_table.rs:156-161`). -/
def anyLoop (e : ETable) (first : DTValue) : List ERule → Outcome DTValue
  | [] => .ok first
  | r :: rs =>
    match getResult e r with
    | .ok v => if v ≠ first then .ok .null else anyLoop e first rs
    | .error m => .error m
    | .panic s => .panic s

def hitAny (e : ETable) : Outcome DTValue :=
  match matching e.rules with
  | [] => .ok (defaultOutput e)
  | r :: rs =>
    match getResult e r with
    | .ok first => anyLoop e first (r :: rs)
    | .error m => .error m
    | .panic s => .panic s

def hitPriority (e : ETable) : Outcome DTValue :=
  match prioritized e with
  | [] => .ok (defaultOutput e)
  | r :: _ => getResult e r

def hitFirst (e : ETable) : Outcome DTValue :=
  match matching e.rules with
  | [] => .ok (defaultOutput e)
  | r :: _ => getResult e r

def hitRuleOrder (e : ETable) : Outcome DTValue :=
  match matching e.rules with
  | [] => .ok (defaultOutput e)
  | r :: rs => getResultsList e (r :: rs)

def hitOutputOrder (e : ETable) : Outcome DTValue :=
  match prioritized e with
  | [] => .ok (defaultOutput e)
  | r :: rs => getResultsList e (r :: rs)

def hitCollectList (e : ETable) : Outcome DTValue := hitRuleOrder e

def hitCollectCount (e : ETable) : Outcome DTValue :=
  match matching e.rules with
  | [] => .ok (defaultOutput e)
  | r :: rs => .ok (.num (r :: rs).length)

/-- `.map(|r| r.output_entry_values[0].clone()).collect()`. -/
def firstOutputs (site : String) : List ERule → Outcome (List DTValue)
  | [] => .ok []
  | r :: rs =>
    match r.outputs with
    | [] => .panic site
    | v :: _ =>
      match firstOutputs site rs with
      | .ok vs => .ok (v :: vs)
      | .error m => .error m
      | .panic s => .panic s

/-! `bifs::core::sum / min / max` (`feel-evaluator/src/bifs/core.rs`, `pub fn sum`, `pub fn min`, `pub fn max`)
restricted to this value type.  `sum += v` is `dec_reduce(dec_add(..))` (`number.rs:283`): as a
value the exact sum rounded to 34 digits, `DNum.addR`; `*v < min` / `*v > max` are the numeric
order of `FeelNumber: PartialOrd`. -/

def sumLoop (acc : DNum) : List DTValue → DTValue
  | [] => .num acc
  | .num v :: vs => sumLoop (DNum.addR acc v) vs
  | _ :: _ => .null

def bifSum : List DTValue → DTValue
  | [] => .null
  | .num n :: vs => sumLoop n vs
  | _ :: _ => .null

def minNumLoop (m : DNum) : List DTValue → DTValue
  | [] => .num m
  | .num v :: vs => minNumLoop (if v < m then v else m) vs
  | _ :: _ => .null

def minStrLoop (m : List Char) : List DTValue → DTValue
  | [] => .str m
  | .str v :: vs => minStrLoop (if strLt v m then v else m) vs
  | _ :: _ => .null

def bifMin : List DTValue → DTValue
  | [] => .null
  | .num n :: vs => minNumLoop n vs
  | .str s :: vs => minStrLoop s vs
  | _ :: _ => .null

/-- `max`: any item of another kind (null included) makes the result null, as in `min`
(`core.rs:536-548`, `:550-562`; repaired by 8855d00, before it skipped nulls). -/
def maxNumLoop (m : DNum) : List DTValue → DTValue
  | [] => .num m
  | .num v :: vs => maxNumLoop (if v > m then v else m) vs
  | _ :: _ => .null

def maxStrLoop (m : List Char) : List DTValue → DTValue
  | [] => .str m
  | .str v :: vs => maxStrLoop (if strLt m v then v else m) vs
  | _ :: _ => .null

def bifMax : List DTValue → DTValue
  | [] => .null
  | .num n :: vs => maxNumLoop n vs
  | .str s :: vs => maxStrLoop s vs
  | _ :: _ => .null

def hitCollectAgg (site : String) (agg : List DTValue → DTValue) (e : ETable) : Outcome DTValue :=
  if e.componentNames.length > 1 then .ok .null
  else
    match matching e.rules with
    | [] => .ok (defaultOutput e)
    | r :: rs =>
      match firstOutputs site (r :: rs) with
      | .ok vs => .ok (agg vs)
      | .error m => .error m
      | .panic s => .panic s

/-- The closure returned by `build_decision_table_evaluator` (`decision_table.rs:395-412`). -/
def evaluate (t : Table) : Outcome DTValue :=
  let e := evalTable t
  match t.hitPolicy with
  | .unique => hitUnique e
  | .any => hitAny e
  | .priority => hitPriority e
  | .first => hitFirst e
  | .ruleOrder => hitRuleOrder e
  | .outputOrder => hitOutputOrder e
  | .collectList => hitCollectList e
  | .collectCount => hitCollectCount e
  | .collectSum => hitCollectAgg "decision_table.rs:224 evaluated_rule.output_entry_values[0]" bifSum e
  | .collectMin => hitCollectAgg "decision_table.rs:239 evaluated_rule.output_entry_values[0]" bifMin e
  | .collectMax => hitCollectAgg "decision_table.rs:254 evaluated_rule.output_entry_values[0]" bifMax e

/-! ## `parse_hit_policy_attribute` / `parse_aggregation_attribute` (`model/src/model/parser.rs:777-808`)

The attribute texts after `trim()`; `none` = attribute absent. -/

def parseAggregation : Option String → Option HitPolicy
  | none => some .collectList
  | some "COUNT" => some .collectCount
  | some "SUM" => some .collectSum
  | some "MIN" => some .collectMin
  | some "MAX" => some .collectMax
  | some _ => none

def parseHitPolicy (hp : Option String) (agg : Option String) : Option HitPolicy :=
  match hp with
  | none => some .unique
  | some "UNIQUE" => some .unique
  | some "ANY" => some .any
  | some "PRIORITY" => some .priority
  | some "FIRST" => some .first
  | some "RULE ORDER" => some .ruleOrder
  | some "OUTPUT ORDER" => some .outputOrder
  | some "COLLECT" => parseAggregation agg
  | some _ => none

/-! # The specification

Declarative reading of the property over the same given data: which rules match, and what
each hit policy prescribes as a function of the list of matching rules. -/

namespace Spec

/-- A rule matches iff every input entry is satisfied. -/
def ruleMatches (r : Rule) : Bool := r.inputs.all (· = Tri.t)

/-- The matching rules, in rule order. -/
def matchingRules (t : Table) : List Rule := t.rules.filter ruleMatches

/-- The output values of each output clause, in priority order (none: the empty list). -/
def outputValues (t : Table) : List (List DTValue) :=
  t.outputValues.map Cell.values

/-- Context from name/value pairs: later pairs win, keys sorted (what a map keyed by the
component names holds). -/
def ctxOfPairs (ps : List (List Char × DTValue)) : List (List Char × DTValue) :=
  ps.foldl (fun acc p => ctxInsert p.1 p.2 acc) []

/-- The result of one rule: its output for a single output clause, a context keyed by the
component names for several (null when the names do not pair up with the entries). -/
def result (t : Table) (r : Rule) : DTValue :=
  match r.outputs with
  | [v] => v
  | vs =>
    if vs.length = t.componentNames.length then .ctx (ctxOfPairs (t.componentNames.zip vs))
    else .null

/-- The default output entries that are defined, per clause. -/
def defaults (t : Table) : List (Option DTValue) :=
  t.defaultOutputs.map Cell.single

/-- No rule matches: the default output entry if one is defined, null otherwise; for several
output clauses a context of the clauses' defaults keyed by the component names. -/
def defaultOf (names : List (List Char)) : List (Option DTValue) → DTValue
  | [d] => d.getD .null
  | ds =>
    if ds.all (· = none) then .null
    else if ds.length = names.length then
      .ctx (ctxOfPairs (names.zip (ds.map (·.getD .null))))
    else .null

def default (t : Table) : DTValue := defaultOf t.componentNames (defaults t)

/-- Priority rank of an output value of a clause: its position in the output values of that
clause; values that are not listed rank after all listed ones. -/
def rank (ov : List DTValue) (v : DTValue) : Nat := ov.idxOf v

/-- Lexicographic `≤` on rank lists (first output clause most significant). -/
def lexLe : List Nat → List Nat → Bool
  | [], _ => true
  | _ :: _, [] => false
  | a :: as, b :: bs => a < b || (a = b && lexLe as bs)

/-- The ranks of a rule's output entries, each among the output values of its own clause
(DMN 1.3, 8.2.11: the priority of an output is given by the ordered list of output values of
its output clause; several components are compared in clause order). -/
def ranks : List (List DTValue) → List DTValue → List Nat
  | ov :: ovs, v :: vs => rank ov v :: ranks ovs vs
  | _, _ => []

def key (t : Table) (r : Rule) : List Nat := ranks (outputValues t) r.outputs

def prioLe (t : Table) (a b : Rule) : Bool := lexLe (key t a) (key t b)

/-- The numbers of a list all of whose items are numbers. -/
def allNums : List DTValue → Option (List DNum)
  | [] => some []
  | .num n :: vs => (allNums vs).map (n :: ·)
  | _ :: _ => none

/-- The strings of a list all of whose items are strings. -/
def allStrs : List DTValue → Option (List (List Char))
  | [] => some []
  | .str s :: vs => (allStrs vs).map (s :: ·)
  | _ :: _ => none

def minNum (n : DNum) (ns : List DNum) : DNum := ns.foldl (fun m v => if v < m then v else m) n
def maxNum (n : DNum) (ns : List DNum) : DNum := ns.foldl (fun m v => if v > m then v else m) n
def minStr (s : List Char) (ss : List (List Char)) : List Char := ss.foldl (fun m v => if strLt v m then v else m) s
def maxStr (s : List Char) (ss : List (List Char)) : List Char := ss.foldl (fun m v => if strLt m v then v else m) s

/-- Sum of the values when all are numbers, null otherwise: added from the left, each partial
sum rounded to the 34 digits of a FEEL number (`DNum.addR`); the exact sum `ns.foldl (· + ·) n`
whenever every partial sum has at most 34 digits (`Props/C03.lean`, `sum_exact`). -/
def sum (vs : List DTValue) : DTValue :=
  match allNums vs with
  | some (n :: ns) => .num (ns.foldl DNum.addR n)
  | _ => .null

/-- Minimum when all values are numbers, or all are strings; null otherwise. -/
def min (vs : List DTValue) : DTValue :=
  match allNums vs, allStrs vs with
  | some (n :: ns), _ => .num (minNum n ns)
  | _, some (s :: ss) => .str (minStr s ss)
  | _, _ => .null

/-- Maximum when all values are numbers, or all are strings; null otherwise. -/
def max (vs : List DTValue) : DTValue :=
  match allNums vs, allStrs vs with
  | some (n :: ns), _ => .num (maxNum n ns)
  | _, some (s :: ss) => .str (maxStr s ss)
  | _, _ => .null

/-- What the hit policy prescribes. -/
def evaluate (t : Table) : DTValue :=
  let ms := matchingRules t
  if ms.isEmpty then
    match t.hitPolicy with
    | .collectSum | .collectMin | .collectMax =>
      if t.componentNames.length > 1 then .null else default t
    | _ => default t
  else
    match t.hitPolicy with
    | .unique =>
      match ms with
      | [r] => result t r
      | _ => .null
    | .any =>
      match ms with
      | r :: rs => if rs.all (fun r' => result t r' = result t r) then result t r else .null
      | [] => .null
    | .first => (ms.head?.map (result t)).getD .null
    | .priority =>
      -- the first matching rule whose key is minimal among the matching rules
      ((ms.find? (fun r => ms.all (fun r' => prioLe t r r'))).map (result t)).getD .null
    | .ruleOrder | .collectList => .list (ms.map (result t))
    | .outputOrder => .list ((ms.mergeSort (prioLe t)).map (result t))
    | .collectCount => .num ms.length
    | .collectSum =>
      if t.componentNames.length > 1 then .null else sum (ms.map (fun r => r.outputs.headD .null))
    | .collectMin =>
      if t.componentNames.length > 1 then .null else min (ms.map (fun r => r.outputs.headD .null))
    | .collectMax =>
      if t.componentNames.length > 1 then .null else max (ms.map (fun r => r.outputs.headD .null))

end Spec

/-- What `parse_decision_table` guarantees about an evaluated table when it returns `Ok`
(it rejects a table without output clause and a rule whose number of entries differs from
the number of clauses, `decision_table.rs:292-307`): every rule carries exactly one output
value per output clause, and there is at least one output clause. -/
def Table.WF (t : Table) : Bool :=
  decide (t.outputValues.length ≥ 1) && decide (t.defaultOutputs.length = t.outputValues.length) &&
    t.rules.all (fun r => r.outputs.length = t.outputValues.length)

end Dmn.DT
