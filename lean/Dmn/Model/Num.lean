/-!
# Numbers as the evaluator sees them

`Dec` is a finite decimal128 value `(-1)^neg · coeff · 10^exp`.  This file holds what the
evaluator model needs and what does not depend on rounding: exact comparison, integer
tests and conversions.  Correctly rounded arithmetic lives in `Dmn/Model/Dec.lean`
(property C02); until that is wired in, `add/sub/mul` here are *exact* and therefore
agree with the code only while the exact result has at most 34 digits and an exponent in
range — the correspondence generators for the evaluator stay inside that region.
-/

namespace Dmn

structure Dec where
  neg : Bool
  coeff : Nat
  exp : Int
  deriving Repr, Inhabited, DecidableEq

inductive DecR where
  | fin (d : Dec)
  | inf (neg : Bool)
  | nan
  deriving Repr, Inhabited

namespace Dec

def zero : Dec := ⟨false, 0, 0⟩
def one : Dec := ⟨false, 1, 0⟩
def ofNat (n : Nat) : Dec := ⟨false, n, 0⟩
def ofInt (i : Int) : Dec := ⟨decide (i < 0), i.natAbs, 0⟩

def isZero (d : Dec) : Bool := d.coeff == 0

/-- the signed coefficient -/
def scoeff (d : Dec) : Int := if d.neg then - (d.coeff : Int) else d.coeff

/-- `a` and `b` brought to the common exponent `min a.exp b.exp` (signed coefficients). -/
def align (a b : Dec) : Int × Int × Int :=
  let e := min a.exp b.exp
  (a.scoeff * (10 : Int) ^ (a.exp - e).toNat, b.scoeff * (10 : Int) ^ (b.exp - e).toNat, e)

/-- `decQuadCompare`: numeric comparison; trailing zeros and the sign of zero are irrelevant. -/
def cmp (a b : Dec) : Ordering :=
  let (x, y, _) := align a b
  compare x y

def beq (a b : Dec) : Bool := cmp a b == .eq
def lt (a b : Dec) : Bool := cmp a b == .lt
def le (a b : Dec) : Bool := cmp a b != .gt

/-- `decQuadMinus`: flips the sign; a zero gets sign 0 (`decBasic.c:2640`). -/
def negate (d : Dec) : Dec := if d.coeff == 0 then { d with neg := false } else { d with neg := !d.neg }
def abs (d : Dec) : Dec := { d with neg := false }

/-- `decQuadIsNegative`: sign bit set and not zero (`decBasic.c:2424`). -/
def isNegative (d : Dec) : Bool := d.neg && d.coeff != 0

/-- `decQuadIsInteger` is `DFISINT`: the *exponent is 0* (`decNumberLocal.h:407`) — not
"the value is integral": `1.0` and `1E+1` are not integers in this sense. -/
def isInteger (d : Dec) : Bool := d.exp == 0

/-- Strips trailing zeros of the coefficient (`decNumberReduce`); a zero becomes `0E0`
keeping its sign. `fuel` bounds the loop (34 digits at most). -/
def stripZeros : Nat → Nat → Int → Nat × Int
  | 0, c, e => (c, e)
  | fuel + 1, c, e => if c != 0 && c % 10 == 0 then stripZeros fuel (c / 10) (e + 1) else (c, e)

def reduce (d : Dec) : Dec :=
  if d.coeff == 0 then ⟨d.neg, 0, 0⟩
  else
    let (c, e) := stripZeros 120 d.coeff d.exp
    ⟨d.neg, c, e⟩

def isOne (d : Dec) : Bool := cmp d one == .eq

/-- `decQuadToIntegralValue(…, DEC_ROUND_DOWN)`: a number with a non-negative exponent is
returned as it is; otherwise the fraction digits are dropped and the exponent becomes 0. -/
def trunc (d : Dec) : Dec :=
  if d.exp ≥ 0 then d else ⟨d.neg, d.coeff / 10 ^ (-d.exp).toNat, 0⟩

/-- The number as an integer when it has no fractional part. -/
def toInt? (d : Dec) : Option Int :=
  if d.exp ≥ 0 then some (d.scoeff * (10 : Int) ^ d.exp.toNat)
  else if d.coeff % 10 ^ (-d.exp).toNat == 0 then
    some (if d.neg then - ((d.coeff / 10 ^ (-d.exp).toNat : Nat) : Int) else (d.coeff / 10 ^ (-d.exp).toNat : Nat))
  else none

/-- `usize::try_from(&FeelNumber)` is `to_string().parse::<usize>()` (`number.rs:53`): the
plain text must consist of digits only, so a negative sign (also of `-0`) or a decimal
point (any negative exponent, also `2.0`) makes it fail, as does a value above `2^64-1`. -/
def toUsize? (d : Dec) : Option Nat :=
  if d.neg then none
  else if d.exp < 0 then none
  else
    let v := d.coeff * 10 ^ d.exp.toNat
    if v < 2 ^ 64 then some v else none

/-- `isize::try_from(&FeelNumber)`: same route; `-` is accepted by `parse::<isize>`. -/
def toIsize? (d : Dec) : Option Int :=
  if d.exp < 0 then none
  else
    let v := d.scoeff * (10 : Int) ^ d.exp.toNat
    if -(2 : Int) ^ 63 ≤ v ∧ v < (2 : Int) ^ 63 then some v else none

/-- `FeelNumber::is_integer` (`number.rs:132`): the value is integral, whatever the exponent -/
def isIntegral (d : Dec) : Bool := d.exp ≥ 0 || d.coeff % 10 ^ (-d.exp).toNat == 0

/-- The number whose plain text `usize::try_from` / `isize::try_from` parse (`number.rs:53`):
the integral form `trunc()` of an integral value (`1.0` ↦ `1`), the number itself otherwise. -/
def integralForm (d : Dec) : Dec := if isIntegral d then trunc d else d

/-- `FeelNumber::to_usize` -/
def toUsizeV? (d : Dec) : Option Nat := (integralForm d).toUsize?

/-- `FeelNumber::to_isize` -/
def toIsizeV? (d : Dec) : Option Int := (integralForm d).toIsize?

def ofSigned (c : Int) (e : Int) : Dec := ⟨decide (c < 0), c.natAbs, e⟩

/-- exact sum (see the header) -/
def addExact (a b : Dec) : Dec :=
  let (x, y, e) := align a b
  let s := x + y
  if s == 0 then ⟨a.neg && b.neg, 0, e⟩ else ofSigned s e

def subExact (a b : Dec) : Dec := addExact a { b with neg := !b.neg }

def mulExact (a b : Dec) : Dec := ⟨a.neg != b.neg, a.coeff * b.coeff, a.exp + b.exp⟩

end Dec
end Dmn
