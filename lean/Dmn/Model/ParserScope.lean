import Dmn.Gen.ParserScope

/-!
# The parsing scope under the reduce actions of the FEEL parser (C13, parser half)

`feel-parser/src/parser.rs` is an LALR driver: `Parser::parse` (parser.rs:169-315) shifts tokens and,
for every reduction by rule `r`, calls `lalr::reduce(self, r)` (parser.rs:262, lalr.rs:349), which
dispatches to one `fn action_<name>`.  Nothing else in the driver touches `self.scope`
(`Dmn.Gen.ParserScope.otherScopeWrites`).  An LR parser reduces the rules of the derivation tree of
its input bottom-up and left to right — a node after all its children; a mid-rule action is the empty
nonterminal `$@k`, a child like any other — so the scope effects of a successful parse are the
post-order trace of the derivation tree (`Deriv.trace`).

The table (`Dmn.Gen.ParserScope`) is regenerated from the sources on every run.  This file defines,
over that table: derivation trees, their trace, and two semantics of a trace —

* `runDepth`: how many contexts of its own the parse has on the scope; `none` as soon as an effect
  reaches below them (a pop of a caller's context, a `set_entry` into a caller's context) or is `unknown`;
* `runOwn` / `runScope`: the contexts themselves (`Scope` is a `Vec<FeelContext>`, feel/src/scope.rs:50-54;
  `push` :104, `pop` :108 — `None` on an empty stack —, `set_entry` :147 — into the last context, if any).
-/

namespace Dmn.ParserScope
open Dmn.Gen.ParserScope

/-! ## The table the driver executes -/

/-- left-hand side of rule `r` (feel.y; `driver_table_agrees`: the same as `YY_R1[r]`) -/
def ruleLhs (r : Nat) : Nat := (grammar.getD r default).lhs

/-- right-hand side of rule `r` (feel.y; its length is `YY_R2[r]`) -/
def ruleRhs (r : Nat) : List Nat := (grammar.getD r default).rhs

/-- What reducing rule `r` does to the scope: the effects of the action `fn reduce` (lalr.rs:349)
dispatches to; no arm: `_ => Ok(())`.  An action the translator did not find: `unknown`. -/
def ruleEff (r : Nat) : List Eff :=
  match drvReduce.getD r none with
  | none => []
  | some a => actionEffects.getD a [.unknown]

/-- (need, out) of a symbol: terminals have no effect. -/
def needOf (s : Nat) : Nat := if s < nTerminals then 0 else (summary.getD (s - nTerminals) (0, 0)).1
def outOf (s : Nat) : Nat := if s < nTerminals then 0 else (summary.getD (s - nTerminals) (0, 0)).2

/-! ## Derivation trees -/

/-- A derivation tree: a terminal, or a rule with one child per right-hand side symbol. -/
inductive Deriv where
  | leaf (sym : Nat)
  | node (rule : Nat) (kids : List Deriv)
  deriving Repr, Inhabited

/-- The symbol a tree derives. -/
def Deriv.sym : Deriv → Nat
  | .leaf s => s
  | .node r _ => ruleLhs r

def symsOf : List Deriv → List Nat
  | [] => []
  | k :: ks => k.sym :: symsOf ks

mutual
/-- The scope effects in the order the LR driver executes them: children first, left to right, then
the rule's own action. -/
def Deriv.trace : Deriv → List Eff
  | .leaf _ => []
  | .node r ks => traceAll ks ++ ruleEff r
def traceAll : List Deriv → List Eff
  | [] => []
  | k :: ks => k.trace ++ traceAll ks
end

mutual
/-- Well-formed: every leaf is a terminal, every node uses a rule of the table (rule 0 is bison's
filler) and its children derive exactly the symbols of the rule's right-hand side. -/
def Deriv.wf : Deriv → Bool
  | .leaf s => decide (s < nTerminals)
  | .node r ks => decide (0 < r) && decide (r < grammar.length) && (symsOf ks == ruleRhs r) && wfAll ks
def wfAll : List Deriv → Bool
  | [] => true
  | k :: ks => k.wf && wfAll ks
end

/-! ## Depth semantics -/

/-- One effect at relative depth `d` (the number of contexts the parse itself has pushed and not yet
popped).  At depth 0 the top of the scope is the caller's: `pop` would remove it, `set_entry` would write
into it. -/
def stepDepth (d : Nat) : Eff → Option Nat
  | .push => some (d + 1)
  | .pop => if d = 0 then none else some (d - 1)
  | .setEntry => if d = 0 then none else some d
  | .maySetEntry => if d = 0 then none else some d
  | .unknown => none

def runDepth (d : Nat) : List Eff → Option Nat
  | [] => some d
  | e :: es => match stepDepth d e with
    | none => none
    | some d' => runDepth d' es

/-! ## The table check (decided over the regenerated table) -/

/-- Depth after the children of a rule, entered at depth `c`: each child needs its `need`. -/
def seqCheck (c : Nat) : List Nat → Option Nat
  | [] => some c
  | s :: ss => if needOf s ≤ c then seqCheck (c - needOf s + outOf s) ss else none

/-- Rule `r` is locally balanced with respect to the summaries: entered at the `need` of its left-hand
side, each child finds its own `need`, and after the children the rule's action runs without reaching
below the parse's own contexts and ends at the `out` of the left-hand side. -/
def ruleOk (r : Nat) : Bool :=
  match seqCheck (needOf (ruleLhs r)) (ruleRhs r) with
  | none => false
  | some c => runDepth c (ruleEff r) == some (outOf (ruleLhs r))

def tableOk : Bool := (List.range grammar.length).all ruleOk

/-- feel.y and the tables of the driver describe the same rules: same number, same left-hand sides, same
right-hand side lengths, same action per rule; the terminals of feel.y are the `YY_N_TOKENS` of lalr.rs. -/
def driverAgrees : Bool :=
  (grammar.map (·.lhs) == drvR1) && (grammar.map (·.rhs.length) == drvR2) && (grammar.map (·.act) == drvReduce)
    && (nTerminals == drvNTokens)

/-- Every public entry point selects, by its pseudo start token, a rule of the start symbol (and every
such token is the first symbol of exactly one rule). -/
def entryPointsOk : Bool :=
  entryTokens.all fun t =>
    ((List.range grammar.length).filter fun r => ruleLhs r == startSymbol && (ruleRhs r).head? == some t).length == 1

/-! ## Context semantics -/

/-- What is needed of `FeelContext`: the default context and `set_entry`. -/
structure CtxOps (Ctx Name : Type) where
  empty : Ctx
  set : Ctx → Name → Ctx

/-- A concrete effect: `set n` is `Scope::set_entry(n, null)`. -/
inductive CEff (Name : Type) where
  | push | pop
  | set (n : Name)

/-- The concrete effect sequences an abstract trace stands for: the names are those of the input,
a `maySetEntry` writes any number of them, an `unknown` does anything. -/
inductive Resolves {Name : Type} : List Eff → List (CEff Name) → Prop
  | nil : Resolves [] []
  | push {es cs} : Resolves es cs → Resolves (.push :: es) (.push :: cs)
  | pop {es cs} : Resolves es cs → Resolves (.pop :: es) (.pop :: cs)
  | setEntry {es cs} (n : Name) : Resolves es cs → Resolves (.setEntry :: es) (.set n :: cs)
  | maySetEntry {es cs} (ns : List Name) : Resolves es cs → Resolves (.maySetEntry :: es) (ns.map .set ++ cs)
  | unknown {es cs} (xs : List (CEff Name)) : Resolves es cs → Resolves (.unknown :: es) (xs ++ cs)

/-- The scope as the code has it: a stack of contexts, head = top (`Vec` end).
`pop` of an empty stack does nothing (`Vec::pop` → `None`, scope.rs:108); `set_entry` without a context
does nothing (`if let Some(context) = … last_mut()`, scope.rs:148). -/
def stepScope {Ctx Name : Type} (ops : CtxOps Ctx Name) (s : List Ctx) : CEff Name → List Ctx
  | .push => ops.empty :: s
  | .pop => s.tail
  | .set n => match s with
    | [] => []
    | c :: rest => ops.set c n :: rest

def runScope {Ctx Name : Type} (ops : CtxOps Ctx Name) (s : List Ctx) (cs : List (CEff Name)) : List Ctx :=
  cs.foldl (stepScope ops) s

/-- The same machine restricted to the contexts the parse pushed itself (`own`): `none` as soon as an
effect would reach a context below them. -/
def stepOwn {Ctx Name : Type} (ops : CtxOps Ctx Name) (own : List Ctx) : CEff Name → Option (List Ctx)
  | .push => some (ops.empty :: own)
  | .pop => match own with
    | [] => none
    | _ :: rest => some rest
  | .set n => match own with
    | [] => none
    | c :: rest => some (ops.set c n :: rest)

def runOwn {Ctx Name : Type} (ops : CtxOps Ctx Name) (own : List Ctx) : List (CEff Name) → Option (List Ctx)
  | [] => some own
  | e :: es => match stepOwn ops own e with
    | none => none
    | some own' => runOwn ops own' es

end Dmn.ParserScope
