import Dmn.Model.Value
import Dmn.Model.Ops

/-!
# `core::sort` with a user ordering function (`feel-evaluator/src/bifs/core.rs`, `merge_sort`)

Since f38c8b6 the built-in sorts with its own stable merge sort on the user's `precedes`
relation, which need not be a total order (the library sort panics on an inconsistent
comparator).  `merge` takes an item of the right half first only when it precedes the head
of the left half; `mergeSort` splits at `len / 2` like `split_off`.
-/

namespace Dmn.Bif

/-- the merge loop: `while let (Some(l), Some(r)) = (left.peek(), right.peek())` -/
def merge {α : Type} (p : α → α → Bool) : List α → List α → List α
  | [], rs => rs
  | ls, [] => ls
  | l :: ls, r :: rs =>
    if p r l then r :: merge p (l :: ls) rs else l :: merge p ls (r :: rs)
termination_by ls rs => ls.length + rs.length

/-- `merge_sort`, with fuel for the depth of the recursion (`xs.length` always suffices) -/
def mergeSortFuel {α : Type} (p : α → α → Bool) : Nat → List α → List α
  | 0, xs => xs
  | fuel + 1, xs =>
    if xs.length < 2 then xs
    else
      -- `items.split_off(items.len() / 2)`: the first half stays, the rest is split off
      let left := xs.take (xs.length / 2)
      let right := xs.drop (xs.length / 2)
      merge p (mergeSortFuel p fuel left) (mergeSortFuel p fuel right)

def mergeSort {α : Type} (p : α → α → Bool) (xs : List α) : List α := mergeSortFuel p xs.length xs

end Dmn.Bif
