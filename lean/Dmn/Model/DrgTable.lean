import Dmn.Model.Eval
import Dmn.Model.DecisionTable
import Dmn.Model.ItemDef

/-!
# Decision tables inside requirement graphs (`builders/decision_table.rs:270-412`)

A decision table as decision logic, as the body of a knowledge model or as an entry of a boxed
context is evaluated in two stages, as `build_decision_table_evaluator` does:

1. `evalCells` — `evaluate_parsed_decision_table`: the cells are FEEL expressions evaluated by
   the shared evaluator model in the scope of the enclosing element: per input entry the node
   `In(input expression, input entry)` (conjoined with `In(input expression, input values)` when
   the clause has input values), per output entry the entry itself or `Out(entry, output
   values)`, the output values and the default output entries (unary tests).
2. `finish` — the hit policy on the matrix of evaluated cells: the model of C03
   (`Dmn.DT.evaluate`, proved equal to `Dmn.DT.Spec.evaluate`).  C03 works on its own value
   type `DTValue`; `toDT` / `ofDT` translate (numbers as their exact decimal value `DNum`,
   strings, booleans, null, lists, contexts; anything else makes the answer `unsupported`,
   which the correspondence skips).  `DNum` holds the *value* of a number, not its
   representation: a number whose representation is not the normal form already (a fraction
   written with trailing zeros, `1.10`) would come back from the table as `1.1`, which the
   evaluator model can tell apart (`string(1.10)`); `toDT` answers `none` for it
   (`DNum.reducedRep`), all other numbers — every integer, every fraction without trailing
   zero — pass.

A table is carried in `Ast` like the other boxed expressions: `Boxed.table`.
-/

namespace Dmn

namespace DT

mutual
/-- A FEEL value as a value of the model layer (C03, C11); `none` when it has no counterpart. -/
def toDT : Value → Option DTValue
  | .null => some .null
  | .bool b => some (.bool b)
  | .num d => if DNum.reducedRep d then some (.num (DNum.ofDec d)) else none
  | .str s => some (.str s.toList)
  | .list vs => (toDTList vs).map .list
  | .ctx es => (toDTEntries es).map .ctx
  | _ => none
def toDTList : List Value → Option (List DTValue)
  | [] => some []
  | v :: vs =>
    match toDT v, toDTList vs with
    | some x, some xs => some (x :: xs)
    | _, _ => none
def toDTEntries : List (String × Value) → Option (List (List Char × DTValue))
  | [] => some []
  | (k, v) :: es =>
    match toDT v, toDTEntries es with
    | some x, some xs => some ((k.toList, x) :: xs)
    | _, _ => none
end

mutual
/-- Back: the number with exponent `-scale` (an integer: exponent 0). -/
def ofDT : DTValue → Value
  | .null => .null
  | .bool b => .bool b
  | .num n => .num n.toDec
  | .str s => .str (String.ofList s)
  | .atom _ _ => .null
  | .list xs => .list (ofDTList xs)
  | .ctx es => .ctx (ofDTEntries es)
def ofDTList : List DTValue → List Value
  | [] => []
  | x :: xs => ofDT x :: ofDTList xs
def ofDTEntries : List (List Char × DTValue) → List (String × Value)
  | [] => []
  | (k, x) :: es => (String.ofList k, ofDT x) :: ofDTEntries es
end

end DT

namespace Boxed

/-- absent optional cell / name -/
def absent : Ast := .commaList []

/-- A decision table: hit policy (`U`, `A`, `P`, `F`, `R`, `O`, `C`, `C#`, `C+`, `C<`, `C>`),
input clauses `range inputExpression (inputValues | absent)`, output clauses
`between (parameterName name | absent) (outputValues | absent) (defaultOutputEntry | absent)`,
rules `contextEntry (expressionList inputEntries) (expressionList outputEntries)`. -/
def table (hitPolicy : String) (inputs outputs rules : List Ast) : Ast :=
  .commaList [.instanceOf (.string hitPolicy)
    (.expressionList [.expressionList inputs, .expressionList outputs, .expressionList rules])]

end Boxed

namespace Drg

open DT

def hitPolicyOf : String → Option HitPolicy
  | "U" => some .unique | "A" => some .any | "P" => some .priority | "F" => some .first
  | "R" => some .ruleOrder | "O" => some .outputOrder | "C" => some .collectList
  | "C#" => some .collectCount | "C+" => some .collectSum | "C<" => some .collectMin
  | "C>" => some .collectMax
  | _ => none

/-- an optional cell -/
def optCell : Ast → Option Ast
  | .commaList [] => none
  | a => some a

/-- The matrix of evaluated cells, as FEEL values. -/
structure RawTable where
  hitPolicy : HitPolicy
  componentNames : List String
  /-- one per output clause: what the output values cell evaluated to (`none`: no cell) -/
  outputValues : List (Option Value)
  defaultOutputs : List (Option Value)
  /-- per rule: the values of the input-entry evaluators and of the output-entry evaluators -/
  rules : List (List Value × List Value)

/-- The node of an input entry (`decision_table.rs:296-306`). -/
def inputEntryNode (clause entry : Ast) : Ast :=
  match clause with
  | .range inputExpression inputValues =>
    match optCell inputValues with
    | some values => .and (.in inputExpression values) (.in inputExpression entry)
    | none => .in inputExpression entry
  | _ => entry

/-- The node of an output entry (`decision_table.rs:310-318`). -/
def outputEntryNode (clause entry : Ast) : Ast :=
  match clause with
  | .between _ outputValues _ =>
    match optCell outputValues with
    | some values => .out entry values
    | none => entry
  | _ => entry

def zipNodes (f : Ast → Ast → Ast) : List Ast → List Ast → List Ast
  | c :: cs, e :: es => f c e :: zipNodes f cs es
  | _, _ => []

/-- an optional cell evaluated, `none` when it is absent -/
def evalOptCell (env : Env) (cell : Ast) : EvalM (Option Value) :=
  match optCell cell with
  | some a => do
    let v ← Eval.evalStep env a
    pure (some v)
  | none => pure none

def evalOptCells (env : Env) : List Ast → EvalM (List (Option Value))
  | [] => pure []
  | c :: cs => do
    let v ← evalOptCell env c
    let vs ← evalOptCells env cs
    pure (v :: vs)

def outputValuesCell : Ast → Ast
  | .between _ ov _ => ov
  | _ => Boxed.absent

def defaultCell : Ast → Ast
  | .between _ _ d => d
  | _ => Boxed.absent

def componentName : Ast → Option String
  | .between (.parameterName n) _ _ => some n
  | _ => none

/-- the input entries and output entries of a rule -/
def ruleEntries : Ast → Option (List Ast × List Ast)
  | .contextEntry (.expressionList inputEntries) (.expressionList outputEntries) => some (inputEntries, outputEntries)
  | _ => none

/-- The rules loop of `evaluate_parsed_decision_table`. -/
def evalRules (env : Env) (inputs outputs : List Ast) : List Ast → EvalM (List (List Value × List Value))
  | [] => pure []
  | r :: rs =>
    match ruleEntries r with
    | some (inputEntries, outputEntries) => do
      let ins ← Eval.evalList env (zipNodes inputEntryNode inputs inputEntries)
      let outs ← Eval.evalList env (zipNodes outputEntryNode outputs outputEntries)
      let rest ← evalRules env inputs outputs rs
      pure ((ins, outs) :: rest)
    | none => evalRules env inputs outputs rs

/-- `evaluate_parsed_decision_table`: output values, default output entries, then the rules. -/
def evalCells (env : Env) (hp : HitPolicy) (inputs outputs rules : List Ast) : EvalM RawTable := do
  let ov ← evalOptCells env (outputs.map outputValuesCell)
  let defs ← evalOptCells env (outputs.map defaultCell)
  let rs ← evalRules env inputs outputs rules
  pure { hitPolicy := hp, componentNames := outputs.filterMap componentName, outputValues := ov,
         defaultOutputs := defs, rules := rs }

/-- `Value::is_true` and what else an input-entry evaluator can return. -/
def triOf : Value → Tri
  | .bool true => .t
  | .bool false => .f
  | _ => .o

/-- What an optional unary-tests cell evaluated to. -/
def cellOf : Option Value → Option Cell
  | none => some .none
  | some (.exprList vs) => (toDTList vs).map .exprList
  | some _ => some .other

def cellsOf : List (Option Value) → Option (List Cell)
  | [] => some []
  | c :: cs =>
    match cellOf c, cellsOf cs with
    | some x, some xs => some (x :: xs)
    | _, _ => none

def rulesOf : List (List Value × List Value) → Option (List Rule)
  | [] => some []
  | (ins, outs) :: rs =>
    match toDTList outs, rulesOf rs with
    | some os, some rest => some (⟨ins.map triOf, os⟩ :: rest)
    | _, _ => none

/-- The table of C03 for a matrix of evaluated cells. -/
def RawTable.toTable (r : RawTable) : Option Table :=
  match cellsOf r.outputValues, cellsOf r.defaultOutputs, rulesOf r.rules with
  | some ov, some defs, some rules =>
    some { hitPolicy := r.hitPolicy, componentNames := r.componentNames.map String.toList,
           outputValues := ov, defaultOutputs := defs, rules := rules }
  | _, _, _ => none

/-- The hit policy on the evaluated cells (`decision_table.rs:395-412`, model of C03). -/
def finishTable (r : RawTable) : Outcome Value :=
  match r.toTable with
  | none => .ok Value.unsupported
  | some t =>
    match DT.evaluate t with
    | .ok v => .ok (ofDT v)
    | .error e => .panic e
    | .panic site => .panic site

/-- The closure `build_decision_table_evaluator` returns. -/
def evalTable (env : Env) (hitPolicy : String) (inputs outputs rules : List Ast) : EvalM Value :=
  match hitPolicyOf hitPolicy with
  | none => pure .null
  | some hp => do
    let raw ← evalCells env hp inputs outputs rules
    EvalM.lift (finishTable raw)

end Drg
end Dmn
