import Dmn.Model.Workspace
import Dmn.Model.Json
import Dmn.Model.DtoJson

/-!
# The HTTP handlers of `server/src/server.rs` as functions onto the workspace model

`do_add_definitions`, `do_replace_definitions`, `do_remove_definitions`,
`do_clear_definitions`, `do_deploy_definitions`, `do_evaluate` (`server.rs:425-551`),
statement by statement, over `Dmn.WS.State` (the model of `Workspace`, property C17).

Not modelled (parameters of the model): actix-web routing and JSON extraction, `base64`,
UTF-8 validation and the XML parser (the three fields of `Codec`), the model evaluator (the
`eval` oracle: what a deployed model answers — properties C01–C04), the `RwLock` around
the workspace (every handler runs under one lock acquisition, `server.rs:215-313`).
-/

namespace Dmn.Server
open Dmn.WS Dmn.Json

/-- The three decoding steps applied to the `content` parameter. -/
structure Codec where
  /-- `base64::decode(content)` -/
  base64 : List Char → Option (List Nat)
  /-- `String::from_utf8(bytes)` -/
  utf8 : List Nat → Option (List Char)
  /-- `dmntk_model::parse(&xml)`: the error text, or the definitions (namespace, name, and
  whether `ModelEvaluator::new` will succeed for them) -/
  parse : List Char → Except (List Char) Def

/-- The errors a handler can answer with (`server/src/errors.rs`, `workspace/src/errors.rs`). -/
inductive Err where
  | missingParameter (name : String)
  | invalidBase64
  | invalidUtf8
  /-- the XML parser's own error, passed through -/
  | parse (msg : List Char)
  | namespaceExists (ns : String)
  | nameExists (name : String)
  | notDeployed (model : String)
  /-- `evaluate_context` rejected the request body -/
  | input (msg : List Char)
  deriving Repr, DecidableEq

/-- `DmntkError`'s `Display`: `<source>: <message>`. -/
def Err.message : Err → List Char
  | .missingParameter n => ("ServerError: missing parameter '" ++ n ++ "'").toList
  | .invalidBase64 => "ServerError: invalid Base64 encoding".toList
  | .invalidUtf8 => "ServerError: invalid UTF-8 content".toList
  | .parse m => m
  | .namespaceExists ns => ("WorkspaceError: definitions with namespace '" ++ ns ++ "' already exist in workspace").toList
  | .nameExists n => ("WorkspaceError: definitions with name '" ++ n ++ "' already exist in workspace").toList
  | .notDeployed m => ("WorkspaceError: model evaluator for definitions '" ++ m ++ "' is not deployed").toList
  | .input m => m

inductive Resp where
  /-- `AddDefinitionsResult { namespace, name }` -/
  | added (ns name : String)
  /-- `StatusResult { status }` -/
  | status (text : String)
  /-- the evaluated value, rendered by `jsonify` -/
  | value (v : JV)
  /-- the answer of `POST /tck/evaluate`: `ResultDto::data(OutputNodeDto)` through `serde_json` -/
  | tck (o : Dmn.Dto.OutputNode)
  | error (e : Err)

def Resp.isError : Resp → Bool
  | .error _ => true
  | _ => false

/-- The nested `if let`s of `do_add_definitions` / `do_replace_definitions`
(`server.rs:434-455`, `:460-483`) up to the workspace call. -/
def classify (c : Codec) (content : Option (List Char)) : Except Err Def :=
  match content with
  | none => .error (.missingParameter "content")       -- Err(err_missing_parameter("content"))
  | some text =>
    match c.base64 text with
    | none => .error .invalidBase64                     -- Err(err_invalid_base64_encoding())
    | some bytes =>
      match c.utf8 bytes with
      | none => .error .invalidUtf8                     -- Err(err_invalid_utf8_content())
      | some xml =>
        match c.parse xml with
        | .error m => .error (.parse m)                 -- Err(reason) => Err(reason)
        | .ok d => .ok d

/-- `workspace.add(definitions)?` seen from the handler. -/
def addResult (d : Def) (ok : Resp) : State × Res → State × Resp
  | (s, .ok) => (s, ok)
  | (s, .errNamespaceExists) => (s, .error (.namespaceExists d.ns))
  | (s, .errNameExists) => (s, .error (.nameExists d.name))

/-- `do_add_definitions` (`server.rs:434-455`). -/
def do_add (c : Codec) (s : State) (content : Option (List Char)) : State × Resp :=
  match classify c content with
  | .error e => (s, .error e)
  | .ok d => addResult d (.added d.ns d.name) (WS.add s d)

/-- `do_replace_definitions` (`server.rs:460-483`): `workspace.replace(definitions)?`. -/
def do_replace (c : Codec) (s : State) (content : Option (List Char)) : State × Resp :=
  match classify c content with
  | .error e => (s, .error e)
  | .ok d => addResult d (.status "definitions replaced") (WS.replace s d)

/-- `do_remove_definitions` (`server.rs:486-499`). -/
def do_remove (s : State) (ns name : Option String) : State × Resp :=
  match ns with
  | some ns =>
    match name with
    | some name => (WS.remove s ns name, .status "definitions removed")
    | none => (s, .error (.missingParameter "name"))
  | none => (s, .error (.missingParameter "namespace"))

/-- `do_clear_definitions` (`server.rs:425-430`). -/
def do_clear (s : State) : State × Resp := (WS.clear s, .status "definitions cleared")

/-- `do_deploy_definitions` (`server.rs:503-510`; `Workspace::deploy` always returns `Ok`). -/
def do_deploy (s : State) : State × Resp := (WS.deploy s, .status "definitions deployed")

/-- `do_evaluate` (`server.rs:537-551`) under the read lock: the workspace is not changed.
`input` is what `evaluate_context` made of the request body; `eval` is the deployed model
evaluator's answer. -/
def do_evaluate {I : Type} (eval : String → String → I → JV) (s : State) (model invocable : Option String)
    (input : Except (List Char) I) : State × Resp :=
  match model with
  | some model =>
    match invocable with
    | some invocable =>
      match input with
      | .error m => (s, .error (.input m))
      | .ok i =>
        if WS.canEvaluate s model then (s, .value (eval model invocable i))
        else (s, .error (.notDeployed model))
    | none => (s, .error (.missingParameter "invocable"))
  | none => (s, .error (.missingParameter "model"))

/-! ## The TCK endpoint -/

/-- The answer of `POST /tck/evaluate`: `ResultDto::data(OutputNodeDto)` or `ResultDto::error(reason)`
(`server.rs:282-292`); `O` is the output DTO. -/
inductive TckResp (O : Type) where
  | value (o : O)
  | error (e : Err)

def TckResp.isError {O : Type} : TckResp O → Bool
  | .error _ => true
  | _ => false

/-- `do_evaluate_tck` (`server.rs:522-541`) under the read lock: the workspace is not changed.
`input`: `none` when the request has no `input` member, `some (.error m)` when
`WrappedValue::try_from(input_values)` / `FeelContext::try_from` failed with the message `m` (the
DTO conversion of `Dmn/Model/Dto.lean`), `some (.ok i)` the input context.  `evalT` is the deployed
model evaluator's answer converted by `try_into()` into an `OutputNodeDto`: `.error m` when the
value has no TCK form.  Messages of conversions are passed through (`Err.input`). -/
def do_evaluate_tck {I O : Type} (evalT : String → String → I → Except (List Char) O) (s : State)
    (model invocable : Option String) (input : Option (Except (List Char) I)) : State × TckResp O :=
  match model with
  | some model =>
    match invocable with
    | some invocable =>
      match input with
      | some input =>
        match input with
        | .error m => (s, .error (.input m))                       -- `?` on the conversion
        | .ok i =>
          if WS.canEvaluate s model then
            match evalT model invocable i with
            | .ok o => (s, .value o)
            | .error m => (s, .error (.input m))                   -- `.try_into()` failed
          else (s, .error (.notDeployed model))                    -- `workspace.evaluate_invocable(..)?`
      | none => (s, .error (.missingParameter "input"))
    | none => (s, .error (.missingParameter "invocable"))
  | none => (s, .error (.missingParameter "model"))

/-! ## Requests and histories -/

inductive Request (I : Type) where
  | add (content : Option (List Char))
  | replace (content : Option (List Char))
  | remove (ns name : Option String)
  | clear
  | deploy
  | evaluate (model invocable : Option String) (input : Except (List Char) I)
  /-- `POST /tck/evaluate`: `input` as in `do_evaluate_tck` -/
  | tck (model invocable : Option String) (input : Option (Except (List Char) I))

/-- `post_tck_evaluate` (`server.rs:282-292`): `Ok(response) => ResultDto::data(response)`, `Err(reason) =>
ResultDto::error(reason)`. -/
def tckAnswer : State × TckResp Dmn.Dto.OutputNode → State × Resp
  | (s, .value o) => (s, .tck o)
  | (s, .error e) => (s, .error e)

/-- What the deployed evaluators answer: `json` for `POST /evaluate/…` (the value, rendered by `jsonify`), `tck` for
`POST /tck/evaluate` (the value converted by `try_into()` into an `OutputNodeDto`, or the message of that
conversion). -/
structure Evals (I : Type) where
  json : String → String → I → JV
  tck : String → String → I → Except (List Char) Dmn.Dto.OutputNode

def handle {I : Type} (c : Codec) (eval : Evals I) (s : State) : Request I → State × Resp
  | .add content => do_add c s content
  | .replace content => do_replace c s content
  | .remove ns name => do_remove s ns name
  | .clear => do_clear s
  | .deploy => do_deploy s
  | .evaluate m i x => do_evaluate eval.json s m i x
  | .tck m i x => tckAnswer (do_evaluate_tck eval.tck s m i x)

/-- The answers to a sequence of requests, and the final state. -/
def serve {I : Type} (c : Codec) (eval : Evals I) (s : State) : List (Request I) → State × List Resp
  | [] => (s, [])
  | r :: rs =>
    let (s', a) := handle c eval s r
    let (s'', as) := serve c eval s' rs
    (s'', a :: as)

/-- The workspace operation a definitions request stands for (the property's reading:
`replace` substitutes the stored model of the same namespace and name); `none` for a
request whose parameters are rejected and for evaluations. -/
def opOf {I : Type} (c : Codec) : Request I → Option Op
  | .add content => match classify c content with | .ok d => some (.add d) | .error _ => none
  | .replace content => match classify c content with | .ok d => some (.replace d) | .error _ => none
  | .remove (some ns) (some name) => some (.remove ns name)
  | .remove _ _ => none
  | .clear => some .clear
  | .deploy => some .deploy
  | .evaluate _ _ _ => none
  | .tck _ _ _ => none

/-- The answer that goes with the outcome of the workspace operation. -/
def respOf : Op → Res → Resp
  | .add d, .ok => .added d.ns d.name
  | .add d, .errNamespaceExists => .error (.namespaceExists d.ns)
  | .add d, .errNameExists => .error (.nameExists d.name)
  | .replace _, .ok => .status "definitions replaced"
  | .replace d, .errNamespaceExists => .error (.namespaceExists d.ns)
  | .replace d, .errNameExists => .error (.nameExists d.name)
  | .remove _ _, _ => .status "definitions removed"
  | .clear, _ => .status "definitions cleared"
  | .deploy, _ => .status "definitions deployed"

/-! ## Response bodies -/

def kNamespace : List Char := ['n', 'a', 'm', 'e', 's', 'p', 'a', 'c', 'e']
def kName : List Char := ['n', 'a', 'm', 'e']
def kStatus : List Char := ['s', 't', 'a', 't', 'u', 's']
def kData : List Char := ['d', 'a', 't', 'a']
def kErrors : List Char := ['e', 'r', 'r', 'o', 'r', 's']
def kDetails : List Char := ['d', 'e', 't', 'a', 'i', 'l', 's']

/-- The body the service sends (`Json(ResultDto::data(..))` through `serde_json`, and the
hand-formatted `{"data":…}` of `post_evaluate`, `server.rs:297-313`). -/
def Resp.body : Resp → List Char
  | .added ns name => dataObjectBody [(kNamespace, ns.toList), (kName, name.toList)]
  | .status t => dataObjectBody [(kStatus, t.toList)]
  | .value v => dataBody v
  | .tck o => Dmn.Dto.tckBody o
  | .error e => errorBody e.message

/-- The JSON document a response stands for. -/
def Resp.json : Resp → Json
  | .added ns name => .obj [(kData, .obj [(kNamespace, .str ns.toList), (kName, .str name.toList)])]
  | .status t => .obj [(kData, .obj [(kStatus, .str t.toList)])]
  | .value v => .obj [(kData, toJson v)]
  | .tck o => Dmn.Dto.tckJson o
  | .error e => .obj [(kErrors, .arr [.obj [(kDetails, .str e.message)]])]

/-- Every number text inside an evaluated value is a number of the JSON grammar. -/
def Resp.numbersOk : Resp → Bool
  | .value v => Json.numbersOk v
  | _ => true

end Dmn.Server
