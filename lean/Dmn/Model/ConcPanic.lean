/-!
# Concurrency with panicking evaluations: guards, unwinding and lock poisoning (C20)

`Dmn/Model/Concurrency.lean` has no notion of a call that fails.  The property also demands that
concurrent evaluation *never leaves a lock poisoned*.  This file refines the interleaving semantics
by what Rust does when an evaluation panics while it holds lock guards.

## The rules of `std::sync::RwLock`, as modelled (assumptions — the documented behaviour of std)

* **P1 (RAII).** A lock is held through a guard value; it is released when the guard is dropped.  A
  call can only release what it holds.  When a call panics the stack unwinds and *every* guard the
  call holds is dropped (the evaluator is called under `catch_unwind`-like isolation by its users:
  the server's worker threads, the harness).
* **P2 (poisoning).** "An `RwLock` is poisoned whenever a writer panics while holding an exclusive
  lock … a lock will not be poisoned if a reader panics" (std documentation): dropping a **write**
  guard during a panic sets the poison flag, dropping a **read** guard never does.
* **P3 (poisoned acquisitions fail).** `read()` / `write()` on a poisoned lock return `Err`; the code
  acquires with `if let Ok(guard) = lock.read() { … } else { null }`
  (model-evaluator/src/model_evaluator.rs:222-260), so the call ends at once with a null
  ("lock error") and drops what it holds — without panicking.
* A reader waits while a writer holds the lock; a writer waits for readers and writers.  (Writer
  preference, which matters for nested reads, is in `Dmn.Conc`; here no writer exists in the
  evaluation phase, so the policies coincide.)

`σ` is the private state of a call, `R` the registries; registries are not mutated here (that
mutation breaks independence is `Dmn.Conc.write_breaks_independence`).
-/

namespace Dmn.ConcP

inductive Act (σ R : Type) where
  | acqRead (l : Nat)
  | relRead (l : Nat)
  | acqWrite (l : Nat)
  | relWrite (l : Nat)
  /-- local computation; may read the registries -/
  | compute (f : R → σ → σ)
  /-- the evaluation panics at this point -/
  | panic
  /-- mutation of the shared state (the workspace): what the handlers that change the workspace do
  under the write lock (`Workspace::add` / `replace` / `remove` / `clear` / `deploy`) -/
  | mutate (g : σ → R → R)

/-- Actions of the evaluation phase: read locks, computation — and panics. -/
def Act.evalSafe {σ R : Type} : Act σ R → Bool
  | .acqRead _ | .relRead _ | .compute _ | .panic => true
  | .acqWrite _ | .relWrite _ | .mutate _ => false

structure LockSt where
  readers : Nat := 0
  writer : Bool := false
  poisoned : Bool := false
  deriving Repr, DecidableEq

/-- How a call ended (or `running`: it has not ended otherwise than by finishing its actions). -/
inductive End where
  | running | panicked | lockError
  deriving Repr, DecidableEq

structure Thread (σ R : Type) where
  todo : List (Act σ R)
  st : σ
  /-- read guards held (with multiplicity: nested read acquisitions) -/
  heldR : List Nat := []
  /-- write guards held -/
  heldW : List Nat := []
  ending : End := .running

structure World (σ R : Type) where
  locks : Nat → LockSt
  reg : R
  threads : List (Thread σ R)

def setLock (locks : Nat → LockSt) (l : Nat) (v : LockSt) : Nat → LockSt :=
  fun k => if k = l then v else locks k

/-- P1/P2: dropping read guards releases them and never poisons. -/
def dropReads (locks : Nat → LockSt) : List Nat → Nat → LockSt
  | [] => locks
  | l :: held => dropReads (setLock locks l { locks l with readers := (locks l).readers - 1 }) held

/-- P1/P2: dropping write guards releases them; during a panic it poisons them. -/
def dropWrites (locks : Nat → LockSt) (panicking : Bool) : List Nat → Nat → LockSt
  | [] => locks
  | l :: held =>
    dropWrites (setLock locks l { locks l with writer := false, poisoned := (locks l).poisoned || panicking })
      panicking held

/-- The call ends here (by a panic, or by the error branch of a failed acquisition): every guard it
holds is dropped. -/
def unwind {σ R : Type} (w : World σ R) (i : Nat) (t : Thread σ R) (how : End) : World σ R :=
  { w with
    locks := dropWrites (dropReads w.locks t.heldR) (how == .panicked) t.heldW
    threads := w.threads.set i { t with todo := [], heldR := [], heldW := [], ending := how } }

inductive Outcome (σ R : Type) where
  | done (w : World σ R)
  | blocked
  | finished
  | noThread

/-- Thread `i` tries to perform its next action. -/
def stepThread {σ R : Type} (w : World σ R) (i : Nat) : Outcome σ R :=
  match w.threads[i]? with
  | none => .noThread
  | some t =>
    match t.todo with
    | [] => .finished
    | a :: rest =>
      match a with
      | .acqRead l =>
        let ls := w.locks l
        if ls.poisoned then .done (unwind w i t .lockError)          -- P3
        else if ls.writer then .blocked
        else .done { w with locks := setLock w.locks l { ls with readers := ls.readers + 1 }
                            threads := w.threads.set i { t with todo := rest, heldR := l :: t.heldR } }
      | .relRead l =>
        -- P1: only a guard that is held can be dropped
        if l ∈ t.heldR then
          let ls := w.locks l
          .done { w with locks := setLock w.locks l { ls with readers := ls.readers - 1 }
                         threads := w.threads.set i { t with todo := rest, heldR := t.heldR.erase l } }
        else .done { w with threads := w.threads.set i { t with todo := rest } }
      | .acqWrite l =>
        let ls := w.locks l
        if ls.poisoned then .done (unwind w i t .lockError)          -- P3
        else if ls.writer || ls.readers != 0 then .blocked
        else .done { w with locks := setLock w.locks l { ls with writer := true }
                            threads := w.threads.set i { t with todo := rest, heldW := l :: t.heldW } }
      | .relWrite l =>
        if l ∈ t.heldW then
          let ls := w.locks l
          .done { w with locks := setLock w.locks l { ls with writer := false }
                         threads := w.threads.set i { t with todo := rest, heldW := t.heldW.erase l } }
        else .done { w with threads := w.threads.set i { t with todo := rest } }
      | .compute f =>
        .done { w with threads := w.threads.set i { t with todo := rest, st := f w.reg t.st } }
      | .panic => .done (unwind w i t .panicked)                      -- P1, P2
      | .mutate g =>
        .done { w with reg := g t.st w.reg, threads := w.threads.set i { t with todo := rest } }

def applyStep {σ R : Type} (w : World σ R) (i : Nat) : World σ R :=
  match stepThread w i with
  | .done w' => w'
  | _ => w

def run {σ R : Type} (w : World σ R) : List Nat → World σ R
  | [] => w
  | i :: sched => run (applyStep w i) sched

/-- A call run alone on an evaluator nobody else uses and that no earlier call has damaged: its
final private state and how it ended.  It never meets a poisoned lock. -/
def alone {σ R : Type} (r : R) : List (Act σ R) → σ → σ × End
  | [], s => (s, .running)
  | .compute f :: rest, s => alone r rest (f r s)
  | .panic :: _, s => (s, .panicked)
  | _ :: rest, s => alone r rest s

/-- What a thread will have produced when it is continued alone. -/
def view {σ R : Type} (r : R) (t : Thread σ R) : σ × End :=
  match t.ending with
  | .running => alone r t.todo t.st
  | e => (t.st, e)

/-- Evaluation phase: no lock is write-held or poisoned, no thread holds a write guard, and what
every thread still has to do is read locking, computation — or a panic. -/
structure EvalPhase {σ R : Type} (w : World σ R) : Prop where
  clean : ∀ l, (w.locks l).writer = false ∧ (w.locks l).poisoned = false
  noWriteGuard : ∀ t ∈ w.threads, t.heldW = []
  safe : ∀ t ∈ w.threads, ∀ a ∈ t.todo, a.evalSafe = true
  /-- a call that has ended has nothing left to do -/
  ended : ∀ t ∈ w.threads, t.ending ≠ .running → t.todo = []

def initWorld {σ R : Type} (r : R) (calls : List (List (Act σ R) × σ)) : World σ R :=
  { locks := fun _ => {}, reg := r, threads := calls.map (fun c => { todo := c.1, st := c.2 }) }

/-- read guards on lock `l` held by all threads together -/
def heldReads {σ R : Type} (ts : List (Thread σ R)) (l : Nat) : Nat :=
  (ts.map (fun t => t.heldR.count l)).sum

/-- The read guards a call holds when it has performed `todo` starting with the guards `held` (what
`stepThread` does to `heldR`, action by action; a panic unwinds: nothing is held afterwards).  A call
written in Rust releases every guard it takes (RAII, P1): its program has `finalHeld [] prog = []`. -/
def finalHeld {σ R : Type} : List Nat → List (Act σ R) → List Nat
  | held, [] => held
  | held, .acqRead l :: rest => finalHeld (l :: held) rest
  | held, .relRead l :: rest => finalHeld (held.erase l) rest
  | _, .panic :: _ => []
  | held, .acqWrite _ :: rest => finalHeld held rest
  | held, .relWrite _ :: rest => finalHeld held rest
  | held, .compute _ :: rest => finalHeld held rest
  | held, .mutate _ :: rest => finalHeld held rest

/-- A request of the service that evaluates (`server/src/server.rs`: `if let Ok(workspace) =
data.workspace.read() { … evaluate … }`): the workspace lock `ws` is read-acquired, the evaluation
`p` runs, the guard is dropped. -/
def evalRequest {σ R : Type} (ws : Nat) (p : List (Act σ R)) : List (Act σ R) := .acqRead ws :: (p ++ [.relRead ws])

/-- Guard accounting: the reader count of every lock is the number of read guards the threads hold
on it, a call that has ended holds nothing, and every call is on its way to hold nothing. -/
structure Accounted {σ R : Type} (w : World σ R) : Prop where
  readers : ∀ l, (w.locks l).readers = heldReads w.threads l
  endedFree : ∀ t ∈ w.threads, t.ending ≠ .running → t.heldR = []
  bracketed : ∀ t ∈ w.threads, finalHeld t.heldR t.todo = []

/-! ## Writers beside evaluations: the handlers of the service (`server/src/server.rs:215-313`)

Every handler acquires the one `RwLock<Workspace>` exactly once (`Dmn.Conc.server_lock_discipline`, over the
regenerated table): the evaluating handlers for reading, the handlers that change the workspace (add /
replace / remove / clear / deploy) for writing.  `ws` is the number of that lock. -/

/-- What an evaluating handler does while it holds `ws` for reading: it computes, may panic, and takes /
releases read locks other than `ws` (the registries of the evaluator). -/
def Act.readerOk {σ R : Type} (ws : Nat) : Act σ R → Bool
  | .acqRead l => l != ws
  | .relRead l => l != ws
  | .compute _ => true
  | .panic => true
  | .acqWrite _ => false
  | .relWrite _ => false
  | .mutate _ => false

/-- What a handler that changes the workspace does while it holds `ws` for writing: it computes, mutates the
workspace, may panic; it takes no lock that another thread can reach (the write acquisitions of
`ModelEvaluator::new` act on the registries of the evaluator that is being built and is not yet stored in
the workspace: `Dmn.Conc.writes_only_in_build`). -/
def Act.writerOk {σ R : Type} : Act σ R → Bool
  | .compute _ => true
  | .mutate _ => true
  | .panic => true
  | .acqRead _ => false
  | .relRead _ => false
  | .acqWrite _ => false
  | .relWrite _ => false

/-- A request that changes the workspace (`if let Ok(mut workspace) = data.workspace.write() { … }`). -/
def writeRequest {σ R : Type} (ws : Nat) (q : List (Act σ R)) : List (Act σ R) := .acqWrite ws :: (q ++ [.relWrite ws])

/-- Where a request is: not started, inside its lock hold (as a reader / as the writer), or ended. -/
inductive Shape {σ R : Type} (ws : Nat) (t : Thread σ R) : Prop where
  | idleR (p : List (Act σ R)) (he : t.ending = .running) (hr : t.heldR = []) (hw : t.heldW = [])
      (htodo : t.todo = evalRequest ws p) (hp : ∀ a ∈ p, a.readerOk ws = true)
  | idleW (q : List (Act σ R)) (he : t.ending = .running) (hr : t.heldR = []) (hw : t.heldW = [])
      (htodo : t.todo = writeRequest ws q) (hq : ∀ a ∈ q, a.writerOk = true)
  | inR (p : List (Act σ R)) (he : t.ending = .running) (hc : t.heldR.count ws = 1) (hw : t.heldW = [])
      (htodo : t.todo = p ++ [.relRead ws]) (hp : ∀ a ∈ p, a.readerOk ws = true)
  | inW (q : List (Act σ R)) (he : t.ending = .running) (hr : t.heldR = []) (hw : t.heldW = [ws])
      (htodo : t.todo = q ++ [.relWrite ws]) (hq : ∀ a ∈ q, a.writerOk = true)
  | ended (htodo : t.todo = []) (hc : t.heldR.count ws = 0) (hw : t.heldW = [])

/-- write guards held by all threads together -/
def heldWrites {σ R : Type} (ts : List (Thread σ R)) : Nat := (ts.map (fun t => t.heldW.length)).sum

/-- Number of actions still to be performed. -/
def remaining {σ R : Type} (w : World σ R) : Nat := (w.threads.map (fun t => t.todo.length)).sum

/-- The service with readers and writers: every thread is a request somewhere on its way; no lock but `ws` is
ever write-held or poisoned; the state of `ws` is exactly what the guards held by the threads say; a writer
excludes readers. -/
structure Mixed {σ R : Type} (ws : Nat) (w : World σ R) : Prop where
  shape : ∀ t ∈ w.threads, Shape ws t
  others : ∀ l, l ≠ ws → (w.locks l).writer = false ∧ (w.locks l).poisoned = false
  readers : (w.locks ws).readers = heldReads w.threads ws
  writer : (if (w.locks ws).writer then 1 else 0) = heldWrites w.threads
  excl : (w.locks ws).writer = true → (w.locks ws).readers = 0 ∧ (w.locks ws).poisoned = false

/-- A request: an evaluation (`writes = false`: `evalRequest`) or a change of the workspace
(`writes = true`: `writeRequest`), its body, and the private state it starts with. -/
structure Call (σ R : Type) where
  writes : Bool
  body : List (Act σ R)
  init : σ

def Call.prog {σ R : Type} (ws : Nat) (c : Call σ R) : List (Act σ R) :=
  if c.writes then writeRequest ws c.body else evalRequest ws c.body

def Call.ok {σ R : Type} (ws : Nat) (c : Call σ R) : Prop :=
  if c.writes then ∀ a ∈ c.body, a.writerOk = true else ∀ a ∈ c.body, a.readerOk ws = true

def serviceWorld {σ R : Type} (ws : Nat) (r : R) (calls : List (Call σ R)) : World σ R :=
  initWorld r (calls.map (fun c => (c.prog ws, c.init)))

/-- every thread index below `n` occurs: in this stretch of the schedule every thread gets a turn -/
def covers (n : Nat) (seg : List Nat) : Prop := ∀ i, i < n → i ∈ seg

/-- A handler run alone on the workspace `r`: the workspace it leaves, its private state, how it ended (lock
operations do nothing when nobody else is there). -/
def aloneM {σ R : Type} (r : R) : List (Act σ R) → σ → R × σ × End
  | [], s => (r, s, .running)
  | .compute f :: rest, s => aloneM r rest (f r s)
  | .mutate g :: rest, s => aloneM (g s r) rest s
  | .panic :: _, s => (r, s, .panicked)
  | .acqRead _ :: rest, s => aloneM r rest s
  | .relRead _ :: rest, s => aloneM r rest s
  | .acqWrite _ :: rest, s => aloneM r rest s
  | .relWrite _ :: rest, s => aloneM r rest s

/-- What a thread and the workspace will be when the thread is continued alone. -/
def viewM {σ R : Type} (r : R) (t : Thread σ R) : R × σ × End :=
  match t.ending with
  | .running => aloneM r t.todo t.st
  | .panicked => (r, t.st, .panicked)
  | .lockError => (r, t.st, .lockError)

end Dmn.ConcP
