/-!
# S-expressions: the line protocol between the Rust harness and the Lean driver

One request per line, one answer per line.  Atoms are runs of characters other
than blanks and parentheses.  Strings never travel as text: they are sent as
lists of code points `(s 104 105)`, so no escaping is needed anywhere.
-/

namespace Dmn

inductive Sexp where
  | atom (s : String)
  | list (xs : List Sexp)
  deriving Repr, Inhabited, BEq

namespace Sexp

partial def toStr : Sexp → String
  | .atom s => s
  | .list xs => "(" ++ " ".intercalate (xs.map toStr) ++ ")"

instance : ToString Sexp := ⟨toStr⟩

/-- Tokeniser: parentheses and atoms. -/
def tokens (s : String) : List String :=
  let rec go (cs : List Char) (cur : List Char) (acc : List String) : List String :=
    let flush (acc : List String) : List String :=
      if cur.isEmpty then acc else String.ofList cur.reverse :: acc
    match cs with
    | [] => (flush acc).reverse
    | c :: cs =>
      if c == '(' then go cs [] ("(" :: flush acc)
      else if c == ')' then go cs [] (")" :: flush acc)
      else if c == ' ' || c == '\t' || c == '\n' || c == '\r' then go cs [] (flush acc)
      else go cs (c :: cur) acc
  go s.toList [] []

/-- Parser with an explicit stack of partially read lists. -/
def parseTokens (ts : List String) : Option Sexp :=
  let rec go (ts : List String) (stack : List (List Sexp)) : Option Sexp :=
    match ts with
    | [] =>
      match stack with
      | [[x]] => some x
      | _ => none
    | t :: ts =>
      if t == "(" then go ts ([] :: stack)
      else if t == ")" then
        match stack with
        | top :: next :: rest => go ts ((Sexp.list top.reverse :: next) :: rest)
        | _ => none
      else
        match stack with
        | top :: rest => go ts ((Sexp.atom t :: top) :: rest)
        | [] => none
  go ts [[]]

def parse (s : String) : Option Sexp := parseTokens (tokens s)

def nat? : Sexp → Option Nat
  | .atom s => s.toNat?
  | _ => none

def int? : Sexp → Option Int
  | .atom s => s.toInt?
  | _ => none

def bool? : Sexp → Option Bool
  | .atom "true" => some true
  | .atom "false" => some false
  | _ => none

/-- `(s c1 c2 …)` → string as list of characters. -/
def chars? : Sexp → Option (List Char)
  | .list (.atom "s" :: cs) => cs.mapM (fun c => (nat? c).map Char.ofNat)
  | _ => none

def str? (x : Sexp) : Option String := (chars? x).map String.ofList

def ofChars (cs : List Char) : Sexp :=
  .list (.atom "s" :: cs.map (fun c => .atom (toString c.toNat)))

def ofStr (s : String) : Sexp := ofChars s.toList

def ofNat (n : Nat) : Sexp := .atom (toString n)
def ofInt (n : Int) : Sexp := .atom (toString n)
def ofBool (b : Bool) : Sexp := .atom (if b then "true" else "false")

end Sexp
end Dmn
