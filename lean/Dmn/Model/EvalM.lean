import Dmn.Model.Outcome
import Dmn.Model.Value

/-!
# The evaluation monad: a computation over the scope stack

An `Evaluator` of the Rust code is a closure `Fn(&Scope) -> Value`; the `Scope` has interior
mutability (`push`, `pop`, `set_entry`).  Here such a closure is a function from the scope
to an outcome carrying the value *and the scope afterwards*, so that every stack effect is
visible.
-/

namespace Dmn

abbrev EvalM (α : Type) := Scope → Outcome (α × Scope)

namespace EvalM

@[inline] protected def pure {α : Type} (a : α) : EvalM α := fun s => .ok (a, s)

@[inline] protected def bind {α β : Type} (m : EvalM α) (f : α → EvalM β) : EvalM β := fun s =>
  match m s with
  | .ok (a, s') => f a s'
  | .panic p => .panic p
  | .diverge => .diverge

instance : Monad EvalM where
  pure := EvalM.pure
  bind := EvalM.bind

/-- `scope.push(ctx)` -/
def push (c : Ctx) : EvalM Unit := fun s => .ok ((), Scope.push s c)
/-- `scope.pop()` (returns `None` on an empty stack, without panicking) -/
def pop : EvalM Unit := fun s => .ok ((), Scope.pop s)
/-- `scope.set_entry(name, value)` -/
def setEntry (k : String) (v : Value) : EvalM Unit := fun s => .ok ((), Scope.setEntry s k v)
/-- `scope.get_entry(name)` -/
def getEntry (k : String) : EvalM (Option Value) := fun s => .ok (Scope.getEntry s k, s)
def getScope : EvalM Scope := fun s => .ok (s, s)
def panic {α : Type} (site : String) : EvalM α := fun _ => .panic site
def diverge {α : Type} : EvalM α := fun _ => .diverge
def lift {α : Type} (o : Outcome α) : EvalM α := fun s =>
  match o with
  | .ok a => .ok (a, s)
  | .panic p => .panic p
  | .diverge => .diverge

/-- The computation leaves the scope exactly as it found it. -/
def Pres {α : Type} (m : EvalM α) : Prop := ∀ s a s', m s = .ok (a, s') → s' = s

/-- The computation touches at most the top context of a non-empty scope. -/
def TopOnly {α : Type} (m : EvalM α) : Prop :=
  ∀ s c a s', m (s ++ [c]) = .ok (a, s') → ∃ c', s' = s ++ [c']

end EvalM
end Dmn
