import Dmn.Model.Ops
import Dmn.Model.Outcome
import Dmn.Gen.BifNames

/-!
# More pure parts of `builders.rs`: arithmetic, filter index, path, instance of, literals

Number arithmetic goes through `NumOps`, so that the evaluator model does not depend on
how the decimal operations are realised: `Dmn/Model/Num.lean` provides exact arithmetic
(right while the exact result fits 34 digits), `Dmn/Model/Dec.lean` the rounded one.
`none` from a `NumOps` field means "this model cannot compute the operation here";
the driver then answers `unsupported` and the harness skips the case (counted).
-/

namespace Dmn

structure NumOps where
  add : Dec → Dec → Option Dec
  sub : Dec → Dec → Option Dec
  mul : Dec → Dec → Option Dec
  div : Dec → Dec → Option Dec
  /-- `FeelNumber::pow`: `some none` = not finite (FEEL null), `none` = unsupported -/
  pow : Dec → Dec → Option (Option Dec)
  /-- `build_numeric`: the literal `before.after` read by `dec_from_string`; `some none` = the
  text is not a number (FEEL null), `none` = unsupported -/
  literal : String → String → Option (Option Dec)

/-- the natural number a digit string denotes -/
def digitsToNat (cs : List Char) : Option Nat :=
  cs.foldlM (fun acc c => if c.isDigit then some (acc * 10 + (c.toNat - '0'.toNat)) else none) 0

/-- digits of a natural number -/
def Nat.digitCount (n : Nat) : Nat := (Nat.toDigits 10 n).length

/-- Exact arithmetic: defined while the exact result has at most 34 digits. -/
def NumOps.exact : NumOps where
  add := fun a b => let r := Dec.reduce (Dec.addExact a b); if Nat.digitCount r.coeff ≤ 34 then some r else none
  sub := fun a b => let r := Dec.reduce (Dec.subExact a b); if Nat.digitCount r.coeff ≤ 34 then some r else none
  mul := fun a b => let r := Dec.reduce (Dec.mulExact a b); if Nat.digitCount r.coeff ≤ 34 then some r else none
  div := fun a b =>
    -- exact quotient when it terminates within 34 digits
    if b.coeff == 0 then none
    else
      let num := a.coeff * 10 ^ 40
      if num % b.coeff == 0 then
        let r := Dec.reduce ⟨a.neg != b.neg, num / b.coeff, a.exp - b.exp - 40⟩
        if Nat.digitCount r.coeff ≤ 34 then some r else none
      else none
  pow := fun _ _ => none
  literal := fun before after =>
    match digitsToNat (before.toList ++ after.toList) with
    | some c =>
      if Nat.digitCount c ≤ 34 ∧ before.length > 0 then some (some ⟨false, c, -(after.length : Int)⟩)
      else none
    | none => none

namespace Value

/-- A value the model could not compute (never produced by the code). -/
def unsupported : Value := .bif "«unsupported»"

def numR (o : Option Dec) : Value :=
  match o with
  | some d => .num d
  | none => unsupported

/-- `build_add` -/
def addV (n : NumOps) (l r : Value) : Value :=
  match l, r with
  | .num a, .num b => numR (n.add a b)
  | .str a, .str b => .str (a ++ b)
  | .dtDur a, .dtDur b => .dtDur (a + b)
  | .ymDur a, .ymDur b => .ymDur (a + b)
  | _, _ => .null

/-- `build_sub` (date-time subtraction goes through chrono: instants from the harness) -/
def subV (n : NumOps) (l r : Value) : Value :=
  match l, r with
  | .num a, .num b => numR (n.sub a b)
  | .dateTime a, .dateTime b =>
    match a.key, b.key with
    | some x, some y => .dtDur (x - y)
    | _, _ => .null
  | .dtDur a, .dtDur b => .dtDur (a - b)
  | .ymDur a, .ymDur b => .ymDur (a - b)
  | _, _ => .null

/-- `build_mul` -/
def mulV (n : NumOps) (l r : Value) : Value :=
  match l, r with
  | .num a, .num b => numR (n.mul a b)
  | _, _ => .null

/-- `build_div`: `rh.abs() == 0` gives null -/
def divV (n : NumOps) (l r : Value) : Value :=
  match l, r with
  | .num a, .num b => if b.coeff == 0 then .null else numR (n.div a b)
  | _, _ => .null

/-- `build_exp` -/
def expV (n : NumOps) (l r : Value) : Value :=
  match l, r with
  | .num a, .num b =>
    match n.pow a b with
    | some (some d) => .num d
    | some none => .null
    | none => unsupported
  | _, _ => .null

/-- `build_neg` -/
def negV (v : Value) : Value :=
  match v with
  | .num a => .num (Dec.negate a)
  | .dtDur a => .dtDur (-a)
  | .ymDur a => .ymDur (-a)
  | _ => .null

/-- `build_numeric` -/
def numericV (n : NumOps) (before after : String) : Value :=
  match n.literal before after with
  | some (some d) => .num d
  | some none => .null
  | none => unsupported

/-- `build_if` selects the branch: `some true` = then, `some false` = else, `none` = null. -/
def ifBranch (c : Value) : Option Bool :=
  match c with
  | .bool true => some true
  | .bool false => some false
  | .null => some false
  | _ => none

/-- The index arm of `build_filter` on a list (`rhv` is a number): any number equal to its
truncation is an index; the truncated number is converted through its plain text. -/
def filterIndex (values : List Value) (index0 : Dec) : Value :=
  if Dec.cmp (Dec.trunc index0) index0 == .eq then
    let index := Dec.trunc index0
    let size := values.length
    if !Dec.isNegative index then
      match Dec.toUsize? index with
      | some n => if n > 0 ∧ n ≤ size then (values[n - 1]?).getD .null else .null
      | none => .null
    else
      match Dec.toUsize? (Dec.abs index) with
      | some n => if n > 0 ∧ n ≤ size then (values[size - n]?).getD .null else .null
      | none => .null
  else .null

/-- The last arm of `build_filter` on a list: singleton results are unwrapped. -/
def filterResult (filtered : List Value) : Value :=
  match filtered with
  | [v] => v
  | _ => .list filtered

/-- `build_filter` on a non-list left operand. -/
def filterScalar (v : Value) (rhv : Value) : Value :=
  match rhv with
  | .bool flag => if flag then .list [v] else .list []
  | .num n => if Dec.isOne n then v else .null
  | _ => .null

def isFilterScalar (v : Value) : Bool :=
  match v with
  | .num _ | .bool _ | .str _ | .date .. | .dateTime _ | .time _ | .dtDur _ | .ymDur _ | .ctx _ => true
  | _ => false

/-- `build_path` on contexts and lists of contexts (temporal properties: see `Temporal`). -/
def pathV (v : Value) (name : String) : Value :=
  match v with
  | .ctx c => (Ctx.get c name).getD .null
  | .list items =>
    -- every item must be a context; an item without the entry gives null
    if items.all (fun i => match i with | .ctx _ => true | _ => false) then
      .list (items.map (fun i => match i with | .ctx c => (Ctx.get c name).getD .null | _ => .null))
    else .null
  | .date y m d =>
    match name with
    | "year" => .num (Dec.ofInt y)
    | "month" => .num (Dec.ofNat m)
    | "day" => .num (Dec.ofNat d)
    | "weekday" => unsupported
    | _ => .null
  | .dtDur n =>
    let a := n.natAbs
    match name with
    | "days" => .num (Dec.ofNat (a / 86400000000000))
    | "hours" => .num (Dec.ofNat (a % 86400000000000 / 3600000000000))
    | "minutes" => .num (Dec.ofNat (a % 3600000000000 / 60000000000))
    | "seconds" => .num (Dec.ofNat (a % 60000000000 / 1000000000))
    | _ => .null
  | .ymDur n =>
    match name with
    | "years" => .num (Dec.ofInt (Int.tdiv n 12))
    | "months" => .num (Dec.ofInt (Int.tmod n 12))
    | _ => .null
  | .time _ | .dateTime _ => unsupported
  | _ => .null

/-- `build_instance_of` -/
def instanceOfV (l r : Value) : Value :=
  match r with
  | .feelType t =>
    match l with
    | .num _ => .bool (match t with | .any | .number => true | _ => false)
    | .str _ => .bool (match t with | .any | .string => true | _ => false)
    | .bool _ => .bool (match t with | .any | .boolean => true | _ => false)
    | .date .. => .bool (match t with | .any | .date => true | _ => false)
    | .dateTime _ => .bool (match t with | .any | .dateTime => true | _ => false)
    | .time _ => .bool (match t with | .any | .time => true | _ => false)
    | .ymDur _ => .bool (match t with | .any | .ymDur => true | _ => false)
    | .dtDur _ => .bool (match t with | .any | .dtDur => true | _ => false)
    | .null => .bool (match t with | .null => true | _ => false)
    | .range .. | .list _ | .ctx _ | .fn .. =>
      match t with
      | .any => .bool true
      | _ => .bool (FType.beq (typeOf l) t)
    | _ => .null
  | _ => .bool (FType.beq (typeOf l) (typeOf r))

/-- `build_range` -/
def rangeV (l r : Value) : Value :=
  match l, r with
  | .intervalStart a lc, .intervalEnd b rc => .range a lc b rc
  | _, _ => .null

/-- `build_context_entry` -/
def contextEntryV (k v : Value) : Value :=
  match k with
  | .str s => .ctxEntry (s.trimAscii.toString) v
  | .ctxEntryKey n => .ctxEntry n v
  | _ => .null

def isBifName (n : String) : Bool := Gen.bifNames.any (fun e => e.1 == n)

end Value
end Dmn
