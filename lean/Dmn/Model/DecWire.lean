import Dmn.Model.Sexp
import Dmn.Model.Dec

/-! Wire format of decimals in the line protocol:
`(fin <neg> <coeff> <exp>)`, `(inf <neg>)`, `(nan)`; a finite operand may also be sent as
`(n <neg> <coeff> <exp>)`. -/

namespace Dmn
namespace DecWire

def decOfArgs : List Sexp → Option D128
  | [n, c, e] =>
    match Sexp.bool? n, Sexp.nat? c, Sexp.int? e with
    | some n, some c, some e => some ⟨n, c, e⟩
    | _, _, _ => none
  | _ => none

def dec? : Sexp → Option D128
  | .list (.atom "n" :: r) => decOfArgs r
  | .list (.atom "fin" :: r) => decOfArgs r
  | _ => none

def decR? : Sexp → Option D128R
  | .list (.atom "n" :: r) => (decOfArgs r).map .fin
  | .list (.atom "fin" :: r) => (decOfArgs r).map .fin
  | .list [.atom "inf", n] => (Sexp.bool? n).map .inf
  | .list [.atom "nan"] => some .nan
  | _ => none

def boolStr (b : Bool) : String := if b then "true" else "false"

def showDec (d : D128) : String := s!"(fin {boolStr d.neg} {d.coeff} {d.exp})"

def showR : D128R → String
  | .fin d => showDec d
  | .inf s => s!"(inf {boolStr s})"
  | .nan => "(nan)"

def showOpt : Option D128 → String
  | some d => showDec d
  | none => "(none)"

def showOrd : Ordering → String
  | .lt => "lt"
  | .eq => "eq"
  | .gt => "gt"

end DecWire
end Dmn
