import Dmn.Model.Temporal
import Dmn.Model.TemporalZone

/-!
# The offset of a wall-clock reading in a zone given by its rules (C14 / C15)

`get_zone_offset` and `get_local_offset` (`feel/src/temporal/mod.rs:595-625`) answer the same question for a
named zone and for the zone of the process (`TZ`): which offset is in force for the WRITTEN (local) date and
time. In `Dmn/Model/Temporal.lean` the answer is a parameter (`oracle`); here it is computed from the rules
of the zone (`ZoneRules`, a table of transitions), so that what a zone-less date and time and what a
`time("…@zone")` literal denote can be stated relative to the rules and to the day of the evaluation.

Also here: the temporal arms of `+` and binary `-` (`feel-evaluator/src/builders.rs:130-172, 1671-1712`).
Core Lean only (linked into the driver).
-/

namespace Dmn.Temporal
open Dmn.Cal

/-- Seconds on the naive line of a written date and time (the wall-clock reading). -/
def localSeconds (d : Date) (h mi s : Nat) : Int :=
  daysFromCivil d.y d.m d.d * 86400 + (h : Int) * 3600 + (mi : Int) * 60 + (s : Int)

/-- `get_zone_offset` (`mod.rs:607-623`) against the rules of the zone: the UTC date-time of the same
fields must exist (`Utc.ymd_opt(..).and_hms_nano_opt(..)` is `Single`), and the zone must have exactly one
instant whose wall clock shows the reading (`tz.ymd_opt(..).and_hms_nano_opt(..)` is `Single`); then the
offset is that instant's. Since the repair `fix: the offset of a zone-less date and time …` the same holds
for `get_local_offset` (`mod.rs:595-606`) with the rules of the zone of the process:
`Local.offset_from_local_datetime(..)` must be `Single`. -/
def zoneOffsetByRules (z : ZoneRules) (d : Date) (h mi s ns : Nat) : Option Int :=
  if chronoDateOk d.y d.m d.d && chronoTimeOk h mi s (u32 ns) then
    match z.denote (localSeconds d h mi s) with
    | .instant _ o => some o
    | _ => none
  else none

/-- `get_local_offset` before the repair (kept as the mutant the theorems refute; the same slip as the
seeded change C14-18 for named zones): `Local.offset_from_utc_datetime(&naive)` — the written fields are
read as a UTC instant and the offset in force at THAT instant is returned. -/
def localOffsetReadAsUtc (z : ZoneRules) (d : Date) (h mi s ns : Nat) : Option Int :=
  if chronoDateOk d.y d.m d.d && chronoTimeOk h mi s (u32 ns) then
    some (z.offsetAt (localSeconds d h mi s))
  else none

/-- The oracle of a date and time under the rules `zr` of its own zone (a named zone, or the zone of the
process for a zone-less value); fixed zones need none. -/
def oracleByRules (zr : ZoneRules) (dt : DateTime) : Option Int :=
  zoneOffsetByRules zr dt.date dt.time.h dt.time.mi dt.time.s dt.time.ns

/-- `time offset` of a time value evaluated on the day `today` (`FeelTime::feel_time_offset`, `mod.rs:206`:
the date-time made of `FeelDate::today_local()` and the time). -/
def timeOffsetOn (zr : ZoneRules) (today : Date) (t : Time) : PropVal :=
  timeProperty t today (oracleByRules zr ⟨today, t⟩) .timeOffset

/-! ## `+` and binary `-` on temporal values (`builders.rs:130-172`, `1671-1712`) -/

/-- `checked_add` / `checked_sub` on `i64` months. -/
def checkedI64 (n : Int) : Option Int := if i64Min ≤ n ∧ n ≤ i64Max then some n else none

/-- `build_add` on the temporal fragment: only two durations of the same kind add; a date, a time or a
date and time on either side gives null (the arms `addition err 3/4` and `addition err`). -/
def feelAdd : Value → Value → Value
  | .dtDur a, .dtDur b => .dtDur (a + b)
  | .ymDur a, .ymDur b =>
    match checkedI64 (a + b) with
    | some n => .ymDur n
    | none => .null
  | _, _ => .null

/-- `build_sub` on the temporal fragment: two date-and-times (through `subtract`; `oa`, `ob` their
oracles), two durations of the same kind; everything else is null. -/
def feelSub (a b : Value) (oa ob : Option Int) : Value :=
  match a, b with
  | .dateTime x, .dateTime y =>
    match subtract x y oa ob with
    | .val n => .dtDur n
    | .none => .null
    | .panic => .panic
  | .dtDur x, .dtDur y => .dtDur (x - y)
  | .ymDur x, .ymDur y =>
    match checkedI64 (x - y) with
    | some n => .ymDur n
    | none => .null
  | _, _ => .null

/-! ## Conversions between temporal values (`feel-evaluator/src/bifs/core.rs:214-228, 268-287, 1208-1221, 1302-1322`) -/

/-- `date(v)` on a temporal value (`date_1`): a date is itself, a date and time gives its (local) date. -/
def bifDateOf : Value → Value
  | .date d => .date d
  | .dateTime dt => .date dt.date
  | _ => .null

/-- `time(v)` on a temporal value (`time_1`): a date gives UTC midnight, a date and time its time part with
its zone, a time is itself. -/
def bifTimeOf : Value → Value
  | .date _ => .time ⟨0, 0, 0, 0, .utc⟩
  | .dateTime dt => .time dt.time
  | .time t => .time t
  | _ => .null

/-- `date and time(d, t)` (`date_and_time_2`): the date (of a date, or of a date and time) with the time. -/
def bifDateTimeOf : Value → Value → Value
  | .dateTime dt, .time t => .dateTime ⟨dt.date, t⟩
  | .date d, .time t => .dateTime ⟨d, t⟩
  | _, _ => .null

/-- `years and months duration(from, to)` (`core.rs:1302-1322`): dates and date-and-times in any
combination; of a date and time only the (local) date takes part (`mod.rs:373-379`). -/
def bifYmDuration : Value → Value → Value
  | .date f, .date t => .ymDur (t.ymDuration f)
  | .date f, .dateTime t => .ymDur (t.date.ymDuration f)
  | .dateTime f, .dateTime t => .ymDur (t.date.ymDuration f.date)
  | .dateTime f, .date t => .ymDur (t.ymDuration f.date)
  | _, _ => .null

end Dmn.Temporal
