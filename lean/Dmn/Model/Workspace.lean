/-!
# Workspace: model of `workspace/src/workspace.rs`

`definitions : Vec<Arc<Definitions>>` is a list; the three `HashMap`s are association
lists (`insert` replaces an existing key, `remove` deletes it; iteration order is never
observed — the harness compares sorted key sets).  A model definition is identified by
its namespace and name; `builds` says whether `ModelEvaluator::new` succeeds for it.
-/

namespace Dmn.WS

structure Def where
  ns : String
  name : String
  builds : Bool
  deriving DecidableEq, Repr, Inhabited

abbrev Map := List (String × Def)

def Map.contains (m : Map) (k : String) : Bool := m.any (fun e => e.1 == k)
def Map.remove (m : Map) (k : String) : Map := m.filter (fun e => e.1 != k)
def Map.insert (m : Map) (k : String) (d : Def) : Map := (k, d) :: Map.remove m k
def Map.keys (m : Map) : List String := m.map Prod.fst

structure State where
  defs : List Def
  byNs : Map
  byName : Map
  /-- key set of `model_evaluators_by_name` -/
  evals : List String
  deriving Repr, Inhabited

def init : State := { defs := [], byNs := [], byName := [], evals := [] }

inductive Op where
  | add (d : Def)
  | remove (ns name : String)
  | replace (d : Def)
  | clear
  | deploy
  deriving Repr, Inhabited

inductive Res where
  | ok
  | errNamespaceExists
  | errNameExists
  deriving DecidableEq, Repr, Inhabited

/-- `Workspace::add`. -/
def add (s : State) (d : Def) : State × Res :=
  if s.byNs.contains d.ns then (s, .errNamespaceExists)
  else if s.byName.contains d.name then (s, .errNameExists)
  else
    ({ defs := s.defs ++ [d]
       byNs := s.byNs.insert d.ns d
       byName := s.byName.insert d.name d
       evals := [] }, .ok)

/-- The loop of `Workspace::remove` over the definitions matching either key. -/
def purge (ms : List Def) (byNs byName : Map) : Map × Map :=
  match ms with
  | [] => (byNs, byName)
  | d :: ms => purge ms (byNs.remove d.ns) (byName.remove d.name)

/-- `Workspace::remove`. -/
def remove (s : State) (ns name : String) : State :=
  let ms := s.defs.filter (fun d => d.ns == ns || d.name == name)
  let (byNs, byName) := purge ms s.byNs s.byName
  { defs := s.defs.filter (fun d => d.ns != ns && d.name != name)
    byNs := byNs
    byName := byName
    evals := [] }

/-- `Workspace::replace`. -/
def replace (s : State) (d : Def) : State × Res :=
  add (remove s d.ns d.name) d

/-- `Workspace::clear`. -/
def clear (_ : State) : State := init

/-- The loop of `Workspace::deploy`: `model_evaluators_by_name.insert(name, …)` for every
definition that builds (a `HashMap` key set: inserting an existing key changes nothing). -/
def deployLoop (ds : List Def) (evals : List String) : List String :=
  match ds with
  | [] => evals
  | d :: ds =>
    if d.builds then deployLoop ds (if evals.contains d.name then evals else evals ++ [d.name])
    else deployLoop ds evals

/-- `Workspace::deploy`. -/
def deploy (s : State) : State := { s with evals := deployLoop s.defs [] }

def step (s : State) : Op → State × Res
  | .add d => add s d
  | .remove ns name => (remove s ns name, .ok)
  | .replace d => replace s d
  | .clear => (clear s, .ok)
  | .deploy => (deploy s, .ok)

def run (s : State) : List Op → State
  | [] => s
  | op :: ops => run (step s op).1 ops

/-- `Workspace::evaluate_invocable` finds a model evaluator for `model`. -/
def canEvaluate (s : State) (model : String) : Bool := s.evals.contains model

/-! ## Loading a directory (`Workspace::new(Some(dir))` → `load_and_deploy_models`, workspace.rs:178-216)

Every `.dmn` file is read and parsed; a file that cannot be read as a model is skipped (its error is printed), a
model is given to `add` (whose error is printed as well), and at the end everything stored is deployed. -/

/-- What one file of the directory is: not a model (unreadable, or `dmntk_model::parse` answers an error), or a
model. -/
inductive Doc where
  | unreadable
  | model (d : Def)
  deriving Repr, Inhabited

/-- One file: `parse`, then `add` (both errors are reported and swallowed). -/
def loadStep (s : State) : Doc → State
  | .unreadable => s
  | .model d => (add s d).1

/-- `load_and_deploy_models`: all files in directory order, then `deploy`. -/
def load (ds : List Doc) : State := deploy (ds.foldl loadStep init)

/-! ## The abstract specification: a list of definitions and nothing else -/

namespace Spec

def add (l : List Def) (d : Def) : List Def × Res :=
  if l.any (fun e => e.ns == d.ns) then (l, .errNamespaceExists)
  else if l.any (fun e => e.name == d.name) then (l, .errNameExists)
  else (l ++ [d], .ok)

def remove (l : List Def) (ns name : String) : List Def :=
  l.filter (fun d => d.ns != ns && d.name != name)

def step (l : List Def) : Op → List Def × Res
  | .add d => add l d
  | .remove ns name => (remove l ns name, .ok)
  | .replace d => add (remove l d.ns d.name) d
  | .clear => ([], .ok)
  | .deploy => (l, .ok)

def run (l : List Def) : List Op → List Def
  | [] => l
  | op :: ops => run (step l op).1 ops

/-- Which models can be evaluated after a history: those that were stored and built at the
last deploy, provided no modification happened since. A failed `add` is not a modification. -/
def evaluable (l : List Def) (ev : List String) : List Op → List String
  | [] => ev
  | op :: ops =>
    match op with
    | .deploy => evaluable l ((l.filter (·.builds)).map (·.name)) ops
    | .add d =>
      match add l d with
      | (l', .ok) => evaluable l' [] ops
      | (l', _) => evaluable l' ev ops
    | op => evaluable (step l op).1 [] ops

end Spec

end Dmn.WS
