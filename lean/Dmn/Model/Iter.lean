import Dmn.Model.EvalM

/-!
# The iteration engine of `for` / `some` / `every` (`feel-evaluator/src/iterations.rs`)

`FeelIterator::run` is transcribed literally: the reversed state list, the persistent
iteration context, the `overflow` carry and the three `break 'outer` conditions.  `isize`
additions are `checked_add` (`None` = beyond any end).
-/

namespace Dmn.Iter

structure State where
  isRange : Bool
  name : String
  index : Int
  step : Int
  start : Int
  stop : Int
  values : List Value
  deriving Inhabited

/-- `FeelIterator::add_range` -/
def mkRange (name : String) (start stop : Int) : State :=
  { isRange := true, name, index := start, step := if start ≤ stop then 1 else -1, start, stop, values := [] }

/-- `FeelIterator::add_list` -/
def mkList (name : String) (values : List Value) : State :=
  { isRange := false, name, index := 0, step := 1, start := 0, stop := (values.length : Int) - 1, values }

def i64Min : Int := -(2 : Int) ^ 63
def i64Max : Int := (2 : Int) ^ 63 - 1

/-- checked `isize` addition -/
def addChecked (a b : Int) : Option Int :=
  let r := a + b
  if i64Min ≤ r ∧ r ≤ i64Max then some r else none

/-- The first `for` loop of an iteration: writes the current value of every state into the
iteration context; `true` when at least one entry was written. -/
def fill (states : List State) (ctx : Ctx) (wrote : Bool) : Ctx × Bool :=
  match states with
  | [] => (ctx, wrote)
  | st :: rest =>
    if st.isRange then fill rest (Ctx.set ctx st.name (.num (Dec.ofInt st.index))) true
    else
      match st.values[st.index.toNat]? with
      | some v => if st.index ≥ 0 then fill rest (Ctx.set ctx st.name v) true else fill rest ctx wrote
      | none => fill rest ctx wrote

inductive Step where
  | next (states : List State)
  | stop

/-- The second `for` loop (`'inner`): advance with carry. `next_index` is
`index.checked_add(step)`: `none` counts as beyond any end. -/
def advance (states : List State) (overflow : Bool) : Step :=
  match states with
  | [] => .next []
  | st :: rest =>
    if !overflow then .next (st :: rest)
    else
      let nxt := addChecked st.index st.step
      let isLast := rest.isEmpty
      let beyondUp := match nxt with
        | some n => decide (n > st.stop)
        | none => true
      let beyondDown := match nxt with
        | some n => decide (n < st.stop)
        | none => true
      if isLast && st.step > 0 && beyondUp then .stop
      else if isLast && st.step < 0 && beyondDown then .stop
      else if st.step == 0 then .stop
      else
        let fits := if st.step > 0 then !beyondUp else !beyondDown
        let st' := match nxt with
          | some n => if fits then { st with index := n } else { st with index := st.start }
          | none => { st with index := st.start }
        match advance rest (!fits) with
        | .next rest' => .next (st' :: rest')
        | .stop => .stop

/-- The `'outer` loop: the contexts handed to the handler, in order. -/
def loop (fuel : Nat) (states : List State) (ctx : Ctx) (acc : List Ctx) : Outcome (List Ctx) :=
  match fuel with
  | 0 => .diverge
  | fuel + 1 =>
    -- `states` is the reversed list (innermost first); the context is filled outermost first
    let (ctx', wrote) := fill states.reverse ctx false
    let acc' := if wrote then ctx' :: acc else acc
    match advance states true with
    | .stop => .ok acc'.reverse
    | .next states' => loop fuel states' ctx' acc'

/-- number of index vectors, plus one: enough fuel for `loop` -/
def fuelFor (states : List State) : Nat :=
  states.foldl (fun n st => n * ((st.stop - st.start).natAbs + 2)) 1 + 1

/-- `FeelIterator::run`: the iteration contexts in the order the handler sees them. -/
def run (states : List State) : Outcome (List Ctx) :=
  if states.isEmpty then .ok []
  else loop (fuelFor states) states.reverse [] []

/-- The cartesian product the FEEL semantics prescribes: first declared variable outermost;
empty as soon as one domain is empty. -/
def domain (st : State) : List Value :=
  if st.isRange then
    let n := (st.stop - st.start).natAbs + 1
    (List.range n).map (fun (i : Nat) => .num (Dec.ofInt (st.start + st.step * (i : Int))))
  else st.values

def product : List State → List Ctx
  | [] => [[]]
  | st :: rest =>
    -- an inner variable of the same name shadows the outer one
    (domain st).flatMap (fun v => (product rest).map (fun c => if Ctx.contains c st.name then c else Ctx.set c st.name v))

/-- The product in which an *outer* variable wins over an inner one of the same name (what the
persistent iteration context of `run` does). -/
def productOuterWins : List State → List Ctx
  | [] => [[]]
  | st :: rest =>
    (domain st).flatMap (fun v => (productOuterWins rest).map (fun c => Ctx.set c st.name v))

end Dmn.Iter
