import Dmn.Model.Bifs

/-!
# The dispatch of built-in functions as data

`feel-evaluator/src/bifs/positional.rs` and `named.rs` are two hand-written matches with one
arm per built-in.  `translate/dispatch.py` turns every arm into a value of the types below
(`Dmn/Gen/BifDispatch.lean`, regenerated on every run); `evalPositional` / `evalNamed`
interpret them.  The only thing an arm inspects besides the number of parameters / the
presence of a name is whether a parameter is a `Value::List`.
-/

namespace Dmn
namespace Bif

/-! ## positional.rs -/

/-- an argument expression of a `core::` call in `positional.rs` -/
inductive PArg where
  /-- `&parameters[i]` -/
  | param (i : Nat)
  /-- `&value_null!()` -/
  | nullLit
  /-- `&parameters[i..]` (`parameters` is `slice 0`) -/
  | slice (start : Nat)
  /-- `values.as_vec()` where `Value::List(values)` matched `&parameters[i]` -/
  | itemsOf (i : Nat)
  /-- `std::slice::from_ref(&parameters[i])`: the slice of that one parameter (only produced
  by translating a named call, see `NArg.single`) -/
  | single (i : Nat)
  deriving DecidableEq, Repr, Inhabited

structure PCall where
  fn : String
  args : List PArg
  deriving DecidableEq, Repr, Inhabited

inductive PBody where
  | call (c : PCall)
  /-- `value_null!(…)`, `invalid_number_of_parameters!(…)` -/
  | null
  /-- `match &parameters[i] { Value::List(values) => t, _ => e }` -/
  | ifList (i : Nat) (t e : PBody)
  deriving Repr, Inhabited

inductive Arity where
  | exactly (n : Nat)
  | atLeast (n : Nat)
  deriving DecidableEq, Repr, Inhabited

def Arity.accepts (a : Arity) (n : Nat) : Bool :=
  match a with
  | .exactly k => n == k
  | .atLeast k => k ≤ n

/-- one `bif_*` function of `positional.rs`: the first accepting arm is taken -/
structure PosRow where
  variant : String
  arms : List (Arity × PBody)
  deriving Repr, Inhabited

def isList (v : Value) : Bool :=
  match v with
  | .list _ => true
  | _ => false

def PBody.resolve (shape : List Bool) : PBody → Option PCall
  | .call c => some c
  | .null => none
  | .ifList i t e => if shape.getD i false then t.resolve shape else e.resolve shape

def PosRow.resolve (row : PosRow) (shape : List Bool) : Option PCall :=
  match row.arms.find? (fun a => a.1.accepts shape.length) with
  | some (_, body) => body.resolve shape
  | none => none

/-- `none` = the Rust expression would panic (index out of range) -/
def PArg.inst (args : List Value) : PArg → Option CoreArg
  | .param i => (args[i]?).map .v
  | .nullLit => some (.v .null)
  | .slice start => if start ≤ args.length then some (.vs (args.drop start)) else none
  | .itemsOf i =>
    match args[i]? with
    | some (.list xs) => some (.vs xs)
    | _ => none
  | .single i => (args[i]?).map (fun v => .vs [v])

abbrev Core := String → List CoreArg → Option (Outcome Value)

def nullR : Option (Outcome Value) := some (.ok .null)

/-- `positional::evaluate_bif` for one built-in -/
def evalPositional (core : Core) (row : PosRow) (args : List Value) : Option (Outcome Value) :=
  match row.resolve (args.map isList) with
  | none => nullR
  | some c =>
    match c.args.mapM (PArg.inst args) with
    | some cargs => core c.fn cargs
    | none => some (.panic "bifs dispatch: parameter out of range")

/-! ## named.rs -/

inductive NArg where
  /-- the value bound by `if let Some((value, _)) = get_param(parameters, &NAME_…)` -/
  | var (name : String)
  /-- `list.as_vec()` where `Some((Value::List(list), _))` matched the parameter -/
  | itemsOf (name : String)
  /-- `std::slice::from_ref(value)`: the bound value as a slice of one item -/
  | single (name : String)
  | nullLit
  deriving DecidableEq, Repr, Inhabited

structure NCall where
  fn : String
  args : List NArg
  deriving DecidableEq, Repr, Inhabited

inductive NBody where
  | call (c : NCall)
  | null
  /-- `if let Some((pattern, _)) = get_param(parameters, &NAME) { t } else { e }`;
  `listOnly`: the pattern is `Value::List(_)` -/
  | ifParam (name : String) (listOnly : Bool) (t e : NBody)
  deriving Repr, Inhabited

structure NamedRow where
  variant : String
  body : NBody
  deriving Repr, Inhabited

/-- `Value::NamedParameters`: a `BTreeMap` filled by `insert` in source order (a repeated
name keeps the last value) -/
abbrev NamedArgs := List (String × Value)

def NamedArgs.get : NamedArgs → String → Option Value
  | [], _ => none
  | (k', v) :: rest, k =>
    match NamedArgs.get rest k with
    | some w => some w
    | none => if k' = k then some v else none

/-- `shape k` = `some isList` when the name is present -/
def NBody.resolve (shape : String → Option Bool) : NBody → Option NCall
  | .call c => some c
  | .null => none
  | .ifParam name listOnly t e =>
    match shape name with
    | some l => if listOnly && !l then e.resolve shape else t.resolve shape
    | none => e.resolve shape

def NArg.inst (named : NamedArgs) : NArg → Option CoreArg
  | .var name => (named.get name).map .v
  | .nullLit => some (.v .null)
  | .itemsOf name =>
    match named.get name with
    | some (.list xs) => some (.vs xs)
    | _ => none
  | .single name => (named.get name).map (fun v => .vs [v])

/-- `named::evaluate_bif` for one built-in -/
def evalNamed (core : Core) (row : NamedRow) (named : NamedArgs) : Option (Outcome Value) :=
  match row.body.resolve (fun k => (named.get k).map isList) with
  | none => nullR
  | some c =>
    match c.args.mapM (NArg.inst named) with
    | some cargs => core c.fn cargs
    | none => some (.panic "bifs dispatch: parameter out of range")

/-- the named invocation that corresponds to a positional one: the i-th argument is bound
to the i-th parameter name of the signature -/
def bindNames (names : List String) (args : List Value) : NamedArgs := names.zip args

/-! ## the syntactic comparison of the two tables -/

def NArg.toPos (names : List String) : NArg → PArg
  | .var name => .param (names.idxOf name)
  | .itemsOf name => .itemsOf (names.idxOf name)
  | .single name => .single (names.idxOf name)
  | .nullLit => .nullLit

def NCall.toPos (names : List String) (c : NCall) : PCall := ⟨c.fn, c.args.map (NArg.toPos names)⟩

/-- with exactly one parameter, the whole slice `parameters` is the slice of that parameter -/
def PArg.norm (n : Nat) : PArg → PArg
  | .slice 0 => if n = 1 then .single 0 else .slice 0
  | a => a

def PCall.norm (n : Nat) (c : PCall) : PCall := ⟨c.fn, c.args.map (PArg.norm n)⟩

/-- for arguments of the given shape (which are lists), do both tables make the same
`core::` call with the same arguments (or both none)? -/
def formAgrees (prow : PosRow) (nrow : NamedRow) (names : List String) (shape : List Bool) : Bool :=
  (nrow.body.resolve (fun k => shape[names.idxOf k]?)).map (NCall.toPos names)
    == (prow.resolve shape).map (PCall.norm shape.length)

def shapes : Nat → List (List Bool)
  | 0 => [[]]
  | n + 1 => (shapes n).flatMap (fun s => [true :: s, false :: s])

/-- a signature of the specification: parameter names in positional order, the first
`required` of them mandatory -/
structure Signature where
  name : String
  params : List String
  required : Nat
  deriving Repr, Inhabited, DecidableEq

def arities (sig : Signature) : List Nat :=
  (List.range (sig.params.length + 1)).filter (fun n => sig.required ≤ n)

def rowAgrees (prow : PosRow) (nrow : NamedRow) (sig : Signature) : Bool :=
  decide sig.params.Nodup &&
    (arities sig).all (fun n => (shapes n).all (fun shape => formAgrees prow nrow sig.params shape))

/-! ## every `&parameters[i]` of `positional.rs` is guarded by the arity test of its arm -/

/-- `n`: the number of parameters the arm guarantees; `lists`: the indices matched as
`Value::List` on the way -/
def PArg.safe (n : Nat) (lists : List Nat) : PArg → Bool
  | .param i => decide (i < n)
  | .nullLit => true
  | .slice start => decide (start ≤ n)
  | .itemsOf i => lists.contains i
  | .single i => decide (i < n)

def PBody.safe (n : Nat) (lists : List Nat) : PBody → Bool
  | .call c => c.args.all (PArg.safe n lists)
  | .null => true
  | .ifList i t e => t.safe n (i :: lists) && e.safe n lists

def Arity.atLeastN : Arity → Nat
  | .exactly k => k
  | .atLeast k => k

def PosRow.safe (row : PosRow) : Bool := row.arms.all (fun a => a.2.safe a.1.atLeastN [])

/-! ## name resolution (`build_name`, `builders.rs:1154`) -/

/-- A name evaluates to the scope entry when there is one, otherwise to the built-in
function of that name, otherwise to null. -/
def resolveName (bifNames : List String) (scope : Scope) (name : String) : Value :=
  match scope.getEntry name with
  | some v => v
  | none => if bifNames.contains name then .bif name else .null

end Bif
end Dmn
