/-!
# C06 — white space and comments between tokens

Model of `Lexer::read_input` (`feel-parser/src/lexer.rs:423-443`): before every token the
lexer repeats `consume_whitespace; consume_comment` until the position no longer moves —
any sequence of white space and comments is skipped.  Characters are code points (`Nat`).
Imports nothing.
-/

namespace Dmn.GapLayout

/-- lexer.rs:1024-1026 -/
def isVerticalSpace (c : Nat) : Bool := 0x0A ≤ c && c ≤ 0x0D

/-- lexer.rs:1013-1020 -/
def isWhitespace (c : Nat) : Bool :=
  isVerticalSpace c || c == 0x09 || c == 0x20 || c == 0x85 || c == 0xA0 || c == 0x1680 ||
    c == 0x180E || (0x2000 ≤ c && c ≤ 0x200B) || c == 0x2028 || c == 0x2029 || c == 0x202F ||
    c == 0x205F || c == 0x3000 || c == 0xFEFF

/-- `consume_whitespace` (lexer.rs:452-460). -/
def skipWs : List Nat → List Nat
  | [] => []
  | c :: cs => if isWhitespace c then skipWs cs else c :: cs

/-- Inside `// …`: up to, not including, the vertical space that ends the line (lexer.rs:467-476;
any of U+000A … U+000D since the repair 20fca88, the line feed only before it). -/
def skipLine : List Nat → List Nat
  | [] => []
  | c :: cs => if isVerticalSpace c then c :: cs else skipLine cs

/-- Inside `/* …`: through the first `*/` (lexer.rs:476-487). -/
def skipBlock : List Nat → List Nat
  | [] => []
  | c :: cs =>
    if c == 0x2A then
      match cs with
      | d :: ds => if d == 0x2F then ds else skipBlock cs
      | [] => []
    else skipBlock cs

/-- `consume_comment` (lexer.rs:464-490): one comment, if one starts here. -/
def skipComment : List Nat → List Nat
  | [] => []
  | c :: cs =>
    if c == 0x2F then
      match cs with
      | d :: ds => if d == 0x2F then skipLine ds else if d == 0x2A then skipBlock ds else c :: cs
      | [] => c :: cs
    else c :: cs

/-- One round of the loop of `read_input` (lexer.rs:427-428). -/
def skipStep (cs : List Nat) : List Nat := skipComment (skipWs cs)

/-- `read_input` up to the point where the buffer is filled (lexer.rs:424-432): rounds of
`skipStep` for as long as one moves the position (a round never moves it backwards, so
"moved" is "fewer characters left"). -/
def skipGap (cs : List Nat) : List Nat :=
  if _h : (skipStep cs).length < cs.length then skipGap (skipStep cs) else cs
termination_by cs.length

/-- `is_comment_start` (lexer.rs:453). -/
def startsComment : List Nat → Bool
  | c :: d :: _ => c == 0x2F && (d == 0x2F || d == 0x2A)
  | _ => false

/-- The loop of `is_next_character` (lexer.rs:965-980), used after the keywords `function`,
`list`, `range`, `context` and after `date` / `time`: a comment is jumped over (`comment_end`,
lexer.rs:984, stops where `consume_comment` stops), white space is stepped over, any other
character decides.  At most `fuel` rounds (every round shortens the rest). -/
def nextIsLoop (chars : List Nat) : Nat → List Nat → Bool
  | 0, _ => false
  | _ + 1, [] => false
  | fuel + 1, c :: cs =>
    if startsComment (c :: cs) then nextIsLoop chars fuel (skipComment (c :: cs))
    else if chars.contains c then true
    else if !isWhitespace c then false
    else nextIsLoop chars fuel cs

/-- `is_next_character(chars, offset)` on the text from `offset` on. -/
def nextIs (chars : List Nat) (cs : List Nat) : Bool := nextIsLoop chars (cs.length + 1) cs

/-! ## Layouts the property speaks of -/

def allWs (g : List Nat) : Bool := g.all isWhitespace

/-- No `*/` inside. -/
def noClose : List Nat → Bool
  | [] => true
  | c :: cs =>
    (match cs with
      | d :: _ => !(c == 0x2A && d == 0x2F)
      | [] => true) && noClose cs

/-- No vertical space inside (grammar: a line comment is `//` and characters other than vertical space). -/
def noVertical (g : List Nat) : Bool := g.all (fun c => !isVerticalSpace c)

/-- A comment: `// body` closed by a vertical space `eol` (line feed, vertical tab, form feed or carriage
return — a CR LF pair is the comment closed by CR followed by the white space LF), or `/* body */`. -/
inductive Comment where
  | line (body : List Nat) (eol : Nat)
  | block (body : List Nat)

def Comment.ok : Comment → Bool
  | .line body eol => noVertical body && isVerticalSpace eol
  | .block body => noClose body

def Comment.text : Comment → List Nat
  | .line body eol => 0x2F :: 0x2F :: (body ++ [eol])
  | .block body => 0x2F :: 0x2A :: (body ++ [0x2A, 0x2F])

/-- What may stand between two tokens: runs of white space and comments, in any number and
order. -/
inductive Piece where
  | ws (cs : List Nat)
  | comment (c : Comment)

def Piece.ok : Piece → Bool
  | .ws cs => allWs cs
  | .comment c => c.ok

def Piece.text : Piece → List Nat
  | .ws cs => cs
  | .comment c => c.text

abbrev Gap := List Piece

def gapOk (g : Gap) : Bool := g.all Piece.ok

def gapText : Gap → List Nat
  | [] => []
  | p :: ps => p.text ++ gapText ps

/-- The next token does not begin with white space or a comment. -/
def startsToken : List Nat → Bool
  | [] => true
  | c :: cs =>
    !isWhitespace c &&
      !(c == 0x2F && (match cs with
        | d :: _ => d == 0x2F || d == 0x2A
        | [] => false))

/-- The first character is one of `chars`. -/
def headIn (chars : List Nat) : List Nat → Bool
  | [] => false
  | c :: _ => chars.contains c

/-- The characters looked for are neither white space nor `/` (they are `(`, `<`, `:`). -/
def plainChars (chars : List Nat) : Bool := chars.all (fun c => !isWhitespace c && c != 0x2F)

end Dmn.GapLayout
