/-!
# C06 — white space and comments between tokens

Model of `Lexer::read_input` (`feel-parser/src/lexer.rs:423-436`): before every token the
lexer calls `consume_whitespace`, `consume_comment`, `consume_whitespace` — white space,
*one* comment, white space.  Characters are code points (`Nat`).  Imports nothing.
-/

namespace Dmn.GapLayout

/-- lexer.rs:1010-1012 -/
def isVerticalSpace (c : Nat) : Bool := 0x0A ≤ c && c ≤ 0x0D

/-- lexer.rs:999-1006 -/
def isWhitespace (c : Nat) : Bool :=
  isVerticalSpace c || c == 0x09 || c == 0x20 || c == 0x85 || c == 0xA0 || c == 0x1680 ||
    c == 0x180E || (0x2000 ≤ c && c ≤ 0x200B) || c == 0x2028 || c == 0x2029 || c == 0x202F ||
    c == 0x205F || c == 0x3000 || c == 0xFEFF

/-- `consume_whitespace` (lexer.rs:440-448). -/
def skipWs : List Nat → List Nat
  | [] => []
  | c :: cs => if isWhitespace c then skipWs cs else c :: cs

/-- Inside `// …`: up to, not including, the line feed (lexer.rs:455-463). -/
def skipLine : List Nat → List Nat
  | [] => []
  | c :: cs => if c == 0x0A then c :: cs else skipLine cs

/-- Inside `/* …`: through the first `*/` (lexer.rs:464-475). -/
def skipBlock : List Nat → List Nat
  | [] => []
  | c :: cs =>
    if c == 0x2A then
      match cs with
      | d :: ds => if d == 0x2F then ds else skipBlock cs
      | [] => []
    else skipBlock cs

/-- `consume_comment` (lexer.rs:452-478): one comment, if one starts here. -/
def skipComment : List Nat → List Nat
  | [] => []
  | c :: cs =>
    if c == 0x2F then
      match cs with
      | d :: ds => if d == 0x2F then skipLine ds else if d == 0x2A then skipBlock ds else c :: cs
      | [] => c :: cs
    else c :: cs

/-- `read_input` up to the point where the buffer is filled (lexer.rs:424-426). -/
def skipGap (cs : List Nat) : List Nat := skipWs (skipComment (skipWs cs))

/-! ## Layouts the property speaks of -/

def allWs (g : List Nat) : Bool := g.all isWhitespace

/-- No `*/` inside. -/
def noClose : List Nat → Bool
  | [] => true
  | c :: cs =>
    (match cs with
      | d :: _ => !(c == 0x2A && d == 0x2F)
      | [] => true) && noClose cs

def noLf (g : List Nat) : Bool := g.all (fun c => c != 0x0A)

/-- A comment: `// body` closed by a line feed, or `/* body */`. -/
inductive Comment where
  | line (body : List Nat)
  | block (body : List Nat)

def Comment.ok : Comment → Bool
  | .line body => noLf body
  | .block body => noClose body

def Comment.text : Comment → List Nat
  | .line body => 0x2F :: 0x2F :: (body ++ [0x0A])
  | .block body => 0x2F :: 0x2A :: (body ++ [0x2A, 0x2F])

/-- What may stand between two tokens: white space, optionally one comment in it. -/
structure Gap where
  before : List Nat
  comment : Option Comment
  after : List Nat

def Gap.ok (g : Gap) : Bool :=
  allWs g.before && allWs g.after &&
    (match g.comment with
      | some c => c.ok
      | none => true)

def Gap.text (g : Gap) : List Nat :=
  g.before ++ (match g.comment with
    | some c => c.text
    | none => []) ++ g.after

/-- The next token does not begin with white space or a comment. -/
def startsToken : List Nat → Bool
  | [] => true
  | c :: cs =>
    !isWhitespace c &&
      !(c == 0x2F && (match cs with
        | d :: _ => d == 0x2F || d == 0x2A
        | [] => false))

end Dmn.GapLayout
