import Dmn.Model.DecisionTable
import Dmn.Model.ReqDfs

/-!
# Building a model evaluator: the places where `ModelEvaluator::new` / `evaluate_invocable`
can panic or fail to terminate (C12)

1. `parse_decision_table` (`decision_table.rs:261-360`) pairs rules with clauses **by index**:
   `rule.input_entries[i]` for every input clause, `rule.output_entries[i]` for every output
   clause — after checking (since f36e6c9) that the table has an output clause and that every
   rule has exactly one entry per clause.  `buildTable` mirrors the checks and the loops with an
   explicit `panic` outcome for the indexing; parsing of the cell texts is given data (a flag
   per cell).
2. The recursive traversals that follow references without a visited set:
   * `bring_knowledge_requirements_into_context` (`decision.rs:197-218`) at build time,
   * the item-definition type / context evaluators (`item_definition_type.rs`,
     `item_definition_context.rs`) called at build time for every typed variable,
   * required knowledge / required decisions / decision services at evaluation time
     (`decision.rs:149-166`, `business_knowledge_model.rs:302-318`, `decision_service.rs:144-176`).
   Each is modelled with **fuel** = a bound on the depth of reference-following; running out
   of fuel is the outcome `diverge` (the implementation overflows its stack).
3. Since aff91af / b66efe5 `ModelEvaluator::new` first checks that these chains end
   (`check_requirements`, `model_evaluator.rs:54-106`; `check_references`,
   `item_definition.rs:74-97`).  Until ba4278d / 5e48a41 both counted the length of the chain (a chain
   longer than the number of elements is an error: `reqChain`, `itemChain`), which walks every path of
   the graph; since then both are depth-first searches with a `chain` and a `checked` set
   (`Dmn.ReqDfs.dfs`).  `reqCheck` is the search; `itemCheck` still is the chain-length formulation
   (same answer, tied by the graph correspondence; the generic equivalence `ReqDfs.dfsCheck_eq` is
   instantiated for the requirements only).

Identifiers and item-definition names are numbers here (the harness numbers them); they are
assumed pairwise distinct per kind.
-/

namespace Dmn.MB

open Dmn Dmn.DT

/-! ## 1. `parse_decision_table` -/

/-- A rule as the XML parser delivers it: one flag per entry (does the text parse as unary
tests / as an expression). -/
structure RuleS where
  inputs : List Bool
  outputs : List Bool
  deriving Repr, Inhabited, DecidableEq

/-- An input clause: input expression parses; input values (when present) parse. -/
structure InS where
  expr : Bool
  values : Option Bool
  deriving Repr, Inhabited, DecidableEq

/-- An output clause: output values / default entry / name (when present) parse. -/
structure OutS where
  values : Option Bool
  default : Option Bool
  name : Option Bool
  deriving Repr, Inhabited, DecidableEq

structure TableS where
  ins : List InS
  outs : List OutS
  rules : List RuleS
  deriving Repr, Inhabited, DecidableEq

/-- The numbers of input / output evaluators of every parsed rule. -/
abbrev Parsed := List (Nat × Nat)

def optOk : Option Bool → Bool
  | none => true
  | some b => b

/-- `for (i, _) in clauses.enumerate() { parse(&rule.entries[i].text)? }`: `n` clauses still to
go, entries consumed from the front; index out of bounds panics, a text that does not parse
returns `Err`. -/
def entryLoop (site : String) : Nat → List Bool → Outcome Nat
  | 0, _ => .ok 0
  | _ + 1, [] => .panic site
  | n + 1, e :: es =>
    if e then
      match entryLoop site n es with
      | .ok k => .ok (k + 1)
      | .error m => .error m
      | .panic s => .panic s
    else .error "cell does not parse"

def ruleLoop (nIn nOut : Nat) : List RuleS → Outcome Parsed
  | [] => .ok []
  | r :: rs =>
    -- decision_table.rs:300-307: every rule has one entry per input clause and per output clause
    if r.inputs.length ≠ nIn ∨ r.outputs.length ≠ nOut then .error "rule size mismatch" else
    match entryLoop "decision_table.rs:311 rule.input_entries[i]" nIn r.inputs with
    | .ok a =>
      match entryLoop "decision_table.rs:325 rule.output_entries[i]" nOut r.outputs with
      | .ok b =>
        match ruleLoop nIn nOut rs with
        | .ok ps => .ok ((a, b) :: ps)
        | .error m => .error m
        | .panic s => .panic s
      | .error m => .error m
      | .panic s => .panic s
    | .error m => .error m
    | .panic s => .panic s

/-- `parse_decision_table`. -/
def buildTable (t : TableS) : Outcome Parsed :=
  if t.ins.all (fun c => c.expr && optOk c.values) then
    if t.outs.all (fun c => optOk c.values && optOk c.default && optOk c.name) then
      -- decision_table.rs:292-295: a decision table has at least one output clause
      if t.outs.isEmpty then .error "decision table without output clause"
      else ruleLoop t.ins.length t.outs.length t.rules
    else .error "output clause does not parse"
  else .error "input clause does not parse"

/-- The table has an output clause and every rule has exactly one entry per clause: the
shapes `parse_decision_table` accepts (all others are errors). -/
def TableS.wellShaped (t : TableS) : Bool :=
  !t.outs.isEmpty &&
  t.rules.all (fun r => decide (r.inputs.length = t.ins.length) && decide (r.outputs.length = t.outs.length))

/-! ## 2. Reference-following traversals -/

inductive Res where
  | ok | error | diverge
  deriving Repr, Inhabited, DecidableEq

/-- `for x in xs { f(x)? }` with `diverge` propagating like an error. -/
def allM (f : Nat → Res) : List Nat → Res
  | [] => .ok
  | x :: xs =>
    match f x with
    | .ok => allM f xs
    | .error => .error
    | .diverge => .diverge

/-- Result of evaluating an item definition's type: `Some(type)`, `None`, or no result. -/
inductive WRes where
  | found | missing | diverge
  deriving Repr, Inhabited, DecidableEq

/-- An item definition as classified by `item_definition_type` (`mod.rs:83-107`); references
are names of top-level item definitions. -/
inductive Item where
  | simple
  | ref (n : Nat)
  | comp (cs : List Item)
  | collSimple
  | collRef (n : Nat)
  | collComp (cs : List Item)
  deriving Repr, Inhabited

def lookupItem (items : List (Nat × Item)) (n : Nat) : Option Item :=
  match items with
  | [] => none
  | (m, it) :: rest => if m = n then some it else lookupItem rest n

mutual
/-- The type evaluator / context evaluator of one item definition, `k` resolving references
(`item_definition_type.rs:97-165`, `item_definition_context.rs:107-190`): simple kinds answer
directly, referenced kinds ask the map of evaluators, component kinds evaluate every component. -/
def walkWith (k : Nat → WRes) : Item → WRes
  | .simple => .found
  | .collSimple => .found
  | .ref n => k n
  | .collRef n => k n
  | .comp cs => walkAll k cs
  | .collComp cs => walkAll k cs
def walkAll (k : Nat → WRes) : List Item → WRes
  | [] => .found
  | c :: cs =>
    match walkWith k c with
    | .diverge => .diverge
    | .found => walkAll k cs
    | .missing => walkAll k cs
end

/-- `ItemDefinitionTypeEvaluator::eval(type_ref)` with depth bound `fuel`. -/
def walkName (items : List (Nat × Item)) : Nat → Nat → WRes
  | fuel, n =>
    match lookupItem items n with
    | none => .missing
    | some it =>
      match fuel with
      | 0 => .diverge
      | f + 1 => walkWith (walkName items f) it

mutual
/-- `check_references` on one item definition (`item_definition.rs:80-91`): the referenced
item definition is checked with the chain one longer (`k`), the components with the same length. -/
def refsOkWith (k : Nat → Bool) : Item → Bool
  | .simple => true
  | .collSimple => true
  | .ref n => k n
  | .collRef n => k n
  | .comp cs => refsOkAll k cs
  | .collComp cs => refsOkAll k cs
def refsOkAll (k : Nat → Bool) : List Item → Bool
  | [] => true
  | c :: cs => refsOkWith k c && refsOkAll k cs
end

/-- `check_references(referenced, definitions, length)` with `budget` = the number of further
item definitions the chain may still visit: `length > item_definitions.len()` is `budget = 0`. -/
def itemChain (items : List (Nat × Item)) : Nat → Nat → Bool
  | budget, n =>
    match lookupItem items n with
    | none => true
    | some it =>
      match budget with
      | 0 => false
      | b + 1 => refsOkWith (itemChain items b) it

/-- The check of `ItemDefinitionEvaluator::build`: every top-level item definition starts a
chain of length 1. -/
def itemCheck (items : List (Nat × Item)) : Bool :=
  items.all (fun e => refsOkWith (itemChain items (items.length - 1)) e.2)

/-- A type reference of a variable: a built-in type name, or the name of an item definition. -/
inductive TypeRef where
  | builtin
  | named (n : Nat)
  deriving Repr, Inhabited, DecidableEq

/-- `information_item_type` / `Variable::feel_type` / the context evaluators: walks the item
definition graph, `none` ⇒ `Any`. Only non-termination is observable here. -/
def walkRef (items : List (Nat × Item)) (fuel : Nat) : Option TypeRef → Res
  | none => .ok
  | some .builtin => .ok
  | some (.named n) =>
    match walkName items fuel n with
    | .diverge => .diverge
    | .found => .ok
    | .missing => .ok

/-- A formal parameter's type must resolve: `information_item_type(..).ok_or_else(err_empty_feel_type)?`
(`business_knowledge_model.rs:97`). -/
def walkParam (items : List (Nat × Item)) (fuel : Nat) : TypeRef → Res
  | .builtin => .ok
  | .named n =>
    match walkName items fuel n with
    | .diverge => .diverge
    | .found => .ok
    | .missing => .error

structure Bkm where
  id : Nat
  reqs : List Nat
  paramTypes : List TypeRef
  varType : Option TypeRef
  deriving Repr, Inhabited

structure InfoReq where
  reqDecision : Option Nat
  reqInput : Option Nat
  deriving Repr, Inhabited

structure Decision where
  id : Nat
  varType : Option TypeRef
  knowledge : List Nat
  info : List InfoReq
  deriving Repr, Inhabited

structure Input where
  id : Nat
  /-- `None` is rejected by `input_data_context_evaluator` -/
  typeRef : Option TypeRef
  deriving Repr, Inhabited

structure Service where
  id : Nat
  varType : Option TypeRef
  inputData : List Nat
  inputDecisions : List Nat
  encapsulated : List Nat
  outputs : List Nat
  deriving Repr, Inhabited

structure Defs where
  items : List (Nat × Item)
  inputs : List Input
  bkms : List Bkm
  decisions : List Decision
  services : List Service
  deriving Repr, Inhabited

def findBkm (d : Defs) (id : Nat) : Option Bkm := d.bkms.find? (·.id = id)
def findDecision (d : Defs) (id : Nat) : Option Decision := d.decisions.find? (·.id = id)
def findService (d : Defs) (id : Nat) : Option Service := d.services.find? (·.id = id)
def findInput (d : Defs) (id : Nat) : Option Input := d.inputs.find? (·.id = id)

/-- One knowledge requirement of `bring_knowledge_requirements_into_context`
(`decision.rs:198-216`): a knowledge model recurses into its own requirements, a decision
service does not, anything else is an error. -/
def bringOne (d : Defs) : Nat → Nat → Res
  | fuel, id =>
    match findBkm d id with
    | some b =>
      match fuel with
      | 0 => .diverge
      | f + 1 => allM (bringOne d f) b.reqs
    | none => if (findService d id).isSome then .ok else .error

/-- `bring_knowledge_requirements_into_context(definitions, requirements, ctx)`. -/
def bringKR (d : Defs) (fuel : Nat) (reqs : List Nat) : Res := allM (bringOne d fuel) reqs

def seq (a : Res) (b : Unit → Res) : Res :=
  match a with
  | .ok => b ()
  | .error => .error
  | .diverge => .diverge

def forM {α : Type} (f : α → Res) : List α → Res
  | [] => .ok
  | x :: xs => seq (f x) (fun _ => forM f xs)

/-- `build_business_knowledge_model_evaluator` (`business_knowledge_model.rs:88-140`): the
types of the formal parameters and of the output variable are evaluated at build time. -/
def buildBkm (d : Defs) (fuel : Nat) (b : Bkm) : Res :=
  seq (forM (walkParam d.items fuel) b.paramTypes) fun _ => walkRef d.items fuel b.varType

/-- One information requirement at build time (`decision.rs:103-118`). -/
def buildInfo (d : Defs) (fuel : Nat) (r : InfoReq) : Res :=
  seq (match r.reqDecision with
      | none => .ok
      | some id =>
        match findDecision d id with
        | some rd => bringKR d fuel rd.knowledge
        | none => .ok) fun _ =>
    match r.reqInput with
    | none => .ok
    | some id =>
      match findInput d id with
      | some i => walkRef d.items fuel i.typeRef
      | none => .ok

/-- `build_decision_evaluator` (`decision.rs:86-194`) as far as references are followed. -/
def buildDecision (d : Defs) (fuel : Nat) (x : Decision) : Res :=
  seq (walkRef d.items fuel x.varType) fun _ =>
  seq (bringKR d fuel x.knowledge) fun _ =>
  forM (buildInfo d fuel) x.info

/-- `build_decision_service_evaluator` (`decision_service.rs:92-140`): types of the output
variable, of the input data and of the input decisions' variables. -/
def buildService (d : Defs) (fuel : Nat) (s : Service) : Res :=
  seq (walkRef d.items fuel s.varType) fun _ =>
  seq (forM (fun id => match findInput d id with
      | some i => walkRef d.items fuel i.typeRef
      | none => .ok) s.inputData) fun _ =>
  forM (fun id => match findDecision d id with
      | some x => walkRef d.items fuel x.varType
      | none => .ok) s.inputDecisions

/-! `check_requirements` (`model_evaluator.rs:50-93`): the map from the identifier of a
decision, knowledge model or decision service to the identifiers it requires. -/

/-- The identifiers a decision requires: required decisions and required knowledge. -/
def Decision.required (x : Decision) : List Nat := x.info.filterMap (·.reqDecision) ++ x.knowledge
/-- The decisions of a decision service. -/
def Service.required (s : Service) : List Nat := s.inputDecisions ++ s.encapsulated ++ s.outputs

/-- The keys of the map. -/
def allIds (d : Defs) : List Nat :=
  d.decisions.map (·.id) ++ d.bkms.map (·.id) ++ d.services.map (·.id)

/-- `requirements.get(id)`: entries of elements sharing an identifier are merged. -/
def reqList (d : Defs) (id : Nat) : List Nat :=
  ((d.decisions.filter (·.id = id)).flatMap Decision.required) ++
    ((d.bkms.filter (·.id = id)).flatMap (·.reqs)) ++
    ((d.services.filter (·.id = id)).flatMap Service.required)

def reqsOf (d : Defs) (id : Nat) : Option (List Nat) :=
  if id ∈ allIds d then some (reqList d id) else none

/-- `check_chain(id, requirements, length)` as it was before the repair ba4278d, with `budget` = the number
of further elements the chain may still visit (`length > requirements.len()` is `budget = 0`).  It is the
instance `ReqDfs.chainOk (reqsOf d)` of the generic chain-length check and remains the *specification* of
the answer: the lemmas about bounded depth are stated with it. -/
def reqChain (d : Defs) : Nat → Nat → Bool
  | budget, id =>
    match reqsOf d id with
    | none => true
    | some rs =>
      match budget with
      | 0 => false
      | b + 1 => rs.all (reqChain d b)

/-- `requirements.len()`. -/
def nodeCount (d : Defs) : Nat := (allIds d).eraseDups.length

/-- The check before the repair: `requirements.keys().try_for_each(|id| check_chain(id, &requirements, 1))`
with the chain-length `check_chain`. -/
def reqCheckChains (d : Defs) : Bool := (allIds d).all (reqChain d (nodeCount d))

/-- `check_requirements` since ba4278d (`model_evaluator.rs:86-105`): `check_chain` is a depth-first search
with the sets `chain` and `checked` (`ReqDfs.dfs`), run from every key with a fresh `chain` and one
`checked`.  Same answer as `reqCheckChains` (`reqCheck_eq_chains`), every element expanded at most once
(`check_chain_linear`). -/
def reqCheck (d : Defs) : Bool := ReqDfs.dfsCheck (reqsOf d) (allIds d)

/-- `ModelEvaluator::new` as far as references are followed: the requirement graph must be
acyclic; input data need a type reference; item definitions must not refer to themselves; then
knowledge models, decisions, decision services in document order. -/
def build (d : Defs) (fuel : Nat) : Res :=
  if !reqCheck d then .error else
  seq (forM (fun i : Input => if i.typeRef.isSome then Res.ok else Res.error) d.inputs) fun _ =>
  if !itemCheck d.items then .error else
  seq (forM (buildBkm d fuel) d.bkms) fun _ =>
  seq (forM (buildDecision d fuel) d.decisions) fun _ =>
  forM (buildService d fuel) d.services

/-! Evaluation: everything a decision, knowledge model or decision service evaluates before
its own logic runs.  Unknown identifiers are skipped (`HashMap::get` → `None`). -/

mutual
/-- The decision closure (`decision.rs:141-190`): required knowledge, then required decisions. -/
def evalDecision (d : Defs) : Nat → Nat → Res
  | fuel, id =>
    match findDecision d id with
    | none => .ok
    | some x =>
      match fuel with
      | 0 => .diverge
      | f + 1 =>
        seq (allM (evalBkm d f) x.knowledge) fun _ =>
        allM (evalDecision d f) (x.info.filterMap (·.reqDecision))
/-- The knowledge-model closure (`business_knowledge_model.rs:302-318`): every requirement is
evaluated as a knowledge model and as a decision service. -/
def evalBkm (d : Defs) : Nat → Nat → Res
  | fuel, id =>
    match findBkm d id with
    | none => .ok
    | some b =>
      match fuel with
      | 0 => .diverge
      | f + 1 => allM (evalBkm d f) b.reqs
/-- The decision-service closure (`decision_service.rs:144-176`): input, encapsulated and
output decisions. -/
def evalService (d : Defs) : Nat → Nat → Res
  | fuel, id =>
    match findService d id with
    | none => .ok
    | some s =>
      match fuel with
      | 0 => .diverge
      | f + 1 =>
        seq (allM (evalDecision d f) s.inputDecisions) fun _ =>
        seq (allM (evalDecision d f) s.encapsulated) fun _ =>
        allM (evalDecision d f) s.outputs
end

end Dmn.MB
