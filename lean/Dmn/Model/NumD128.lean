import Dmn.Model.Dec
import Dmn.Model.DecString
import Dmn.Model.EvalOps

/-!
# Correctly rounded arithmetic for the evaluator model

`NumOps.d128` plugs the decimal128 model of C02 (`Dmn.D128`, `Dmn.FNum`: 34 digits,
half-even, reduced results as `impl Add/Sub/Mul/Div for FeelNumber` produce them) into the
evaluator model.  A non-finite result (the code would carry `Infinity` / `NaN` in a
`Value::Number`, finding C02 F7) is `none`: the evaluator model has no such value.
-/

namespace Dmn

def Dec.toD128 (d : Dec) : D128 := ⟨d.neg, d.coeff, d.exp⟩
def D128.toDec (d : D128) : Dec := ⟨d.neg, d.coeff, d.exp⟩

def finiteOf (r : D128R) : Option Dec :=
  match r with
  | .fin d => some d.toDec
  | _ => none

def NumOps.d128 : NumOps where
  add := fun a b => finiteOf (FNum.add (.fin a.toD128) (.fin b.toD128))
  sub := fun a b => finiteOf (FNum.sub (.fin a.toD128) (.fin b.toD128))
  mul := fun a b => finiteOf (FNum.mul (.fin a.toD128) (.fin b.toD128))
  div := fun a b => finiteOf (FNum.div (.fin a.toD128) (.fin b.toD128))
  pow := fun _ _ => none
  literal := fun before after => some ((D128.ofLiteral before.toList after.toList).map D128.toDec)

end Dmn
