import Dmn.Model.Dec
import Dmn.Model.DecString
import Dmn.Model.EvalOps

/-!
# Correctly rounded arithmetic for the evaluator model

`NumOps.d128` plugs the decimal128 model of C02 (`Dmn.D128`, `Dmn.FNum`: 34 digits,
half-even, reduced results as `impl Add/Sub/Mul/Div for FeelNumber` produce them) into the
evaluator model.  A non-finite result (the code would carry `Infinity` / `NaN` in a
`Value::Number`, finding C02 F7) is `none`: the evaluator model has no such value.
-/

namespace Dmn

def Dec.toD128 (d : Dec) : D128 := ⟨d.neg, d.coeff, d.exp⟩
def D128.toDec (d : D128) : Dec := ⟨d.neg, d.coeff, d.exp⟩

def finiteOf (r : D128R) : Option Dec :=
  match r with
  | .fin d => some d.toDec
  | _ => none

/-! ## `**` for exponents with an integral value, where the result is exact

`FeelNumber::pow` (`number.rs:166`) is `decNumberPower` followed by `decNumberReduce`; a result that is not
finite is `None` (FEEL null).  For an exponent with an integral value `decNumberPower` multiplies (by squaring)
at a working precision of more than 34 digits and, for a negative exponent, divides 1 by the power, then rounds
once to 34 digits: when the exact power has at most 34 significant digits — and, for a negative exponent, its
reciprocal is a terminating decimal of at most 34 digits — every step is exact and the result is the exact
value, reduced.  Exactly those cases are modelled (`some`); everything else (a fractional exponent, an inexact
result, a negative zero base, very large operands) stays outside the model (`none`: the correspondence skips
and counts).  The exact value is rounded by the proved `finalize` (a no-op here: `exactly` checks it). -/

def natDigits10 (n : Nat) : Nat := if n == 0 then 0 else (Nat.toDigits 10 n).length

/-- the finite result `r` is exactly `c · 10^e` -/
def exactly (r : D128R) (c : Nat) (e : Int) : Bool :=
  match r with
  | .fin d =>
    let lo := min d.exp e
    d.coeff * 10 ^ (d.exp - lo).toNat == c * 10 ^ (e - lo).toNat
  | _ => false

/-- `a ** n` for an integer `n`: `some none` = not finite (`0 ** 0`, `0 ** -n`), `none` = not modelled -/
def powInt (a : Dec) (n : Int) : Option (Option Dec) :=
  if a.coeff == 0 then
    if a.neg then none
    else if n > 0 then some (some ⟨false, 0, 0⟩) else some none
  else if n == 0 then some (some ⟨false, 1, 0⟩)
  else
    let k := n.natAbs
    if k * natDigits10 a.coeff > 200 ∨ a.exp.natAbs * k > 2000 then none
    else
      let p := a.coeff ^ k
      let neg := a.neg && (k % 2 == 1)
      if n > 0 then
        let r := D128.finalize neg p (a.exp * k) false
        if exactly r p (a.exp * k) then (finiteOf r.reduce).map some else none
      else if natDigits10 p > 34 then none
      else
        match (List.range 120).find? (fun t => 10 ^ t % p == 0) with
        | some t =>
          let q := 10 ^ t / p
          let e : Int := -(a.exp * k) - t
          let r := D128.finalize neg q e false
          if exactly r q e then (finiteOf r.reduce).map some else none
        | none => none

/-- the exponent as an integer, when it has an integral value of moderate size -/
def powExponent? (b : Dec) : Option Int :=
  if b.exp > 6 ∨ b.exp < -40 then none else D128.toInt? b.toD128

def NumOps.d128 : NumOps where
  add := fun a b => finiteOf (FNum.add (.fin a.toD128) (.fin b.toD128))
  sub := fun a b => finiteOf (FNum.sub (.fin a.toD128) (.fin b.toD128))
  mul := fun a b => finiteOf (FNum.mul (.fin a.toD128) (.fin b.toD128))
  div := fun a b => finiteOf (FNum.div (.fin a.toD128) (.fin b.toD128))
  pow := fun a b =>
    match powExponent? b with
    | some n => powInt a n
    | none => none
  literal := fun before after => some ((D128.ofLiteral before.toList after.toList).map D128.toDec)

end Dmn
