import Dmn.Model.Lexer
import Dmn.Gen.Keywords

/-!
# The arms of `read_next_token` as a table

`translate/keywords.py` reads the `match` of `Lexer::read_next_token` (feel-parser/src/lexer.rs) into
`Dmn.Gen.Keywords.arms`: per arm the literal characters its pattern begins with, the conditions of
its guard and — for the simple bodies — what the body does.  This file says what such a table
*means* (which arm is taken for a lexer state and a look-ahead buffer, and what it answers);
`Lemmas/LexerArms.lean` proves that the hand-written model `Dmn.Lexer.readNextToken` is that meaning
of the regenerated table, so every theorem that goes through the table is re-checked against the
arms as they stand in the code now.
-/

namespace Dmn.Lexer
open Dmn.Gen.Keywords

/-- every token type, in the order of `TT` -/
def allTT : List TT := [
  .yyEof, .yyError, .yyUndef, .startExpression, .startBoxedExpression, .startContext,
  .startTextualExpression, .startTextualExpressions, .startUnaryTests,
  .at, .not, .colon, .comma, .every, .for_, .leftBrace, .null, .rightArrow, .of_, .list, .range,
  .context, .then_, .function, .external, .if_, .rightBrace, .rightBracket, .rightParen,
  .return_, .ellipsis, .some_, .numeric, .string, .boolean, .satisfies, .else_, .or_, .and_,
  .eq, .nq, .lt, .le, .gt, .ge, .between, .betweenAnd, .in_, .minus, .plus, .mul, .div, .exp,
  .instance_, .name, .nameDateTime, .builtInTypeName, .leftParen, .leftBracket, .dot]

/-- the token type with the discriminant `c` of `enum TokenType` -/
def TT.ofCode? (c : Int) : Option TT := allTT.find? (fun t => t.code == c)

/-- the value of a flag of the lexer -/
def flagOf (l : Lx) : Flag → Bool
  | .unaryTests => l.unaryTests
  | .between => l.between
  | .typeName => l.typeName
  | .tillIn => l.tillIn

/-- `self.<flag> = false` -/
def clearFlag (l : Lx) : Flag → Lx
  | .unaryTests => { l with unaryTests := false }
  | .between => { l with between := false }
  | .typeName => { l with typeName := false }
  | .tillIn => { l with tillIn := false }

/-- One condition of an arm; `l.pos` is the cursor after the gap, `b` the look-ahead buffer. -/
def condHolds (l : Lx) (b : List Nat) : Cond → Bool
  | .flag f v => flagOf l f == v
  | .cellIn i cs => cs.contains (b.getD i 32)
  | .cellDigit i => isDigit (b.getD i 32)
  | .cellNameStart i => isNameStartChar (b.getD i 32)
  | .next cs off => isNextCharacter l.input l.pos cs off
  | .allBlank => b.all (fun c => c == 32)

/-- the pattern matches and the guard holds -/
def armFires (l : Lx) (b : List Nat) (a : Arm) : Bool :=
  startsWith b a.word && a.conds.all (condHolds l b)

/-- the arm a `match` takes: the first one that fires -/
def firstArm (l : Lx) (b : List Nat) : List Arm → Option Arm
  | [] => none
  | a :: as => if armFires l b a then some a else firstArm l b as

/-- the value of a token without text: nothing, or the truth value of a `Boolean` -/
def payloadOf : Option Bool → Payload
  | none => .none
  | some v => .boolean v

/-- What a body answers (`none`: a body the table does not describe). -/
def runBody (l : Lx) : Body → Option (Out (Token × Lx))
  | .token tt payload n clear =>
    match TT.ofCode? tt with
    | some t =>
      some (.ok (⟨t, payloadOf payload⟩,
        clear.foldl clearFlag { l with pos := l.pos + n }))
    | none => none
  | .name => some (nameArm l)
  | .eof => some (.ok (tk .yyEof, l))
  | .other => none

/-- the lexer after `read_input` has skipped the gap -/
def afterGap (l : Lx) : Lx := { l with pos := skipBlanks l.input l.pos }

end Dmn.Lexer
