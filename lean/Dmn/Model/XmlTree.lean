import Dmn.Model.XmlNames

/-!
# The XML tree `roxmltree` hands to `model/src/model/parser.rs`, and the parsed `Definitions`

`XNode` is what `parser.rs` can observe of a `roxmltree::Node` (roxmltree 0.14.1):

* `tag_name().name()` — the local name (`""` for text / comment / processing-instruction nodes,
  `lib.rs:806-811`); the namespace of an element is never read by parser.rs;
* `attribute("x")` — the value of the first attribute whose expanded name is `(None, "x")`
  (`lib.rs:922-928`, `ExpandedName: PartialEq` compares namespace and name): an attribute with a
  namespace prefix (`xlink:href`) is **not** found, hence the flag `ns`;
* `children()` — all child nodes in document order, text / comments / PIs included;
* `text()` — for an element: the text of its first child when that child is a text node
  (`lib.rs:1033-1050`); for a text or comment node: its own text.

`roxmltree::Document::parse` itself (well-formedness, entity expansion, namespace resolution, merging
of adjacent text and CDATA) is **not** modelled.

The second half mirrors the parts of `Definitions` (`model/src/model/mod.rs`) that parser.rs fills:
everything except `feel_name` (the FEEL lexer, properties C05/C07), `extension_elements` /
`extension_attributes` (always `None` / empty, parser.rs:756-765) and the `f64` values of DMNDI.
-/

namespace Dmn.Xml

/-- One attribute of an element. -/
structure XAttr where
  /-- the attribute name has a namespace (`node.attribute("name")` does not find it) -/
  ns : Bool
  name : Str
  value : Str
  deriving Repr, DecidableEq, Inhabited

/-- A node below (and including) `document.root_element()`. -/
inductive XNode where
  | elem (name : Str) (attrs : List XAttr) (children : List XNode)
  | text (t : Str)
  | comment (t : Str)
  | pi
  deriving Repr, Inhabited

/-! ## Errors of the parser (`mod errors`, parser.rs:1160-1313; `href.rs:75-91`; `mod.rs:2423`) -/

/-- One constructor per `ModelParserError` variant the parser can return for a tree (the variant
`XmlParsingModelFailed` belongs to roxmltree), plus the two errors of the called conversions.
Node names are kept; positions in the text are not. -/
inductive PErr where
  | invalidFunctionKind
  | invalidHitPolicy
  | invalidAggregation
  | invalidColorValue
  | invalidDoubleValue
  | requiredInputExpressionIsMissing
  | requiredChildNodeIsMissing (parent child : Str)
  | requiredExpressionInstanceIsMissing
  | numberOfElementsInRowDiffersFromNumberOfColumns
  | xmlUnexpectedNode (actual : Str)
  | xmlExpectedMandatoryAttribute (node attr : Str)
  | xmlExpectedMandatoryChildNode (node child : Str)
  | xmlExpectedMandatoryTextContent (node : Str)
  /-- `DecisionTableOrientation::try_from` (`mod.rs:1989-2000`) -/
  | invalidDecisionTableOrientation
  /-- `HRef::try_from` (`common/src/href.rs:59-73`) -/
  | invalidReference
  deriving Repr, DecidableEq, Inhabited

/-- `Result<T>` of a function that contains no operation that can panic. -/
abbrev PRes (α : Type) := Except PErr α

/-- `Result<T>` of a function that may reach a panicking operation (only through `HRef::try_from`). -/
inductive Res (α : Type) where
  | ok (a : α)
  | err (e : PErr)
  | panic (site : String)
  deriving Repr, Inhabited

namespace Res

def isPanic {α : Type} : Res α → Bool
  | .panic _ => true
  | _ => false

def isErr {α : Type} : Res α → Bool
  | .err _ => true
  | _ => false

def isOk {α : Type} : Res α → Bool
  | .ok _ => true
  | _ => false

/-- `x?` -/
def bind {α β : Type} (r : Res α) (f : α → Res β) : Res β :=
  match r with
  | .ok a => f a
  | .err e => .err e
  | .panic s => .panic s

/-- A panic-free result used inside a function that may panic. -/
def lift {α : Type} : PRes α → Res α
  | .ok a => .ok a
  | .error e => .err e

end Res

/-! ## Parsed model -/

structure Literal where
  id : Option Str
  description : Option Str
  label : Option Str
  typeRef : Option Str
  text : Option Str
  expressionLanguage : Option Str
  deriving Repr, DecidableEq, Inhabited

structure InputClause where
  inputExpression : Str
  inputValues : Option Str
  deriving Repr, DecidableEq, Inhabited

structure OutputClause where
  typeRef : Option Str
  name : Option Str
  outputValues : Option Str
  defaultOutputEntry : Option Str
  deriving Repr, DecidableEq, Inhabited

structure Rule where
  inputEntries : List Str
  outputEntries : List Str
  deriving Repr, DecidableEq, Inhabited

inductive Agg where
  | list | count | sum | min | max
  deriving Repr, DecidableEq, Inhabited

inductive HitPolicy where
  | unique | any | priority | first | ruleOrder | outputOrder
  | collect (a : Agg)
  deriving Repr, DecidableEq, Inhabited

inductive Orientation where
  | ruleAsRow | ruleAsColumn | crossTable
  deriving Repr, DecidableEq, Inhabited

structure DTable where
  inputs : List InputClause
  outputs : List OutputClause
  rules : List Rule
  hitPolicy : HitPolicy
  orientation : Orientation
  outputLabel : Option Str
  deriving Repr, DecidableEq, Inhabited

inductive FunKind where
  | feel | java | pmml
  deriving Repr, DecidableEq, Inhabited

/-- A row of a relation (`List`, `mod.rs:1858`): its elements are literal expressions only
(parser.rs:720-725). -/
structure Row where
  id : Option Str
  description : Option Str
  label : Option Str
  typeRef : Option Str
  elements : List Literal
  deriving Repr, DecidableEq, Inhabited

mutual
/-- `ExpressionInstance` (`mod.rs:876`). -/
inductive Expr where
  | context (entries : List CtxEntry)
  | table (t : DTable)
  | fundef (f : FunDef)
  | invocation (called : Expr) (bindings : List Binding)
  | literal (l : Literal)
  | relation (id description label typeRef : Option Str) (rows : List Row) (columns : List InfoItem)
/-- `InformationItem` (`mod.rs:647`). -/
inductive InfoItem where
  | mk (id description label : Option Str) (name : Str) (value : Option Expr) (typeRef : Option Str)
/-- `ContextEntry` (`mod.rs:901`). -/
inductive CtxEntry where
  | mk (var : Option InfoItem) (value : Expr)
/-- `FunctionDefinition` (`mod.rs:1727`). -/
inductive FunDef where
  | mk (id description label typeRef : Option Str) (params : List InfoItem) (body : Option Expr)
      (kind : FunKind)
/-- `Binding` (`mod.rs:1004`). -/
inductive Binding where
  | mk (param : InfoItem) (formula : Option Expr)
end

instance : Inhabited Expr := ⟨.context []⟩
instance : Inhabited InfoItem := ⟨.mk none none none [] none none⟩
instance : Inhabited FunDef := ⟨.mk none none none none [] none .feel⟩

def InfoItem.name : InfoItem → Str
  | .mk _ _ _ n _ _ => n
def InfoItem.typeRef : InfoItem → Option Str
  | .mk _ _ _ _ _ t => t
def InfoItem.value : InfoItem → Option Expr
  | .mk _ _ _ _ v _ => v
def FunDef.params : FunDef → List InfoItem
  | .mk _ _ _ _ ps _ _ => ps
def FunDef.body : FunDef → Option Expr
  | .mk _ _ _ _ _ b _ => b

structure UnaryTests where
  text : Option Str
  expressionLanguage : Option Str
  deriving Repr, DecidableEq, Inhabited

/-- `ItemDefinition` (`mod.rs:1544`); `functionItem` is `Option<FunctionItem>` reduced to its
`output_type_ref` (the parameters are always empty, parser.rs:223). -/
inductive ItemDef where
  | mk (name : Str) (id description label typeRef typeLanguage : Option Str)
      (allowedValues : Option UnaryTests) (components : List ItemDef) (isCollection : Bool)
      (functionItem : Option (Option Str))
  deriving Repr, Inhabited

def ItemDef.name : ItemDef → Str
  | .mk n .. => n
def ItemDef.typeRef : ItemDef → Option Str
  | .mk _ _ _ _ t .. => t
def ItemDef.components : ItemDef → List ItemDef
  | .mk _ _ _ _ _ _ _ cs _ _ => cs
def ItemDef.isCollection : ItemDef → Bool
  | .mk _ _ _ _ _ _ _ _ c _ => c

structure InfoReq where
  id : Option Str
  description : Option Str
  label : Option Str
  requiredDecision : Option Str
  requiredInput : Option Str
  deriving Repr, DecidableEq, Inhabited

structure KnowReq where
  id : Option Str
  description : Option Str
  label : Option Str
  requiredKnowledge : Option Str
  deriving Repr, DecidableEq, Inhabited

structure InputData where
  id : Option Str
  description : Option Str
  label : Option Str
  name : Str
  var : InfoItem

structure Decision where
  name : Str
  id : Option Str
  description : Option Str
  label : Option Str
  question : Option Str
  allowedAnswers : Option Str
  var : InfoItem
  logic : Option Expr
  infoReqs : List InfoReq
  knowReqs : List KnowReq

structure Bkm where
  name : Str
  id : Option Str
  description : Option Str
  label : Option Str
  var : InfoItem
  logic : Option FunDef
  knowReqs : List KnowReq

structure Service where
  name : Str
  id : Option Str
  description : Option Str
  label : Option Str
  var : InfoItem
  outputDecisions : List Str
  encapsulatedDecisions : List Str
  inputDecisions : List Str
  inputData : List Str

structure KnowledgeSource where
  id : Option Str
  description : Option Str
  label : Option Str
  name : Str
  deriving Repr, DecidableEq, Inhabited

/-- `DrgElement` (`mod.rs:299`). -/
inductive Drg where
  | inputData (x : InputData)
  | decision (x : Decision)
  | bkm (x : Bkm)
  | service (x : Service)
  | knowledgeSource (x : KnowledgeSource)

structure Import where
  id : Option Str
  description : Option Str
  label : Option Str
  name : Str
  importType : Str
  locationUri : Option Str
  namespaceUri : Str
  deriving Repr, DecidableEq, Inhabited

/-! DMNDI: everything but the `f64` values (`optional_double` never fails; `required_double` only
contributes success or `InvalidDoubleValue`). -/

inductive Align where
  | start | end_ | center
  deriving Repr, DecidableEq, Inhabited

structure Color where
  red : Nat
  green : Nat
  blue : Nat
  deriving Repr, DecidableEq, Inhabited

structure Style where
  id : Option Str
  fillColor : Option Color
  strokeColor : Option Color
  fontColor : Option Color
  fontFamily : Str
  fontItalic : Bool
  fontBold : Bool
  fontUnderline : Bool
  fontStrikeThrough : Bool
  hAlign : Option Align
  vAlign : Option Align
  deriving Repr, DecidableEq, Inhabited

structure DLabel where
  hasBounds : Bool
  text : Option Str
  sharedStyle : Option Str
  deriving Repr, DecidableEq, Inhabited

structure DividerLine where
  id : Option Str
  wayPoints : Nat
  sharedStyle : Option Str
  localStyle : Option Style
  deriving Repr, DecidableEq, Inhabited

inductive DiagElem where
  | shape (id dmnElementRef : Option Str) (divider : Option DividerLine) (isCollapsed : Bool)
      (sharedStyle : Option Str) (localStyle : Option Style) (label : Option DLabel)
  | edge (id : Option Str) (wayPoints : Nat) (dmnElementRef sharedStyle : Option Str)
      (localStyle : Option Style) (label : Option DLabel)
  deriving Repr, DecidableEq, Inhabited

structure Diagram where
  id : Option Str
  name : Str
  elements : List DiagElem
  sharedStyle : Option Str
  localStyle : Option Style
  hasSize : Bool
  deriving Repr, DecidableEq, Inhabited

structure Dmndi where
  styles : List Style
  diagrams : List Diagram
  deriving Repr, DecidableEq, Inhabited

/-- `Definitions` (`mod.rs:363`). -/
structure Definitions where
  name : Str
  id : Option Str
  description : Option Str
  label : Option Str
  namespaceUri : Str
  expressionLanguage : Option Str
  typeLanguage : Option Str
  exporter : Option Str
  exporterVersion : Option Str
  itemDefinitions : List ItemDef
  drgElements : List Drg
  imports : List Import
  dmndi : Option Dmndi

end Dmn.Xml
