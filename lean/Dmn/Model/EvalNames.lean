import Dmn.Model.Eval

/-!
# The names an evaluation looks up (`namesIn`)

`namesIn G a`: every name the closure built for the syntax tree `a` can look up in the scope — the
plain names (`Name`) and the first segments of the qualified names — satisfies `G`.  The sub-trees
visited are exactly those `build_evaluator` builds evaluators for (as in `buildOk`): the name after a
path's dot, the variable of an iteration context and the parameter names are not lookups.  Used by the
theorems about free names (`Lemmas/EvalNames.lean`, `Props/C01.lean`) and by the driver (`(c01 namesin …)`).
-/

namespace Dmn.Eval

def isSegment : Ast → Bool
  | .qualifiedNameSegment _ => true
  | _ => false

/-- the first segment of a qualified name satisfies `G`, and all its items are segments -/
def qnIn (G : String → Bool) : List Ast → Bool
  | [] => true
  | .qualifiedNameSegment n :: rest => G n && rest.all isSegment
  | _ :: _ => false

mutual
def namesIn (G : String → Bool) : Ast → Bool
  | .name n => G n
  | .qualifiedName xs => qnIn G xs
  | .add a b | .and a b | .contextEntry a b | .contextTypeEntry a b | .div a b | .eq a b | .exp a b
  | .filter a b | .formalParameter a b | .functionDefinition a b | .functionType a b | .ge a b
  | .gt a b | .in a b | .instanceOf a b | .le a b | .lt a b | .mul a b | .nq a b | .or a b
  | .out a b | .range a b | .sub a b => namesIn G a && namesIn G b
  | .between a b c | .if a b c => namesIn G a && namesIn G b && namesIn G c
  | .context xs | .contextType xs | .expressionList xs | .formalParameters xs | .list xs
  | .namedParameters xs | .negatedList xs | .parameterTypes xs => namesInList G xs
  | .evaluatedExpression a | .intervalEnd a _ | .intervalStart a _ | .listType a | .neg a
  | .rangeType a | .unaryGe a | .unaryGt a | .unaryLe a | .unaryLt a => namesIn G a
  | .functionBody a _ => namesIn G a
  | .every ctxs sat | .some ctxs sat =>
    match ctxs, sat with
    | .quantifiedContexts items, .satisfies body => namesInQuantified G items && namesIn G body
    | _, _ => true
  | .for ctxs body =>
    (match ctxs with
      | .iterationContexts items => namesInIteration G items
      | _ => true) && namesIn G body
  | .functionInvocation f args =>
    match args with
    | .positionalParameters xs => namesIn G f && namesInList G xs
    | .namedParameters xs => namesIn G f && namesInList G xs
    | _ => true
  | .namedParameter n v =>
    match n with
    | .parameterName _ => namesIn G v
    | _ => true
  | .path a b =>
    match b with
    | .name _ => namesIn G a
    | _ => true
  | _ => true
termination_by structural a => a
def namesInList (G : String → Bool) : List Ast → Bool
  | [] => true
  | a :: as => namesIn G a && namesInList G as
termination_by structural as => as
def namesInQuantified (G : String → Bool) : List Ast → Bool
  | [] => true
  | item :: items =>
    (match item with
      | .quantifiedContext (.name _) e => namesIn G e
      | _ => true) && namesInQuantified G items
termination_by structural items => items
def namesInIteration (G : String → Bool) : List Ast → Bool
  | [] => true
  | item :: items =>
    (match item with
      | .iterationContextSingle (.name _) e => namesIn G e
      | .iterationContextRange (.name _) lo hi => namesIn G lo && namesIn G hi
      | _ => true) && namesInIteration G items
termination_by structural items => items
end

/-! ## the syntactically free names (`freeIn`)

`freeIn G a`: every name that is looked up by the closure built for `a` *outside the constructs of `a` that
bind it* satisfies `G`.  The binders are those of the code: the body of a `for` sees the iteration variables
and `partial` (`ForExpressionEvaluator::evaluate` pushes the iteration context with `partial` set), the
satisfies-expression of a `some` / `every` sees the quantified variables, a context entry sees the keys of the
entries written before it (`build_context` sets every evaluated entry in the context it pushed).  The domains of
an iteration are all evaluated in the enclosing scope (a later domain does not see an earlier variable: finding
F69), so they are checked against `G` alone.  A filter binds nothing here: `build_filter` evaluates the filter
expression once more in the *enclosing* scope to see whether it is an index, so `item` (and an entry name of a
filtered context) is looked up there as well (`Props/C01.lean`, `filter_does_not_bind_item_counterexample`).
A function body is not evaluated where it is written: it is checked when it is entered, against `G` and the
parameters that invocation binds (`Lemmas/EvalFreeSyn.lean`, `guardB`).
-/

/-- the variables an iteration context list declares (exactly the items `build_for` makes states of) -/
def iterVars : List Ast → List String
  | [] => []
  | .iterationContextSingle (.name n) _ :: items => n :: iterVars items
  | .iterationContextRange (.name n) _ _ :: items => n :: iterVars items
  | _ :: items => iterVars items

/-- the variables a quantified context list declares -/
def quantVars : List Ast → List String
  | [] => []
  | .quantifiedContext (.name n) _ :: items => n :: quantVars items
  | _ :: items => quantVars items

/-- the key a context entry is written under, when it can be read off the tree -/
def entryKey : Ast → Option String
  | .contextEntry (.contextEntryKey n) _ => some n
  | _ => none

/-- `G` and the names in `vs` -/
def orVars (G : String → Bool) (vs : List String) : String → Bool := fun k => G k || vs.contains k

/-- `G` and the key of the entry `e` -/
def orKey (G : String → Bool) (e : Ast) : String → Bool := fun k => G k || (entryKey e == some k)

mutual
def freeIn (G : String → Bool) : Ast → Bool
  | .name n => G n
  | .qualifiedName xs => qnIn G xs
  | .add a b | .and a b | .contextEntry a b | .contextTypeEntry a b | .div a b | .eq a b | .exp a b
  | .filter a b | .formalParameter a b | .functionDefinition a b | .functionType a b | .ge a b
  | .gt a b | .in a b | .instanceOf a b | .le a b | .lt a b | .mul a b | .nq a b | .or a b
  | .out a b | .range a b | .sub a b => freeIn G a && freeIn G b
  | .between a b c | .if a b c => freeIn G a && freeIn G b && freeIn G c
  | .context xs => freeInEntries G xs
  | .contextType xs | .expressionList xs | .formalParameters xs | .list xs
  | .namedParameters xs | .negatedList xs | .parameterTypes xs => freeInList G xs
  | .evaluatedExpression a | .intervalEnd a _ | .intervalStart a _ | .listType a | .neg a
  | .rangeType a | .unaryGe a | .unaryGt a | .unaryLe a | .unaryLt a => freeIn G a
  | .every ctxs sat | .some ctxs sat =>
    match ctxs, sat with
    | .quantifiedContexts items, .satisfies body =>
      freeInQuantified G items && freeIn (orVars G (quantVars items)) body
    | _, _ => true
  | .for ctxs body =>
    match ctxs with
    | .iterationContexts items =>
      freeInIteration G items && freeIn (fun k => G k || (iterVars items).contains k || k == "partial") body
    | _ => freeIn (fun k => G k || k == "partial") body
  | .functionInvocation f args =>
    match args with
    | .positionalParameters xs => freeIn G f && freeInList G xs
    | .namedParameters xs => freeIn G f && freeInList G xs
    | _ => true
  | .namedParameter n v =>
    match n with
    | .parameterName _ => freeIn G v
    | _ => true
  | .path a b =>
    match b with
    | .name _ => freeIn G a
    | _ => true
  | _ => true
termination_by structural a => a
def freeInList (G : String → Bool) : List Ast → Bool
  | [] => true
  | a :: as => freeIn G a && freeInList G as
termination_by structural as => as
/-- the entries of a context literal: entry *k* may look up the keys of the entries before it -/
def freeInEntries (G : String → Bool) : List Ast → Bool
  | [] => true
  | e :: es => freeIn G e && freeInEntries (orKey G e) es
termination_by structural es => es
def freeInQuantified (G : String → Bool) : List Ast → Bool
  | [] => true
  | item :: items =>
    (match item with
      | .quantifiedContext (.name _) e => freeIn G e
      | _ => true) && freeInQuantified G items
termination_by structural items => items
def freeInIteration (G : String → Bool) : List Ast → Bool
  | [] => true
  | item :: items =>
    (match item with
      | .iterationContextSingle (.name _) e => freeIn G e
      | .iterationContextRange (.name _) lo hi => freeIn G lo && freeIn G hi
      | _ => true) && freeInIteration G items
termination_by structural items => items
end

end Dmn.Eval
