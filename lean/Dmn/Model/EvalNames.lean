import Dmn.Model.Eval

/-!
# The names an evaluation looks up (`namesIn`)

`namesIn G a`: every name the closure built for the syntax tree `a` can look up in the scope — the
plain names (`Name`) and the first segments of the qualified names — satisfies `G`.  The sub-trees
visited are exactly those `build_evaluator` builds evaluators for (as in `buildOk`): the name after a
path's dot, the variable of an iteration context and the parameter names are not lookups.  Used by the
theorems about free names (`Lemmas/EvalNames.lean`, `Props/C01.lean`) and by the driver (`(c01 namesin …)`).
-/

namespace Dmn.Eval

def isSegment : Ast → Bool
  | .qualifiedNameSegment _ => true
  | _ => false

/-- the first segment of a qualified name satisfies `G`, and all its items are segments -/
def qnIn (G : String → Bool) : List Ast → Bool
  | [] => true
  | .qualifiedNameSegment n :: rest => G n && rest.all isSegment
  | _ :: _ => false

mutual
def namesIn (G : String → Bool) : Ast → Bool
  | .name n => G n
  | .qualifiedName xs => qnIn G xs
  | .add a b | .and a b | .contextEntry a b | .contextTypeEntry a b | .div a b | .eq a b | .exp a b
  | .filter a b | .formalParameter a b | .functionDefinition a b | .functionType a b | .ge a b
  | .gt a b | .in a b | .instanceOf a b | .le a b | .lt a b | .mul a b | .nq a b | .or a b
  | .out a b | .range a b | .sub a b => namesIn G a && namesIn G b
  | .between a b c | .if a b c => namesIn G a && namesIn G b && namesIn G c
  | .context xs | .contextType xs | .expressionList xs | .formalParameters xs | .list xs
  | .namedParameters xs | .negatedList xs | .parameterTypes xs => namesInList G xs
  | .evaluatedExpression a | .intervalEnd a _ | .intervalStart a _ | .listType a | .neg a
  | .rangeType a | .unaryGe a | .unaryGt a | .unaryLe a | .unaryLt a => namesIn G a
  | .functionBody a _ => namesIn G a
  | .every ctxs sat | .some ctxs sat =>
    match ctxs, sat with
    | .quantifiedContexts items, .satisfies body => namesInQuantified G items && namesIn G body
    | _, _ => true
  | .for ctxs body =>
    (match ctxs with
      | .iterationContexts items => namesInIteration G items
      | _ => true) && namesIn G body
  | .functionInvocation f args =>
    match args with
    | .positionalParameters xs => namesIn G f && namesInList G xs
    | .namedParameters xs => namesIn G f && namesInList G xs
    | _ => true
  | .namedParameter n v =>
    match n with
    | .parameterName _ => namesIn G v
    | _ => true
  | .path a b =>
    match b with
    | .name _ => namesIn G a
    | _ => true
  | _ => true
termination_by structural a => a
def namesInList (G : String → Bool) : List Ast → Bool
  | [] => true
  | a :: as => namesIn G a && namesInList G as
termination_by structural as => as
def namesInQuantified (G : String → Bool) : List Ast → Bool
  | [] => true
  | item :: items =>
    (match item with
      | .quantifiedContext (.name _) e => namesIn G e
      | _ => true) && namesInQuantified G items
termination_by structural items => items
def namesInIteration (G : String → Bool) : List Ast → Bool
  | [] => true
  | item :: items =>
    (match item with
      | .iterationContextSingle (.name _) e => namesIn G e
      | .iterationContextRange (.name _) lo hi => namesIn G lo && namesIn G hi
      | _ => true) && namesInIteration G items
termination_by structural items => items
end

end Dmn.Eval
