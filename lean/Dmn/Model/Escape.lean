/-!
# C06 — `\uXXXX`, `\UXXXXXX` and surrogate-pair escapes in string literals

Model of `Lexer::consume_unicode_literal` / `Lexer::consume_unicode`
(`feel-parser/src/lexer.rs:778-862`): the hexadecimal digits are weighted into a value, the
value is packed into UTF-8 bytes by shifts and masks, and `String::from_utf8` turns the bytes
back into a character.  `utf8Decode` is the specification of that last step for byte
vectors holding one character (the definition of UTF-8, RFC 3629 §3: shortest form only,
no surrogates, at most U+10FFFF).  Imports nothing.
-/

namespace Dmn.Escape

/-- A Unicode scalar value (what a Rust `char` holds). -/
def isScalar (c : Nat) : Bool := c < 0xD800 || (0xE000 ≤ c && c ≤ 0x10FFFF)

/-! ## Spelling and reading the digits -/

/-- The four hexadecimal digit values of `\uXXXX`. -/
def spell4 (c : Nat) : List Nat := [c / 4096 % 16, c / 256 % 16, c / 16 % 16, c % 16]

/-- The six hexadecimal digit values of `\UXXXXXX`. -/
def spell6 (c : Nat) : List Nat :=
  [c / 1048576 % 16, c / 65536 % 16, c / 4096 % 16, c / 256 % 16, c / 16 % 16, c % 16]

/-- lexer.rs:786-789: `value += 4096*d; value += 256*d; value += 16*d; value += d`. -/
def value4 : List Nat → Option Nat
  | [d1, d2, d3, d4] => some (4096 * d1 + 256 * d2 + 16 * d3 + d4)
  | _ => none

/-- lexer.rs:782-789, the `U` form: two more digits weighted 1048576 and 65536. -/
def value6 : List Nat → Option Nat
  | [d1, d2, d3, d4, d5, d6] => some (1048576 * d1 + 65536 * d2 + (4096 * d3 + 256 * d4 + 16 * d5 + d6))
  | _ => none

/-! ## UTF-8 decoding (the role of `String::from_utf8(..)` + `.chars().next()`) -/

def isCont (b : Nat) : Bool := 128 ≤ b && b < 192

def utf8Decode : List Nat → Option Nat
  | [b1] => if b1 < 128 then some b1 else none
  | [b1, b2] =>
    if 194 ≤ b1 && b1 < 224 && isCont b2 then some ((b1 - 192) * 64 + (b2 - 128)) else none
  | [b1, b2, b3] =>
    if 224 ≤ b1 && b1 < 240 && isCont b2 && isCont b3 then
      let v := (b1 - 224) * 4096 + (b2 - 128) * 64 + (b3 - 128)
      if 2048 ≤ v && !(55296 ≤ v && v < 57344) then some v else none
    else none
  | [b1, b2, b3, b4] =>
    if 240 ≤ b1 && b1 < 248 && isCont b2 && isCont b3 && isCont b4 then
      let v := (b1 - 240) * 262144 + (b2 - 128) * 4096 + (b3 - 128) * 64 + (b4 - 128)
      if 65536 ≤ v && v ≤ 1114111 then some v else none
    else none
  | _ => none

/-! ## The packing of `consume_unicode` -/

/-- lexer.rs:798-838: the four branches that pack one literal value (`value >>= 6` between
the bytes is written here as the accumulated shift).  `none`: a surrogate or a value above
0x10FFFF (handled by the caller). -/
def packOne (v : Nat) : Option (List Nat) :=
  if v ≤ 0x7F then some [v &&& 0x7F]
  else if v ≤ 0x7FF then some [((v >>> 6) &&& 0x1F) ||| 0xC0, (v &&& 0x3F) ||| 0x80]
  else if (0x800 ≤ v && v ≤ 0xD7FF) || (0xE000 ≤ v && v ≤ 0xFFFF) then
    some [((v >>> 12) &&& 0xF) ||| 0xE0, ((v >>> 6) &&& 0x3F) ||| 0x80, (v &&& 0x3F) ||| 0x80]
  else if 0x10000 ≤ v && v ≤ 0x10FFFF then
    some [((v >>> 18) &&& 0x7) ||| 0xF0, ((v >>> 12) &&& 0x3F) ||| 0x80,
          ((v >>> 6) &&& 0x3F) ||| 0x80, (v &&& 0x3F) ||| 0x80]
  else none

/-- lexer.rs:844-851: the surrogate branch: the code point of the pair, packed like the
four-byte branch. -/
def packSur (hi lo : Nat) : List Nat :=
  let cp := 0x10000 + ((hi - 0xD800) * 0x400) + (lo - 0xDC00)
  [((cp >>> 18) &&& 0x7) ||| 0xF0, ((cp >>> 12) &&& 0x3F) ||| 0x80,
   ((cp >>> 6) &&& 0x3F) ||| 0x80, (cp &&& 0x3F) ||| 0x80]

/-- lexer.rs:796-862: the character denoted by a literal of value `v` (followed, when `v`
is a high surrogate, by a second literal of value `next`); `none` = a lexer error. -/
def consumeUnicode (v : Nat) (next : Option Nat) : Option Nat :=
  if 0xD800 ≤ v && v ≤ 0xDBFF then
    match next with
    | some lo => if 0xDC00 ≤ lo && lo ≤ 0xDFFF then utf8Decode (packSur v lo) else none
    | none => none
  else
    match packOne v with
    | some bytes => utf8Decode bytes
    | none => none

/-! ## The three spellings of a code point -/

def hiSur (c : Nat) : Nat := 0xD800 + (c - 0x10000) / 0x400
def loSur (c : Nat) : Nat := 0xDC00 + (c - 0x10000) % 0x400

/-- `"\uXXXX"` spelling `c`. -/
def lexU4 (c : Nat) : Option Nat :=
  match value4 (spell4 c) with
  | some v => consumeUnicode v none
  | none => none

/-- `"\UXXXXXX"` spelling `c`. -/
def lexU6 (c : Nat) : Option Nat :=
  match value6 (spell6 c) with
  | some v => consumeUnicode v none
  | none => none

/-- `"\uD8xx\uDCxx"`: the UTF-16 surrogate pair of `c`. -/
def lexSur (c : Nat) : Option Nat :=
  match value4 (spell4 (hiSur c)), value4 (spell4 (loSur c)) with
  | some h, some l => consumeUnicode h (some l)
  | _, _ => none

end Dmn.Escape
