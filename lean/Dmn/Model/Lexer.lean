import Dmn.Model.LexOutcome
import Dmn.Gen.Lalr

/-!
# Model of the FEEL lexer — `feel-parser/src/lexer.rs`

Characters are Unicode code points (`Nat`), the input is a `List Nat` with an explicit cursor
`pos` (`Lexer::input: Vec<char>`, `Lexer::position`).  `char_at(offset)` is
`input[pos + offset]?` (lexer.rs:901).  Every function mirrors the Rust function of the same
name; single-direction scanning loops (`consume_whitespace`, `consume_comment`,
`consume_digits`, `is_next_character`) are structural recursions over the rest of the input;
the two loops that are not single-direction scans (the name state machine of `consume_name`
and the `consume_string` loop) run on an iteration budget (`fuelOut` when exhausted; proved
unreachable in `Lemmas/LexerTotal.lean`).

Also here: `Name::new` (`feel/src/names.rs:100`), `flatten_name_parts` (lexer.rs:1054).
-/

namespace Dmn.Lexer

/-! ## Character classes (lexer.rs:969-1026) -/

/-- `is_digit` (lexer.rs:975). -/
def isDigit (ch : Nat) : Bool := 48 ≤ ch && ch ≤ 57

/-- `is_hex_digit` (lexer.rs:980): `ch.is_digit(16)`. -/
def isHexDigit (ch : Nat) : Bool :=
  (48 ≤ ch && ch ≤ 57) || (97 ≤ ch && ch ≤ 102) || (65 ≤ ch && ch ≤ 70)

/-- `hex_to_decimal` (lexer.rs:1029) on hexadecimal digits. -/
def hexVal (ch : Nat) : Nat :=
  if 48 ≤ ch && ch ≤ 57 then ch - 48
  else if 97 ≤ ch && ch ≤ 102 then ch - 87
  else ch - 55

/-- `is_vertical_space` (lexer.rs:1024). -/
def isVerticalSpace (ch : Nat) : Bool := 0x0A ≤ ch && ch ≤ 0x0D

/-- `is_whitespace` (lexer.rs:1013). -/
def isWhitespace (ch : Nat) : Bool :=
  isVerticalSpace ch || ch == 0x09 || ch == 0x20 || ch == 0x85 || ch == 0xA0 || ch == 0x1680 ||
  ch == 0x180E || (0x2000 ≤ ch && ch ≤ 0x200B) || ch == 0x2028 || ch == 0x2029 || ch == 0x202F ||
  ch == 0x205F || ch == 0x3000 || ch == 0xFEFF

/-- `is_separator` (lexer.rs:970): WS = ! < > + - * / % . , ) [ ] } -/
def isSeparator (ch : Nat) : Bool :=
  ch == 32 || ch == 61 || ch == 33 || ch == 60 || ch == 62 || ch == 43 || ch == 45 || ch == 42 ||
  ch == 47 || ch == 37 || ch == 46 || ch == 44 || ch == 41 || ch == 91 || ch == 93 || ch == 125

/-- `is_keyword_not_separator` (lexer.rs:986): WS or `(`. -/
def isKeywordNotSeparator (ch : Nat) : Bool := ch == 32 || ch == 40

/-- `is_additional_name_symbol` (lexer.rs:992): `.` `/` `-` `'` `+` `*`. -/
def isAdditionalNameSymbol (ch : Nat) : Bool :=
  ch == 46 || ch == 47 || ch == 45 || ch == 39 || ch == 43 || ch == 42

/-- `is_name_start_char` (lexer.rs:998). -/
def isNameStartChar (ch : Nat) : Bool :=
  ch == 63 || (65 ≤ ch && ch ≤ 90) || ch == 95 || (97 ≤ ch && ch ≤ 122) ||
  (0xC0 ≤ ch && ch ≤ 0xD6) || (0xD8 ≤ ch && ch ≤ 0xF6) || (0xF8 ≤ ch && ch ≤ 0x2FF) ||
  (0x370 ≤ ch && ch ≤ 0x37D) || (0x37F ≤ ch && ch ≤ 0x1FFF) || (0x200C ≤ ch && ch ≤ 0x200D) ||
  (0x2070 ≤ ch && ch ≤ 0x218F) || (0x2C00 ≤ ch && ch ≤ 0x2FEF) || (0x3001 ≤ ch && ch ≤ 0xD7FF) ||
  (0xF900 ≤ ch && ch ≤ 0xFDCF) || (0xFDF0 ≤ ch && ch ≤ 0xFFFD) || (0x10000 ≤ ch && ch ≤ 0xEFFFF)

/-- `is_name_part_char` (lexer.rs:1008). -/
def isNamePartChar (ch : Nat) : Bool :=
  isNameStartChar ch || isDigit ch || ch == 0xB7 || (0x300 ≤ ch && ch ≤ 0x36F) ||
  (0x203F ≤ ch && ch ≤ 0x2040)

/-- `char::is_whitespace` of the Rust standard library (Unicode `White_Space`), used by
`str::trim` in `Name::new`, `Name::from` and `flatten_name_parts`. -/
def isRustWhitespace (ch : Nat) : Bool :=
  (0x09 ≤ ch && ch ≤ 0x0D) || ch == 0x20 || ch == 0x85 || ch == 0xA0 || ch == 0x1680 ||
  (0x2000 ≤ ch && ch ≤ 0x200A) || ch == 0x2028 || ch == 0x2029 || ch == 0x202F || ch == 0x205F ||
  ch == 0x3000

/-! ## Names: `Name::new` and `flatten_name_parts` -/

/-- `str::trim`. -/
def trim (s : List Nat) : List Nat :=
  ((s.dropWhile isRustWhitespace).reverse.dropWhile isRustWhitespace).reverse

/-- `matches!(part, "." | "/" | "-" | "'" | "+" | "*")` (names.rs:106). -/
def isSymbolPart (p : List Nat) : Bool :=
  match p with
  | [c] => isAdditionalNameSymbol c
  | _ => false

/-- The loop of `Name::new` (names.rs:105-112); `notFirst` is `index > 0`. -/
def nameNewGo : Bool → Bool → List (List Nat) → List Nat
  | _, _, [] => []
  | notFirst, prev, p :: ps =>
    let part := trim p
    let current := isSymbolPart part
    (if notFirst && !prev && !current && !part.isEmpty then [32] else []) ++ part ++
      nameNewGo true current ps

/-- `Name::new(parts)` (names.rs:100): the text of the name. -/
def nameNew (parts : List (List Nat)) : List Nat := nameNewGo false false parts

/-- `[String]::join(" ")`. -/
def joinSp : List (List Nat) → List Nat
  | [] => []
  | [p] => p
  | p :: q :: ps => p ++ 32 :: joinSp (q :: ps)

/-- Does `s` start with `pat`? -/
def startsWith : List Nat → List Nat → Bool
  | _, [] => true
  | [], _ :: _ => false
  | c :: s, p :: pat => c == p && startsWith s pat

/-- `str::replace(" x ", "x")`: non-overlapping matches of the three characters
`' ' x ' '`, left to right, each replaced by `x`. `skip` is the number of characters of the
current match still to be dropped. -/
def replaceSym (x : Nat) : Nat → List Nat → List Nat
  | _, [] => []
  | skip + 1, _ :: s => replaceSym x skip s
  | 0, c :: s =>
    if c == 32 && startsWith s [x, 32] then x :: replaceSym x 2 s
    else c :: replaceSym x 0 s

/-- `flatten_name_parts` (lexer.rs:1054-1068). -/
def flattenNameParts (parts : List (List Nat)) : List Nat :=
  let s := trim (joinSp (parts.map trim))
  let s := replaceSym 46 0 s   -- " . " → "."
  let s := replaceSym 47 0 s   -- " / " → "/"
  let s := replaceSym 45 0 s   -- " - " → "-"
  let s := replaceSym 39 0 s   -- " ' " → "'"
  let s := replaceSym 43 0 s   -- " + " → "+"
  replaceSym 42 0 s            -- " * " → "*"

/-! ## Tokens -/

/-- `lalr::TokenType` without `YyEmpty` (never produced by the lexer). -/
inductive TT where
  | yyEof | yyError | yyUndef
  | startExpression | startBoxedExpression | startContext | startTextualExpression
  | startTextualExpressions | startUnaryTests
  | at | not | colon | comma | every | for_ | leftBrace | null | rightArrow | of_ | list | range
  | context | then_ | function | external | if_ | rightBrace | rightBracket | rightParen
  | return_ | ellipsis | some_ | numeric | string | boolean | satisfies | else_ | or_ | and_
  | eq | nq | lt | le | gt | ge | between | betweenAnd | in_ | minus | plus | mul | div | exp
  | instance_ | name | nameDateTime | builtInTypeName | leftParen | leftBracket | dot
  deriving DecidableEq, Repr

open Dmn.Gen.Lalr in
/-- The discriminant (`token_type as i16`), from the regenerated `enum TokenType`. -/
def TT.code : TT → Int
  | .yyEof => TokenType_YyEof | .yyError => TokenType_YyError | .yyUndef => TokenType_YyUndef
  | .startExpression => TokenType_StartExpression
  | .startBoxedExpression => TokenType_StartBoxedExpression
  | .startContext => TokenType_StartContext
  | .startTextualExpression => TokenType_StartTextualExpression
  | .startTextualExpressions => TokenType_StartTextualExpressions
  | .startUnaryTests => TokenType_StartUnaryTests
  | .at => TokenType_At | .not => TokenType_Not | .colon => TokenType_Colon
  | .comma => TokenType_Comma | .every => TokenType_Every | .for_ => TokenType_For
  | .leftBrace => TokenType_LeftBrace | .null => TokenType_Null
  | .rightArrow => TokenType_RightArrow | .of_ => TokenType_Of | .list => TokenType_List
  | .range => TokenType_Range | .context => TokenType_Context | .then_ => TokenType_Then
  | .function => TokenType_Function | .external => TokenType_External | .if_ => TokenType_If
  | .rightBrace => TokenType_RightBrace | .rightBracket => TokenType_RightBracket
  | .rightParen => TokenType_RightParen | .return_ => TokenType_Return
  | .ellipsis => TokenType_Ellipsis | .some_ => TokenType_Some | .numeric => TokenType_Numeric
  | .string => TokenType_String | .boolean => TokenType_Boolean
  | .satisfies => TokenType_Satisfies | .else_ => TokenType_Else | .or_ => TokenType_Or
  | .and_ => TokenType_And | .eq => TokenType_Eq | .nq => TokenType_Nq | .lt => TokenType_Lt
  | .le => TokenType_Le | .gt => TokenType_Gt | .ge => TokenType_Ge
  | .between => TokenType_Between | .betweenAnd => TokenType_BetweenAnd | .in_ => TokenType_In
  | .minus => TokenType_Minus | .plus => TokenType_Plus | .mul => TokenType_Mul
  | .div => TokenType_Div | .exp => TokenType_Exp | .instance_ => TokenType_Instance
  | .name => TokenType_Name | .nameDateTime => TokenType_NameDateTime
  | .builtInTypeName => TokenType_BuiltInTypeName | .leftParen => TokenType_LeftParen
  | .leftBracket => TokenType_LeftBracket | .dot => TokenType_Dot

/-- The payload of `lexer::TokenValue` (payload-free values are determined by the type). -/
inductive Payload where
  | none
  | boolean (b : Bool)
  | numeric (before after : List Nat)
  | string (s : List Nat)
  | name (text : List Nat)       -- the `Name`'s text; also for NameDateTime / BuiltInTypeName
  deriving DecidableEq, Repr

structure Token where
  tt : TT
  val : Payload
  deriving DecidableEq, Repr

def tk (tt : TT) : Token := ⟨tt, .none⟩

/-- `errors::LexerError` (lexer.rs:1122). -/
inductive LexErr where
  | unexpectedEof
  | expectedCharacter (expected actual : Nat)
  | expectedCharacters (actual : Nat)          -- expected is always `['u', 'U']`
  | expectedHexDigit (actual : Nat)
  | unicodeValueOutOfRange (v : Nat)
  | unicodeSurrogateOutOfRange (v : Nat)
  | unicodeConversionFailed (v : Nat)
  deriving DecidableEq, Repr

/-- Places where `consume_name` indexes a vector or subtracts. -/
inductive PanicSite where
  | itemPositions0      -- lexer.rs:686 `consumed_positions[0]`
  | tillInIndexMinus1   -- lexer.rs:658 `index - 1` with `index = 0` (`usize` underflow)
  | tillInPositions     -- lexer.rs:658 `consumed_positions[index - 1]`
  | prefixSlice         -- lexer.rs:669 `&parts[..part_count]`
  | prefixPositions     -- lexer.rs:676 `consumed_positions[part_count - 1]`
  deriving DecidableEq, Repr

abbrev Out (α : Type) := LexOutcome LexErr PanicSite α

/-! ## Scanning helpers -/

/-- Number of leading elements satisfying `p`. -/
def countWhile (p : Nat → Bool) : List Nat → Nat
  | [] => 0
  | c :: s => if p c then countWhile p s + 1 else 0

/-- `consume_whitespace` (lexer.rs:452): the new position. -/
def consumeWhitespace (inp : List Nat) (pos : Nat) : Nat :=
  pos + countWhile isWhitespace (inp.drop pos)

/-- Length of a block comment body up to and including the closing `*/` (whole rest when
unterminated) — the loop at lexer.rs:478-486. -/
def blockCommentLen : List Nat → Nat
  | [] => 0
  | 42 :: 47 :: _ => 2
  | _ :: s => blockCommentLen s + 1

/-- `consume_comment` (lexer.rs:464): the new position. A line comment stops *before* the
vertical space (U+000A … U+000D, grammar rule 62) that ends it — since the repair 20fca88; before
it only the line feed ended a line comment. -/
def consumeComment (inp : List Nat) (pos : Nat) : Nat :=
  match inp[pos]?, inp[pos + 1]? with
  | some 47, some 47 => pos + 2 + countWhile (fun c => !isVerticalSpace c) (inp.drop (pos + 2))
  | some 47, some 42 => pos + 2 + blockCommentLen (inp.drop (pos + 2))
  | _, _ => pos

/-- The loop of `read_input` (lexer.rs:425-432): `consume_whitespace; consume_comment` until the
cursor stops moving — any sequence of white space and comments.  At most `fuel` rounds; the
budget `len − pos + 1` of `skipBlanks` always suffices (`skipBlanks_settled` in
`Lemmas/LexerProgress.lean`: the returned cursor is one the loop stops at). -/
def skipLoop (inp : List Nat) : Nat → Nat → Nat
  | 0, pos => pos
  | fuel + 1, pos =>
    let p := consumeComment inp (consumeWhitespace inp pos)
    if p = pos then pos else skipLoop inp fuel p

/-- The cursor after the skipping loop of `read_input`. -/
def skipBlanks (inp : List Nat) (pos : Nat) : Nat :=
  skipLoop inp (inp.length - pos + 1) pos

/-- `is_comment_start` (lexer.rs:446): `//` or `/*` at this position. -/
def isCommentStart (inp : List Nat) (p : Nat) : Bool :=
  inp[p]? == some 47 && (inp[p + 1]? == some 47 || inp[p + 1]? == some 42)

/-- One cell of the look-ahead buffer of `read_input` (lexer.rs:433-441): white space, the
first character of a comment and positions beyond the end read as `WS`. -/
def bufCell (inp : List Nat) (pos off : Nat) : Nat :=
  match inp[pos + off]? with
  | some ch => if isWhitespace ch || isCommentStart inp (pos + off) then 32 else ch
  | none => 32

/-- `read_input`'s buffer (`BUF_SIZE = 12`). -/
def readBuf (inp : List Nat) (pos : Nat) : List Nat :=
  (List.range 12).map (bufCell inp pos)

/-- The loop of `is_next_character` (lexer.rs:966-980) from the absolute position `p`: a comment
is jumped over (`comment_end`, lexer.rs:984 — the same end as `consume_comment` finds: a line
comment ends before the vertical space, an unterminated one at the end of input), white space is
stepped over, any other character decides.  At most `fuel` rounds; every round moves `p`
forward, so the budget `len − p + 1` of `isNextCharacter` is never exhausted
(`nextCharLoop_fuel` in `Lemmas/LexerNextChar.lean`). -/
def nextCharLoop (inp : List Nat) (chars : List Nat) : Nat → Nat → Bool
  | 0, _ => false
  | fuel + 1, p =>
    match inp[p]? with
    | none => false
    | some ch =>
      if isCommentStart inp p then nextCharLoop inp chars fuel (consumeComment inp p)
      else if chars.contains ch then true
      else if !isWhitespace ch then false
      else nextCharLoop inp chars fuel (p + 1)

/-- `is_next_character` (lexer.rs:965): is the next character after white space and comments
one of `chars`? -/
def isNextCharacter (inp : List Nat) (pos : Nat) (chars : List Nat) (off : Nat) : Bool :=
  nextCharLoop inp chars (inp.length - (pos + off) + 1) (pos + off)

/-- `consume_digits` (lexer.rs:548): the digits and the new position. -/
def consumeDigits (inp : List Nat) (pos : Nat) : List Nat × Nat :=
  let ds := (inp.drop pos).takeWhile isDigit
  (ds, pos + ds.length)

/-! ## String literals (lexer.rs:493-542, 715-856) -/

/-- `k` calls of `consume_hex_digit` (lexer.rs:722), accumulating `acc * 16 + digit` — the same
number as the weighted sum of `consume_unicode_literal` (lexer.rs:783-789). -/
def hexDigits (inp : List Nat) : Nat → Nat → Nat → Out (Nat × Nat)
  | 0, pos, acc => .ok (acc, pos)
  | k + 1, pos, acc =>
    match inp[pos]? with
    | none => .error .unexpectedEof pos
    | some ch =>
      if isHexDigit ch then hexDigits inp k (pos + 1) (acc * 16 + hexVal ch)
      else .error (.expectedHexDigit ch) pos

/-- `consume_unicode_literal` (lexer.rs:778): value and new position. -/
def consumeUnicodeLiteral (inp : List Nat) (pos : Nat) : Out (Nat × Nat) :=
  match inp[pos]? with
  | none => .error .unexpectedEof pos
  | some b =>
    if b != 92 then .error (.expectedCharacter 92 b) pos
    else
      match inp[pos + 1]? with
      | none => .error .unexpectedEof (pos + 1)
      | some u =>
        if u == 85 then hexDigits inp 6 (pos + 2) 0
        else if u == 117 then hexDigits inp 4 (pos + 2) 0
        else .error (.expectedCharacters u) (pos + 1)

/-- `consume_unicode` (lexer.rs:796): the character and the new position.  In the four
direct ranges and in the surrogate branch the bytes built by the code are the UTF-8 encoding
of the code point (`0x10000 ≤ cp ≤ 0x10FFFF` for a surrogate pair), so `String::from_utf8`
succeeds and yields it; `unicode_conversion_failed` is unreachable. -/
def consumeUnicode (inp : List Nat) (pos : Nat) : Out (Nat × Nat) :=
  match consumeUnicodeLiteral inp pos with
  | .error e p => .error e p
  | .panic s => .panic s
  | .fuelOut => .fuelOut
  | .ok (value, p) =>
    if value ≤ 0xD7FF || (0xE000 ≤ value && value ≤ 0xFFFF) || (0x10000 ≤ value && value ≤ 0x10FFFF) then
      .ok (value, p)
    else if 0xD800 ≤ value && value ≤ 0xDBFF then
      match consumeUnicodeLiteral inp p with
      | .error e p2 => .error e p2
      | .panic s => .panic s
      | .fuelOut => .fuelOut
      | .ok (low, p2) =>
        if 0xDC00 ≤ low && low ≤ 0xDFFF then
          .ok (0x10000 + (value - 0xD800) * 0x400 + (low - 0xDC00), p2)
        else .error (.unicodeSurrogateOutOfRange value) p2
    else .error (.unicodeValueOutOfRange value) p

/-- The loop of `consume_string` (lexer.rs:496-540), after the opening quote. -/
def stringLoop (inp : List Nat) : Nat → Nat → List Nat → Out (Token × Nat)
  | 0, _, _ => .fuelOut
  | fuel + 1, pos, acc =>
    match inp[pos]? with
    | none => .ok (tk .yyEof, pos)                                        -- :532
    | some c1 =>
      let c2 := inp[pos + 1]?
      if c1 == 92 && c2 == some 39 then stringLoop inp fuel (pos + 2) (acc ++ [39])       -- \'
      else if c1 == 92 && c2 == some 34 then stringLoop inp fuel (pos + 2) (acc ++ [34])  -- \"
      else if c1 == 92 && c2 == some 92 then stringLoop inp fuel (pos + 2) (acc ++ [92])  -- \\
      else if c1 == 92 && c2 == some 110 then stringLoop inp fuel (pos + 2) (acc ++ [10]) -- \n
      else if c1 == 92 && c2 == some 114 then stringLoop inp fuel (pos + 2) (acc ++ [13]) -- \r
      else if c1 == 92 && c2 == some 116 then stringLoop inp fuel (pos + 2) (acc ++ [9])  -- \t
      else if c1 == 92 && (c2 == some 117 || c2 == some 85) then                          -- \u \U
        match consumeUnicode inp pos with
        | .ok (ch, p) => stringLoop inp fuel p (acc ++ [ch])
        | .error e p => .error e p
        | .panic s => .panic s
        | .fuelOut => .fuelOut
      else if c1 == 34 then .ok (⟨.string, .string acc⟩, pos + 1)                        -- :524
      else if isVerticalSpace c1 then .ok (tk .yyUndef, pos)                              -- :528
      else stringLoop inp fuel (pos + 1) (acc ++ [c1])                                    -- :531

/-- `consume_string` (lexer.rs:493); `inp[pos]` is the opening quote. -/
def consumeString (inp : List Nat) (pos : Nat) : Out (Token × Nat) :=
  stringLoop inp (inp.length - pos + 1) (pos + 1) []

/-! ## Names (lexer.rs:562-719) -/

/-- `state` of the name state machine (the Rust variable only ever holds 1..5). -/
inductive NState where
  | s1 | s2 | s3 | s4 | s5
  deriving DecidableEq, Repr

/-- The local variables of `consume_name`'s loop. -/
structure NameSt where
  pos : Nat
  parts : List (List Nat)
  cur : List Nat              -- current_part
  positions : List Nat        -- consumed_positions
  state : NState
  deriving Repr, DecidableEq

def isNextNamePartChar (inp : List Nat) (pos : Nat) : Bool :=
  match inp[pos + 1]? with | some ch => isNamePartChar ch | none => false
/-- `is_next_additional_name_symbol` (lexer.rs:900): the `/` that opens a comment is not one. -/
def isNextAdditionalNameSymbol (inp : List Nat) (pos : Nat) : Bool :=
  match inp[pos + 1]? with
  | some ch => isAdditionalNameSymbol ch && !isCommentStart inp (pos + 1)
  | none => false
def isNextWhitespace (inp : List Nat) (pos : Nat) : Bool :=
  match inp[pos + 1]? with | some ch => isWhitespace ch | none => false

inductive NStep where
  | cont (s : NameSt)
  | brk (s : NameSt)
  | err (e : LexErr) (pos : Nat)

/-- One iteration of the loop lexer.rs:574-634. -/
def nameStep (inp : List Nat) (s : NameSt) : NStep :=
  match s.state with
  | .s1 | .s3 =>
    if isNextNamePartChar inp s.pos then
      -- position += 1; ch = peek_character()?; current_part.push(ch)
      match inp[s.pos + 1]? with
      | some ch => .cont { s with pos := s.pos + 1, cur := s.cur ++ [ch] }
      | none => .err .unexpectedEof (s.pos + 1)
    else
      .cont { s with parts := s.parts ++ [s.cur], positions := s.positions ++ [s.pos],
                     cur := [], state := .s2 }
  | .s2 =>
    if isNextNamePartChar inp s.pos then .cont { s with state := .s3 }
    else if isNextAdditionalNameSymbol inp s.pos then .cont { s with state := .s4 }
    else if isNextWhitespace inp s.pos then .cont { s with state := .s5 }
    else .brk { s with pos := s.pos + 1 }
  | .s4 =>
    if isNextAdditionalNameSymbol inp s.pos then
      match inp[s.pos + 1]? with
      | some ch => .cont { s with pos := s.pos + 1, positions := s.positions ++ [s.pos + 1],
                                  parts := s.parts ++ [s.cur ++ [ch]], cur := [] }
      | none => .err .unexpectedEof (s.pos + 1)
    else .cont { s with state := .s2 }
  | .s5 =>
    if isNextWhitespace inp s.pos then
      match inp[s.pos + 1]? with
      | some _ => .cont { s with pos := s.pos + 1 }
      | none => .err .unexpectedEof (s.pos + 1)
    else .cont { s with state := .s2 }

/-- The loop, at most `fuel` iterations. -/
def nameLoop (inp : List Nat) : Nat → NameSt → Out NameSt
  | 0, _ => .fuelOut
  | fuel + 1, s =>
    match nameStep inp s with
    | .cont s' => nameLoop inp fuel s'
    | .brk s' => .ok s'
    | .err e p => .error e p

/-- Part collection: lexer.rs:563-634. `inp[pos]` is a name start character. -/
def collectParts (inp : List Nat) (pos : Nat) : Out NameSt :=
  match inp[pos]? with
  | none => .error .unexpectedEof pos                                     -- :564 peek_character()?
  | some ch =>
    nameLoop inp (4 * (inp.length - pos) + 4)
      { pos := pos, parts := [], cur := [ch], positions := [], state := .s1 }

/-- The parsing scope as the lexer sees it, and the lexer's flags. -/
structure Lx where
  input : List Nat
  pos : Nat
  start : Option TT          -- start_token_type
  unaryTests : Bool
  between : Bool
  typeName : Bool
  tillIn : Bool
  keys : List (List Nat)     -- scope.flatten_keys()
  deriving Repr, DecidableEq

def kwItem : List Nat := [105, 116, 101, 109]   -- "item"
def kwIn : List Nat := [105, 110]               -- "in"

/-- `parts.iter().position(|value| value == "in")`. -/
def positionOfIn : List (List Nat) → Option Nat
  | [] => none
  | p :: ps => if p == kwIn then some 0 else (positionOfIn ps).map (· + 1)

/-- The longest-prefix loop lexer.rs:665-681: `some (part_count)` of the first (longest)
prefix whose `Name::new` text is a key; accesses made explicit. -/
def prefixLoop (keys : List (List Nat)) (parts : List (List Nat)) (positions : List Nat) :
    Nat → Out (Option (List (List Nat) × Nat))
  | 0 => .ok none
  | k + 1 =>
    -- :663 `&parts[..part_count]`
    if parts.length < k + 1 then .panic .prefixSlice
    else
      let sub := parts.take (k + 1)
      -- :666 `Name::from(part_sublist.to_vec()).to_string()`
      if keys.contains (nameNew sub) then
        -- :670 `consumed_positions[part_count - 1] + 1`
        match positions[k]? with
        | none => .panic .prefixPositions
        | some p => .ok (some (sub, p + 1))
      else prefixLoop keys parts positions k

def builtInTypeNames : List (List Nat) := [
  [65, 110, 121],                                                   -- "Any"
  [78, 117, 108, 108],                                              -- "Null"
  [98, 111, 111, 108, 101, 97, 110],                                -- "boolean"
  [110, 117, 109, 98, 101, 114],                                    -- "number"
  [115, 116, 114, 105, 110, 103],                                   -- "string"
  [100, 97, 116, 101],                                              -- "date"
  [100, 97, 116, 101, 32, 97, 110, 100, 32, 116, 105, 109, 101],    -- "date and time"
  [116, 105, 109, 101],                                             -- "time"
  [121, 101, 97, 114, 115, 32, 97, 110, 100, 32, 109, 111, 110, 116, 104, 115, 32, 100, 117, 114,
   97, 116, 105, 111, 110],                                         -- "years and months duration"
  [100, 97, 121, 115, 32, 97, 110, 100, 32, 116, 105, 109, 101, 32, 100, 117, 114, 97, 116, 105,
   111, 110]]                                                       -- "days and time duration"

def nmDateAndTime : List Nat := [100, 97, 116, 101, 32, 97, 110, 100, 32, 116, 105, 109, 101]
def nmDuration : List Nat := [100, 117, 114, 97, 116, 105, 111, 110]
def nmDate : List Nat := [100, 97, 116, 101]
def nmTime : List Nat := [116, 105, 109, 101]

def nameTok (tt : TT) (parts : List (List Nat)) : Token := ⟨tt, .name (nameNew parts)⟩

/-- The part of `consume_name` after the loop (lexer.rs:643-729). `st` is what the part
collector left: parts, consumed positions and the cursor.  Order of the decisions: the
`till_in` tweak, the longest prefix that is a key of the scope, the `item` tweak, the built-in
type names, the temporal function names. -/
def finishName (l : Lx) (st : NameSt) : Out (Token × Lx) :=
  -- :646 tweak with the name before `in`
  -- :651 `parts.iter().position(|value| value == "in").filter(|index| *index > 0)`
  let tillInHit := if l.tillIn then (positionOfIn st.parts).filter (fun i => 0 < i) else none
  match tillInHit with
  | some index =>
    if index = 0 then .panic .tillInIndexMinus1
    else
      match st.positions[index - 1]? with
      | none => .panic .tillInPositions
      | some p => .ok (nameTok .name (st.parts.take index), { l with pos := p + 1, tillIn := false })
  | none =>
    -- :660 longest prefix that is a key of the scope
    match prefixLoop l.keys st.parts st.positions st.parts.length with
    | .panic s => .panic s
    | .error e p => .error e p
    | .fuelOut => .fuelOut
    | .ok (some (sub, p)) => .ok (nameTok .name sub, { l with pos := p })
    | .ok none =>
      -- :680 tweak with the name `item` (only when no bound name begins here)
      if st.parts.head? == some kwItem then
        match st.positions[0]? with
        | none => .panic .itemPositions0
        | some p => .ok (⟨.name, .name kwItem⟩, { l with pos := p + 1 })
      else
        let l := { l with pos := st.pos }
        let name := nameNew st.parts
        -- :694 built-in type names
        if l.typeName && builtInTypeNames.contains name then
          .ok (⟨.builtInTypeName, .name name⟩, { l with typeName := false })
        -- :715
        else if name == nmDateAndTime || name == nmDuration then
          .ok (⟨.nameDateTime, .name name⟩, l)
        -- :718
        else if name == nmDate || name == nmTime then
          if isNextCharacter l.input l.pos [58] 0 then .ok (⟨.name, .name name⟩, l)
          else .ok (⟨.nameDateTime, .name name⟩, l)
        else .ok (⟨.name, .name name⟩, l)

/-- `consume_name` (lexer.rs:569). -/
def consumeName (l : Lx) : Out (Token × Lx) :=
  match collectParts l.input l.pos with
  | .error e p => .error e p
  | .panic s => .panic s
  | .fuelOut => .fuelOut
  | .ok st => finishName l st

/-- The name arm of `read_next_token` (lexer.rs:418-424): `consume_name`, after which a type
name is no longer expected (`type_name` is for the first name after the request only). -/
def nameArm (l : Lx) : Out (Token × Lx) :=
  match consumeName l with
  | .ok (t, l') => .ok (t, { l' with typeName := false })
  | .error e p => .error e p
  | .panic s => .panic s
  | .fuelOut => .fuelOut

/-! ## `read_next_token` (lexer.rs:209-420) -/

def kw (buf : List Nat) (w : List Nat) : Bool := startsWith buf w

def advance (l : Lx) (pos : Nat) (n : Nat) (tt : TT) : Out (Token × Lx) :=
  .ok (tk tt, { l with pos := pos + n })

/-- `read_next_token`. -/
def readNextToken (l : Lx) : Out (Token × Lx) :=
  let inp := l.input
  let pos := skipBlanks inp l.pos           -- read_input's side effect on the cursor
  let l := { l with pos := pos }
  let b := readBuf inp pos
  let bc (i : Nat) : Nat := b.getD i 32
  if kw b [115, 97, 116, 105, 115, 102, 105, 101, 115, 32] then advance l pos 9 .satisfies          -- "satisfies "
  else if kw b [101, 120, 116, 101, 114, 110, 97, 108, 32] then advance l pos 8 .external             -- "external "
  else if kw b [102, 117, 110, 99, 116, 105, 111, 110] && isNextCharacter inp pos [40, 60] 8 then
    advance l pos 8 .function                                                                        -- "function" ( <
  else if kw b [105, 110, 115, 116, 97, 110, 99, 101, 32] then advance l pos 8 .instance_            -- "instance "
  else if kw b [98, 101, 116, 119, 101, 101, 110, 32] then advance l pos 7 .between                   -- "between "
  else if kw b [99, 111, 110, 116, 101, 120, 116] && isNextCharacter inp pos [60] 7 then
    advance l pos 7 .context                                                                         -- "context" <
  else if kw b [114, 101, 116, 117, 114, 110, 32] then advance l pos 6 .return_                       -- "return "
  else if kw b [101, 118, 101, 114, 121, 32] then advance l pos 5 .every                              -- "every "
  else if kw b [102, 97, 108, 115, 101] && isSeparator (bc 5) then
    .ok (⟨.boolean, .boolean false⟩, { l with pos := pos + 5 })                                      -- "false"
  else if kw b [114, 97, 110, 103, 101] && isNextCharacter inp pos [60] 5 then advance l pos 5 .range -- "range" <
  else if kw b [110, 117, 108, 108] && isSeparator (bc 4) then advance l pos 4 .null                  -- "null"
  else if kw b [101, 108, 115, 101, 32] then advance l pos 4 .else_                                   -- "else "
  else if kw b [108, 105, 115, 116] && isNextCharacter inp pos [60] 4 then advance l pos 4 .list      -- "list" <
  else if kw b [115, 111, 109, 101, 32] then advance l pos 4 .some_                                   -- "some "
  else if kw b [116, 104, 101, 110, 32] then advance l pos 4 .then_                                   -- "then "
  else if kw b [116, 114, 117, 101] && isSeparator (bc 4) then
    .ok (⟨.boolean, .boolean true⟩, { l with pos := pos + 4 })                                       -- "true"
  else if kw b [97, 110, 100, 32] && !l.between then advance l pos 3 .and_                            -- "and "
  else if kw b [97, 110, 100, 32] && l.between then
    advance { l with between := false } pos 3 .betweenAnd
  else if kw b [102, 111, 114, 32] then advance l pos 3 .for_                                         -- "for "
  else if kw b [110, 111, 116] && l.unaryTests && isKeywordNotSeparator (bc 3) then
    advance l pos 3 .not                                                                             -- "not"
  else if kw b [105, 102, 32] then advance l pos 2 .if_                                               -- "if "
  else if kw b [105, 110, 32] then advance { l with tillIn := false } pos 2 .in_                      -- "in " (:299 clears till_in)
  else if kw b [111, 102, 32] then advance l pos 2 .of_                                               -- "of "
  else if kw b [111, 114, 32] then advance l pos 2 .or_                                               -- "or "
  else if kw b [46, 46] then advance l pos 2 .ellipsis                                                -- ".."
  else if kw b [42, 42] then advance l pos 2 .exp                                                     -- "**"
  else if kw b [33, 61] then advance l pos 2 .nq                                                      -- "!="
  else if kw b [60, 61] then advance l pos 2 .le                                                      -- "<="
  else if kw b [62, 61] then advance l pos 2 .ge                                                      -- ">="
  else if kw b [45, 62] then advance l pos 2 .rightArrow                                              -- "->"
  else if bc 0 == 46 && isDigit (bc 1) then
    -- :333 consume_character('.')?; Numeric("0", consume_digits())
    let (ds, p) := consumeDigits inp (pos + 1)
    .ok (⟨.numeric, .numeric [48] ds⟩, { l with pos := p })
  else if bc 0 == 46 then advance l pos 1 .dot
  else if bc 0 == 44 then advance l pos 1 .comma
  else if bc 0 == 58 then advance l pos 1 .colon
  else if bc 0 == 34 then
    match consumeString inp pos with
    | .ok (t, p) => .ok (t, { l with pos := p })
    | .error e p => .error e p
    | .panic s => .panic s
    | .fuelOut => .fuelOut
  else if bc 0 == 43 then advance l pos 1 .plus
  else if bc 0 == 45 then advance l pos 1 .minus
  else if bc 0 == 42 then advance l pos 1 .mul
  else if bc 0 == 47 then advance l pos 1 .div
  else if bc 0 == 61 then advance l pos 1 .eq
  else if bc 0 == 60 then advance l pos 1 .lt
  else if bc 0 == 62 then advance l pos 1 .gt
  else if bc 0 == 40 then advance l pos 1 .leftParen
  else if bc 0 == 41 then advance l pos 1 .rightParen
  else if bc 0 == 91 then advance l pos 1 .leftBracket
  else if bc 0 == 93 then advance l pos 1 .rightBracket
  else if bc 0 == 123 then advance l pos 1 .leftBrace
  else if bc 0 == 125 then advance l pos 1 .rightBrace
  else if bc 0 == 64 then advance l pos 1 .at
  else if isDigit (bc 0) then
    -- :406-415
    let (before, p) := consumeDigits inp pos
    if inp[p]? == some 46 && (match inp[p + 1]? with | some c => isDigit c | none => false) then
      let (after, p2) := consumeDigits inp (p + 1)
      .ok (⟨.numeric, .numeric before after⟩, { l with pos := p2 })
    else .ok (⟨.numeric, .numeric before []⟩, { l with pos := p })
  else if isNameStartChar (bc 0) then nameArm l
  else if b.all (fun c => c == 32) then advance l pos 0 .yyEof
  else advance l pos 0 .yyUndef

/-- `next_token` (lexer.rs:190). -/
def nextToken (l : Lx) : Out (Token × Lx) :=
  match l.start with
  | some tt =>
    let l := { l with start := none }
    match tt with
    | .startExpression | .startBoxedExpression | .startContext | .startTextualExpression
    | .startTextualExpressions | .startUnaryTests => .ok (tk tt, l)
    | _ => .ok (tk .yyError, l)
  | none =>
    match readNextToken l with
    | .ok (t, l') => .ok (t, { l' with unaryTests := false })
    | .error e p => .error e p
    | .panic s => .panic s
    | .fuelOut => .fuelOut

/-- What the hook `verif::tokenize` reports (lexer.rs:1082): the tokens with the cursor
after each, ending at end of input, at an error or panic, or after `limit` tokens. -/
inductive Item where
  | token (t : Token) (pos : Nat)
  | error (e : LexErr) (pos : Nat)
  | panic (s : PanicSite)
  | fuelOut
  deriving Repr

def tokenize (l : Lx) : Nat → List Item
  | 0 => []
  | limit + 1 =>
    match nextToken l with
    | .ok (t, l') =>
      if t.tt = .yyEof && t.val = .none then [.token t l'.pos]
      else .token t l'.pos :: tokenize l' limit
    | .error e p => [.error e p]
    | .panic s => [.panic s]
    | .fuelOut => [.fuelOut]

end Dmn.Lexer
