/-!
# Named zones: what a wall-clock time denotes (C14, specification side)

The rules of a named zone are a table: the offset in force before the first transition and the
transitions `(instant, offset from then on)` (seconds; corpus/C14/zone_transitions.json, python
zoneinfo). A literal `local@zone` writes a wall-clock reading of the zone; it denotes the instant whose
wall clock shows that reading. `offsetsForLocal` lists the offsets under which some instant shows the
reading `l`: exactly one — the literal denotes `l − o`; none — the reading is skipped by a transition;
two — it is repeated. Core Lean only (linked into the driver).
-/

namespace Dmn.Temporal

/-- The rules of a named zone. -/
structure ZoneRules where
  initial : Int
  trs : List (Int × Int)
  deriving Repr

/-- The offset in force at the instant `t`, starting from `o`: that of the last listed transition at or
before `t`. -/
def offsetFrom (o : Int) (trs : List (Int × Int)) (t : Int) : Int :=
  match trs with
  | [] => o
  | (s, n) :: r => offsetFrom (if s ≤ t then n else o) r t

def ZoneRules.offsetAt (z : ZoneRules) (t : Int) : Int := offsetFrom z.initial z.trs t

/-- Every offset the zone ever had. -/
def ZoneRules.offsets (z : ZoneRules) : List Int := z.initial :: z.trs.map (·.2)

/-- The list without repetitions (the last occurrence of each is kept). -/
def dedupInt : List Int → List Int
  | [] => []
  | a :: r => if r.contains a then dedupInt r else a :: dedupInt r

/-- The offsets `o` such that the instant `l − o` has the offset `o`, i.e. shows the wall clock `l`. -/
def ZoneRules.offsetsForLocal (z : ZoneRules) (l : Int) : List Int :=
  (dedupInt z.offsets).filter (fun o => z.offsetAt (l - o) == o)

/-- What the wall-clock reading `l` of the zone denotes. -/
inductive ZoneDenotation where
  | instant (t o : Int)
  | skipped
  | repeated (os : List Int)
  deriving Repr, DecidableEq

def ZoneRules.denote (z : ZoneRules) (l : Int) : ZoneDenotation :=
  match z.offsetsForLocal l with
  | [] => .skipped
  | [o] => .instant (l - o) o
  | os => .repeated os

end Dmn.Temporal
