import Dmn.Model.Lexer

/-!
# String literals — a written-out reading of the FEEL grammar

DMN 1.3, clause 10.3.1.2 (numbering as in the comments of `lexer.rs`):

    35. string literal = '"' , { character – ('"' | vertical space) | string escape sequence } , '"' ;
    62. vertical space = [U+000A-U+000D] ;
    64. string escape sequence = "\'" | "\"" | "\\" | "\n" | "\r" | "\t" | code point ;
    65. code point = "\u", hex digit x 4 | "\U", hex digit x 6 ;

and clause 10.3.2.1: a `\u` code point in the range of UTF-16 high surrogates is followed by a low
surrogate code point, the pair denoting the supplementary character.

Reading: the body of a literal is a sequence of PIECES.  A piece is

* `raw c`     — a character other than `"`, `\` and vertical space, standing for itself;
* `simple l`  — `\` followed by one of `' " \ n r t`, standing for `' " \` LF CR TAB;
* `u4 c m`    — `\u` and four hexadecimal digits (digit `i` in upper case iff bit `i` of `m` is set)
                spelling a scalar value of the basic plane;
* `u6 c m`    — `\U` and six hexadecimal digits spelling any scalar value;
* `sur c m`   — `\uD8xx\uDCxx`, the UTF-16 surrogate pair of a supplementary scalar value;
* `bs c`      — `\` followed by a character that begins none of the escape sequences (anything but
                `' " \ n r t u U` and vertical space): the backslash is an ordinary character of the
                string (rule 35: `character – ('"' | vertical space)` includes `\`), and so is `c`.

This file is the SPECIFICATION side (what a spelling denotes); `Props/C06.lean` proves that
the lexer model reads every spelling of every string as that string.
-/

namespace Dmn.StringLit
open Dmn.Lexer

/-- The character of the hexadecimal digit `d < 16`, in upper or lower case. -/
def hexChar (upper : Bool) (d : Nat) : Nat :=
  if d < 10 then 48 + d else if upper then 55 + d else 87 + d

/-- The `k` hexadecimal digits of `v`, most significant first; digit `i` (counted from the
most significant one) in upper case iff bit `i` of `mask` is set. -/
def hexText : Nat → Nat → Nat → Nat → List Nat
  | 0, _, _, _ => []
  | k + 1, v, mask, i => hexChar (mask.testBit i) (v / 16 ^ k % 16) :: hexText k v mask (i + 1)

inductive Piece where
  | raw (c : Nat)
  | simple (letter : Nat)
  | u4 (c mask : Nat)
  | u6 (c mask : Nat)
  | sur (c mask : Nat)
  | bs (c : Nat)
  deriving Repr, DecidableEq

def isScalar (c : Nat) : Bool := c < 0xD800 || (0xE000 ≤ c && c ≤ 0x10FFFF)

/-- The letters of the simple escapes: `' " \ n r t`. -/
def isSimpleLetter (l : Nat) : Bool := l == 39 || l == 34 || l == 92 || l == 110 || l == 114 || l == 116

/-- What `\l` stands for. -/
def simpleDen (l : Nat) : Nat :=
  if l == 110 then 10 else if l == 114 then 13 else if l == 116 then 9 else l

/-- Is the piece one the grammar allows? -/
def Piece.ok : Piece → Bool
  | .raw c => c != 34 && c != 92 && !isVerticalSpace c
  | .simple l => isSimpleLetter l
  | .u4 c _ => c < 0x10000 && isScalar c
  | .u6 c _ => isScalar c
  | .sur c _ => 0x10000 ≤ c && c ≤ 0x10FFFF
  | .bs c => !isSimpleLetter c && c != 117 && c != 85 && !isVerticalSpace c

def hiSur (c : Nat) : Nat := 0xD800 + (c - 0x10000) / 0x400
def loSur (c : Nat) : Nat := 0xDC00 + (c - 0x10000) % 0x400

/-- The characters of the piece as written. -/
def Piece.text : Piece → List Nat
  | .raw c => [c]
  | .simple l => [92, l]
  | .u4 c m => 92 :: 117 :: hexText 4 c m 0
  | .u6 c m => 92 :: 85 :: hexText 6 c m 0
  | .sur c m => (92 :: 117 :: hexText 4 (hiSur c) m 0) ++ (92 :: 117 :: hexText 4 (loSur c) m 4)
  | .bs c => [92, c]

/-- The characters the piece stands for. -/
def Piece.den : Piece → List Nat
  | .raw c => [c]
  | .simple l => [simpleDen l]
  | .u4 c _ => [c]
  | .u6 c _ => [c]
  | .sur c _ => [c]
  | .bs c => [92, c]

def render : List Piece → List Nat
  | [] => []
  | p :: ps => p.text ++ render ps

def denote : List Piece → List Nat
  | [] => []
  | p :: ps => p.den ++ denote ps

/-- The literal: the pieces between quotes. -/
def literal (ps : List Piece) : List Nat := 34 :: render ps ++ [34]

/-- The canonical spelling of a character: `"` and `\` escaped, vertical space as `\n`, `\r` or
`\u000B` / `\u000C`, everything else raw. -/
def quotePiece (c : Nat) : Piece :=
  if c == 34 || c == 92 then .simple c
  else if c == 10 then .simple 110
  else if c == 13 then .simple 114
  else if c == 11 || c == 12 then .u4 c 0
  else .raw c

/-- The canonical spelling of a string. -/
def quote (s : List Nat) : List Piece := s.map quotePiece

end Dmn.StringLit
