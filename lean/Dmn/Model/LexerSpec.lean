import Dmn.Model.Lexer

/-!
# Specification side of C10: what a name in the input *denotes*

Independent of the state machine of `consume_name`:

* `renderName parts spacing` — every way of writing a name whose parts are `parts`
  (words and additional symbols): `spacing` gives the white space put before each part
  (none is *required* around a symbol, at least one blank between two words);
* `splitParts` — a structural splitter of the text at a name start into words and symbols
  with the offset just after each;
* `specResolve bound text` — the longest bound name that the text starts with: the longest
  prefix of the split parts whose `Name::new` text (the normalisation used when a name is
  put *into* a scope) is one of the bound names.
-/

namespace Dmn.Lexer

/-- `ch` followed by `s` opens a comment (`//` or `/*`). -/
def commentHead (ch : Nat) (s : List Nat) : Bool :=
  ch == 47 && (s.head? == some 47 || s.head? == some 42)

/-- Words and additional symbols of the text, each with the offset just after it.
`off` is the offset of the head of the list, `cur` the word being read.  The name ends where a
comment opens (a comment separates tokens; its `/` is not a part of the name). -/
def splitGo : Nat → List Nat → List Nat → List (List Nat × Nat)
  | off, cur, [] => if cur.isEmpty then [] else [(cur, off)]
  | off, cur, ch :: s =>
    if isNamePartChar ch then splitGo (off + 1) (cur ++ [ch]) s
    else
      let emit := if cur.isEmpty then [] else [(cur, off)]
      if isAdditionalNameSymbol ch && !commentHead ch s then emit ++ ([ch], off + 1) :: splitGo (off + 1) [] s
      else if isWhitespace ch then emit ++ splitGo (off + 1) [] s
      else emit

def splitParts (text : List Nat) : List (List Nat × Nat) := splitGo 0 [] text

/-- The longest prefix (by part count `k`, tried from `k` downwards) whose `Name::new` text is
bound: the bound name's text and the number of characters it covers. -/
def specLongest (bound : List (List Nat)) (ps : List (List Nat × Nat)) : Nat → Option (List Nat × Nat)
  | 0 => none
  | k + 1 =>
    let name := nameNew ((ps.take (k + 1)).map (·.1))
    if bound.contains name then
      match ps[k]? with
      | some (_, e) => some (name, e)
      | none => specLongest bound ps k
    else specLongest bound ps k

def specResolve (bound : List (List Nat)) (text : List Nat) : Option (List Nat × Nat) :=
  let ps := splitParts text
  specLongest bound ps ps.length

/-- A way of writing a name: the white space written before each part. -/
def renderName : List (List Nat) → List (List Nat) → List Nat
  | [], _ => []
  | p :: ps, [] => p ++ renderName ps []
  | p :: ps, sp :: sps => sp ++ p ++ renderName ps sps

end Dmn.Lexer
