/-!
# LexOutcome of a modelled Rust function that can fail or panic

`ok a`      — the function returned (for `Result`-returning functions: `Ok(a)`);
`error e p` — `Err(e)`, with the cursor position at the moment the error was raised;
`panic s`   — Rust would panic at site `s` (index out of bounds, subtraction overflow);
`fuelOut`   — the model's iteration budget ran out.  This is not a behaviour of the code; the
              totality theorems show that it never happens with the budgets the model uses.
-/

namespace Dmn

inductive LexOutcome (ε σ α : Type) where
  | ok (a : α)
  | error (e : ε) (pos : Nat)
  | panic (s : σ)
  | fuelOut
  deriving Repr, DecidableEq

namespace LexOutcome

def isPanic {ε σ α : Type} : LexOutcome ε σ α → Bool
  | .panic _ => true
  | _ => false

def isFuelOut {ε σ α : Type} : LexOutcome ε σ α → Bool
  | .fuelOut => true
  | _ => false

end LexOutcome
end Dmn
