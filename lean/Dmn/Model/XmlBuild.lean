import Dmn.Model.XmlModel
import Dmn.Model.ModelBuild

/-!
# From the parsed `Definitions` to the builder model `Dmn.MB` (C12)

`Dmn.MB` (Model/ModelBuild.lean) models `ModelEvaluator::new` over *shapes*: a decision table is
the list of "does this cell parse" flags, a definitions value is its requirement graph with
numbered identifiers.  This file gives the abstraction functions from the parser's output to those
shapes, so that `parse` (XML tree → `Definitions`) composes with `MB.buildTable` / `MB.build`:

* `toTableS o t` — the table shape of a parsed decision table; `o` says which texts parse as FEEL
  (FEEL parsing is given data in `Dmn.MB`, see its header);
* `Definitions.tables` — every decision table anywhere in the definitions (decision logic,
  knowledge-model bodies, nested boxed expressions);
* `toDefs d` — the requirement graph: identifiers numbered by first position in the list of DRG
  element identifiers (elements sharing an identifier share the number, like the map of
  `check_requirements`), references resolved against that list (a dangling reference gets a
  number no element has), item definitions classified by `item_definition_type`
  (`model-evaluator/src/builders/mod.rs:83-107`) and numbered by position of their name;
* `load` — tree → `Definitions` → every table built, the graph built: one function from the text-level
  tree to "model, error, panic or non-termination".

The abstraction functions are hand-written; they are tied by correspondence on generated tables
and generated requirement graphs (`(c12 parse-dt …)`, `(c12 parse-graph …)`).
-/

namespace Dmn.Xml

open Dmn Dmn.DT

/-- Which texts parse: as a FEEL expression, as unary tests, as a name. -/
structure FeelOracle where
  expr : Str → Bool
  unary : Str → Bool
  name : Str → Bool

/-- The shape `parse_decision_table` (`decision_table.rs:261-360`) sees of a parsed table. -/
def toTableS (o : FeelOracle) (t : DTable) : MB.TableS :=
  ⟨t.inputs.map (fun c => ⟨o.expr c.inputExpression, c.inputValues.map o.unary⟩),
   t.outputs.map (fun c => ⟨c.outputValues.map o.unary, c.defaultOutputEntry.map o.expr, c.name.map o.name⟩),
   t.rules.map (fun r => ⟨r.inputEntries.map o.unary, r.outputEntries.map o.expr⟩)⟩

mutual
/-- Every decision table inside a boxed expression. -/
def Expr.tables : Expr → List DTable
  | .context es => tablesCtx es
  | .table t => [t]
  | .fundef f => f.tables
  | .invocation c bs => c.tables ++ tablesBindings bs
  | .literal _ => []
  | .relation _ _ _ _ _ cols => tablesInfos cols
def InfoItem.tables : InfoItem → List DTable
  | .mk _ _ _ _ v _ => tablesOptExpr v
def CtxEntry.tables : CtxEntry → List DTable
  | .mk v e => tablesOptInfo v ++ e.tables
def FunDef.tables : FunDef → List DTable
  | .mk _ _ _ _ ps b _ => tablesInfos ps ++ tablesOptExpr b
def Binding.tables : Binding → List DTable
  | .mk p f => p.tables ++ tablesOptExpr f
def tablesOptExpr : Option Expr → List DTable
  | none => []
  | some e => e.tables
def tablesOptInfo : Option InfoItem → List DTable
  | none => []
  | some i => i.tables
def tablesCtx : List CtxEntry → List DTable
  | [] => []
  | e :: es => e.tables ++ tablesCtx es
def tablesBindings : List Binding → List DTable
  | [] => []
  | b :: bs => b.tables ++ tablesBindings bs
def tablesInfos : List InfoItem → List DTable
  | [] => []
  | i :: is => i.tables ++ tablesInfos is
end

def Drg.tables : Drg → List DTable
  | .inputData x => x.var.tables
  | .decision x => x.var.tables ++ tablesOptExpr x.logic
  | .bkm x => x.var.tables ++ (match x.logic with | some f => f.tables | none => [])
  | .service x => x.var.tables
  | .knowledgeSource _ => []

/-- Every decision table of the definitions. -/
def Definitions.tables (d : Definitions) : List DTable := d.drgElements.flatMap Drg.tables

/-! ## The requirement graph -/

/-- `type_ref_to_feel_type` (`builders/mod.rs:109-121`) is `Some`. -/
def isBuiltinType (t : Str) : Bool :=
  let t := trim t
  t == L.tString || t == L.tNumber || t == L.tBoolean || t == L.tDate || t == L.tTime ||
  t == L.tDateTime || t == L.tDayTimeDuration || t == L.tYearMonthDuration

def typeRefOf (names : List Str) : Option Str → Option MB.TypeRef
  | none => none
  | some t => if isBuiltinType t then some .builtin else some (.named (names.idxOf t))

mutual
/-- `item_definition_type` (`builders/mod.rs:83-107`); `none` is `err_invalid_item_definition_type`. -/
def toItem (names : List Str) : ItemDef → Option MB.Item
  | .mk _ _ _ _ typeRef _ _ comps coll _ =>
    let builtin := match typeRef with
      | some t => isBuiltinType t
      | none => false
    match typeRef.isSome, builtin, comps, coll with
    | _, true, [], false => some .simple
    | true, false, [], false => some (.ref (names.idxOf (typeRef.getD [])))
    | false, false, c :: cs, false => (toItems names (c :: cs)).map MB.Item.comp
    | _, true, [], true => some .collSimple
    | false, false, c :: cs, true => (toItems names (c :: cs)).map MB.Item.collComp
    | true, false, [], true => some (.collRef (names.idxOf (typeRef.getD [])))
    | _, _, _, _ => none
def toItems (names : List Str) : List ItemDef → Option (List MB.Item)
  | [] => some []
  | c :: cs =>
    match toItem names c, toItems names cs with
    | some x, some xs => some (x :: xs)
    | _, _ => none
end

def Drg.id : Drg → Option Str
  | .inputData x => x.id
  | .decision x => x.id
  | .bkm x => x.id
  | .service x => x.id
  | .knowledgeSource x => x.id

/-- The number of the element at position `k`: the first position of its identifier, or a number no
reference resolves to when it has none. -/
def idNum (ids : List (Option Str)) (k : Nat) : Option Str → Nat
  | some s => ids.idxOf (some s)
  | none => ids.length + 1 + k

/-- The number a reference resolves to (`ids.length` when dangling). -/
def refNum (ids : List (Option Str)) (h : Str) : Nat := ids.idxOf (some h)

/-- The graph `ModelEvaluator::new` follows; `none` when an item definition has no valid type. -/
def toDefs (d : Definitions) : Option MB.Defs :=
  let names := d.itemDefinitions.map ItemDef.name
  let ids := d.drgElements.map Drg.id
  match toItems names d.itemDefinitions with
  | none => none
  | some items =>
    let numbered := d.drgElements.zipIdx
    some {
      items := (List.range items.length).zip items
      inputs := numbered.filterMap (fun (e, k) => match e with
        | .inputData x => some ⟨idNum ids k x.id, typeRefOf names x.var.typeRef⟩
        | _ => none)
      bkms := numbered.filterMap (fun (e, k) => match e with
        | .bkm x => some ⟨idNum ids k x.id,
            x.knowReqs.filterMap (fun r => r.requiredKnowledge.map (refNum ids)),
            (match x.logic with
              | some f => f.params.filterMap (fun p => typeRefOf names p.typeRef)
              | none => []),
            typeRefOf names x.var.typeRef⟩
        | _ => none)
      decisions := numbered.filterMap (fun (e, k) => match e with
        | .decision x => some ⟨idNum ids k x.id, typeRefOf names x.var.typeRef,
            x.knowReqs.filterMap (fun r => r.requiredKnowledge.map (refNum ids)),
            x.infoReqs.map (fun r => ⟨r.requiredDecision.map (refNum ids), r.requiredInput.map (refNum ids)⟩)⟩
        | _ => none)
      services := numbered.filterMap (fun (e, k) => match e with
        | .service x => some ⟨idNum ids k x.id, typeRefOf names x.var.typeRef,
            x.inputData.map (refNum ids), x.inputDecisions.map (refNum ids),
            x.encapsulatedDecisions.map (refNum ids), x.outputDecisions.map (refNum ids)⟩
        | _ => none) }

/-! ## Tree → model -/

/-- What loading a tree ends in. -/
inductive Loaded where
  /-- `dmntk_model::parse` returns `Err` -/
  | parseError (e : PErr)
  /-- `ModelEvaluator::new` returns `Err` -/
  | buildError
  /-- a model evaluator over these definitions -/
  | model (d : Definitions)
  | panic (site : String)
  /-- reference-following does not end (stack overflow) -/
  | diverge

def Loaded.isPanic : Loaded → Bool
  | .panic _ => true
  | _ => false

def Loaded.isDiverge : Loaded → Bool
  | .diverge => true
  | _ => false

/-- Build every decision table of the definitions: the first panic, else the first error. -/
def buildTables (o : FeelOracle) : List DTable → Outcome Unit
  | [] => .ok ()
  | t :: ts =>
    match MB.buildTable (toTableS o t) with
    | .panic s => .panic s
    | .error m =>
      match buildTables o ts with
      | .panic s => .panic s
      | _ => .error m
    | .ok _ => buildTables o ts

/-- XML tree → parsed definitions → every decision table built and the requirement graph followed
(with as much fuel as `build_terminates` needs). -/
def load (uri : Str → UriOut) (o : FeelOracle) (root : XNode) : Loaded :=
  match parse uri root with
  | .panic s => .panic s
  | .err e => .parseError e
  | .ok d =>
    match buildTables o d.tables with
    | .panic s => .panic s
    | .error _ => .buildError
    | .ok _ =>
      match toDefs d with
      | none => .buildError
      | some g =>
        match MB.build g (max (MB.nodeCount g) g.items.length) with
        | .ok => .model d
        | .error => .buildError
        | .diverge => .diverge

end Dmn.Xml
