/-!
# TCK value DTOs (`server/src/dto.rs`)

`toDto` = `impl TryFrom<&Value> for ValueDto` (`dto.rs:207-278`), `fromDto` =
`impl TryFrom<&ValueDto> for WrappedValue` and its helpers (`dto.rs:280-400`).

A scalar value (number, date, time, date-time, duration) is represented by its kind and its
canonical text (`Display`); the text readers (`str::parse::<FeelNumber>`, `FeelDate::try_from`,
…, `parse_longest_name`) are parameters (`Readers`): given a text they answer the canonical
text of the value read (properties C07/C14 are about them).  A context is an association list
in insertion order (`BTreeMap` iteration order is not modelled; the harness sorts).
-/

namespace Dmn.Dto

inductive Kind where
  | number | date | time | dateTime | ymDuration | dtDuration
  deriving DecidableEq, Repr

/-- Typed values that have a TCK form. -/
inductive TV where
  | null
  | str (s : List Char)
  | bool (b : Bool)
  | scalar (k : Kind) (text : List Char)
  | list (xs : List TV)
  | ctx (es : List (List Char × TV))
  /-- every other kind of `Value` (ranges, function definitions, types, …): the last arm of both
  conversions, `_ => Ok(Default::default())` (`dto.rs:278`) / `_ => Ok(OutputNodeDto { value: None })`
  (`dto.rs:208`); only the `Display` text is kept -/
  | other (display : List Char)
  deriving Repr, Inhabited

inductive XsdType where
  | string | integer | decimal | double | boolean | date | time | dateTime | duration
  | other (name : List Char)
  deriving DecidableEq, Repr

mutual
/-- `ValueDto`, by the attribute `TryFrom<&ValueDto>` looks at first: `simple`, else
`components`, else `list`, else none of them (`empty`).  `missing` = a component without
`value`. -/
inductive Dto where
  | simple (typ : Option XsdType) (text : Option (List Char)) (isNil : Bool)
  | components (cs : DtoComps)
  | list (items : DtoList) (isNil : Bool)
  | empty
  | missing
/-- `Vec<ComponentDto>`: name, value, isNil -/
inductive DtoComps where
  | nil
  | cons (name : Option (List Char)) (value : Dto) (isNil : Bool) (rest : DtoComps)
inductive DtoList where
  | nil
  | cons (d : Dto) (rest : DtoList)
end

structure Readers where
  number : List Char → Option (List Char)
  date : List Char → Option (List Char)
  time : List Char → Option (List Char)
  dateTime : List Char → Option (List Char)
  ymDuration : List Char → Option (List Char)
  dtDuration : List Char → Option (List Char)
  /-- `parse_longest_name(name)` rendered back -/
  name : List Char → Option (List Char)

def xsdOf : Kind → XsdType
  | .number => .decimal
  | .date => .date
  | .time => .time
  | .dateTime => .dateTime
  | .ymDuration => .duration
  | .dtDuration => .duration

def tTrue : List Char := ['t', 'r', 'u', 'e']
def tFalse : List Char := ['f', 'a', 'l', 's', 'e']

mutual
/-- `TryFrom<&Value> for ValueDto` -/
def toDto : TV → Dto
  | .null => .simple none none true                                        -- SimpleDto::nil()
  | .str s => .simple (some .string) (some s) false                        -- "xsd:string"
  | .bool b => .simple (some .boolean) (some (if b then tTrue else tFalse)) false
  | .scalar k t => .simple (some (xsdOf k)) (some t) false                 -- v.to_string()
  | .list xs => .list (toDtoList xs) false                                 -- ListDto::items(items)
  | .ctx es => .components (toDtoComps es)
  | .other _ => .empty                                                     -- _ => Ok(Default::default())
def toDtoList : List TV → DtoList
  | [] => .nil
  | x :: xs => .cons (toDto x) (toDtoList xs)
def toDtoComps : List (List Char × TV) → DtoComps
  | [] => .nil
  | (k, v) :: es => .cons (some k) (toDto v) false (toDtoComps es)          -- name: Some(..), nil: false
end

/-- `FeelContext::set_entry`: replace the value of an existing key, else add the entry. -/
def setEntry (acc : List (List Char × TV)) (k : List Char) (v : TV) : List (List Char × TV) :=
  match acc with
  | [] => [(k, v)]
  | (k', v') :: rest => if k' = k then (k, v) :: rest else (k', v') :: setEntry rest k v

/-- `TryFrom<&SimpleDto> for WrappedValue` (`dto.rs:339-363`). -/
def readSimple (rd : Readers) (typ : Option XsdType) (text : Option (List Char)) (isNil : Bool) : Option TV :=
  if isNil then some .null
  else
    match typ, text with
    | some typ, some text =>
      match typ with
      | .string => some (.str text)
      | .integer => (rd.number text).map (.scalar .number)
      | .decimal => (rd.number text).map (.scalar .number)
      | .double => (rd.number text).map (.scalar .number)
      | .boolean =>
        if text = tTrue ∨ text = ['1'] then some (.bool true)
        else if text = tFalse ∨ text = ['0'] then some (.bool false)
        else none
      | .date => (rd.date text).map (.scalar .date)
      | .time => (rd.time text).map (.scalar .time)
      | .dateTime => (rd.dateTime text).map (.scalar .dateTime)
      | .duration =>
        match rd.ymDuration text with
        | some t => some (.scalar .ymDuration t)
        | none => (rd.dtDuration text).map (.scalar .dtDuration)
      | .other _ => none
    | _, _ => none

mutual
/-- `TryFrom<&ValueDto> for WrappedValue` (`dto.rs:325-337`). -/
def fromDto (rd : Readers) : Dto → Option TV
  | .simple typ text isNil => readSimple rd typ text isNil
  | .components cs => (fromComps rd cs []).map .ctx
  | .list items isNil => if isNil then some .null else (fromList rd items).map .list
  | .empty => none
  | .missing => none
/-- `TryFrom<&Vec<ValueDto>>` -/
def fromList (rd : Readers) : DtoList → Option (List TV)
  | .nil => some []
  | .cons d rest =>
    match fromDto rd d with
    | none => none
    | some v =>
      match fromList rd rest with
      | none => none
      | some vs => some (v :: vs)
/-- `TryFrom<&Vec<ComponentDto>>` (`dto.rs:365-377`): the loop over the components. -/
def fromComps (rd : Readers) : DtoComps → List (List Char × TV) → Option (List (List Char × TV))
  | .nil, acc => some acc
  | .cons name value isNil rest, acc =>
    match name with
    | none => none                                   -- "component should have a name"
    | some n =>
      match (if isNil then some TV.null else fromDto rd value) with
      | none => none
      | some v =>
        match rd.name n with
        | none => none
        | some key => fromComps rd rest (setEntry acc key v)
end

mutual
/-- The scalars' texts are canonical for the readers, keys re-read as themselves and are
pairwise distinct within a context. -/
def canonical (rd : Readers) : TV → Bool
  | .null => true
  | .str _ => true
  | .bool _ => true
  | .scalar .number t => rd.number t == some t
  | .scalar .date t => rd.date t == some t
  | .scalar .time t => rd.time t == some t
  | .scalar .dateTime t => rd.dateTime t == some t
  | .scalar .ymDuration t => rd.ymDuration t == some t
  | .scalar .dtDuration t => rd.ymDuration t == none && rd.dtDuration t == some t
  | .list xs => canonicalList rd xs
  | .ctx es => canonicalEntries rd es
  | .other _ => false
def canonicalList (rd : Readers) : List TV → Bool
  | [] => true
  | x :: xs => canonical rd x && canonicalList rd xs
def canonicalEntries (rd : Readers) : List (List Char × TV) → Bool
  | [] => true
  | (k, v) :: es => rd.name k == some k && !(es.any (fun e => e.1 == k)) && canonical rd v && canonicalEntries rd es
end

end Dmn.Dto
