import Dmn.Model.Dec

/-!
# The numeric operators and built-ins as FEEL sees them

The glue of `feel-evaluator/src/builders.rs` and `feel-evaluator/src/bifs/core.rs` around the
`FeelNumber` methods of `Model/Dec.lean` (`FNum.*`): which operations answer `null` (here `none`)
before or after calling the number library.  Operands may be special (the unchecked operators can
produce Infinity / NaN, findings F7…); the theorems of `Props/C02.lean` are about finite operands.
-/

namespace Dmn
namespace FeelNum
open D128

def zero : D128R := .fin ⟨false, 0, 0⟩

/-- `rh.abs() == FeelNumber::zero()` (builders.rs:451, core.rs:712) -/
def isZeroNum (b : D128R) : Bool := FNum.eq (FNum.abs b) zero

/-- `lh + rh` (builders.rs:138): no check -/
def add (a b : D128R) : Option D128R := some (FNum.add a b)
/-- `lh - rh` (builders.rs:1680) -/
def sub (a b : D128R) : Option D128R := some (FNum.sub a b)
/-- `lh * rh` (builders.rs:1250) -/
def mul (a b : D128R) : Option D128R := some (FNum.mul a b)
/-- `lh / rh` (builders.rs:449-455): a zero divisor gives null -/
def div (a b : D128R) : Option D128R := if isZeroNum b then none else some (FNum.div a b)
/-- `-lh` (builders.rs:1312) -/
def neg (a : D128R) : Option D128R := some (FNum.neg a)
/-- `abs` (core.rs:57) -/
def abs (a : D128R) : Option D128R := some (FNum.abs a)
/-- `floor` (core.rs:393) -/
def floor (a : D128R) : Option D128R := some (FNum.floor a)
/-- `ceiling` (core.rs:164) -/
def ceiling (a : D128R) : Option D128R := some (FNum.ceiling a)
/-- `modulo` (core.rs:709-716): a zero divisor gives null, otherwise
`dividend - divisor * (dividend / divisor).floor()` -/
def modulo (a b : D128R) : Option D128R := if isZeroNum b then none else some (FNum.modulo a b)

/-- `*v >= FeelNumber::zero()` (`PartialOrd::ge`: the comparison is `Greater` or `Equal`) -/
def geZero (a : D128R) : Bool := FNum.cmp a zero != .lt

/-- `sqrt` (core.rs:958-971): null for a negative argument and when `FeelNumber::sqrt` is `None` -/
def sqrt (a : D128R) : Option D128R :=
  if geZero a then (FNum.sqrt a).map .fin else none

/-- `isize <= FeelNumber` / `FeelNumber <= isize` (number.rs:249-273) -/
def leNum (a b : D128R) : Bool := FNum.cmp a b != .gt

/-- `decimal(n, scale)` (core.rs:291-305): the scale is truncated to an integer, must lie in
`-6111 ..= 6176`, and `FeelNumber::round` (decNumberRescale) does the rest — unchecked: a
rescaled coefficient of more than 34 digits is NaN (finding F20) -/
def decimal (a scale : D128R) : Option D128R :=
  let t := FNum.trunc scale
  if leNum (.fin (ofInt (-6111))) t && leNum t (.fin (ofInt 6176)) then
    match t with
    | .fin d =>
      match toInt? d with
      | some k => some (FNum.round a k)
      | none => none
    | _ => none
  else none

end FeelNum
end Dmn
