/-!
# `Scope`: a `RefCell` around a stack of contexts (feel/src/scope.rs) — C05

`Scope { contexts: RefCell<Vec<FeelContext>> }`.  Every operation starts with
`self.contexts.borrow_mut()` (scope.rs:104-159) and keeps the `RefMut` until it returns; `borrow_mut`
on a cell that is already borrowed panics (`already borrowed: BorrowMutError`).  The panic sites of
this file are therefore exactly the borrows: an operation is safe when no borrow of the same cell is
alive when it is called, whatever the stack looks like — the empty stack (`Scope::new()`) included:
`pop` answers `None`, `peek` the default context, `set_entry` / `insert_null` do nothing, the lookups
find nothing.

The model threads the cell (`borrowed` flag + the stack) through the operations; `Res.panic` is the
`BorrowMutError` panic.  Values are numbers, strings, null, contexts, lists, or anything else.

A `FeelContext` is a `BTreeMap<Name, Value>`: one entry per name, `set_entry` on a bound name replaces
the value.  The model keeps an association list in which `setIn` replaces in place; every lookup takes
the first entry of a name, so no answer depends on the order of the entries (the correspondence
compares contexts as maps).
-/

namespace Dmn.ScopeCell

inductive Val where
  | num (n : Int)
  | other
  | null
  | ctx (es : List (String × Val))
  | str (s : String)
  | list (items : List Val)

abbrev Ctx := List (String × Val)

structure Cell where
  contexts : List Ctx        -- bottom first, the top of the stack is the last element
  borrowed : Bool := false

inductive Res (α : Type) where
  | ok (v : α) (c : Cell)
  | panic

/-- `self.contexts.borrow_mut()` for the duration of `k` (a computation that does not touch the cell
again): panics when a borrow is alive, otherwise runs `k` on the stack and releases the borrow. -/
def withBorrow {α : Type} (c : Cell) (k : List Ctx → α × List Ctx) : Res α :=
  if c.borrowed then .panic
  else
    let r := k c.contexts
    .ok r.1 { contexts := r.2, borrowed := false }

def lookup (es : Ctx) (k : String) : Option Val := (es.find? (fun e => e.1 == k)).map (·.2)

def setIn (es : Ctx) (k : String) (v : Val) : Ctx :=
  if es.any (fun e => e.1 == k) then es.map (fun e => if e.1 == k then (k, v) else e) else es ++ [(k, v)]

/-- `FeelContext::search_deep` (context.rs:274): the first name is an entry of this context, every
further name an entry of the context reached so far. -/
def deep : Val → List String → Option Val
  | v, [] => some v
  | .ctx es, k :: ks =>
    match lookup es k with
    | some v => deep v ks
    | none => none
  | _, _ :: _ => none

/-- scope.rs:129 `get_entry`: from the top of the stack to the bottom. -/
def getEntryIn (stack : List Ctx) (k : String) : Option Val := stack.reverse.findSome? (fun ctx => lookup ctx k)

/-- scope.rs:138 `search_deep`: the first context from the top that binds the first name decides. -/
def searchDeepIn (stack : List Ctx) (names : List String) : Option Val :=
  match names with
  | [] => none
  | first :: _ =>
    match stack.reverse.find? (fun ctx => (lookup ctx first).isSome) with
    | some ctx => deep (.ctx ctx) names
    | none => none

def modifyLast (stack : List Ctx) (f : Ctx → Ctx) : List Ctx :=
  match stack.reverse with
  | [] => []
  | top :: below => (f top :: below).reverse

/-! `FeelContext::flatten_keys` (context.rs:191): every key; for a value that is a context — or a
list, for each of its items that is a context — every flattened key `s` of that context, and
`key . s`.  (Values of kind `FeelType` are outside the model.) -/
mutual
  def flatCtx : List (String × Val) → List String
    | [] => []
    | e :: es => e.1 :: (flatVal e.1 e.2 ++ flatCtx es)
  def flatVal (k : String) : Val → List String
    | .ctx es => let sub := flatCtx es; sub ++ sub.map (fun s => k ++ " . " ++ s)
    | .list items => flatItems k items
    | _ => []
  def flatItems (k : String) : List Val → List String
    | [] => []
    | v :: rest =>
      (match v with
       | .ctx es => let sub := flatCtx es; sub ++ sub.map (fun s => k ++ " . " ++ s)
       | _ => []) ++ flatItems k rest
end

inductive Op where
  | push (ctx : Ctx)
  | pop
  | peek
  | getEntry (k : String)
  | searchDeep (names : List String)
  | setEntry (k : String) (v : Val)
  | insertNull (k : String)
  | flattenKeys

/-- what an operation answers -/
inductive Ans where
  | unit
  | ctx (c : Option Ctx)
  | val (v : Option Val)
  /-- the set of flattened keys (as a list: order and repetitions mean nothing) -/
  | keys (ks : List String)

def exec (c : Cell) : Op → Res Ans
  | .push ctx => withBorrow c (fun s => (.unit, s ++ [ctx]))                                   -- :104
  | .pop => withBorrow c (fun s => (.ctx s.getLast?, s.dropLast))                              -- :108
  | .peek => withBorrow c (fun s => (.ctx (some (s.getLast?.getD [])), s))                     -- :113
  | .getEntry k => withBorrow c (fun s => (.val (getEntryIn s k), s))                          -- :129
  | .searchDeep names => withBorrow c (fun s => (.val (searchDeepIn s names), s))              -- :138
  | .setEntry k v => withBorrow c (fun s => (.unit, modifyLast s (fun top => setIn top k v)))  -- :149
  | .insertNull k => withBorrow c (fun s => (.unit, modifyLast s (fun top => setIn top k .null))) -- :155
  | .flattenKeys => withBorrow c (fun s => (.keys (s.flatMap flatCtx), s))                    -- :118

/-- a sequence of operations with its answers; stops at the first panic (`none` as the last answer) -/
def execTrace (c : Cell) : List Op → List (Option Ans) × Cell
  | [] => ([], c)
  | op :: ops =>
    match exec c op with
    | .ok a c' => let r := execTrace c' ops; (some a :: r.1, r.2)
    | .panic => ([none], c)

/-- a sequence of operations; stops at the first panic -/
def execAll (c : Cell) : List Op → Option Cell
  | [] => some c
  | op :: ops =>
    match exec c op with
    | .ok _ c' => execAll c' ops
    | .panic => none

/-- The shape of the seeded change C05-15 (and of any "fallback lookup" written inside the loop of
`search_deep`): while the `RefMut` of the loop is alive, another operation of the same scope is
called.  `inner` runs on the cell *as borrowed*. -/
def searchDeepThenInside (c : Cell) (names : List String) (inner : Op) : Res Ans :=
  if c.borrowed then .panic
  else
    match searchDeepIn c.contexts names with
    | some v => .ok (.val (some v)) { c with borrowed := false }
    | none =>
      match exec { c with borrowed := true } inner with
      | .ok a c' => .ok a { c' with borrowed := false }
      | .panic => .panic

end Dmn.ScopeCell
