import Dmn.Model.Eval
import Dmn.Model.DrgTable

/-!
# Decision requirement graphs (model of `model-evaluator/src/model_evaluator.rs`,
`builders/decision.rs`, `builders/business_knowledge_model.rs`, `builders/decision_service.rs`,
`builders/mod.rs:272-405`, `builders/input_data.rs`)

A `Drg` holds what `ModelEvaluator::new` keeps of a `Definitions`: input data, decisions,
business knowledge models and decision services with their requirement edges *by id*, and the
decision logic as syntax.  Evaluation mirrors the closures the builders create:

* `evalBoxed env` — `build_expression_instance_evaluator` (`mod.rs:272`): a literal expression is
  the FEEL evaluator of its parsed text (`Eval.evalStep`); the boxed **context**, **invocation**,
  **function definition** (whose closure is the one of an invocation, `mod.rs:330-349`),
  **relation** and **decision table** (`Dmn/Model/DrgTable.lean`: the cells through the FEEL
  evaluator, the hit policy through the model of C03) are modelled.
  Boxed expressions are carried inside `Ast` (function values keep their body as `Ast`):
  they are wrapped in `Ast.commaList`, a node the parser never delivers as an expression and
  `build_evaluator` rejects.
* `Graph` — the three registries of closures (decision, knowledge model, decision service),
  `graphStep` — one closure of each kind in terms of the registries it calls,
  `graphAt … n` — `n` levels of requirement edges above `bot` (recursion over the graph by fuel).
* `level … ff` — the FEEL evaluator with `ff` nested function-body evaluations allowed; a function
  body that is a decision service (`FunctionBody::DecisionService`, `decision_service.rs:214-229`)
  evaluates that service on the top context of the scope.

Lookups are `HashMap`s keyed by id (the last element with an id wins).
-/

namespace Dmn

/-! ## contexts: `FeelContext::overwrite`, `FeelContext::zip` (`feel/src/context.rs:172-184`) -/

namespace Ctx

def keys (c : Ctx) : List String := c.map Prod.fst

/-- `for (name, value) in other { if self.contains_key(name) { self.insert(name, value) } }`.
`other` is a `BTreeMap` (distinct keys), so the loop replaces the value of every key of `self`
that `other` has by `other`'s value and leaves the key order alone. -/
def overwrite (self other : Ctx) : Ctx :=
  self.map (fun e => (e.1, match get other e.1 with
    | some v => v
    | none => e.2))

/-- `for (name, value) in other { self.insert(name, value) }` -/
def zip (self other : Ctx) : Ctx :=
  other.foldl (fun c e => set c e.1 e.2) self

end Ctx

/-! ## variables and their types -/

/-- The simple types a `typeRef` can name (`type_ref_to_feel_type`, `mod.rs:113`). -/
inductive SimpleTy where
  | number | string | boolean | date | time | dateTime | dtDur | ymDur
  deriving DecidableEq, Repr, Inhabited

namespace SimpleTy

def ftype : SimpleTy → FType
  | .number => .number | .string => .string | .boolean => .boolean | .date => .date
  | .time => .time | .dateTime => .dateTime | .dtDur => .dtDur | .ymDur => .ymDur

/-- `if let Value::Number(_) = v` … in the closures of `build_variable_evaluator`. -/
def accepts : SimpleTy → Value → Bool
  | .number, .num _ => true
  | .string, .str _ => true
  | .boolean, .bool _ => true
  | .date, .date .. => true
  | .time, .time _ => true
  | .dateTime, .dateTime _ => true
  | .dtDur, .dtDur _ => true
  | .ymDur, .ymDur _ => true
  | _, _ => false

end SimpleTy

/-- `Variable::type_ref`: absent, a simple type, or a name that resolves to no item
definition (item definitions are C11's subject and are not modelled here). -/
inductive VarTy where
  | untyped
  | simple (t : SimpleTy)
  /-- the name of an item definition (`Dmn/Model/ItemDef.lean`, property C11) -/
  | named (n : ID.Name)
  | other
  deriving DecidableEq, Repr, Inhabited

/-- the depth to which references between item definitions are followed -/
def itemFuel : Nat := 64

namespace VarTy

/-- The closure `build_variable_evaluator` returns (`mod.rs:155-269`) applied to
`Value::Context(c)`: the entry named `name`, `null` when it is missing or has another type; for
a variable typed by an item definition the entry checked by that definition's evaluator
(`item_definition_evaluator.eval(type_ref, value)`, the model of C11 on its own value type). -/
def check (defs : ID.Defs) (ty : VarTy) (name : String) (c : Ctx) : Value :=
  match ty with
  | .untyped =>
    match Ctx.get c name with
    | some v => v
    | none => .null
  | .simple t =>
    match Ctx.get c name with
    | some v => if t.accepts v then v else .null
    | none => .null
  | .named n =>
    match Ctx.get c name with
    | some v =>
      match DT.toDT v with
      | some x =>
        match ID.eval defs itemFuel n x with
        | some r => DT.ofDT r
        | none => .null
      | none => Value.unsupported
    | none => .null
  | .other => .null

/-- `Variable::feel_type` (`mod.rs:144-152`): `information_item_type(type_ref, …).unwrap_or(Any)`. -/
def ftype (defs : ID.Defs) : VarTy → FType
  | .simple t => t.ftype
  | .named n => (ID.typeName defs itemFuel n).getD .any
  | _ => .any

end VarTy

/-! ## the graph -/

structure InputData where
  id : String
  /-- name of the variable -/
  name : String
  ty : VarTy
  deriving Inhabited

structure Decision where
  id : String
  /-- name of the element (key of `invocable_by_name`) -/
  name : String
  /-- name of the output variable -/
  var : String
  ty : VarTy
  /-- `required_input_data_references`, `required_decision_references`,
  `required_knowledge_references` (`decision.rs:121-137`), in document order -/
  reqInputs : List String
  reqDecisions : List String
  reqKnowledge : List String
  logic : Ast
  deriving Inhabited

structure Bkm where
  id : String
  name : String
  var : String
  ty : VarTy
  /-- formal parameters with their types (`FeelType::Any` when untyped) -/
  params : List (String × FType)
  reqKnowledge : List String
  /-- body of the encapsulated logic (every modelled knowledge model has one) -/
  body : Ast
  deriving Inhabited

structure Service where
  id : String
  name : String
  var : String
  ty : VarTy
  inputData : List String
  inputDecisions : List String
  encapsulated : List String
  output : List String
  deriving Inhabited

structure Drg where
  inputs : List InputData
  decisions : List Decision
  bkms : List Bkm
  services : List Service
  /-- the top-level item definitions -/
  items : ID.Defs := []
  deriving Inhabited

/-- `HashMap::get` after the elements were `insert`ed in order: the last one wins. -/
def findLast? {α : Type} (p : α → Bool) : List α → Option α
  | [] => none
  | x :: xs =>
    match findLast? p xs with
    | some y => some y
    | none => if p x then some x else none

namespace Drg

def findInput (g : Drg) (id : String) : Option InputData := findLast? (fun x => x.id == id) g.inputs
def findDecision (g : Drg) (id : String) : Option Decision := findLast? (fun x => x.id == id) g.decisions
def findBkm (g : Drg) (id : String) : Option Bkm := findLast? (fun x => x.id == id) g.bkms
def findService (g : Drg) (id : String) : Option Service := findLast? (fun x => x.id == id) g.services

end Drg

/-! ## boxed expressions (`builders/mod.rs:272-405`) -/

namespace Boxed

/-- A boxed context: entries `contextEntry (contextEntryKey name) e`; any other entry is the
result entry (no variable). -/
def context (entries : List Ast) : Ast := .commaList [.context entries]
/-- A boxed invocation / boxed function definition: the called function and the bindings
`namedParameter (parameterName name) e`. -/
def invocation (f : Ast) (bindings : List Ast) : Ast := .commaList [.functionInvocation f (.namedParameters bindings)]
/-- A relation: rows `namedParameters [namedParameter (parameterName column) e, …]`. -/
def relation (rows : List Ast) : Ast := .commaList [.list rows]
/-- The body of a decision service seen as a function (`FunctionBody::DecisionService`). -/
def service (id : String) : Ast := .commaList [.qualifiedNameSegment id]

end Boxed

mutual
/-- `build_expression_instance_evaluator(scope, expression_instance)` as a computation. -/
def evalBoxed (env : Env) : Ast → EvalM Value
  -- `build_context_evaluator` (`mod.rs:293-324`): the entries are evaluated in a context of their own,
  -- pushed before the first entry and popped after the last one or after the result entry
  | .commaList [.context entries] => Eval.bracket [] (evalBoxedEntries env entries [])
  -- `build_invocation_evaluator` (`mod.rs:352-376`), `build_function_definition_evaluator`
  -- (`mod.rs:330-349`): the bindings first, then the function
  | .commaList [.functionInvocation f (.namedParameters bindings)] => do
    let params ← evalBoxedBindings env bindings []
    let fv ← evalBoxed env f
    match fv with
    | .fn _ body rt => do
      let r ← Eval.bracket params (env.call body)
      pure (Value.coerced rt r)
    | _ => pure .null
  -- `build_relation_evaluator` (`mod.rs:386-405`)
  | .commaList [.list rows] => do
    let rs ← evalBoxedRows env rows
    pure (.list rs)
  -- `build_decision_table_evaluator` (`decision_table.rs:395-412`): the cells through the FEEL
  -- evaluator, the hit policy through the model of C03 (`Dmn/Model/DrgTable.lean`)
  | .commaList [.instanceOf (.string hitPolicy)
      (.expressionList [.expressionList inputs, .expressionList outputs, .expressionList rules])] =>
    Drg.evalTable env hitPolicy inputs outputs rules
  -- `build_literal_expression_evaluator` (`mod.rs:379-383`)
  | a => Eval.evalStep env a
termination_by structural a => a

/-- The loop of the boxed context closure: a named entry is written into the top context of
the scope (`scope.set_entry`: the context the closure pushed for its entries) and into the
result; an entry without a variable ends the evaluation with its value. -/
def evalBoxedEntries (env : Env) : List Ast → Ctx → EvalM Value
  | [], acc => pure (.ctx acc)
  | e :: es, acc =>
    match e with
    | .contextEntry (.contextEntryKey name) v => do
      let value ← evalBoxed env v
      EvalM.setEntry name value
      evalBoxedEntries env es (Ctx.set acc name value)
    | r => evalBoxed env r
termination_by structural es => es

/-- `bindings.iter().for_each(|(name, evaluator)| params_ctx.set_entry(name, evaluator(scope)))` -/
def evalBoxedBindings (env : Env) : List Ast → Ctx → EvalM Ctx
  | [], acc => pure acc
  | b :: bs, acc =>
    match b with
    | .namedParameter (.parameterName name) v => do
      let value ← evalBoxed env v
      evalBoxedBindings env bs (Ctx.set acc name value)
    | _ => evalBoxedBindings env bs acc
termination_by structural bs => bs

/-- the rows of a relation: one context per row -/
def evalBoxedRows (env : Env) : List Ast → EvalM (List Value)
  | [] => pure []
  | r :: rs =>
    match r with
    | .namedParameters cells => do
      let c ← evalBoxedBindings env cells []
      let rest ← evalBoxedRows env rs
      pure (.ctx c :: rest)
    | _ => evalBoxedRows env rs
termination_by structural rs => rs
end

/-! ## the registries of closures -/

/-- `DecisionEvaluator::evaluate`, `BusinessKnowledgeModelEvaluator::evaluate`,
`DecisionServiceEvaluator::evaluate`: `(id, input data, output context) ↦` the output context
afterwards (and, for decisions and services, the name of the output variable — `None` when
no evaluator is registered under the id).  A decision additionally receives (second context)
the values of the input decisions of the enclosing decision service (`decision.rs:73-86`). -/
structure Graph where
  decision : String → Ctx → Ctx → Ctx → Outcome (Option String × Ctx)
  bkm : String → Ctx → Ctx → Outcome Ctx
  service : String → Ctx → Ctx → Outcome (Option String × Ctx)

namespace Drg

/-- `ids.iter().for_each(|id| f(id, &mut ctx))` -/
def foldCtx (f : String → Ctx → Outcome Ctx) : List String → Ctx → Outcome Ctx
  | [], c => .ok c
  | id :: ids, c =>
    match f id c with
    | .ok c' => foldCtx f ids c'
    | .panic p => .panic p
    | .diverge => .diverge

/-- forgetting the returned name -/
def dropName (o : Outcome (Option String × Ctx)) : Outcome Ctx :=
  match o with
  | .ok (_, c) => .ok c
  | .panic p => .panic p
  | .diverge => .diverge

/-- `input_data_evaluator.evaluate(id, &input_data, …)` for every id, each result set in `acc`
(`decision.rs:170-174`, `decision_service.rs:155-159`). -/
def typedInputs (g : Drg) (ids : List String) (input : Ctx) (acc : Ctx) : Ctx :=
  ids.foldl (fun c id =>
    match g.findInput id with
    | some i => Ctx.set c i.name (i.ty.check g.items i.name input)
    | none => c) acc

/-- `decision_service.rs:97-129`: the formal parameters of a decision service as a function —
the input data first, then the output variables of the input decisions. -/
def serviceParams (g : Drg) (s : Service) : List (String × FType) :=
  s.inputData.filterMap (fun id => (g.findInput id).map (fun i => (i.name, (i.ty.ftype g.items)))) ++
  s.inputDecisions.filterMap (fun id => (g.findDecision id).map (fun d => (d.var, (d.ty.ftype g.items))))

/-- The output variables of the input decisions (`input_decision_results_evaluators`). -/
def inputDecisionVars (g : Drg) (s : Service) : List (String × VarTy) :=
  s.inputDecisions.filterMap (fun id => (g.findDecision id).map (fun d => (d.var, d.ty)))

/-- `decision_service_as_function_definition_evaluator` (`decision_service.rs:229-231`). -/
def serviceFn (g : Drg) (s : Service) : Value :=
  .fn (g.serviceParams s) (Boxed.service s.id) (s.ty.ftype g.items)

/-- `evaluate_as_function_definition` for every required knowledge id (`decision.rs:158-160`). -/
def serviceFns (g : Drg) (ids : List String) (acc : Ctx) : Ctx :=
  ids.foldl (fun c id =>
    match g.findService id with
    | some s => Ctx.set c s.var (g.serviceFn s)
    | none => c) acc

/-- The loop over the output decisions (`decision_service.rs:169-174`): the names returned, in
order, and the context the decisions wrote into. -/
def outputLoop (f : String → Ctx → Outcome (Option String × Ctx)) :
    List String → List String → Ctx → Outcome (List String × Ctx)
  | [], names, c => .ok (names, c)
  | id :: ids, names, c =>
    match f id c with
    | .ok (some n, c') => outputLoop f ids (names ++ [n]) c'
    | .ok (none, c') => outputLoop f ids names c'
    | .panic p => .panic p
    | .diverge => .diverge

/-- The context built from the output decisions' names (`decision_service.rs:184-189`). -/
def outputCtxFrom (evaluated : Ctx) : List String → Ctx → Ctx
  | [], acc => acc
  | n :: names, acc =>
    match Ctx.get evaluated n with
    | some v => outputCtxFrom evaluated names (Ctx.set acc n v)
    | none => outputCtxFrom evaluated names acc

def outputCtx (names : List String) (evaluated : Ctx) : Ctx := outputCtxFrom evaluated names []

/-- `decision_service.rs:176-191`: a single value when exactly one output decision answered,
otherwise a context keyed by the output variables' names; coerced to the output type. -/
def serviceResult (ty : FType) (names : List String) (evaluated : Ctx) (var : String) (out : Ctx) : Ctx :=
  match names with
  | [n] =>
    match Ctx.get evaluated n with
    | some v => Ctx.set out var (Value.coerced ty v)
    | none => out
  | _ => Ctx.set out var (Value.coerced ty (.ctx (outputCtx names evaluated)))

/-- `business_knowledge_model_evaluator.evaluate(id, …)`: nothing happens when no evaluator is
registered under `id` (`self.evaluators.get(id)`), otherwise the registered closure runs. -/
def callBkm (g : Drg) (prev : Graph) (id : String) (input c : Ctx) : Outcome Ctx :=
  match g.findBkm id with
  | some _ => prev.bkm id input c
  | none => .ok c

/-- `decision_evaluator.evaluate(id, …)` -/
def callDecision (g : Drg) (prev : Graph) (id : String) (input sup c : Ctx) : Outcome (Option String × Ctx) :=
  match g.findDecision id with
  | some _ => prev.decision id input sup c
  | none => .ok (none, c)

/-- The decision closure (`decision.rs:150-207`); `sup`: the values of the input decisions of
the enclosing decision service (empty when the decision is invoked by name). -/
def decisionClosure (g : Drg) (env : Env) (prev : Graph) (d : Decision) (input sup out : Ctx) :
    Outcome (Option String × Ctx) :=
  -- required knowledge as values from business knowledge models
  match foldCtx (fun id c => callBkm g prev id input c) d.reqKnowledge [] with
  | .ok k1 =>
    -- required knowledge as decision service function definitions
    let k2 := g.serviceFns d.reqKnowledge k1
    -- required decisions (they receive the same input data and input decisions)
    match foldCtx (fun id c => dropName (callDecision g prev id input sup c)) d.reqDecisions k2 with
    | .ok k3 =>
      -- "values from required decisions are overridden by the input decisions of the enclosing
      -- decision service": `required_knowledge_ctx.overwrite(input_decisions_ctx)`
      let k4 := Ctx.overwrite k3 sup
      -- required inputs through the typed variable evaluators
      let inputs := g.typedInputs d.reqInputs input []
      -- `required_input_ctx.zip(&required_knowledge_ctx)`
      let ctx := Ctx.zip inputs k4
      -- the logic in a fresh scope, coerced, stored under the output variable
      match evalBoxed env d.logic [ctx] with
      | .ok (v, _) => .ok (some d.var, Ctx.set out d.var (Value.coerced (d.ty.ftype g.items) v))
      | .panic p => .panic p
      | .diverge => .diverge
    | .panic p => .panic p
    | .diverge => .diverge
  | .panic p => .panic p
  | .diverge => .diverge

/-- One knowledge requirement of a knowledge model (`business_knowledge_model.rs:313-317`):
"call either business knowledge model or decision service, not both" — both are called: the
knowledge model's closure, then `evaluate_as_function_definition` for a decision service. -/
def bkmRequirement (g : Drg) (prev : Graph) (input : Ctx) (id : String) (c : Ctx) : Outcome Ctx :=
  match callBkm g prev id input c with
  | .ok c1 => .ok (g.serviceFns [id] c1)
  | .panic p => .panic p
  | .diverge => .diverge

/-- The knowledge model closure (`business_knowledge_model.rs:307-322`): every requirement is
evaluated as a knowledge model and bound as a decision service function, then the function
value is stored. -/
def bkmClosure (g : Drg) (prev : Graph) (b : Bkm) (input out : Ctx) : Outcome Ctx :=
  match foldCtx (bkmRequirement g prev input) b.reqKnowledge out with
  | .ok out1 => .ok (Ctx.set out1 b.var (.fn b.params b.body (b.ty.ftype g.items)))
  | .panic p => .panic p
  | .diverge => .diverge

/-- `input_decision_values` of the decision service closure (`decision_service.rs:158-171`):
the typed values of the input decisions' variables taken from the evaluated input decisions,
then — unconditionally — from the provided input data. -/
def serviceInputDecisions (g : Drg) (s : Service) (inputDecisionResults input : Ctx) : Ctx :=
  let vars := g.inputDecisionVars s
  let e1 := vars.foldl (fun c v => Ctx.set c v.1 (v.2.check g.items v.1 inputDecisionResults)) []
  vars.foldl (fun c v => Ctx.set c v.1 (v.2.check g.items v.1 input)) e1

/-- `evaluated_input_data` (`decision_service.rs:158-177`): these, then the required inputs. -/
def serviceInputs (g : Drg) (s : Service) (inputDecisionResults input : Ctx) : Ctx :=
  g.typedInputs s.inputData input (g.serviceInputDecisions s inputDecisionResults input)

/-- The decision service closure (`decision_service.rs:128-197`). -/
def serviceClosure (g : Drg) (prev : Graph) (s : Service) (input out : Ctx) :
    Outcome (Option String × Ctx) :=
  -- the input decisions are evaluated on the input data (outside any decision service)
  match foldCtx (fun id c => dropName (callDecision g prev id input [] c)) s.inputDecisions [] with
  | .ok results =>
    let evaluatedInput := g.serviceInputs s results input
    -- only the values of the input decisions replace required decisions inside the service
    let sup := g.serviceInputDecisions s results input
    match foldCtx (fun id c => dropName (callDecision g prev id evaluatedInput sup c)) s.encapsulated [] with
    | .ok c1 =>
      match outputLoop (fun id c => callDecision g prev id evaluatedInput sup c) s.output [] c1 with
      | .ok (names, c2) => .ok (some s.var, serviceResult (s.ty.ftype g.items) names c2 s.var out)
      | .panic p => .panic p
      | .diverge => .diverge
    | .panic p => .panic p
    | .diverge => .diverge
  | .panic p => .panic p
  | .diverge => .diverge

/-- One level of closures over the registries `prev`; an id without an evaluator is skipped
(`self.evaluators.get(id)` is `None`). -/
def graphStep (g : Drg) (env : Env) (prev : Graph) : Graph where
  decision := fun id input sup out =>
    match g.findDecision id with
    | some d => decisionClosure g env prev d input sup out
    | none => .ok (none, out)
  bkm := fun id input out =>
    match g.findBkm id with
    | some b => bkmClosure g prev b input out
    | none => .ok out
  service := fun id input out =>
    match g.findService id with
    | some s => serviceClosure g prev s input out
    | none => .ok (none, out)

/-- The registries that give up (the requirement edges were followed too deep). -/
def divergeGraph : Graph where
  decision := fun _ _ _ _ => .diverge
  bkm := fun _ _ _ => .diverge
  service := fun _ _ _ => .diverge

/-- `n` levels of closures above `bot`. -/
def graphAt (g : Drg) (env : Env) (bot : Graph) : Nat → Graph
  | 0 => graphStep g env bot
  | n + 1 => graphStep g env (graphAt g env bot n)

/-! ## the FEEL evaluator that knows decision services -/

def serviceBody? : Ast → Option String
  | .commaList [.qualifiedNameSegment id] => some id
  | _ => none

/-- what the closure inside `FunctionBody::DecisionService` returns
(`decision_service.rs:219-226`) -/
def serviceCallResult (o : Outcome (Option String × Ctx)) (s : Scope) : Outcome (Value × Scope) :=
  match o with
  | .ok (some name, out) =>
    match Ctx.get out name with
    | some v => .ok (v, s)
    | none => .ok (.null, s)
  | .ok (none, _) => .ok (.null, s)
  | .panic p => .panic p
  | .diverge => .diverge

/-- The closure inside `FunctionBody::DecisionService` (`decision_service.rs:214-227`): the
service is evaluated on `scope.peek()`. -/
def serviceCall (gr : Graph) (id : String) : EvalM Value := fun s =>
  serviceCallResult (gr.service id (Scope.peek s) []) s

/-- `body.evaluate(scope)` of a function value. -/
def callBody (env : Env) (gr : Graph) (body : Ast) : EvalM Value :=
  match serviceBody? body with
  | some id => serviceCall gr id
  | none => evalBoxed env body

structure Level where
  env : Env
  graph : Nat → Graph

/-- `base` supplies arithmetic, built-in functions, iteration (its `call` is not used).
`ff`: nested function-body evaluations allowed; `G`: the levels of requirement edges a
decision service invoked as a function may follow. -/
def level (base : Env) (g : Drg) (G : Nat) : Nat → Level
  | 0 =>
    let env : Env := { base with call := fun _ => EvalM.diverge }
    { env := env, graph := graphAt g env divergeGraph }
  | ff + 1 =>
    let p := level base g G ff
    let env : Env := { base with call := callBody p.env (p.graph G) }
    { env := env, graph := graphAt g env divergeGraph }

/-! ## `ModelEvaluator::evaluate_invocable` (`model_evaluator.rs:156-250`) -/

inductive Invocable where
  | decision (id : String)
  | bkm (id : String) (var : String)
  | service (id : String)

/-- `invocable_by_name`: knowledge models are registered first, then decisions, then decision
services; a later `insert` replaces an earlier one. -/
def invocable (g : Drg) (name : String) : Option Invocable :=
  match findLast? (fun s => s.name == name) g.services with
  | some s => some (.service s.id)
  | none =>
    match findLast? (fun d => d.name == name) g.decisions with
    | some d => some (.decision d.id)
    | none =>
      match findLast? (fun b => b.name == name) g.bkms with
      | some b => some (.bkm b.id b.var)
      | none => none

/-- `evaluate_decision` / `evaluate_decision_service`: the entry of the returned name. -/
def namedResult (o : Outcome (Option String × Ctx)) : Outcome Value :=
  match o with
  | .ok (some name, out) =>
    match Ctx.get out name with
    | some v => .ok v
    | none => .ok .null
  | .ok (none, _) => .ok .null
  | .panic p => .panic p
  | .diverge => .diverge

/-- the parameters of a knowledge model taken from the input data, by name, unchecked
(`model_evaluator.rs:205-210`) -/
def bkmArgs (params : List (String × FType)) (input : Ctx) : Ctx :=
  params.foldl (fun c p =>
    match Ctx.get input p.1 with
    | some v => Ctx.set c p.1 v
    | none => c) []

/-- `evaluate_business_knowledge_model` (`model_evaluator.rs:199-221`). -/
def evalBkmInvocable (l : Level) (gf : Nat) (id var : String) (input : Ctx) : Outcome Value :=
  match (l.graph gf).bkm id input [] with
  | .ok evaluated =>
    match Ctx.get evaluated var with
    | some (.fn params body rt) =>
      let args := Ctx.zip (bkmArgs params input) evaluated
      match l.env.call body [args] with
      | .ok (r, _) => .ok (Value.coerced rt r)
      | .panic p => .panic p
      | .diverge => .diverge
    | _ => .ok .null
  | .panic p => .panic p
  | .diverge => .diverge

def evalDecision (base : Env) (g : Drg) (ff gf : Nat) (id : String) (input : Ctx) : Outcome Value :=
  namedResult (((level base g gf ff).graph gf).decision id input [] [])

def evalService (base : Env) (g : Drg) (ff gf : Nat) (id : String) (input : Ctx) : Outcome Value :=
  namedResult (((level base g gf ff).graph gf).service id input [])

def evalBkm (base : Env) (g : Drg) (ff gf : Nat) (id var : String) (input : Ctx) : Outcome Value :=
  evalBkmInvocable (level base g gf ff) gf id var input

/-- `evaluate_invocable(name, input)`; `ff` bounds nested function-body evaluations, `gf` the
depth of requirement edges. -/
def evaluateInvocable (base : Env) (g : Drg) (ff gf : Nat) (name : String) (input : Ctx) : Outcome Value :=
  match g.invocable name with
  | some (.decision id) => evalDecision base g ff gf id input
  | some (.bkm id var) => evalBkm base g ff gf id var input
  | some (.service id) => evalService base g ff gf id input
  | none => .ok .null

/-! ## requirement closure: the names of the input entries an evaluation can read -/

def inputNames (g : Drg) (ids : List String) : List String :=
  ids.filterMap (fun id => (g.findInput id).map (fun i => i.name))

def serviceVarNames (g : Drg) (ids : List String) : List String :=
  ids.filterMap (fun id => (g.findService id).map (fun s => s.var))

def decisionVarNames (g : Drg) (ids : List String) : List String :=
  ids.filterMap (fun id => (g.findDecision id).map (fun d => d.var))

/-- For every id: the names of input entries the closure registered under the id can read. -/
structure Deps where
  decision : String → List String
  bkm : String → List String
  service : String → List String

def Deps.bot : Deps where
  decision := fun _ => []
  bkm := fun _ => []
  service := fun _ => []

/-- One level of closures (`graphStep`) over registries that read `p`. -/
def depsStep (g : Drg) (p : Deps) : Deps where
  decision := fun id =>
    match g.findDecision id with
    | some d => d.reqKnowledge.flatMap p.bkm ++ d.reqDecisions.flatMap p.decision ++ g.inputNames d.reqInputs
    | none => []
  bkm := fun id =>
    match g.findBkm id with
    | some b => b.reqKnowledge.flatMap p.bkm
    | none => []
  service := fun id =>
    match g.findService id with
    | some s =>
      s.inputDecisions.flatMap p.decision ++ g.decisionVarNames s.inputDecisions ++ g.inputNames s.inputData
    | none => []

/-- `n` levels of requirement edges (as `graphAt`). -/
def depsAt (g : Drg) : Nat → Deps
  | 0 => depsStep g Deps.bot
  | n + 1 => depsStep g (depsAt g n)

/-- `closureNames`: the names of input entries that can influence the invocable `name`
(the required inputs of the element and of the decisions it requires, the input data and the
input decisions' variables of an invoked decision service, the formal parameters of an invoked
knowledge model), within `n` levels of requirement edges. -/
def closureNames (g : Drg) (n : Nat) (name : String) : List String :=
  match g.invocable name with
  | some (.decision id) => (depsAt g n).decision id
  | some (.bkm id _) =>
    (depsAt g n).bkm id ++ (match g.findBkm id with
      | some b => b.params.map Prod.fst
      | none => [])
  | some (.service id) => (depsAt g n).service id
  | none => []

/-! ## acyclic graphs -/

inductive Kind where
  | decision | bkm | service
  deriving DecidableEq, Repr, Inhabited

/-- an edge to `id` (when an element of that kind is registered under it) goes down in rank -/
def edgeOk (found : Bool) (rkTarget rkSource : Nat) : Bool := !found || decide (rkTarget < rkSource)

/-- `rk` is a topological numbering: every requirement edge the evaluation follows — decision →
required decision / knowledge model / decision service, knowledge model → required knowledge
model / decision service, decision service → input / encapsulated / output decision — leads
to an element of smaller rank. -/
def rankedBy (g : Drg) (rk : Kind → String → Nat) : Bool :=
  g.decisions.all (fun d =>
    d.reqKnowledge.all (fun k =>
      edgeOk (g.findBkm k).isSome (rk .bkm k) (rk .decision d.id) &&
      edgeOk (g.findService k).isSome (rk .service k) (rk .decision d.id)) &&
    d.reqDecisions.all (fun q => edgeOk (g.findDecision q).isSome (rk .decision q) (rk .decision d.id))) &&
  g.bkms.all (fun b =>
    b.reqKnowledge.all (fun k =>
      edgeOk (g.findBkm k).isSome (rk .bkm k) (rk .bkm b.id) &&
      edgeOk (g.findService k).isSome (rk .service k) (rk .bkm b.id))) &&
  g.services.all (fun s =>
    (s.inputDecisions ++ s.encapsulated ++ s.output).all (fun q =>
      edgeOk (g.findDecision q).isSome (rk .decision q) (rk .service s.id)))

def maxOf (xs : List Nat) : Nat := xs.foldl max 0

/-- One more level of the longest-path computation. -/
def heightStep (g : Drg) (prev : Kind → String → Nat) : Kind → String → Nat
  | .decision, id =>
    match g.findDecision id with
    | some d =>
      1 + maxOf (d.reqKnowledge.map (prev .bkm) ++ d.reqKnowledge.map (prev .service) ++
        d.reqDecisions.map (prev .decision))
    | none => 0
  | .bkm, id =>
    match g.findBkm id with
    | some b => 1 + maxOf (b.reqKnowledge.map (prev .bkm) ++ b.reqKnowledge.map (prev .service))
    | none => 0
  | .service, id =>
    match g.findService id with
    | some s => 1 + maxOf ((s.inputDecisions ++ s.encapsulated ++ s.output).map (prev .decision))
    | none => 0

def heightAt (g : Drg) : Nat → Kind → String → Nat
  | 0 => fun _ _ => 0
  | n + 1 => heightStep g (heightAt g n)

def size (g : Drg) : Nat := g.decisions.length + g.bkms.length + g.services.length

/-- The length of the longest requirement path below an element, computed with as many rounds
as the graph has elements (enough for an acyclic graph). -/
def computeRank (g : Drg) : Kind → String → Nat := heightAt g g.size

/-- The computed numbering is a topological numbering (it is one exactly when the graph has
no requirement cycle). -/
def acyclic (g : Drg) : Bool := g.rankedBy g.computeRank

/-! ## `check_requirements` (`model_evaluator.rs:54-98`): `ModelEvaluator::new` refuses cycles -/

/-- an element of some kind has the identifier -/
def isKey (g : Drg) (id : String) : Bool :=
  g.decisions.any (fun d => d.id == id) || g.bkms.any (fun b => b.id == id) || g.services.any (fun s => s.id == id)

/-- the merged requirements of all elements with the identifier -/
def requirementList (g : Drg) (id : String) : List String :=
  (g.decisions.filter (fun d => d.id == id)).flatMap (fun d => d.reqDecisions ++ d.reqKnowledge) ++
  (g.bkms.filter (fun b => b.id == id)).flatMap (fun b => b.reqKnowledge) ++
  (g.services.filter (fun s => s.id == id)).flatMap (fun s => s.inputDecisions ++ s.encapsulated ++ s.output)

/-- `requirements.get(id)`: the requirements followed while building and evaluating, of every
element registered under the identifier — one map for decisions, knowledge models and decision
services (`entry(id).or_default().extend(…)`: elements sharing an identifier are merged). -/
def requirementsOf (g : Drg) (id : String) : Option (List String) :=
  if g.isKey id then some (g.requirementList id) else none

/-- the identifiers put into the map (with repetitions) -/
def requirementIds (g : Drg) : List String :=
  g.decisions.map (fun d => d.id) ++ g.bkms.map (fun b => b.id) ++ g.services.map (fun s => s.id)

/-- the number of different strings in a list -/
def distinctCount : List String → Nat
  | [] => 0
  | x :: xs => if xs.contains x then distinctCount xs else distinctCount xs + 1

/-- `requirements.len()`: the number of keys of the map -/
def requirementCount (g : Drg) : Nat := distinctCount g.requirementIds

/-- `check_chain(id, requirements, length)` with `fuel = requirements.len() + 1 - length`: a chain
of requirements longer than the number of elements is an error (`false`).  (The code until ba4278d; the
depth-first search that replaced it gives the same answer: `Lemmas/DrgDfs.lean`.) -/
def checkChain (g : Drg) : Nat → String → Bool
  | fuel, id =>
    match g.requirementsOf id with
    | none => true
    | some required =>
      match fuel with
      | 0 => false
      | f + 1 => required.all (checkChain g f)

/-- `check_requirements`: `true` = `Ok(())` (every key is checked; checking an identifier twice
changes nothing). -/
def checkRequirements (g : Drg) : Bool :=
  g.requirementIds.all (checkChain g g.requirementCount)

/-- The length of the longest chain of requirements below an identifier, to depth `fuel`. -/
def chainDepth (g : Drg) : Nat → String → Nat
  | fuel, id =>
    match g.requirementsOf id with
    | none => 0
    | some required =>
      match fuel with
      | 0 => 0
      | f + 1 => 1 + maxOf (required.map (chainDepth g f))

/-- Every element is the one registered under its id (ids are unique within a kind, as in a
valid document). -/
def idsUnique (g : Drg) : Bool :=
  g.decisions.all (fun d => match g.findDecision d.id with
    | some d' => d'.reqKnowledge == d.reqKnowledge && d'.reqDecisions == d.reqDecisions
    | none => false) &&
  g.bkms.all (fun b => match g.findBkm b.id with
    | some b' => b'.reqKnowledge == b.reqKnowledge
    | none => false) &&
  g.services.all (fun s => match g.findService s.id with
    | some s' => s'.inputDecisions == s.inputDecisions && s'.encapsulated == s.encapsulated && s'.output == s.output
    | none => false)

/-- Two knowledge models registered under the same id (which a valid document does not have)
at least agree on the name of their variable: `invocable_by_name` records the variable of the
model it saw, the registry of closures keeps the last model with the id. -/
def bkmVarsConsistent (g : Drg) : Bool :=
  g.bkms.all (fun b =>
    match g.findBkm b.id with
    | some b' => b'.var == b.var
    | none => true)

end Drg
end Dmn
