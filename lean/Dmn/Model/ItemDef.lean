import Dmn.Model.DTValue

/-!
# Typed inputs and outputs: model of `item_definition.rs`, `build_variable_evaluator`
(`builders/mod.rs:155-269`), `item_definition_type` (`mod.rs:83-107`) and the output coercion

Allowed values are `? in (unary tests)` evaluated by the FEEL evaluator: here an arbitrary
predicate on values (`Option (DTValue → Bool)`), so every theorem holds for every allowed-values
test.  References to other item definitions are resolved through the map of evaluators
(`HashMap<String, evaluator>`, keyed by the *top-level* item definition names) at evaluation
time; `fuel` bounds the depth of reference-following.  Running out of fuel is not an answer of
the implementation (it overflows its stack, property C12): every theorem of C11 assumes fuel
above the rank of the acyclic definitions, so the fuel-exhausted branch is never taken.
-/

namespace Dmn.ID

open Dmn DTValue

/-- The eight simple types an item definition / input data variable can name
(`type_ref_to_feel_type`, `mod.rs:109-121`). -/
inductive Simple where
  | string | number | boolean | date | time | dateTime | dtDur | ymDur
  deriving Repr, Inhabited, DecidableEq

/-- `if let Value::X(_) = value` of the per-type closures. -/
def Simple.accepts : Simple → DTValue → Bool
  | .string, .str _ => true
  | .number, .num _ => true
  | .boolean, .bool _ => true
  | .date, .atom .date _ => true
  | .time, .atom .time _ => true
  | .dateTime, .atom .dateTime _ => true
  | .dtDur, .atom .dtDur _ => true
  | .ymDur, .atom .ymDur _ => true
  | _, _ => false

def Simple.ftype : Simple → FType
  | .string => .string | .number => .number | .boolean => .boolean | .date => .date
  | .time => .time | .dateTime => .dateTime | .dtDur => .dtDur | .ymDur => .ymDur

/-- Optional allowed-values test. -/
abbrev Allowed := Option (DTValue → Bool)

/-- `check_allowed_values` (`item_definition.rs:102-114`). -/
def checkAllowed (v : DTValue) : Allowed → DTValue
  | none => v
  | some p => if p v then v else .null

abbrev Name := List Char

/-- white space around a type reference (the characters an attribute value or a text node of
the model document can carry there) -/
def isWs (c : Char) : Bool := c == ' ' || c == '\t' || c == '\n' || c == '\r'

/-- `str::trim` -/
def trim (s : Name) : Name := ((s.dropWhile isWs).reverse.dropWhile isWs).reverse

/-- `ref_type.trim() == "Any"`: the type reference of an item definition names the type `Any`
(`build_referenced_type_evaluator`, `build_collection_of_referenced_type_evaluator`,
`item_definition_type.rs` `referenced_type` / `collection_of_referenced_type`). -/
def isAny (n : Name) : Bool := trim n == "Any".toList

/-- An item definition as classified by `item_definition_type`. -/
inductive ItemDef where
  | simple (t : Simple) (av : Allowed)
  | referenced (n : Name) (av : Allowed)
  | component (cs : List (Name × ItemDef)) (av : Allowed)
  | collSimple (t : Simple) (av : Allowed)
  | collReferenced (n : Name) (av : Allowed)
  | collComponent (cs : List (Name × ItemDef)) (av : Allowed)
  deriving Inhabited

/-- The top-level item definitions by name. -/
abbrev Defs := List (Name × ItemDef)

/-- `evaluators.get(name)` after `ItemDefinitionEvaluator::build` / `ItemDefinitionTypeEvaluator::build`
registered the definitions in document order with `HashMap::insert` (`item_definition.rs:55-62`,
`item_definition_type.rs:53-60`): of several definitions of one name the last one is the one that is used
(`check_references` follows the same one, `item_definition.rs:81-82`).  `registry_lookup` in `Props/C11.lean`
proves this recursion equal to the loop of inserts (`registry` below). -/
def lookup (defs : Defs) (n : Name) : Option ItemDef :=
  match defs with
  | [] => none
  | (m, t) :: rest =>
    match lookup rest n with
    | some t' => some t'
    | none => if m = n then some t else none

/-- A `HashMap<String, evaluator>` as the partial function it denotes. -/
abbrev Registry := Name → Option ItemDef

def Registry.empty : Registry := fun _ => none

/-- `HashMap::insert`: the new value replaces an older one of the same key. -/
def Registry.insert (r : Registry) (n : Name) (t : ItemDef) : Registry :=
  fun m => if m = n then some t else r m

/-- The loop of `build`: `for item_definition in definitions.item_definitions() { … evaluators.insert(name, evaluator) }`. -/
def registry (defs : Defs) : Registry :=
  defs.foldl (fun r e => r.insert e.1 e.2) Registry.empty

/-- The item loop of the collection-of-simple-type closures: every item must be of the type,
otherwise the whole result is null (`item_definition.rs:256-398`). -/
def allAccept (t : Simple) : List DTValue → Bool
  | [] => true
  | x :: xs => if t.accepts x then allAccept t xs else false

/-- The item loop of the collection-of-referenced-type closure (`item_definition.rs:424-431`,
since 6db5092): an item whose evaluation is null makes the whole value null. -/
def refLoop (f : DTValue → DTValue) : List DTValue → Option (List DTValue)
  | [] => some []
  | x :: xs =>
    if f x = .null then none
    else
      match refLoop f xs with
      | some ys => some (f x :: ys)
      | none => none

/-- The item loop of the collection-of-component closure; `g` is the component loop on one
item's context. -/
def itemLoop (g : List (Name × DTValue) → Option (List (Name × DTValue))) : List DTValue → Option (List DTValue)
  | [] => some []
  | x :: xs =>
    match x with
    | .ctx es =>
      match g es with
      | some out =>
        match itemLoop g xs with
        | some rest => some (.ctx out :: rest)
        | none => none
      | none => none
    | _ => none

mutual
/-- The evaluator closure of one item definition; `k` is `evaluators.eval(name, value)` /
`evaluators.get(name)` (`none`: no evaluator with that name). -/
def checkWith (k : Name → Option (DTValue → DTValue)) : ItemDef → DTValue → DTValue
  -- build_simple_type_evaluator
  | .simple t av, v => if t.accepts v then checkAllowed v av else .null
  -- build_referenced_type_evaluator: the allowed values of the referencing definition
  -- restrict the referenced type (since 2093924)
  -- (the type `Any`: every value conforms, only the allowed values restrict it; the name of the
  -- referenced definition is the text of `typeRef` without the white space around it, `mod.rs:97-104`)
  | .referenced n av, v =>
    if isAny n then checkAllowed v av
    else
      match k (trim n) with
      | some f => checkAllowed (f v) av
      | none => .null
  -- build_component_type_evaluator
  | .component cs av, v =>
    match v with
    | .ctx es =>
      match compLoop k cs es [] with
      | some out => checkAllowed (.ctx out) av
      | none => .null
    | _ => .null
  -- build_collection_of_simple_type_evaluator
  | .collSimple t av, v =>
    match v with
    | .list xs => if allAccept t xs then checkAllowed (.list xs) av else .null
    | _ => .null
  -- build_collection_of_referenced_type_evaluator
  -- (the type `Any`: every list is a collection of `Any`)
  | .collReferenced n av, v =>
    match v with
    | .list xs =>
      if isAny n then checkAllowed (.list xs) av
      else
        match k (trim n) with
        | some f =>
          match refLoop f xs with
          | some ys => checkAllowed (.list ys) av
          | none => .null
        | none => .null
    | _ => .null
  -- build_collection_of_component_type_evaluator
  | .collComponent cs av, v =>
    match v with
    | .list xs =>
      match itemLoop (fun es => compLoop k cs es []) xs with
      | some out => checkAllowed (.list out) av
      | none => .null
    | _ => .null
/-- `for (name, evaluator) in components { if let Some(v) = ctx.get_entry(name) { out.set_entry(name, evaluator(v)) } else { return null } }`. -/
def compLoop (k : Name → Option (DTValue → DTValue)) :
    List (Name × ItemDef) → List (Name × DTValue) → List (Name × DTValue) → Option (List (Name × DTValue))
  | [], _, acc => some acc
  | (n, t) :: cs, es, acc =>
    match ctxGet n es with
    | some x => compLoop k cs es (ctxInsert n (checkWith k t x) acc)
    | none => none
end

/-- `ItemDefinitionEvaluator::get(name)` with the depth of reference-following bounded. -/
def evaluator (defs : Defs) : Nat → Name → Option (DTValue → DTValue)
  | 0, _ => some (fun _ => .null)   -- never taken under the fuel hypothesis of the theorems
  | f + 1, n =>
    match lookup defs n with
    | some t => some (checkWith (evaluator defs f) t)
    | none => none

/-- `ItemDefinitionEvaluator::eval(type_ref, value)`: `None` when there is no such definition. -/
def eval (defs : Defs) (fuel : Nat) (n : Name) (v : DTValue) : Option DTValue :=
  (evaluator defs fuel n).map (· v)

/-- The evaluator of an item definition (top level or component). -/
def check (defs : Defs) (fuel : Nat) (t : ItemDef) (v : DTValue) : DTValue :=
  checkWith (evaluator defs fuel) t v

/-! ## `build_variable_evaluator` (`mod.rs:155-277`): ten closures -/

/-- The type reference of an input-data / decision-output variable. -/
inductive VarType where
  | none
  | simple (t : Simple)
  | named (n : Name)
  deriving Repr, Inhabited, DecidableEq

/-- the arms `"string" => … "yearMonthDuration" => …` of `build_variable_evaluator` (`mod.rs:174-253`) -/
def simpleOfName (n : Name) : Option Simple :=
  if n = "string".toList then some .string
  else if n = "number".toList then some .number
  else if n = "boolean".toList then some .boolean
  else if n = "date".toList then some .date
  else if n = "time".toList then some .time
  else if n = "dateTime".toList then some .dateTime
  else if n = "dayTimeDuration".toList then some .dtDur
  else if n = "yearMonthDuration".toList then some .ymDur
  else none

/-- Which closure `build_variable_evaluator` builds for the `typeRef` attribute of a variable:
`Variable::try_from` keeps the reference without the white space around it (`mod.rs:138`); no
reference and the reference `Any` give the closure that hands the entry on as it is
(`mod.rs:158-167`, `:254-261`), one of the eight built-in names the closure that checks the kind
of value, anything else the closure that asks the item definition of that name. -/
def VarType.ofRef : Option Name → VarType
  | Option.none => .none
  | some r =>
    match simpleOfName (trim r) with
    | some t => .simple t
    | Option.none => if trim r = "Any".toList then .none else .named (trim r)

/-- The closure: looks the variable up in the input context and checks its type; the result is
the value bound to the variable's name in the decision's scope. -/
def varCheck (defs : Defs) (fuel : Nat) (name : Name) (ty : VarType) (input : DTValue) : DTValue :=
  match input with
  | .ctx es =>
    match ctxGet name es with
    | some v =>
      match ty with
      | .none => v
      | .simple t => if t.accepts v then v else .null
      | .named n => (eval defs fuel n v).getD .null
    | none => .null
  | _ => .null

/-! ## `item_definition_type` (`mod.rs:83-107`) -/

inductive Kind where
  | simpleType | referencedType | componentType
  | collectionOfSimpleType | collectionOfReferencedType | collectionOfComponentType
  deriving Repr, Inhabited, DecidableEq

/-- `condition = (type_ref.is_some(), feel_type.is_some(), !components.is_empty(), is_collection)`;
`none` = `Err(err_invalid_item_definition_type)`. -/
def classify (hasTypeRef isBuiltin hasComponents isCollection : Bool) : Option Kind :=
  match hasTypeRef, isBuiltin, hasComponents, isCollection with
  | _, true, false, false => some .simpleType
  | true, false, false, false => some .referencedType
  | false, false, true, false => some .componentType
  | _, true, false, true => some .collectionOfSimpleType
  | false, false, true, true => some .collectionOfComponentType
  | true, false, false, true => some .collectionOfReferencedType
  | _, _, _, _ => none

/-! ## The FEEL type of an item definition (`item_definition_type.rs`), for output coercion -/

mutual
def typeWith (k : Name → Option FType) : ItemDef → Option FType
  | .simple t _ => some t.ftype
  | .referenced n _ => if isAny n then some .any else k (trim n)
  | .component cs _ => some (.ctx (typeEntries k cs))
  | .collSimple t _ => some (.list t.ftype)
  | .collReferenced n _ => if isAny n then some (.list .any) else (k (trim n)).map .list
  | .collComponent cs _ => some (.list (.ctx (typeEntries k cs)))
/-- `BTreeMap::insert` of every component whose type evaluates to `Some`; modelled as an
association list in declaration order (component names are distinct in the generated models). -/
def typeEntries (k : Name → Option FType) : List (Name × ItemDef) → List (String × FType)
  | [] => []
  | (n, t) :: cs =>
    match typeWith k t with
    | some ft => (String.ofList n, ft) :: typeEntries k cs
    | none => typeEntries k cs
end

def typeName (defs : Defs) : Nat → Name → Option FType
  | 0, _ => none
  | f + 1, n =>
    match lookup defs n with
    | some t => typeWith (typeName defs f) t
    | none => none

/-- `Variable::feel_type` (`mod.rs:145-151`): `Any` when there is no type or it does not resolve. -/
def varFType (defs : Defs) (fuel : Nat) : VarType → FType
  | .none => .any
  | .simple t => t.ftype
  | .named n => (typeName defs fuel n).getD .any

/-- `output_variable_type.coerced(&result)` (`decision.rs:181`). -/
def coerceOutput (defs : Defs) (fuel : Nat) (ty : VarType) (v : DTValue) : DTValue :=
  ValOps.coerced DTValue.ops (varFType defs fuel ty) v

/-! # Specification -/

namespace Spec

def okAllowed (v : DTValue) : Allowed → Bool
  | none => true
  | some p => p v

/-- Strictly increasing keys: the invariant of a `BTreeMap`-backed context. -/
def sortedKeys : List (Name × DTValue) → Bool
  | [] => true
  | [_] => true
  | (a, _) :: (b, y) :: rest => strLt a b && sortedKeys ((b, y) :: rest)

/-- Every item of the collection is a context that passes `g`. -/
def itemsConform (g : List (Name × DTValue) → Bool) : List DTValue → Bool
  | [] => true
  | x :: xs =>
    (match x with
     | .ctx es => g es
     | _ => false) && itemsConform g xs

mutual
/-- The value conforms to the item definition (`k` says which values conform to a named
definition): the simple type matches, every declared component is present and conforms and
there is no other entry, every item of a collection conforms, and the allowed values hold.
Every value conforms to the type `Any`, and every list is a collection of `Any`.  An item of a
collection of a *named definition* is not null (as null is no item of a collection of a simple
type or of components): the only collection with null items is the collection of `Any` itself. -/
def conformsWith (k : Name → Option (DTValue → Bool)) : ItemDef → DTValue → Bool
  | .simple t av, v => t.accepts v && okAllowed v av
  | .referenced n av, v =>
    if isAny n then okAllowed v av
    else
      match k (trim n) with
      | some p => p v && okAllowed v av
      | none => false
  | .component cs av, v =>
    match v with
    | .ctx es => compsConform k cs es && sortedKeys es &&
        es.all (fun e => cs.any (fun c => c.1 = e.1)) && okAllowed v av
    | _ => false
  | .collSimple t av, v =>
    match v with
    | .list xs => xs.all t.accepts && okAllowed v av
    | _ => false
  | .collReferenced n av, v =>
    match v with
    | .list xs =>
      if isAny n then okAllowed v av
      else
        match k (trim n) with
        | some p => xs.all (fun x => p x && x != .null) && okAllowed v av
        | none => false
    | _ => false
  | .collComponent cs av, v =>
    match v with
    | .list xs =>
      itemsConform (fun es => compsConform k cs es && sortedKeys es &&
        es.all (fun e => cs.any (fun c => c.1 = e.1))) xs && okAllowed v av
    | _ => false
def compsConform (k : Name → Option (DTValue → Bool)) : List (Name × ItemDef) → List (Name × DTValue) → Bool
  | [], _ => true
  | (n, t) :: cs, es =>
    (match ctxGet n es with
     | some x => conformsWith k t x
     | none => false) && compsConform k cs es
end

/-- The values that conform to the named definition (`none`: no such definition). -/
def conformsName (defs : Defs) : Nat → Name → Option (DTValue → Bool)
  | 0, _ => some (fun _ => false)
  | f + 1, n =>
    match lookup defs n with
    | some t => some (conformsWith (conformsName defs f) t)
    | none => none

/-- `Conforms defs t v` (decidable), with the depth of reference-following bounded by `fuel`. -/
def conforms (defs : Defs) (fuel : Nat) (t : ItemDef) (v : DTValue) : Bool :=
  conformsWith (conformsName defs fuel) t v

/-- The allowed values applied to a projected value: null stays null. -/
def keepAllowed (r : DTValue) (av : Allowed) : DTValue :=
  if r = .null then .null else if okAllowed r av then r else .null

def projectItems (g : List (Name × DTValue) → Option (List (Name × DTValue))) : List DTValue → Option (List DTValue)
  | [] => some []
  | x :: xs =>
    match x with
    | .ctx es =>
      match g es with
      | some out =>
        match projectItems g xs with
        | some rest => some (.ctx out :: rest)
        | none => none
      | none => none
    | _ => none

mutual
/-- What the property prescribes for a value of a declared type: a conforming value is
unchanged; a non-conforming value becomes null, for a component type the non-conforming
component only (also inside the items of a collection of components); a collection with an
item that becomes null is null as a whole. `kp` projects onto a named definition. -/
def projectWith (kp : Name → Option (DTValue → DTValue)) : ItemDef → DTValue → DTValue
  | .simple t av, v => if t.accepts v && okAllowed v av then v else .null
  | .referenced n av, v =>
    if isAny n then keepAllowed v av
    else
      match kp (trim n) with
      | some f => keepAllowed (f v) av
      | none => .null
  | .component cs av, v =>
    match v with
    | .ctx es =>
      match projectComps kp cs es [] with
      | some out => keepAllowed (.ctx out) av
      | none => .null
    | _ => .null
  | .collSimple t av, v =>
    match v with
    | .list xs => if xs.all t.accepts && okAllowed v av then v else .null
    | _ => .null
  | .collReferenced n av, v =>
    match v with
    | .list xs =>
      if isAny n then keepAllowed v av
      else
        match kp (trim n) with
        | some f => if (xs.map f).any (· = .null) then .null else keepAllowed (.list (xs.map f)) av
        | none => .null
    | _ => .null
  | .collComponent cs av, v =>
    match v with
    | .list xs =>
      match projectItems (fun es => projectComps kp cs es []) xs with
      | some out => keepAllowed (.list out) av
      | none => .null
    | _ => .null
def projectComps (kp : Name → Option (DTValue → DTValue)) :
    List (Name × ItemDef) → List (Name × DTValue) → List (Name × DTValue) → Option (List (Name × DTValue))
  | [], _, acc => some acc
  | (n, t) :: cs, es, acc =>
    match ctxGet n es with
    | some x => projectComps kp cs es (ctxInsert n (projectWith kp t x) acc)
    | none => none
end

def projector (defs : Defs) : Nat → Name → Option (DTValue → DTValue)
  | 0, _ => some (fun _ => .null)
  | f + 1, n =>
    match lookup defs n with
    | some t => some (projectWith (projector defs f) t)
    | none => none

/-- The specified result of checking `v` against `t`. -/
def project (defs : Defs) (fuel : Nat) (t : ItemDef) (v : DTValue) : DTValue :=
  projectWith (projector defs fuel) t v

/-- The specified value of a typed input variable. -/
def varProject (defs : Defs) (fuel : Nat) (name : Name) (ty : VarType) (input : DTValue) : DTValue :=
  match input with
  | .ctx es =>
    match ctxGet name es with
    | some v =>
      match ty with
      | .none => v
      | .simple t => if t.accepts v then v else .null
      | .named n => match projector defs fuel n with
        | some f => f v
        | none => .null
    | none => .null
  | _ => .null

end Spec

end Dmn.ID
