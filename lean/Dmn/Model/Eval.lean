import Dmn.Model.EvalM
import Dmn.Model.EvalOps
import Dmn.Model.Iter

/-!
# The evaluator (`feel-evaluator/src/builders.rs`, `iterations.rs`)

`evalStep env a` is the closure `build_evaluator(a)` returns: a computation over the scope.
It is defined by structural recursion over the syntax tree, exactly as `build_evaluator`
builds closures from closures.  The one call that is not on a sub-tree — evaluating the
body of a function *value* — goes through `env.call`; `eval fuel` ties the knot by giving
`env.call` the evaluator with one unit of fuel less (`diverge` at zero), so unbounded
recursion through function values is an explicit outcome.
-/

namespace Dmn

/-- What the evaluator delegates: decimal arithmetic, function bodies, built-in functions. -/
structure Env where
  num : NumOps
  call : Ast → EvalM Value
  bifPos : String → List Value → Outcome Value
  bifNamed : String → List (String × Value × Nat) → Outcome Value
  /-- the iteration engine: the states (each tagged with the position at which its variable
  was declared) in the order the code adds them → the iteration contexts in visiting order -/
  iter : List (Nat × Iter.State) → Outcome (List Ctx)
  /-- the numeric arm of a filter on a list -/
  index : List Value → Dec → Value

/-- The two variation points in which the code and the FEEL semantics differ. -/
structure Variant where
  iter : List (Nat × Iter.State) → Outcome (List Ctx)
  index : List Value → Dec → Value

namespace Eval
open EvalM Value

/-! ## helpers that are not recursive in the syntax tree -/

/-- `match value { Value::List(values) => values, other => vec![other] }` -/
def listOf (v : Value) : List Value :=
  match v with
  | .list vs => vs
  | other => [other]

/-- `scope.push(ctx); let r = m(scope); scope.pop(); r` -/
def bracket {α : Type} (c : Ctx) (m : EvalM α) : EvalM α := do
  push c
  let r ← m
  pop
  pure r

/-- One iteration of the loop in `build_filter`: the item's own context (when the item is a
context) and, unless that context has an entry `item`, a special context binding `item`. -/
def filterItem (pred : EvalM Value) (value : Value) : EvalM Bool :=
  let special : Ctx := Ctx.set [] "item" value
  let test : EvalM Bool := do
    let r ← pred
    pure (isTrue r)
  match value with
  | .ctx own =>
    if Ctx.contains own "item" then bracket own test
    else bracket own (bracket special test)
  | _ => bracket special test

/-- The closure `eval_for_item` of `build_filter`: the filter expression evaluated in the scope of
one item (the same brackets as `filterItem`); used for a left operand that is not a list. -/
def itemScoped (pred : EvalM Value) (value : Value) : EvalM Value :=
  let special : Ctx := Ctx.set [] "item" value
  match value with
  | .ctx own =>
    if Ctx.contains own "item" then bracket own pred
    else bracket own (bracket special pred)
  | _ => bracket special pred

def filterLoop (pred : EvalM Value) : List Value → EvalM (List Value)
  | [] => pure []
  | v :: vs => do
    let keep ← filterItem pred v
    let rest ← filterLoop pred vs
    pure (if keep then v :: rest else rest)

/-- `ForExpressionEvaluator::evaluate`: `results` so far are bound to `partial`. -/
def forLoop (body : EvalM Value) : List Ctx → List Value → EvalM (List Value)
  | [], results => pure results
  | c :: cs, results => do
    let r ← bracket (Ctx.set c "partial" (.list results)) body
    forLoop body cs (results ++ [r])

/-- `SomeExpressionEvaluator::evaluate` / `EveryExpressionEvaluator::evaluate` -/
def quantLoop (isSome : Bool) (sat : EvalM Value) : List Ctx → Bool × Bool → EvalM (Bool × Bool)
  | [], acc => pure acc
  | c :: cs, acc => do
    let r ← bracket c sat
    let acc' : Bool × Bool := match r with
      | .bool b => (if isSome then acc.1 || b else acc.1 && b, acc.2)
      | _ => (acc.1, true)
    quantLoop isSome sat cs acc'

/-- The end of `SomeExpressionEvaluator::evaluate` / `EveryExpressionEvaluator::evaluate`:
`(result, unknown)` — null when a body value was not a boolean and the booleans did not decide
(`some`: none was true; `every`: none was false). -/
def quantResult (isSome : Bool) (acc : Bool × Bool) : Value :=
  if acc.2 && (if isSome then !acc.1 else acc.1) then .null else .bool acc.1


/-- `FeelContext::search_deep` -/
def ctxSearchDeep (c : Ctx) : List String → Option Value
  | [] => none
  | [n] => Ctx.get c n
  | n :: m :: rest =>
    match Ctx.get c n with
    | some (.ctx sub) => ctxSearchDeep sub (m :: rest)
    | _ => none

/-- `Scope::search_deep`: the first context from the top of the stack that binds the first
name decides (as in `Scope::get_entry`). -/
def scopeSearchDeep (s : Scope) (names : List String) : Option Value :=
  match names with
  | [] => none
  | first :: _ =>
    match s.reverse.find? (fun c => Ctx.contains c first) with
    | some c => ctxSearchDeep c names
    | none => none

/-- sorted insert into a context *type* (`BTreeMap<Name, FeelType>::insert`) -/
def typeCtxInsert (es : List (String × FType)) (k : String) (t : FType) : List (String × FType) :=
  match es with
  | [] => [(k, t)]
  | (k', t') :: es =>
    if k = k' then (k, t) :: es
    else if k < k' then (k, t) :: (k', t') :: es
    else (k', t') :: typeCtxInsert es k t

/-- sorted insert into the named-parameters map -/
def namedInsert (ps : List (String × Value × Nat)) (k : String) (v : Value) (pos : Nat) :
    List (String × Value × Nat) :=
  match ps with
  | [] => [(k, v, pos)]
  | (k', e) :: ps =>
    if k = k' then (k, v, pos) :: ps
    else if k < k' then (k, v, pos) :: (k', e) :: ps
    else (k', e) :: namedInsert ps k v pos

/-- `build_named_parameters` after the items are evaluated -/
def collectNamed : List Value → Nat → List (String × Value × Nat) → List (String × Value × Nat)
  | [], _, acc => acc
  | .namedParam (.paramName n) v :: rest, pos, acc => collectNamed rest (pos + 1) (namedInsert acc n v pos)
  | _ :: rest, pos, acc => collectNamed rest pos acc

/-- the argument context of `eval_function_positional`; `none` = "invalid number of arguments" -/
def bindPositional : List (String × FType) → List Value → Ctx → Option Ctx
  | [], _, cx => some cx
  | (n, t) :: ps, a :: as, cx => bindPositional ps as (Ctx.set cx n (Value.coerced t a))
  | _ :: _, [], _ => none

def namedGet (m : List (String × Value × Nat)) (k : String) : Option Value :=
  match m with
  | [] => none
  | (k', v, _) :: m => if k' = k then some v else namedGet m k

/-- the argument context of `eval_function_named` -/
def bindNamed : List (String × FType) → List (String × Value × Nat) → Ctx → Option Ctx
  | [], _, cx => some cx
  | (n, t) :: ps, m, cx =>
    match namedGet m n with
    | some a => bindNamed ps m (Ctx.set cx n (Value.coerced t a))
    | none => none

/-- `map.keys().any(|name| !parameters.iter().any(|(parameter_name, _)| parameter_name == name))`
in `eval_function_named`: an argument whose name is not the name of a formal parameter. -/
def unknownNamed (ps : List (String × FType)) (m : List (String × Value × Nat)) : Bool :=
  m.any (fun e => !ps.any (fun p => p.1 == e.1))

/-- `eval_function_definition`: push the arguments on the *current* scope, run the body
there, pop, coerce the result. -/
def callFunction (env : Env) (args : Ctx) (body : Ast) (rt : FType) : EvalM Value := do
  let r ← bracket args (env.call body)
  pure (Value.coerced rt r)

def invokePositional (env : Env) (f : Value) (args : List Value) : EvalM Value :=
  match f with
  | .bif name => lift (env.bifPos name args)
  | .fn ps body rt =>
    if args.length > ps.length then pure .null
    else
      match bindPositional ps args [] with
      | some cx => callFunction env cx body rt
      | none => pure .null
  | _ => pure .null

def invokeNamed (env : Env) (f : Value) (args : Value) : EvalM Value :=
  match f with
  | .bif name =>
    match args with
    | .namedParams m => lift (env.bifNamed name m)
    | _ => pure .null
  | .fn ps body rt =>
    match args with
    | .namedParams m =>
      if unknownNamed ps m then pure .null
      else
        match bindNamed ps m [] with
        | some cx => callFunction env cx body rt
        | none => pure .null
    | _ => callFunction env [] body rt
  | _ => pure .null

/-- What `build_for` / `build_some` / `build_every` make of their iteration contexts
(`notIterable`: a domain is null, or the ends of a range are not integers — the result is null). -/
inductive IterDomains where
  | states (l : List (Nat × Iter.State))
  | empty
  | notIterable

def IterDomains.cons (x : Nat × Iter.State) : IterDomains → IterDomains
  | .states l => .states (x :: l)
  | d => d

/-- `ForExpressionEvaluator::add_range`: `false` (no state) unless both ends are numbers that
convert to `isize`. -/
def rangeState (name : String) (lo hi : Value) : Option Iter.State :=
  match lo, hi with
  | .num a, .num b =>
    match Dec.toIsizeV? a, Dec.toIsizeV? b with
    | some x, some y => some (Iter.mkRange name x y)
    | _, _ => none
  | _, _ => none

/-- The value of a context literal: null when a key occurred twice. -/
def ctxResult (c : Option Ctx) : Value :=
  match c with
  | some c => .ctx c
  | none => .null

/-! ## the evaluator proper -/

mutual
def evalStep (env : Env) : Ast → EvalM Value
  | .add a b => do let l ← evalStep env a; let r ← evalStep env b; pure (addV env.num l r)
  | .and a b => do let l ← evalStep env a; let r ← evalStep env b; pure (and3 l r)
  | .at _ => pure unsupported
  | .between a b c => do
    let l ← evalStep env a; let m ← evalStep env b; let r ← evalStep env c
    pure (betweenV l m r)
  | .boolean b => pure (.bool b)
  | .context es => do
    push []
    let c ← evalContextEntries env es []
    pop
    pure (ctxResult c)
  | .contextEntry k v => do let l ← evalStep env k; let r ← evalStep env v; pure (contextEntryV l r)
  | .contextEntryKey n => pure (.ctxEntryKey n)
  | .contextType es => do
    let vs ← evalList env es
    let entries := vs.foldl (fun acc v => match v with
      | .ctxTypeEntry k t => typeCtxInsert acc k t
      | _ => acc) []
    pure (.feelType (.ctx entries))
  | .contextTypeEntry k t => do
    let l ← evalStep env k; let r ← evalStep env t
    pure (match l, r with
      | .ctxTypeEntryKey n, .feelType ty => .ctxTypeEntry n ty
      | _, _ => .null)
  | .contextTypeEntryKey n => pure (.ctxTypeEntryKey n)
  | .div a b => do let l ← evalStep env a; let r ← evalStep env b; pure (divV env.num l r)
  | .eq a b => do let l ← evalStep env a; let r ← evalStep env b; pure (eqV l r)
  | .evaluatedExpression a => evalStep env a
  | .every ctxs sat =>
    match ctxs, sat with
    | .quantifiedContexts items, .satisfies body => do
      let states ← evalQuantified env items 0
      match states with
      | .empty => pure (.bool true)
      | .notIterable => pure .null
      | .states states => do
        let cs ← lift (env.iter states)
        let r ← quantLoop false (evalStep env body) cs (true, false)
        pure (quantResult false r)
    | _, _ => pure unsupported
  | .exp a b => do let l ← evalStep env a; let r ← evalStep env b; pure (expV env.num l r)
  | .expressionList xs => do let vs ← evalList env xs; pure (.exprList vs)
  | .feelType t => pure (.feelType t)
  | .filter a b => do
    let l ← evalStep env a
    match l with
    | .list values => do
      let filtered ← filterLoop (evalStep env b) values
      let rhv ← evalStep env b
      match rhv with
      | .num index => pure (env.index values index)
      | _ => pure (filterResult filtered)
    | other =>
      if isFilterScalar other then do
        let rhv ← itemScoped (evalStep env b) other
        pure (filterScalar other rhv)
      else pure .null
  | .for ctxs body =>
    match ctxs with
    | .iterationContexts items => do
      let states ← evalIteration env items 0
      match states with
      | .empty => pure (.list [])
      | .notIterable => pure .null
      | .states states => do
        let cs ← lift (env.iter states)
        let results ← forLoop (evalStep env body) cs []
        pure (.list results)
    | _ => do
      let cs ← lift (env.iter [])
      let results ← forLoop (evalStep env body) cs []
      pure (.list results)
  | .formalParameter n t => do
    let l ← evalStep env n; let r ← evalStep env t
    pure (match l, r with
      | .paramName k, .feelType ty => .formalParam k ty
      | _, _ => .null)
  | .formalParameters ps => do
    let vs ← evalList env ps
    pure (.formalParams (vs.filterMap (fun v => match v with
      | .formalParam k t => some (k, t)
      | _ => none)))
  | .functionBody body external => if external then pure .null else pure (.fnBody body)
  | .functionDefinition ps body => do
    let l ← evalStep env ps; let r ← evalStep env body
    pure (match l, r with
      | .formalParams params, .fnBody b => .fn params b .any
      | _, _ => .null)
  | .functionInvocation f args =>
    match args with
    | .positionalParameters xs => do
      let fv ← evalStep env f
      let vs ← evalList env xs
      invokePositional env fv vs
    | .namedParameters xs => do
      let fv ← evalStep env f
      let vs ← evalList env xs
      invokeNamed env fv (.namedParams (collectNamed vs 1 []))
    | _ => pure unsupported
  | .functionType ps r => do
    let l ← evalStep env ps; let rv ← evalStep env r
    pure (match l, rv with
      | .paramTypes types, .feelType rt =>
        .feelType (.fn (types.filterMap (fun v => match v with
          | .feelType t => some t
          | _ => none)) rt)
      | _, _ => .null)
  | .ge a b => do let l ← evalStep env a; let r ← evalStep env b; pure (geV l r)
  | .gt a b => do let l ← evalStep env a; let r ← evalStep env b; pure (gtV l r)
  | .if c t e => do
    let cv ← evalStep env c
    match ifBranch cv with
    | some true => evalStep env t
    | some false => evalStep env e
    | none => pure .null
  | .in a b => do let l ← evalStep env a; let r ← evalStep env b; pure (inV l r)
  | .instanceOf a t => do let l ← evalStep env a; let r ← evalStep env t; pure (instanceOfV l r)
  | .intervalEnd a closed => do let l ← evalStep env a; pure (.intervalEnd l closed)
  | .intervalStart a closed => do let l ← evalStep env a; pure (.intervalStart l closed)
  | .irrelevant => pure .irrelevant
  | .le a b => do let l ← evalStep env a; let r ← evalStep env b; pure (leV l r)
  | .lt a b => do let l ← evalStep env a; let r ← evalStep env b; pure (ltV l r)
  | .list xs => do let vs ← evalList env xs; pure (.list vs)
  | .listType t => do
    let l ← evalStep env t
    pure (match l with
      | .feelType ty => .feelType (.list ty)
      | _ => .null)
  | .mul a b => do let l ← evalStep env a; let r ← evalStep env b; pure (mulV env.num l r)
  | .name n => do
    let v ← getEntry n
    pure (match v with
      | some v => v
      | none => if isBifName n then .bif n else .null)
  | .namedParameter n v =>
    match n with
    | .parameterName name => do let r ← evalStep env v; pure (.namedParam (.paramName name) r)
    | _ => pure unsupported
  | .namedParameters xs => do let vs ← evalList env xs; pure (.namedParams (collectNamed vs 1 []))
  | .negatedList xs => do let vs ← evalList env xs; pure (.negList vs)
  | .neg a => do let l ← evalStep env a; pure (negV l)
  | .nq a b => do let l ← evalStep env a; let r ← evalStep env b; pure (nqV l r)
  | .null => pure .null
  | .numeric before after => pure (numericV env.num before after)
  | .or a b => do let l ← evalStep env a; let r ← evalStep env b; pure (or3 l r)
  | .out a b => do
    -- `build_in(lhs, rhs)` evaluates both, then `lhs` is evaluated once more
    let l ← evalStep env a; let r ← evalStep env b
    let l2 ← evalStep env a
    pure (outV (inV l r) l2)
  | .parameterName n => pure (.paramName n)
  | .parameterTypes xs => do let vs ← evalList env xs; pure (.paramTypes vs)
  | .path a b =>
    match b with
    | .name n => do let l ← evalStep env a; pure (pathV l n)
    | _ => pure .null
  | .qualifiedName xs => do
    let vs ← evalList env xs
    let names := vs.filterMap (fun v => match v with
      | .qnSegment n => some n
      | _ => none)
    let s ← getScope
    pure ((scopeSearchDeep s names).getD .null)
  | .qualifiedNameSegment n => pure (.qnSegment n)
  | .range lo hi => do let l ← evalStep env lo; let r ← evalStep env hi; pure (rangeV l r)
  | .rangeType t => do
    let l ← evalStep env t
    pure (match l with
      | .feelType ty => .feelType (.range ty)
      | _ => .null)
  | .some ctxs sat =>
    match ctxs, sat with
    | .quantifiedContexts items, .satisfies body => do
      let states ← evalQuantified env items 0
      match states with
      | .empty => pure (.bool false)
      | .notIterable => pure .null
      | .states states => do
        let cs ← lift (env.iter states)
        let r ← quantLoop true (evalStep env body) cs (false, false)
        pure (quantResult true r)
    | _, _ => pure unsupported
  | .string s => pure (.str s)
  | .sub a b => do let l ← evalStep env a; let r ← evalStep env b; pure (subV env.num l r)
  | .unaryGe a => do let l ← evalStep env a; pure (.unaryGe l)
  | .unaryGt a => do let l ← evalStep env a; pure (.unaryGt l)
  | .unaryLe a => do let l ← evalStep env a; pure (.unaryLe l)
  | .unaryLt a => do let l ← evalStep env a; pure (.unaryLt l)
  -- nodes `build_evaluator` rejects (`Err(unexpected AST node)`)
  | .commaList _ | .iterationContexts _ | .iterationContextSingle .. | .iterationContextRange ..
  | .positionalParameters _ | .quantifiedContext .. | .quantifiedContexts _ | .satisfies _ =>
    pure unsupported
termination_by structural a => a

/-- `build_list`, `build_expression_list`, …: the items in order -/
def evalList (env : Env) : List Ast → EvalM (List Value)
  | [] => pure []
  | a :: as => do
    let v ← evalStep env a
    let vs ← evalList env as
    pure (v :: vs)
termination_by structural as => as

/-- The loop of `build_context`: every evaluated entry goes into the result and into the
special context on top of the scope, where later entries see it; `none`: a key occurs twice
(the closure pops the special context and returns null). -/
def evalContextEntries (env : Env) : List Ast → Ctx → EvalM (Option Ctx)
  | [], acc => pure (some acc)
  | e :: es, acc => do
    let v ← evalStep env e
    match v with
    | .ctxEntry k val =>
      if Ctx.contains acc k then pure none
      else do
        setEntry k val
        evalContextEntries env es (Ctx.set acc k val)
    | _ => evalContextEntries env es acc
termination_by structural es => es

/-- The domains of `some` / `every`: `QuantifiedContext(Name, expr)` items, in order.
`.notIterable`: a domain evaluated to null; `.empty`: a domain evaluated to the empty list
(the closure returns at once in both cases). -/
def evalQuantified (env : Env) : List Ast → Nat → EvalM IterDomains
  | [], _ => pure (.states [])
  | item :: items, pos =>
    match item with
    | .quantifiedContext (.name n) e => do
      let v ← evalStep env e
      match v with
      | .null => pure .notIterable
      | .list [] => pure .empty
      | _ => do
        let rest ← evalQuantified env items (pos + 1)
        pure (rest.cons (pos, Iter.mkList n (listOf v)))
    | _ => evalQuantified env items (pos + 1)
termination_by structural items => items

/-- `build_for`: the iteration contexts, evaluated and added to the iterator in the order
of declaration. `.empty`: a list domain evaluated to the empty list (the result is `[]`);
`.notIterable`: a domain is null or the ends of a range are not integers (the result is null). Both end the
evaluation of the iteration contexts at once. -/
def evalIteration (env : Env) : List Ast → Nat → EvalM IterDomains
  | [], _ => pure (.states [])
  | item :: items, pos =>
    match item with
    | .iterationContextSingle (.name n) e => do
      let v ← evalStep env e
      match v with
      | .null => pure .notIterable
      | .list [] => pure .empty
      | _ => do
        let rest ← evalIteration env items (pos + 1)
        pure (rest.cons (pos, Iter.mkList n (listOf v)))
    | .iterationContextRange (.name n) lo hi => do
      let a ← evalStep env lo
      let b ← evalStep env hi
      match rangeState n a b with
      | none => pure .notIterable
      | some st => do
        let rest ← evalIteration env items (pos + 1)
        pure (rest.cons (pos, st))
    | _ => evalIteration env items (pos + 1)
termination_by structural items => items
end

-- Which trees `build_evaluator` accepts (it fails as a whole, before any evaluation).
mutual
def buildOk : Ast → Bool
  | .commaList _ | .iterationContexts _ | .iterationContextSingle .. | .iterationContextRange ..
  | .positionalParameters _ | .quantifiedContext .. | .quantifiedContexts _ | .satisfies _ => false
  | .add a b | .and a b | .contextEntry a b | .contextTypeEntry a b | .div a b | .eq a b | .exp a b
  | .filter a b | .formalParameter a b | .functionDefinition a b | .functionType a b | .ge a b
  | .gt a b | .in a b | .instanceOf a b | .le a b | .lt a b | .mul a b | .nq a b | .or a b
  | .out a b | .range a b | .sub a b => buildOk a && buildOk b
  | .between a b c | .if a b c => buildOk a && buildOk b && buildOk c
  | .context xs | .contextType xs | .expressionList xs | .formalParameters xs | .list xs
  | .namedParameters xs | .negatedList xs | .parameterTypes xs | .qualifiedName xs => buildOkList xs
  | .evaluatedExpression a | .intervalEnd a _ | .intervalStart a _ | .listType a | .neg a
  | .rangeType a | .unaryGe a | .unaryGt a | .unaryLe a | .unaryLt a => buildOk a
  | .functionBody a external => external || buildOk a
  | .every ctxs sat | .some ctxs sat =>
    match ctxs, sat with
    | .quantifiedContexts items, .satisfies body => buildOkQuantified items && buildOk body
    | _, _ => false
  | .for ctxs body =>
    (match ctxs with
      | .iterationContexts items => buildOkIteration items
      | _ => true) && buildOk body
  | .functionInvocation f args =>
    match args with
    | .positionalParameters xs => buildOkList xs && buildOk f
    | .namedParameters xs => buildOk f && buildOkList xs
    | _ => false
  | .namedParameter n v =>
    match n with
    | .parameterName _ => buildOk v
    | _ => false
  | .path a b =>
    match b with
    | .name _ => buildOk a
    | _ => true
  | _ => true
termination_by structural a => a
def buildOkList : List Ast → Bool
  | [] => true
  | a :: as => buildOk a && buildOkList as
termination_by structural as => as
def buildOkQuantified : List Ast → Bool
  | [] => true
  | item :: items =>
    (match item with
      | .quantifiedContext (.name _) e => buildOk e
      | _ => true) && buildOkQuantified items
termination_by structural items => items
def buildOkIteration : List Ast → Bool
  | [] => true
  | item :: items =>
    (match item with
      | .iterationContextSingle (.name _) e => buildOk e
      | .iterationContextRange (.name _) lo hi => buildOk lo && buildOk hi
      | _ => true) && buildOkIteration items
termination_by structural items => items
end

/-- What the code does: the states in the order they were added go through
`FeelIterator::run`; a filter index must have exponent 0 (`is_integer`). -/
def Variant.code : Variant where
  iter := fun states => Iter.run (states.map Prod.snd)
  index := filterIndex

/-- Stable insertion of a tagged state by declaration position. -/
def insertByPos (x : Nat × Iter.State) : List (Nat × Iter.State) → List (Nat × Iter.State)
  | [] => [x]
  | y :: ys => if x.1 < y.1 then x :: y :: ys else y :: insertByPos x ys

/-- What the FEEL semantics prescribes: the full cartesian product of the domains, the
first *declared* variable outermost (empty if a domain is empty); a filter index is any
number with an integral value. -/
def Variant.spec : Variant where
  iter := fun states => .ok (Iter.product ((states.foldr insertByPos []).map Prod.snd))
  index := fun values d =>
    match Dec.toInt? d with
    | some i =>
      let size : Int := values.length
      if 1 ≤ i ∧ i ≤ size then (values[(i - 1).toNat]?).getD .null
      else if -size ≤ i ∧ i ≤ -1 then (values[(size + i).toNat]?).getD .null
      else .null
    | none => .null

/-- `FeelIterator::run` on the states in declaration order, the code's index rule. -/
def Variant.declaredOrder : Variant where
  iter := fun states => Iter.run ((states.foldr insertByPos []).map Prod.snd)
  index := filterIndex

/-- The product with the outer variable winning a name clash, the code's index rule. -/
def Variant.productOuterWins : Variant where
  iter := fun states => .ok (Iter.productOuterWins ((states.foldr insertByPos []).map Prod.snd))
  index := filterIndex

/-- The product of the semantics, the code's index rule. -/
def Variant.productOnly : Variant where
  iter := Variant.spec.iter
  index := filterIndex

/-- The evaluator with `fuel` nested function-body evaluations allowed. -/
def mkEnv (num : NumOps) (bifPos : String → List Value → Outcome Value)
    (bifNamed : String → List (String × Value × Nat) → Outcome Value) (v : Variant) : Nat → Env
  | 0 => { num, call := fun _ => diverge, bifPos, bifNamed, iter := v.iter, index := v.index }
  | fuel + 1 =>
    { num, call := evalStep (mkEnv num bifPos bifNamed v fuel), bifPos, bifNamed, iter := v.iter, index := v.index }

/-- The model of the code. -/
def eval (num : NumOps) (bifPos : String → List Value → Outcome Value)
    (bifNamed : String → List (String × Value × Nat) → Outcome Value) (fuel : Nat) (a : Ast) : EvalM Value :=
  evalStep (mkEnv num bifPos bifNamed Variant.code fuel) a

def evalWith (v : Variant) (num : NumOps) (bifPos : String → List Value → Outcome Value)
    (bifNamed : String → List (String × Value × Nat) → Outcome Value) (fuel : Nat) (a : Ast) : EvalM Value :=
  evalStep (mkEnv num bifPos bifNamed v fuel) a

/-- The specification: the same evaluator over the declarative iteration and index. -/
def den (num : NumOps) (bifPos : String → List Value → Outcome Value)
    (bifNamed : String → List (String × Value × Nat) → Outcome Value) (fuel : Nat) (a : Ast) : EvalM Value :=
  evalStep (mkEnv num bifPos bifNamed Variant.spec fuel) a

end Eval
end Dmn
