import Dmn.Model.Drg
import Dmn.Model.DrgSpec

/-!
# A stateless denotation of boxed expressions, and the equation of a requirement graph

`evalBoxed` (`Dmn/Model/Drg.lean`) mirrors the closures of `builders/mod.rs` as computations over the mutable
scope stack: `push`, `set_entry`, `pop` are effects, and every step hands the scope on to the next.  `denBoxed`
below is what those closures *mean*: a function from an **environment** (the nested contexts in which names are
looked up; only ever read, extended for the part of the expression a binding is visible in, never handed back) to
a value.  Nothing is threaded: there is no scope after the evaluation.

* a boxed context: every entry is evaluated in the environment extended by the entries before it; the value is
  the result entry's value if there is one, otherwise the context of the named entries;
* a boxed invocation / function definition: the bindings and the called function are evaluated in the enclosing
  environment, the body of the function value in that environment extended by the parameter context;
* a relation: every cell in the enclosing environment;
* a decision table and a literal expression: the value of the table closure / of the FEEL evaluator in the
  environment.

`Dmn/Lemmas/DrgDen.lean` proves `evalBoxed env a s = (denBoxed env a s, s)` for every boxed expression.

`logicOverRequirements` is the statement of C04 as an equation: the value of a decision is the denotation of its
logic in the environment made of its required inputs, its required decisions' values (given by `V`) and its required
knowledge (given by `K`).
-/

namespace Dmn

/-- the value of a computation, the scope it leaves forgotten -/
def Outcome.val {α : Type} (o : Outcome (α × Scope)) : Outcome α :=
  match o with
  | .ok (a, _) => .ok a
  | .panic p => .panic p
  | .diverge => .diverge

mutual
/-- The value of a boxed expression in the environment `s`. -/
def denBoxed (env : Env) : Ast → Scope → Outcome Value
  -- a boxed context: the entries in the environment extended by one (so far empty) context
  | .commaList [.context entries] => fun s => denBoxedEntries env entries [] (Scope.push s [])
  -- a boxed invocation / function definition
  | .commaList [.functionInvocation f (.namedParameters bindings)] => fun s =>
    match denBoxedBindings env bindings [] s with
    | .ok params =>
      match denBoxed env f s with
      | .ok (.fn _ body rt) =>
        -- the body in the enclosing environment extended by the parameters
        match Outcome.val (env.call body (Scope.push s params)) with
        | .ok r => .ok (Value.coerced rt r)
        | .panic p => .panic p
        | .diverge => .diverge
      | .ok _ => .ok .null
      | .panic p => .panic p
      | .diverge => .diverge
    | .panic p => .panic p
    | .diverge => .diverge
  -- a relation
  | .commaList [.list rows] => fun s =>
    match denBoxedRows env rows s with
    | .ok rs => .ok (.list rs)
    | .panic p => .panic p
    | .diverge => .diverge
  -- a decision table
  | .commaList [.instanceOf (.string hitPolicy)
      (.expressionList [.expressionList inputs, .expressionList outputs, .expressionList rules])] => fun s =>
    Outcome.val (Drg.evalTable env hitPolicy inputs outputs rules s)
  -- a literal expression
  | a => fun s => Outcome.val (Eval.evalStep env a s)
termination_by structural a => a

/-- The entries of a boxed context: a named entry is visible to the entries after it (the environment they are
evaluated in has it in its innermost context); an entry without a name is the result. -/
def denBoxedEntries (env : Env) : List Ast → Ctx → Scope → Outcome Value
  | [], acc => fun _ => .ok (.ctx acc)
  | e :: es, acc =>
    match e with
    | .contextEntry (.contextEntryKey name) v => fun s =>
      match denBoxed env v s with
      | .ok value => denBoxedEntries env es (Ctx.set acc name value) (Scope.setEntry s name value)
      | .panic p => .panic p
      | .diverge => .diverge
    | r => fun s => denBoxed env r s
termination_by structural es => es

/-- The bindings of an invocation (the cells of a relation row): each in the same environment. -/
def denBoxedBindings (env : Env) : List Ast → Ctx → Scope → Outcome Ctx
  | [], acc => fun _ => .ok acc
  | b :: bs, acc =>
    match b with
    | .namedParameter (.parameterName name) v => fun s =>
      match denBoxed env v s with
      | .ok value => denBoxedBindings env bs (Ctx.set acc name value) s
      | .panic p => .panic p
      | .diverge => .diverge
    | _ => fun s => denBoxedBindings env bs acc s
termination_by structural bs => bs

/-- The rows of a relation: one context per row. -/
def denBoxedRows (env : Env) : List Ast → Scope → Outcome (List Value)
  | [] => fun _ => .ok []
  | r :: rs =>
    match r with
    | .namedParameters cells => fun s =>
      match denBoxedBindings env cells [] s with
      | .ok c =>
        match denBoxedRows env rs s with
        | .ok rest => .ok (.ctx c :: rest)
        | .panic p => .panic p
        | .diverge => .diverge
      | .panic p => .panic p
      | .diverge => .diverge
    | _ => fun s => denBoxedRows env rs s
termination_by structural rs => rs
end

namespace Drg.Spec

/-- The loop over the required decisions of a decision, given the value `V id` of every decision: each
registered decision's value is bound to its variable, in document order (a later one shadows an earlier one of
the same variable); the first value that is not there (panic, divergence) is the outcome. -/
def requiredDecisionValues (g : Drg) (V : String → Outcome Value) : List String → Ctx → Outcome Ctx
  | [], c => .ok c
  | id :: ids, c =>
    match g.findDecision id with
    | some r =>
      match V id with
      | .ok v => requiredDecisionValues g V ids (Ctx.set c r.var v)
      | .panic p => .panic p
      | .diverge => .diverge
    | none => requiredDecisionValues g V ids c

/-- The environment of a decision's logic (top level: no enclosing decision service): the required inputs,
type-checked, shadowed by `k3` — required knowledge, required decision services, required decisions' values. -/
def requirementEnv (g : Drg) (d : Decision) (input k3 : Ctx) : Ctx :=
  Ctx.zip (g.typedInputs d.reqInputs input []) k3

/-- **The equation C04 states**: the value of decision `d` is the denotation of its logic in the environment
that binds the required inputs to the supplied values, the required decisions' variables to those decisions'
values `V`, the required knowledge models (`K`: their function values) and decision services to functions —
converted to the type of the output variable. -/
def logicOverRequirements (g : Drg) (env : Env) (K : Outcome Ctx) (V : String → Outcome Value) (d : Decision)
    (input : Ctx) : Outcome Value :=
  match K with
  | .ok k1 =>
    match requiredDecisionValues g V d.reqDecisions (g.serviceFns d.reqKnowledge k1) with
    | .ok k3 =>
      match denBoxed env d.logic [requirementEnv g d input k3] with
      | .ok v => .ok (Value.coerced (d.ty.ftype g.items) v)
      | .panic p => .panic p
      | .diverge => .diverge
    | .panic p => .panic p
    | .diverge => .diverge
  | .panic p => .panic p
  | .diverge => .diverge

/-- The function values of the required knowledge models (their closures at level `gf`; they read no input data). -/
def requiredKnowledge (base : Env) (g : Drg) (ff gf : Nat) (ids : List String) : Outcome Ctx :=
  foldCtx (fun id c => callBkm g ((level base g gf ff).graph gf) id c) ids []

/-- a name among the variables of the required decisions: the value `V` gives the last such decision -/
def valueBinding (g : Drg) (V : String → Outcome Value) (n : String) : List String → Option Value
  | [] => none
  | id :: ids =>
    match valueBinding g V n ids with
    | some v => some v
    | none =>
      match g.findDecision id with
      | some d =>
        if d.var = n then
          match V id with
          | .ok v => some v
          | _ => none
        else none
      | none => none

end Drg.Spec
end Dmn
