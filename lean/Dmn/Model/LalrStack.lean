import Dmn.Model.LalrDriver

/-!
# The LR stack invariant, decided on the tables

`Parser::parse` reads `self.yy_state_stack[self.yy_state_stack.len() - 1]` after popping the
right-hand side of a rule (parser.rs:276): an empty stack there is a panic.  That it cannot be
empty is the LR invariant: the stack is a path in the automaton, so when a rule of length `n`
is reduced in a state, at least `n` states lie above the bottom one.

The automaton is not in `lalr.rs`, only the packed tables are.  `translate/lalr.py` therefore
computes, from the tables alone, a *witness* `preds` — for every state the states from which
the driver can push it (shift targets; goto targets of every state a reduction can uncover) —
and `stackOk` re-checks, on the tables, that the witness is closed under everything the driver
loop can do:

* every shift `s —tk→ v` the tables allow has `s ∈ preds v`;
* for every reduction of a rule `r` (length `n`, left-hand side `A`) the tables allow in a state
  `s` (in `YY_TABLE`, or as the default action of a state other than `YY_FINAL`): walking `n`
  steps back from `s` along `preds` never meets state 0 before the `n`-th step, and every state
  `u` reached after `n` steps has `u ∈ preds (goto u A)`.

The witness is not trusted: a wrong one makes `stackOk` false (and the theorem
`lalr_stack_ok` fail), it cannot make a false statement provable.
-/

namespace Dmn.Lalr

/-- The recorded predecessors of state `v`. -/
def predsOf (preds : List (List Int)) (v : Int) : List Int :=
  if v < 0 then [] else preds.getD v.toNat []

/-- parser.rs:277-283 without the bounds and overflow checks (those are `lalr_index_safe`). -/
def gotoOf (T : Tables) (top lhs : Int) : Option Int :=
  match idx T.pGoto lhs with
  | none => none
  | some g =>
    if 0 ≤ g + top ∧ g + top ≤ T.last then
      match idx T.check (g + top) with
      | none => none
      | some c => if c = top then idx T.table (g + top) else idx T.defGoto lhs
    else idx T.defGoto lhs

def addNew (acc : List Int) (x : Int) : List Int := if acc.contains x then acc else x :: acc

/-- the elements of `l`, each once -/
def dedup (l : List Int) : List Int := l.foldl addNew []

/-- `n` steps back from the states `B`: state 0 is not met on the way, and every state `u`
reached has `u ∈ preds (goto u A)`. -/
def backOk (T : Tables) (preds : List (List Int)) (A : Int) : Nat → List Int → Bool
  | 0, B => B.all (fun u =>
      match gotoOf T u A with
      | some g => (predsOf preds g).contains u
      | none => false)
  | n + 1, B => !(B.contains 0) && backOk T preds A n (dedup (B.flatMap (predsOf preds)))

/-- reducing rule `r` in state `s` keeps the stack a path -/
def redOk (T : Tables) (preds : List (List Int)) (s r : Int) : Bool :=
  match idx T.r2 r, idx T.r1 r with
  | some len, some sym => backOk T preds (sym - T.nTokens) len.toNat [s]
  | _, _ => false

/-- `p i t[i]` for every index of a list. -/
def allIdx (p : Nat → Int → Bool) : Nat → List Int → Bool
  | _, [] => true
  | i, x :: xs => p i x && allIdx p (i + 1) xs

/-- One `YY_TABLE`/`YY_CHECK` position, read as an action entry of every state whose row
reaches it with the token `c`: a positive entry is a shift, recorded in `preds`; a negative
one other than `YY_TABLE_N_INF` is a reduction that keeps the stack a path. -/
def stackEntryOk (T : Tables) (preds : List (List Int)) (i : Nat) (t c : Int) : Bool :=
  decide (c < 0) ||
  allIdx (fun s b =>
    !(b == (i : Int) - c) ||
    (if 0 < t then (predsOf preds t).contains (s : Int)
     else t == T.tableNInf || redOk T preds s (-t))) 0 T.pact

def stackOk (T : Tables) (preds : List (List Int)) : Bool :=
  allIdx2 (stackEntryOk T preds) 0 T.table T.check &&
  allIdx (fun s d => (s : Int) == T.final || d == 0 || redOk T preds s d) 0 T.defAct

end Dmn.Lalr
