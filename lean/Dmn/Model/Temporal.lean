import Dmn.Model.Calendar

/-!
# Implementation model of `feel/src/temporal/*` (C14, C15)

Mirrors what the Rust code *does*: validity through "chrono first, own leap rule as
fallback", comparison / subtraction / weekday through `date_time_offset` with chrono's year
range as a guard, the narrowing conversions of `date(y, m, d)`, the literal recognisers (the
regular expressions as hand-written recognisers over `List Char`), field extraction,
validation and the `Display` printers.

Not modelled (parameters): the zone database (`chrono_tz`): whether a zone name is known and
the UTC offset of a named/local zone at a given local time are supplied by the caller
(`zoneKnown`, `Zone` resolution through `oracle`).  `chrono`'s calendar inside its year range
is taken to be the proleptic Gregorian calendar of `Dmn.Cal` (checked by the correspondence).
Fractional seconds are converted exactly, digit by digit (`fraction_to_nanoseconds`, `mod.rs:638-647`,
since the repair of F23-f64).
-/

namespace Dmn.Temporal
open Dmn.Cal

/-! ## Values -/

/-- `FeelZone` (`zone.rs:37-48`). -/
inductive Zone where
  | utc
  | localZ
  | offset (secs : Int)
  | zone (name : List Char)
  deriving Repr, DecidableEq

/-- `FeelDate(i32, u8, u8)` (`date.rs:51`). -/
structure Date where
  y : Int
  m : Nat
  d : Nat
  deriving Repr, DecidableEq

/-- `FeelTime(u8, u8, u8, u64, FeelZone)` (`mod.rs:78`). -/
structure Time where
  h : Nat
  mi : Nat
  s : Nat
  ns : Nat
  z : Zone
  deriving Repr, DecidableEq

/-- `FeelDateTime(FeelDate, FeelTime)` (`mod.rs:217`). -/
structure DateTime where
  date : Date
  time : Time
  deriving Repr, DecidableEq

/-! ## chrono, as far as the code depends on it -/

def chronoMinYear : Int := -262143
def chronoMaxYear : Int := 262142

/-- `NaiveDate::from_ymd_opt(y, m, d).is_some()`. -/
def chronoDateOk (y : Int) (m d : Nat) : Bool :=
  decide (chronoMinYear ≤ y) && decide (y ≤ chronoMaxYear) && validDate y m d

/-- `NaiveTime::from_hms_nano_opt(h, mi, s, ns).is_some()`; `ns` already narrowed to `u32`
(`(value.1).3 as u32`, `mod.rs:303`). A fraction of 10⁹ … 2·10⁹ is a leap second, allowed
only at second 59. -/
def chronoTimeOk (h mi s ns : Nat) : Bool :=
  decide (h < 24) && decide (mi < 60) && decide (s < 60) &&
    (decide (ns < 1000000000) || (decide (s = 59) && decide (ns < 2000000000)))

def u32 (n : Nat) : Nat := n % 4294967296

/-- A `DateTime<FixedOffset>`: the UTC date (day number), second of the UTC day, the fraction
(≥ 10⁹ inside a leap second), and the local day number (for `weekday`). -/
structure Instant where
  utcDay : Int
  secs : Int
  frac : Int
  localDay : Int
  deriving Repr, DecidableEq

/-- Result of `date_time_offset` (`mod.rs:589-599`): a value, `None`, or the panic of
`FixedOffset::east` on an offset of a day or more. -/
inductive DTO where
  | some (i : Instant)
  | none
  | panic
  deriving Repr, DecidableEq

def chronoMinDay : Int := daysFromCivil chronoMinYear 1 1
def chronoMaxDay : Int := daysFromCivil chronoMaxYear 12 31

/-- `date_time_offset(date, time, offset)` (`mod.rs:589`):
`FixedOffset::east(offset).ymd_opt(..).and_hms_nano_opt(..)`; the local date-time is moved to
UTC (`checked_sub_offset`), which fails beyond chrono's first/last day. -/
def dateTimeOffset (d : Date) (h mi s ns : Nat) (offset : Int) : DTO :=
  if offset ≤ -86400 ∨ 86400 ≤ offset then .panic
  else if chronoDateOk d.y d.m d.d && chronoTimeOk h mi s (u32 ns) then
    let ld := daysFromCivil d.y d.m d.d
    let total : Int := (h : Int) * 3600 + (mi : Int) * 60 + (s : Int) - offset
    let shift := total / 86400
    let ud := ld + shift
    if chronoMinDay ≤ ud ∧ ud ≤ chronoMaxDay then
      .some ⟨ud, total - shift * 86400, (u32 ns : Nat), ld⟩
    else .none
  else .none

/-- The offset of a zone at a local date-time: `Utc`/`Offset` are fixed, `Local` and named zones
come from the caller-supplied oracle (`get_local_offset`, `get_zone_offset`; `none` = the
function returned `None`). (`mod.rs:499-504`) -/
def resolveOffset (oracle : Option Int) : Zone → Option Int
  | .utc => some 0
  | .localZ => oracle
  | .offset o => some o
  | .zone _ => oracle

/-- A date-time resolved to chrono (`TryFrom<FeelDateTime> for DateTime<FixedOffset>`,
`mod.rs:297-316`, and the first half of `compare`/`subtract`/`weekday`). -/
def toChrono (dt : DateTime) (oracle : Option Int) : DTO :=
  match resolveOffset oracle dt.time.z with
  | none => .none
  | some o => dateTimeOffset dt.date dt.time.h dt.time.mi dt.time.s dt.time.ns o

inductive Ord3 where
  | lt | eq | gt
  deriving Repr, DecidableEq

/-- `DateTime::cmp`: UTC date, then second of day, then fraction. -/
def Instant.cmp (a b : Instant) : Ord3 :=
  if a.utcDay < b.utcDay then .lt else if b.utcDay < a.utcDay then .gt
  else if a.secs < b.secs then .lt else if b.secs < a.secs then .gt
  else if a.frac < b.frac then .lt else if b.frac < a.frac then .gt else .eq

/-- Outcome of an operation that may yield nothing or panic. -/
inductive Res (α : Type) where
  | val (v : α)
  | none
  | panic
  deriving Repr, DecidableEq

/-- `compare` (`mod.rs:496-521`). -/
def compare (a b : DateTime) (oa ob : Option Int) : Res Ord3 :=
  match resolveOffset oa a.time.z, resolveOffset ob b.time.z with
  | some x, some y =>
    -- both `date_time_offset` calls are evaluated before the `zip`
    match dateTimeOffset a.date a.time.h a.time.mi a.time.s a.time.ns x with
    | .panic => .panic
    | ra =>
      match dateTimeOffset b.date b.time.h b.time.mi b.time.s b.time.ns y with
      | .panic => .panic
      | rb =>
        match ra, rb with
        | .some i, .some j => .val (i.cmp j)
        | _, _ => .none
  | _, _ => .none

def i64Min : Int := -9223372036854775808
def i64Max : Int := 9223372036854775807

/-- `NaiveDateTime::signed_duration_since` in nanoseconds, incl. chrono's leap-second
adjustment (`NaiveTime::signed_duration_since`). -/
def Instant.diffNanos (a b : Instant) : Int :=
  let adjust : Int :=
    if b.secs < a.secs then (if b.frac ≥ 1000000000 then 1 else 0)
    else if a.secs < b.secs then (if a.frac ≥ 1000000000 then -1 else 0)
    else 0
  ((a.utcDay - b.utcDay) * 86400 + (a.secs - b.secs) + adjust) * 1000000000 + (a.frac - b.frac)

/-- `subtract` (`mod.rs:523-548`): `me_date.sub(other_date).num_nanoseconds()` — `None` when
the difference does not fit `i64`. -/
def subtract (a b : DateTime) (oa ob : Option Int) : Res Int :=
  match resolveOffset oa a.time.z, resolveOffset ob b.time.z with
  | some x, some y =>
    match dateTimeOffset a.date a.time.h a.time.mi a.time.s a.time.ns x with
    | .panic => .panic
    | ra =>
      match dateTimeOffset b.date b.time.h b.time.mi b.time.s b.time.ns y with
      | .panic => .panic
      | rb =>
        match ra, rb with
        | .some i, .some j =>
          let n := i.diffNanos j
          if i64Min ≤ n ∧ n ≤ i64Max then .val n else .none
        | _, _ => .none
  | _, _ => .none

def midnightUtc (d : Date) : DateTime := ⟨d, ⟨0, 0, 0, 0, .utc⟩⟩

/-- `weekday` (`mod.rs:550-565`), `number_from_monday` of the local date. -/
def weekdayOf (dt : DateTime) (oracle : Option Int) : Res Int :=
  match toChrono dt oracle with
  | .some i => .val (Cal.weekday i.localDay)
  | .none => .none
  | .panic => .panic

/-- `FeelDate::weekday` (`date.rs:223-237`): of the date at UTC midnight through chrono; outside
chrono's year range from the day number (`days_from_civil`, the same arithmetic as
`Cal.daysFromCivil`; since the repair of F8-weekday). -/
def Date.weekday (d : Date) : Res Int :=
  match weekdayOf (midnightUtc d) none with
  | .val w => .val w
  | _ => .val (Cal.weekday (daysFromCivil d.y d.m d.d))

/-- `FeelDateTime::weekday` (`mod.rs:393-395`): `self.0.weekday()` — the weekday of the date part,
that is of the LOCAL date, whatever the offset or zone of the value. -/
def DateTime.weekday (dt : DateTime) : Res Int := dt.date.weekday

/-- `feel_time_offset` (`mod.rs:567-580`): a local time has no offset in the FEEL domain. -/
def timeOffsetOf (dt : DateTime) (oracle : Option Int) : Option Int :=
  match dt.time.z with
  | .utc => some 0
  | .localZ => none
  | .offset o => some o
  | .zone _ => oracle

/-- `feel_time_zone` (`mod.rs:582-587`). -/
def timeZoneOf (dt : DateTime) : Option (List Char) :=
  match dt.time.z with
  | .zone n => some n
  | _ => none

/-! ## Property access (`feel-evaluator/src/builders.rs:1500-1566`) -/

/-- The property names the temporal arms of `build_path` know (anything else is `other`). -/
inductive PropName where
  | year | month | day | weekday | hour | minute | second | timeOffset | timezone | other
  deriving Repr, DecidableEq

/-- Value of a path expression on a temporal value: a number, a days-and-time duration of whole
seconds (`time offset`), a string (`timezone`), null. -/
inductive PropVal where
  | num (n : Int)
  | offset (secs : Int)
  | str (s : List Char)
  | null
  | panic
  deriving Repr, DecidableEq

def PropVal.ofRes : Res Int → PropVal
  | .val w => .num w
  | .none => .null
  | .panic => .panic

/-- The `Value::Date` arm (`builders.rs:1500-1513`). -/
def dateProperty (d : Date) : PropName → PropVal
  | .year => .num d.y
  | .month => .num d.m
  | .day => .num d.d
  | .weekday => PropVal.ofRes d.weekday
  | _ => .null

/-- The `Value::DateTime` arm (`builders.rs:1514-1546`): every component is read from the value
as it is written (its local date and time); `oracle` is the offset of a named zone at that local
date and time. -/
def dtProperty (dt : DateTime) (oracle : Option Int) : PropName → PropVal
  | .year => .num dt.date.y
  | .month => .num dt.date.m
  | .day => .num dt.date.d
  | .weekday => PropVal.ofRes dt.weekday
  | .hour => .num dt.time.h
  | .minute => .num dt.time.mi
  | .second => .num dt.time.s
  | .timeOffset => match timeOffsetOf dt oracle with
    | some o => .offset o
    | none => .null
  | .timezone => match timeZoneOf dt with
    | some n => .str n
    | none => .null
  | .other => .null

/-- The `Value::Time` arm (`builders.rs:1547-1566`): offset and zone are read through a date-time
made of today's date and the time (`mod.rs:206-212`); `oracle` is the offset of a named zone
today at that time. -/
def timeProperty (t : Time) (today : Date) (oracle : Option Int) : PropName → PropVal
  | .hour => .num t.h
  | .minute => .num t.mi
  | .second => .num t.s
  | .timeOffset => dtProperty ⟨today, t⟩ oracle .timeOffset
  | .timezone => dtProperty ⟨today, t⟩ oracle .timezone
  | _ => .null

/-! ## Dates: validity, order (`date.rs`) -/

/-- `is_leap_year` (`date.rs:241`). Rust's `%` truncates; `x % k == 0` has the same truth value
for truncated and Euclidean remainders, and only such tests occur. -/
def isLeapYear (y : Int) : Bool :=
  y % 4 == 0 && (y % 100 != 0 || y % 400 == 0)

/-- `last_day_of_month` (`date.rs:246`). -/
def lastDayOfMonth (y : Int) (m : Nat) : Option Nat :=
  if m = 1 ∨ m = 3 ∨ m = 5 ∨ m = 7 ∨ m = 8 ∨ m = 10 ∨ m = 12 then some 31
  else if m = 4 ∨ m = 6 ∨ m = 9 ∨ m = 11 then some 30
  else if m = 2 then some (if isLeapYear y then 29 else 28)
  else none

/-- `is_valid_date` (`date.rs:228-239`): chrono first, own rule as fallback. -/
def isValidDate (y : Int) (m d : Nat) : Bool :=
  match toChrono (midnightUtc ⟨y, m, d⟩) none with
  | .some _ => true
  | _ =>
    if -999999999 ≤ y ∧ y ≤ 999999999 then
      match lastDayOfMonth y m with
      | some l => decide (1 ≤ d) && decide (d ≤ l)
      | none => false
    else false

/-- `FeelDate::compare` (`date.rs:159-161`, after fix 0b125e0): the `(year, month, day)`
tuples, lexicographically — for every year, no chrono involved. -/
def Date.compare (a b : Date) : Ord3 :=
  if a.y < b.y then .lt else if b.y < a.y then .gt
  else if a.m < b.m then .lt else if b.m < a.m then .gt
  else if a.d < b.d then .lt else if b.d < a.d then .gt else .eq

/-- `before` / `after` (`date.rs:167-177`): always `Some`. -/
def Date.before (a b : Date) : Option Bool := some (a.compare b == .lt)
def Date.after (a b : Date) : Option Bool := some (a.compare b == .gt)

/-- `PartialOrd::partial_cmp` for `FeelDate` (`date.rs:110-128`). -/
def Date.partialCmp (a b : Date) : Option Ord3 :=
  if a = b then some .eq
  else if a.before b = some true then some .lt
  else if a.after b = some true then some .gt
  else none

/-- FEEL `<`, `<=`, `>`, `>=`, `=` on dates (`builders.rs:880,905,1086,1111,1683`). -/
def Date.lt (a b : Date) : Bool := a.partialCmp b == some .lt
def Date.le (a b : Date) : Bool := a.partialCmp b == some .lt || a.partialCmp b == some .eq
def Date.gt (a b : Date) : Bool := a.partialCmp b == some .gt
def Date.ge (a b : Date) : Bool := a.partialCmp b == some .gt || a.partialCmp b == some .eq
def Date.eq (a b : Date) : Bool := a == b

/-- `before`/`after`/… on date-times (`mod.rs:452-494`). -/
def dtBefore (a b : DateTime) (oa ob : Option Int) : Res Bool :=
  match compare a b oa ob with
  | .val o => .val (o == .lt)
  | .none => .none
  | .panic => .panic

def dtEqual (a b : DateTime) (oa ob : Option Int) : Res Bool :=
  match compare a b oa ob with
  | .val o => .val (o == .eq)
  | .none => .none
  | .panic => .panic

/-- `between(value, left, right, true, true)` (`mod.rs:487-494`). -/
def dtBetweenClosed (v l r : DateTime) (ov ol orr : Option Int) : Res Bool :=
  match compare v l ov ol with
  | .panic => .panic
  | c1 =>
    match compare v r ov orr with
    | .panic => .panic
    | c2 =>
      match c1, c2 with
      | .val x, .val y => .val ((x == .gt || x == .eq) && (y == .lt || y == .eq))
      | _, _ => .none

/-! ## `date(y, m, d)` from numbers (`date.rs:87-101`, `number.rs:391-417`) -/

/-- A decimal number `coeff · 10^exp`. -/
structure Dec where
  coeff : Int
  exp : Int
  deriving Repr, DecidableEq

/-- Round-half-even to an integer (`decQuadToInt32(…, DEC_ROUND_HALF_EVEN)` quantises to
exponent 0 first). -/
def Dec.roundHalfEven (x : Dec) : Int :=
  if x.exp ≥ 0 then x.coeff * (10 : Int) ^ x.exp.toNat
  else
    let p : Nat := 10 ^ (-x.exp).toNat
    let a := x.coeff.natAbs
    let q := a / p
    let r := a % p
    let q' := if 2 * r > p then q + 1 else if 2 * r < p then q else (if q % 2 = 0 then q else q + 1)
    if x.coeff < 0 then -(q' : Int) else (q' : Int)

/-- `dec_to_i32`: the rounded value, or 0 when it does not fit (`decBasic.c:3850-3860`). -/
def Dec.toI32 (x : Dec) : Int :=
  let r := x.roundHalfEven
  if -2147483648 ≤ r ∧ r ≤ 2147483647 then r else 0

/-- `dec_to_u32`: the rounded value, or 0 when negative or too large (`decBasic.c:3843-3849`). -/
def Dec.toU32 (x : Dec) : Nat :=
  let r := x.roundHalfEven
  if 0 ≤ r ∧ r ≤ 4294967295 then r.toNat else 0

/-- `dec_to_u32(..) as u8` (`number.rs:391`). -/
def Dec.toU8 (x : Dec) : Nat := x.toU32 % 256

/-- `number.trunc() == number`: the decimal is an integer. -/
def Dec.isInt (x : Dec) : Bool :=
  if x.exp ≥ 0 then true else x.coeff % ((10 : Int) ^ (-x.exp).toNat) == 0

/-- The integer value of an integral decimal. -/
def Dec.intVal (x : Dec) : Int :=
  if x.exp ≥ 0 then x.coeff * (10 : Int) ^ x.exp.toNat else x.coeff / ((10 : Int) ^ (-x.exp).toNat)

/-- `TryFrom<(FeelNumber, FeelNumber, FeelNumber)> for FeelDate` (`date.rs:88-105`, since the
repair of F13-round, F13-narrow and F13-year): the components must be integers, the year in
−999999999…999999999, the month in 1…12, the day in 1…31; only then are they narrowed (exactly)
and checked by `is_valid_date`. -/
def dateFromNumbers (yr mo dy : Dec) : Option Date :=
  if yr.isInt && mo.isInt && dy.isInt then
    let y := yr.intVal
    let m := mo.intVal
    let d := dy.intVal
    if (-999999999 ≤ y ∧ y ≤ 999999999) ∧ (1 ≤ m ∧ m ≤ 12) ∧ (1 ≤ d ∧ d ≤ 31) then
      if isValidDate y m.toNat d.toNat then some ⟨y, m.toNat, d.toNat⟩ else none
    else none
  else none

/-! ## Durations (`date.rs:189-205`, `dt_duration.rs`, `ym_duration.rs`) -/

/-- `FeelDate::ym_duration` (`date.rs:189-205`): `self` is the *to* date, `other` the *from*. -/
def Date.ymDuration (self other : Date) : Int :=
  if self.compare other = .lt then
    let months := 12 * (other.y - self.y) + ((other.m : Int) - (self.m : Int))
    let months := if self.d > other.d then months - 1 else months
    months * (-1)
  else
    let months := 12 * (self.y - other.y) + ((self.m : Int) - (other.m : Int))
    if other.d > self.d then months - 1 else months

def usize (n : Int) : Int := n % 18446744073709551616

/-- `get_days` … `get_seconds` (`dt_duration.rs:82-100`): of the absolute value, `as usize`. -/
def dtdDays (n : Int) : Int := usize ((n.natAbs : Int) / nsPerDay)
def dtdHours (n : Int) : Int := usize (((n.natAbs : Int) % nsPerDay) / nsPerHour)
def dtdMinutes (n : Int) : Int := usize (((n.natAbs : Int) % nsPerDay % nsPerHour) / nsPerMinute)
def dtdSeconds (n : Int) : Int :=
  usize (((n.natAbs : Int) % nsPerDay % nsPerHour % nsPerMinute) / nsPerSecond)

/-- `years()` / `months()` (`ym_duration.rs:66-72`): truncating `/` and `%` of `i64`. -/
def ymdYears (n : Int) : Int := Int.tdiv n 12
def ymdMonths (n : Int) : Int := Int.tmod n 12

/-! ## FEEL operators on durations and dates (`build_add` `builders.rs:130-168`, `build_neg`
`:1288-1300`, `build_sub` `:1644-1680`; the arms for years-and-months durations and for the
difference of two days-and-time durations exist since the repair of F21-*). These are the values
on unbounded integers; what the `i64` / `i128` arithmetic of the code does at the ends of its
range (null for years and months durations since the repair 80fdaec, a panic or a wrapped value
for days and time durations, finding F62-dtd-i128) is `Dmn/Model/TemporalMachine.lean`, tied to
these functions by `temporal_machine_eq_ideal` (Props/C05.lean). -/

def feelAddDtd (a b : Int) : Option Int := some (a + b)
def feelNegDtd (a : Int) : Option Int := some (-a)
def feelSubDtd (a b : Int) : Option Int := some (a - b)
/-- `FeelYearsAndMonthsDuration::new_m(lh.as_months() + rh.as_months())` etc. -/
def feelAddYmd (a b : Int) : Option Int := some (a + b)
def feelNegYmd (a : Int) : Option Int := some (-a)
def feelSubYmd (a b : Int) : Option Int := some (a - b)
/-- `build_sub` has no arm for two dates. -/
def feelSubDate (_a _b : Date) : Option Int := none

/-! ## Characters and numerals -/

def isDigit (c : Char) : Bool := decide (48 ≤ c.toNat) && decide (c.toNat ≤ 57)

def digitVal (c : Char) : Nat := c.toNat - 48

def digitChar (n : Nat) : Char :=
  match n % 10 with
  | 0 => '0' | 1 => '1' | 2 => '2' | 3 => '3' | 4 => '4'
  | 5 => '5' | 6 => '6' | 7 => '7' | 8 => '8' | _ => '9'

/-- Value of a digit string (`str::parse` without the range check). -/
def natOfDigits (cs : List Char) : Nat := cs.foldl (fun a c => 10 * a + digitVal c) 0

def natToDigitsAux : Nat → Nat → List Char → List Char
  | 0, _, acc => acc
  | fuel + 1, n, acc =>
    if n < 10 then digitChar n :: acc else natToDigitsAux fuel (n / 10) (digitChar n :: acc)

/-- Decimal numeral of `n` (`{}` of an unsigned integer). -/
def natToDigits (n : Nat) : List Char := natToDigitsAux (n + 1) n []

/-- `{:0w}` of an unsigned integer. -/
def padLeft (w : Nat) (cs : List Char) : List Char := List.replicate (w - cs.length) '0' ++ cs

def pad2 (n : Nat) : List Char := padLeft 2 (natToDigits n)

/-- Longest prefix of digits and the rest. -/
def spanDigits : List Char → List Char × List Char
  | [] => ([], [])
  | c :: cs => if isDigit c then ((spanDigits cs).1.cons c, (spanDigits cs).2) else ([], c :: cs)

/-- Exactly two digits (`[0-9]{2}`), parsed. -/
def twoDigits : List Char → Option (Nat × List Char)
  | a :: b :: rest => if isDigit a && isDigit b then some (digitVal a * 10 + digitVal b, rest) else none
  | _ => none

/-! ## Literal recognisers (`mod.rs:55-73`, `date.rs:53-85`, `mod.rs:226-278, 422-450`,
`zone.rs:80-121`) -/

/-- `DATE_PATTERN` as a prefix recogniser with the field extraction of `TryFrom<&str>`:
`(-)?([0-9]{4}|[1-9][0-9]{4,8})-[0-9]{2}-[0-9]{2}` (four digits may start with zeros since the
repair of F13-lit-year). The year run is maximal because `-` must follow. -/
def dateP (cs : List Char) : Option ((Int × Nat × Nat) × List Char) :=
  let (neg, cs) := match cs with
    | '-' :: r => (true, r)
    | _ => (false, cs)
  let (ys, r) := spanDigits cs
  if 4 ≤ ys.length ∧ ys.length ≤ 9 ∧ (ys.length = 4 ∨ ys.head? ≠ some '0') then
    match r with
    | '-' :: r =>
      match twoDigits r with
      | some (m, '-' :: r) =>
        match twoDigits r with
        | some (d, r) =>
          let y : Int := natOfDigits ys
          some ((if neg then -y else y, m, d), r)
        | none => none
      | _ => none
    | _ => none
  else none

/-- `FeelDate::try_from(&str)` (`date.rs:62-85`). -/
def parseDate (cs : List Char) : Option Date :=
  match dateP cs with
  | some ((y, m, d), []) => if isValidDate y m d then some ⟨y, m, d⟩ else none
  | _ => none

/-- Exact fraction: the first nine digits after the point, right-padded with zeros
(`fraction_to_nanoseconds`, `mod.rs:638-647`). -/
def fracNanos (ds : List Char) : Nat := natOfDigits ((ds ++ List.replicate 9 '0').take 9)

/-- `[a-zA-Z0-9_/+-]` (`ZONE_PATTERN`, `mod.rs:62`; digits, `+` and `-` since the repair of
F26-zonechars). -/
def isZoneChar (c : Char) : Bool :=
  (decide (97 ≤ c.toNat) && decide (c.toNat ≤ 122)) || (decide (65 ≤ c.toNat) && decide (c.toNat ≤ 90)) ||
    (decide (48 ≤ c.toNat) && decide (c.toNat ≤ 57)) || c == '_' || c == '/' || c == '+' || c == '-'

/-- `FeelZone::new` (`zone.rs:70-77`). -/
def Zone.new (offset : Int) : Zone := if offset ≠ 0 then .offset offset else .utc

/-- The optional zone suffix up to the end of the text and `FeelZone::from_captures`
(`zone.rs:81-126`; hours at most 14, minutes and seconds at most 59). `zoneKnown` stands for `name.parse::<chrono_tz::Tz>().is_ok()`.
Outer `none`: the text does not match the pattern; inner `none`: `from_captures` is `None`. -/
def zoneP (zoneKnown : List Char → Bool) (cs : List Char) : Option (Option Zone) :=
  match cs with
  | [] => some (some .localZ)
  | ['z'] => some (some .utc)
  | ['Z'] => some (some .utc)
  | '@' :: name =>
    if name ≠ [] ∧ name.all isZoneChar then
      some (if zoneKnown name then some (.zone name) else none)
    else none
  | sign :: r =>
    if sign = '+' ∨ sign = '-' then
      match twoDigits r with
      | some (hh, ':' :: r) =>
        match twoDigits r with
        | some (mm, r) =>
          let fin (secs : Nat) : Option Zone :=
            let off : Int := 3600 * hh + 60 * mm + secs
            let off := if sign = '-' then -off else off
            if secs > 59 ∨ hh > 14 ∨ mm > 59 then none else some (Zone.new off)
          match r with
          | [] => some (fin 0)
          | ':' :: r =>
            match twoDigits r with
            | some (ss, []) => some (fin ss)
            | _ => none
          | _ => none
        | none => none
      | _ => none
    else none

/-- `is_valid_time` (`mod.rs:644`). -/
def isValidTime (h mi s : Nat) : Bool := decide (h < 24) && decide (mi < 60) && decide (s < 60)

/-- `TIME_PATTERN` followed by the optional zone, to the end of the text; returns the fields as
the code extracts them (`parse_time_literal`, `mod.rs:422-450`), before validation. -/
def timeP (zoneKnown : List Char → Bool) (cs : List Char) : Option (Nat × Nat × Nat × Nat × Option Zone) :=
  match twoDigits cs with
  | some (h, ':' :: r) =>
    match twoDigits r with
    | some (mi, ':' :: r) =>
      match twoDigits r with
      | some (s, r) =>
        let fr : Option (Nat × List Char) :=
          match r with
          | '.' :: r' =>
            let (ds, r'') := spanDigits r'
            if ds = [] then none else some (fracNanos ds, r'')
          | _ => some (0, r)
        match fr with
        | some (ns, r) =>
          match zoneP zoneKnown r with
          | some z => some (h, mi, s, ns, z)
          | none => none
        | none => none
      | none => none
    | _ => none
  | _ => none

/-- `parse_time_literal` (`mod.rs:422-450`). -/
def parseTimeLiteral (zoneKnown : List Char → Bool) (cs : List Char) : Option Time :=
  match timeP zoneKnown cs with
  | some (h, mi, s, ns, some z) => if isValidTime h mi s then some ⟨h, mi, s, ns, z⟩ else none
  | _ => none

/-- `FromStr for FeelTime` (`mod.rs:90-101`): the parsed time must also convert to chrono with
today's date (always inside chrono's range); for `Local`/named zones the offset lookup succeeds
whenever the time itself is acceptable to chrono (the zone name was checked by `zoneP`). -/
def parseTime (zoneKnown : List Char → Bool) (cs : List Char) : Option Time :=
  match parseTimeLiteral zoneKnown cs with
  | some t => if chronoTimeOk t.h t.mi t.s (u32 t.ns) then some t else none
  | none => none

/-- `FeelDateTime::try_from(&str)` (`mod.rs:226-278`). -/
def parseDateTime (zoneKnown : List Char → Bool) (cs : List Char) : Option DateTime :=
  match dateP cs with
  | some ((y, m, d), 'T' :: r) =>
    match timeP zoneKnown r with
    | some (h, mi, s, ns, z) =>
      if isValidDate y m d then
        match z with
        | some z => if isValidTime h mi s then some ⟨⟨y, m, d⟩, ⟨h, mi, s, ns, z⟩⟩ else none
        | none => none
      else none
    | none => none
  | _ => none

/-! ## `time(h, m, s)` and `time(h, m, s, offset)` from numbers (`core.rs:1185-1245`) -/

/-- `0 ≤ x < k` on a decimal (`(0..k).contains(x)` through `PartialOrd<isize>`). -/
def Dec.inRange (x : Dec) (k : Int) : Bool :=
  if x.exp ≥ 0 then decide (0 ≤ x.coeff) && decide (x.coeff * (10 : Int) ^ x.exp.toNat < k)
  else decide (0 ≤ x.coeff) && decide (x.coeff < k * (10 : Int) ^ (-x.exp).toNat)

/-- `second.trunc()` and `(second.fract() * 1e9).trunc()` for `0 ≤ second` — exact decimal
arithmetic. -/
def Dec.secondsAndNanos (x : Dec) : Nat × Nat :=
  if x.exp ≥ 0 then ((x.coeff * (10 : Int) ^ x.exp.toNat).toNat, 0)
  else
    let p : Nat := 10 ^ (-x.exp).toNat
    let a := x.coeff.toNat
    (a / p, (a % p) * 1000000000 / p)

/-- `time_3` / `time_4` (`core.rs:1185-1245`): hour and minute must be integers (since the repair
of F27-time-round; they then go through `to_u8` exactly), the seconds are split exactly;
`offset = none` is the three-argument form (or a `null` fourth argument), `some n` a
days-and-time duration of `n` nanoseconds whose whole seconds (`as_seconds()`) must lie within
±14:59:59 (since the repair of F27-time-offset). -/
def timeFromNumbers (h mi s : Dec) (offset : Option Int) : Option Time :=
  if h.inRange 24 && mi.inRange 60 && s.inRange 60 && h.isInt && mi.isInt then
    let (sec, ns) := s.secondsAndNanos
    let hour := h.toU8
    let minute := mi.toU8
    let second := sec % 256
    match offset with
    | none => if isValidTime hour minute second then some ⟨hour, minute, second, ns, .localZ⟩ else none
    | some n =>
      let secs := Int.tdiv n 1000000000
      if -53999 ≤ secs ∧ secs ≤ 53999 then
        if isValidTime hour minute second then some ⟨hour, minute, second, ns, Zone.new secs⟩ else none
      else none
  else none

/-! ## Duration literals (`dt_duration.rs:131-230`, `ym_duration.rs:83-126`) -/

/-- Result of reading a literal: a value, rejection, or a panic (arithmetic overflow in a build
with overflow checks). -/
inductive Lit (α : Type) where
  | ok (v : α)
  | reject
  | panic
  deriving Repr, DecidableEq

def u64Max : Nat := 18446744073709551615

/-- `[0-9]+X`: a non-empty digit run followed by the designator `x`. -/
def compP (x : Char) (cs : List Char) : Option (List Char × List Char) :=
  let (ds, r) := spanDigits cs
  match r with
  | c :: r' => if ds ≠ [] ∧ c = x then some (ds, r') else none
  | [] => none

/-- An optional component: when `[0-9]+X` is not there, nothing is consumed. -/
def optCompP (x : Char) (cs : List Char) : Option (List Char) × List Char :=
  match compP x cs with
  | some (ds, r) => (some ds, r)
  | none => (none, cs)

/-- `str::parse::<u64>()` of a digit run. -/
def parseU64 (ds : List Char) : Option Nat :=
  let n := natOfDigits ds
  if n ≤ u64Max then some n else none

/-- `x as i64` for `x : u64`. -/
def asI64 (n : Nat) : Int := if (n : Int) ≤ i64Max then n else (n : Int) - 18446744073709551616

def inI64 (n : Int) : Bool := decide (i64Min ≤ n) && decide (n ≤ i64Max)

/-- `str::parse::<i64>()` of a digit run. -/
def parseI64 (ds : List Char) : Option Int :=
  let n := natOfDigits ds
  if (n : Int) ≤ i64Max then some (n : Int) else none

/-- `FeelYearsAndMonthsDuration::try_from(&str)` (`ym_duration.rs:98-136`):
`^(-)?P([0-9]+Y)?([0-9]+M)?$`; the components are parsed as `i64` and combined with
`checked_mul` / `checked_add`: anything beyond `i64::MAX` months is an error (since the repair
of F25-dur-wrap / F5-dur; no panic is left, `Lit.panic` is not produced any more). -/
def parseYmDur (cs : List Char) : Lit Int :=
  let (neg, cs) := match cs with
    | '-' :: r => (true, r)
    | _ => (false, cs)
  match cs with
  | 'P' :: r =>
    let (ys, r) := optCompP 'Y' r
    let (ms, r) := optCompP 'M' r
    if r ≠ [] then .reject
    else
      let afterYears : Option Int :=   -- `none` = the literal is an error
        match ys with
        | some d => (parseI64 d).bind (fun y => if y * 12 ≤ i64Max then some (y * 12) else none)
        | none => some 0
      match afterYears with
      | none => .reject
      | some t =>
        let afterMonths : Option Int :=
          match ms with
          | some d => (parseI64 d).bind (fun m => if t + m ≤ i64Max then some (t + m) else none)
          | none => some t
        match afterMonths with
        | none => .reject
        | some t =>
          let t := if neg then -t else t
          if ys.isSome ∨ ms.isSome then .ok t else .reject
  | _ => .reject

/-- A captured component whose digits do not fit `u64`: the literal is an error
(`dt_duration.rs:193-224`, since the repair of F25-dur-skip). -/
def compBad (s : Option (List Char)) : Bool :=
  match s with
  | some d => (parseU64 d).isNone
  | none => false

/-- `FeelDaysAndTimeDuration::try_from(&str)` (`dt_duration.rs:182-230`):
`^(-)?P([0-9]+D)?(T([0-9]+H)?([0-9]+M)?([0-9]+(\.[0-9]*)?S)?)?$`; a text ending in `T` and a
component beyond `u64` are errors. `i128` cannot overflow here. -/
def parseDtDur (cs : List Char) : Lit Int :=
  let (neg, cs) := match cs with
    | '-' :: r => (true, r)
    | _ => (false, cs)
  match cs with
  | 'P' :: r =>
    let (ds, r) := optCompP 'D' r
    let timePart : Option (Option (List Char) × Option (List Char) × Option (List Char) × Option (List Char)) :=
      match r with
      | [] => some (none, none, none, none)
      | 'T' :: r =>
        if r = [] then none   -- `value.ends_with('T')`
        else
        let (hs, r) := optCompP 'H' r
        let (ms, r) := optCompP 'M' r
        -- seconds with optional fraction
        let (ss, r') := spanDigits r
        if ss = [] then (if r = [] then some (hs, ms, none, none) else none)
        else
          match r' with
          | ['S'] => some (hs, ms, some ss, none)
          | '.' :: r'' =>
            let (fs, r''') := spanDigits r''
            if r''' = ['S'] then some (hs, ms, some ss, some fs) else none
          | _ => none
      | _ => none
    match timePart with
    | none => .reject
    | some (hs, ms, ss, fs) =>
      let dv := ds.bind parseU64
      let hv := hs.bind parseU64
      let mv := ms.bind parseU64
      let sv := ss.bind parseU64
      -- an empty fraction (`.` alone) contributes nothing and validates nothing
      let fv : Option Nat := match fs with
        | some f => if f = [] then none else some (fracNanos f)
        | none => none
      let n : Int := (dv.getD 0 : Nat) * nsPerDay + (hv.getD 0 : Nat) * nsPerHour +
        (mv.getD 0 : Nat) * nsPerMinute + (sv.getD 0 : Nat) * nsPerSecond + (fv.getD 0 : Nat)
      let n := if neg then -n else n
      if compBad ds || compBad hs || compBad ms || compBad ss then .reject
      else if dv.isSome ∨ hv.isSome ∨ mv.isSome ∨ sv.isSome ∨ fv.isSome then .ok n else .reject
  | _ => .reject

/-! ## Printers (`Display`) -/

/-- The sign, then `{:04}` of the absolute value of the year (`date.rs:53-58`, since the repair of
F13-print-year). -/
def printYear (y : Int) : List Char :=
  if y < 0 then '-' :: padLeft 4 (natToDigits y.natAbs) else padLeft 4 (natToDigits y.natAbs)

/-- `Display for FeelDate` (`date.rs:53-57`). -/
def printDate (d : Date) : List Char :=
  printYear d.y ++ '-' :: pad2 d.m ++ '-' :: pad2 d.d

def dropTrailingZeros (cs : List Char) : List Char :=
  (cs.reverse.dropWhile (· == '0')).reverse

/-- `nanoseconds_to_string` (`mod.rs:630-642`). -/
def nanosToString (ns : Nat) : List Char :=
  dropTrailingZeros (padLeft 9 (natToDigits (ns % 1000000000)))

/-- `Display for FeelZone` (`zone.rs:49-69`): the sign of the offset, then hours, minutes and
seconds of its absolute value. -/
def printZone : Zone → List Char
  | .utc => ['Z']
  | .localZ => []
  | .offset o =>
    let hours := o.natAbs / 3600
    let minutes := (o.natAbs % 3600) / 60
    let seconds := (o.natAbs % 3600) % 60
    let hh := (if o < 0 then '-' else '+') :: pad2 hours
    if seconds > 0 then hh ++ ':' :: pad2 minutes ++ ':' :: pad2 seconds
    else hh ++ ':' :: pad2 minutes
  | .zone name => '@' :: name

/-- `Display for FeelTime` (`mod.rs:80-88`). -/
def printTime (t : Time) : List Char :=
  if t.ns > 0 then
    pad2 t.h ++ ':' :: pad2 t.mi ++ ':' :: pad2 t.s ++ '.' :: nanosToString t.ns ++ printZone t.z
  else pad2 t.h ++ ':' :: pad2 t.mi ++ ':' :: pad2 t.s ++ printZone t.z

/-- `Display for FeelDateTime` (`mod.rs:220-224`). -/
def printDateTime (dt : DateTime) : List Char :=
  printDate dt.date ++ 'T' :: printTime dt.time

/-- A duration component as printed: `<n><X>` when positive, nothing otherwise. -/
def compStr (v : Nat) (x : Char) : List Char := if v > 0 then natToDigits v ++ [x] else []

/-- `Display for FeelYearsAndMonthsDuration` (`ym_duration.rs:83-96`). -/
def printYmDur (n : Int) : List Char :=
  let sign : List Char := if n < 0 then ['-'] else []
  let year := n.natAbs / 12
  let month := n.natAbs % 12
  if year = 0 ∧ month = 0 then ['P', '0', 'M']
  else sign ++ 'P' :: (compStr year 'Y' ++ compStr month 'M')

/-- The seconds of a days-and-time duration as printed: `s.f`, `0.f`, `s` or nothing. -/
def secStr (second nanos : Nat) : List Char :=
  if nanos > 0 then natToDigits second ++ '.' :: nanosToString nanos ++ ['S']
  else compStr second 'S'

/-- `Display for FeelDaysAndTimeDuration` (`dt_duration.rs:131-180`): the 32-arm `match` written
as what it amounts to — each component appears when positive, `T` when any time component
does, seconds as `s`, `s.f` or `0.f`. -/
def printDtDur (n : Int) : List Char :=
  let sign : List Char := if n < 0 then ['-'] else []
  let a := n.natAbs
  let day := a / 86400000000000
  let hour := (a % 86400000000000) / 3600000000000
  let minute := (a % 3600000000000) / 60000000000
  let second := (a % 60000000000) / 1000000000
  let nanos := a % 1000000000
  if a = 0 then ['P', 'T', '0', 'S']
  else
    sign ++ 'P' :: (compStr day 'D' ++
      (if hour > 0 ∨ minute > 0 ∨ second > 0 ∨ nanos > 0 then
        'T' :: (compStr hour 'H' ++ (compStr minute 'M' ++ secStr second nanos))
       else []))

/-! ## FEEL-level entry points -/

/-- An observable FEEL value of the temporal fragment. -/
inductive Value where
  | null
  | date (d : Date)
  | time (t : Time)
  | dateTime (dt : DateTime)
  | dtDur (ns : Int)
  | ymDur (months : Int)
  | panic
  deriving Repr, DecidableEq

/-- `date("…")` (`core.rs:216-230`). -/
def bifDate (cs : List Char) : Value :=
  match parseDate cs with
  | some d => .date d
  | none => .null

/-- `time("…")` (`core.rs:1169-1183`). -/
def bifTime (zk : List Char → Bool) (cs : List Char) : Value :=
  match parseTime zk cs with
  | some t => .time t
  | none => .null

/-- `date and time("…")` (`core.rs:258-271`): a date-only text gives local midnight. -/
def bifDateTime (zk : List Char → Bool) (cs : List Char) : Value :=
  match parseDateTime zk cs with
  | some dt => .dateTime dt
  | none =>
    match parseDate cs with
    | some d => .dateTime ⟨d, ⟨0, 0, 0, 0, .localZ⟩⟩
    | none => .null

/-- `duration("…")` (`core.rs:325-338`): years-and-months first. -/
def bifDuration (cs : List Char) : Value :=
  match parseYmDur cs with
  | .ok n => .ymDur n
  | .panic => .panic
  | .reject =>
    match parseDtDur cs with
    | .ok n => .dtDur n
    | .panic => .panic
    | .reject => .null

/-- `@"…"` (`builders.rs:164-182`). -/
def atLiteral (zk : List Char → Bool) (cs : List Char) : Value :=
  match parseDate cs with
  | some d => .date d
  | none =>
    match parseDateTime zk cs with
    | some dt => .dateTime dt
    | none =>
      match parseTime zk cs with
      | some t => .time t
      | none =>
        match parseYmDur cs with
        | .ok n => .ymDur n
        | .panic => .panic
        | .reject =>
          match parseDtDur cs with
          | .ok n => .dtDur n
          | .panic => .panic
          | .reject => .null

/-- `string(v)` on temporal values: `Display`. `i64::MIN` months (the result of a subtraction; no
literal denotes them) are printed through `unsigned_abs()` since the repair e101009
(`ym_duration.rs:86-89`; `Dmn.TemporalMachine.ymPrint_eq`); `Lit.panic` is not produced any more. -/
def printValue : Value → Lit (List Char)
  | .date d => .ok (printDate d)
  | .time t => .ok (printTime t)
  | .dateTime dt => .ok (printDateTime dt)
  | .dtDur n => .ok (printDtDur n)
  | .ymDur n => .ok (printYmDur n)
  | .null => .reject
  | .panic => .reject

end Dmn.Temporal
