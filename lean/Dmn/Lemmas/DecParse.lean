import Dmn.Lemmas.DecShape
import Dmn.Lemmas.DecRound
import Dmn.Lemmas.DecTrailing

/-! `decQuadFromString` (`ofString`) on plain texts and literals. -/

namespace Dmn
namespace D128

theorem stripSign_sign (n : Bool) (c : Char) (l : List Char) (hc : isDigit c = true) :
    stripSign (signOf n ++ c :: l) = (n, c :: l) := by
  cases n with
  | true => rfl
  | false =>
    simp only [signOf, List.nil_append]
    unfold stripSign
    split
    · next heq => injection heq with h1 _; exact absurd h1 (isDigit_ne_minus hc)
    · next heq => injection heq with h1 _; exact absurd h1 (isDigit_ne_plus hc)
    · rfl

theorem ofString_int (n : Bool) (c : Char) (l : List Char) (h : AllDigits (c :: l)) :
    ofString (signOf n ++ c :: l) = ofDigits n (c :: l) [] 0 := by
  unfold ofString
  rw [stripSign_sign n c l (h c (by simp))]
  simp only []
  rw [spanDigits_allDigits _ h]
  simp [fracPart, parseExp]

theorem ofString_frac (n : Bool) (c : Char) (l : List Char) (f : Char) (fs : List Char)
    (h : AllDigits (c :: l)) (hf : AllDigits (f :: fs)) :
    ofString (signOf n ++ ((c :: l) ++ '.' :: (f :: fs))) = ofDigits n (c :: l) (f :: fs) 0 := by
  unfold ofString
  have e1 : signOf n ++ ((c :: l) ++ '.' :: (f :: fs)) = signOf n ++ c :: (l ++ '.' :: (f :: fs)) := by simp
  rw [e1, stripSign_sign n c _ (h c (by simp))]
  simp only []
  have h2 := spanDigits_append (c :: l) '.' (f :: fs) h isDigit_false_dot
  simp only [List.cons_append] at h2
  rw [h2]
  simp only [fracPart]
  rw [spanDigits_allDigits _ hf]
  simp [parseExp]

/-- digits with scale `e ≤ 0`, at most 34 significant digits, exponent in range: exact -/
theorem ofDigits_exact (n : Bool) (ip fp : List Char) (hc : readNat (ip ++ fp) < 10 ^ 34)
    (hfl : fp.length ≤ 6176) :
    ofDigits n ip fp 0 = .fin ⟨n, readNat (ip ++ fp), -(fp.length : Int)⟩ := by
  unfold ofDigits
  simp only []
  rw [if_neg (by omega), if_neg (by
    intro hh
    have := hh.2
    simp only [List.length_append] at this
    omega)]
  by_cases h0 : readNat (ip ++ fp) = 0
  · rw [if_pos h0, h0, clampExp_id _ (by omega) (by omega)]
    simp
  · rw [if_neg h0]
    have : (0 : Int) - (fp.length : Int) = -(fp.length : Int) := by omega
    rw [this, finalize_exact n _ _ hc h0 (by omega) (by omega)]

/-- reading the expected rendering back: same sign, the integer `coeff·10^exp` when `exp ≥ 0`
(if it has at most 34 digits), the same coefficient and exponent when `exp < 0` -/
theorem ofString_plainSpec (d : D128) (hwf : WF d) (hfit : d.coeff * 10 ^ d.exp.toNat < 10 ^ 34) :
    ofString (plainSpec d) = .fin ⟨d.neg, d.coeff * 10 ^ d.exp.toNat, min d.exp 0⟩ := by
  obtain ⟨hc, hlo, hhi⟩ := hwf
  obtain ⟨c, rest, hcr⟩ := natDigits_cons d.coeff
  have hds : AllDigits (c :: rest) := hcr ▸ allDigits_natDigits d.coeff
  have hval : readNat (c :: rest) = d.coeff := hcr ▸ readNat_natDigits d.coeff
  rw [plainSpec_eq d c rest hcr]
  by_cases h0 : d.exp ≥ 0
  · rw [if_pos h0]
    have e1 : signOf d.neg ++ c :: rest ++ zeros (zexp d) = signOf d.neg ++ c :: (rest ++ zeros (zexp d)) := by simp
    have hall : AllDigits (c :: (rest ++ zeros (zexp d))) := by
      have := hds.append (allDigits_zeros (zexp d))
      simpa using this
    have hrd : readNat (c :: (rest ++ zeros (zexp d)) ++ []) = d.coeff * 10 ^ d.exp.toNat := by
      have e2 : c :: (rest ++ zeros (zexp d)) ++ [] = (c :: rest) ++ zeros (zexp d) := by simp
      rw [e2, readNat_append_zeros, hval, coeff_zexp]
    rw [e1, ofString_int _ _ _ hall, ofDigits_exact _ _ _ (by rw [hrd]; exact hfit) (by simp), hrd]
    have : min d.exp 0 = 0 := by omega
    rw [this]; simp
  · rw [if_neg h0]
    have hz : d.exp.toNat = 0 := by omega
    have hmin : min d.exp 0 = d.exp := by omega
    rw [hz, Nat.pow_zero, Nat.mul_one, hmin]
    by_cases hf : (-d.exp).toNat < rest.length + 1
    · rw [if_pos hf]
      have hj : rest.length + 1 - (-d.exp).toNat = (rest.length - (-d.exp).toNat) + 1 := by omega
      rw [hj]
      simp only [List.take_succ_cons, List.drop_succ_cons]
      obtain ⟨f, fs, hfr⟩ := exists_cons_of_ne_nil (rest.drop (rest.length - (-d.exp).toNat)) (by
        intro hnil
        have := congrArg List.length hnil
        simp only [List.length_drop, List.length_nil] at this
        omega)
      have hlenf : (f :: fs).length = (-d.exp).toNat := by
        rw [← hfr, List.length_drop]; omega
      have hcat : (c :: rest.take (rest.length - (-d.exp).toNat)) ++ (f :: fs) = c :: rest := by
        rw [← hfr]; simp
      rw [hfr]
      have e1 : signOf d.neg ++ c :: rest.take (rest.length - (-d.exp).toNat) ++ ['.'] ++ f :: fs
          = signOf d.neg ++ ((c :: rest.take (rest.length - (-d.exp).toNat)) ++ '.' :: (f :: fs)) := by simp
      rw [e1, ofString_frac, ofDigits_exact, hcat, hval, hlenf]
      · have : -(((-d.exp).toNat : Nat) : Int) = d.exp := by omega
        rw [this]
      · rw [hcat, hval]; exact hc
      · rw [hlenf]; omega
      · intro x hx
        rcases List.mem_cons.mp hx with hx | hx
        · exact hds x (by simp [hx])
        · exact hds x (by simp [List.mem_of_mem_take hx])
      · intro x hx
        rw [← hfr] at hx
        exact hds x (by simp [List.mem_of_mem_drop hx])
    · rw [if_neg hf]
      obtain ⟨f, fs, hfr⟩ := exists_cons_of_ne_nil (zeros ((-d.exp).toNat - (rest.length + 1)) ++ c :: rest) (by simp)
      have e1 : signOf d.neg ++ ['0', '.'] ++ zeros ((-d.exp).toNat - (rest.length + 1)) ++ c :: rest
          = signOf d.neg ++ (['0'] ++ '.' :: (zeros ((-d.exp).toNat - (rest.length + 1)) ++ c :: rest)) := by simp
      have hlenf : (f :: fs).length = (-d.exp).toNat := by
        rw [← hfr]
        simp only [List.length_append, length_zeros, List.length_cons]
        omega
      have hrd : readNat (['0'] ++ (f :: fs)) = d.coeff := by
        rw [← hfr]
        have e2 : ['0'] ++ (zeros ((-d.exp).toNat - (rest.length + 1)) ++ c :: rest)
            = zeros ((-d.exp).toNat - (rest.length + 1) + 1) ++ c :: rest := by
          simp [zeros, List.replicate_succ]
        rw [e2, readNat_zeros_append, hval]
      rw [e1, hfr, ofString_frac, ofDigits_exact, hrd, hlenf]
      · have : -(((-d.exp).toNat : Nat) : Int) = d.exp := by omega
        rw [this]
      · rw [hrd]; exact hc
      · rw [hlenf]; omega
      · intro x hx; simp at hx; subst hx; decide
      · rw [← hfr]
        exact (allDigits_zeros _).append hds

/-- reading back the rendering of a number with non-negative exponent (any number of digits):
a finite number of the same value -/
theorem ofString_plainSpec_pos (d : D128) (hwf : WF d) (h0 : d.exp ≥ 0) :
    ∃ d' : D128, ofString (plainSpec d) = .fin d' ∧ SameValue d' d := by
  obtain ⟨hc, hlo, hhi⟩ := hwf
  obtain ⟨c, rest, hcr⟩ := natDigits_cons d.coeff
  have hds : AllDigits (c :: rest) := hcr ▸ allDigits_natDigits d.coeff
  have hval : readNat (c :: rest) = d.coeff := hcr ▸ readNat_natDigits d.coeff
  rw [plainSpec_eq d c rest hcr, if_pos h0]
  have e1 : signOf d.neg ++ c :: rest ++ zeros (zexp d) = signOf d.neg ++ c :: (rest ++ zeros (zexp d)) := by simp
  have hall : AllDigits (c :: (rest ++ zeros (zexp d))) := by
    have := hds.append (allDigits_zeros (zexp d))
    simpa using this
  have hrd : readNat (c :: (rest ++ zeros (zexp d)) ++ []) = d.coeff * 10 ^ d.exp.toNat := by
    have e2 : c :: (rest ++ zeros (zexp d)) ++ [] = (c :: rest) ++ zeros (zexp d) := by simp
    rw [e2, readNat_append_zeros, hval, coeff_zexp]
  rw [e1, ofString_int _ _ _ hall]
  unfold ofDigits
  simp only []
  rw [hrd]
  rw [if_neg (by simp), if_neg (by
    intro hh
    have := hh.2
    simp only [List.length_append, List.length_nil] at this
    omega)]
  by_cases hz : d.coeff = 0
  · have : d.coeff * 10 ^ d.exp.toNat = 0 := by rw [hz]; simp
    rw [if_pos this]
    refine ⟨_, rfl, ?_⟩
    unfold SameValue scaled sint
    simp [hz]
  · have hne : d.coeff * 10 ^ d.exp.toNat ≠ 0 :=
      Nat.mul_ne_zero hz (by have := pow10_pos d.exp.toNat; omega)
    rw [if_neg hne]
    have hsub : (0 : Int) - (([] : List Char).length : Int) = 0 := by simp
    rw [hsub]
    obtain ⟨d', h1, h2, h3, h4⟩ := finalize_trailing d.neg d.coeff d.exp.toNat hz hc (by omega)
    refine ⟨d', h1, ?_⟩
    unfold SameValue scaled
    rw [h2]
    congr 1
    -- divide the equality of the integers by the common power of ten
    have hs : 0 ≤ min d'.exp d.exp := by omega
    have hp := pow10_pos (min d'.exp d.exp).toNat
    apply Nat.eq_of_mul_eq_mul_right hp
    rw [Nat.mul_assoc, Nat.mul_assoc, ← pow10_add, ← pow10_add]
    have a1 : (d'.exp - min d'.exp d.exp).toNat + (min d'.exp d.exp).toNat = d'.exp.toNat := by omega
    have a2 : (d.exp - min d'.exp d.exp).toNat + (min d'.exp d.exp).toNat = d.exp.toNat := by omega
    rw [a1, a2, h4]

end D128
end Dmn
