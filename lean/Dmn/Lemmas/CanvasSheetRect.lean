import Dmn.Lemmas.CanvasKeyH

/-!
# The regions of the sheet of a table are rectangles, part 2

`run_interval`: the rules covered by a merged input entry cell are consecutive.  `keyH_rect`: the
cells with the key of a cell are exactly a rectangle of lanes and positions.  `rectSheet_sheetOf`:
the sheet of every table (both orientations, merged input entries or not) is a `RectSheet`.
-/

namespace Dmn.Recog

/-! ## Runs -/

section
variable (f : Nat → Nat) (hle : ∀ i, f i ≤ i) (hstep : ∀ i, f (i + 1) = f i ∨ f (i + 1) = i + 1)
include hle hstep

theorem run_mono : ∀ d i, f i ≤ f (i + d)
  | 0, _ => Nat.le_refl _
  | d + 1, i => by
    have := run_mono d i
    rcases hstep (i + d) with h | h
    · rw [← Nat.add_assoc, h]; exact this
    · rw [← Nat.add_assoc, h]; have := hle i; omega

theorem run_back (r : Nat) : ∀ d, d ≤ r - f r → f (r - d) = f r
  | 0, _ => rfl
  | d + 1, hd => by
    have ih := run_back r d (by omega)
    have hj : r - d = (r - (d + 1)) + 1 := by omega
    rw [hj] at ih
    rcases hstep (r - (d + 1)) with h | h
    · rw [← h]; exact ih
    · rw [h] at ih; omega

theorem run_after (r j : Nat) (hj : r < j) (hne : f j ≠ f r) : ∀ i, j ≤ i → f i ≠ f r := by
  intro i hi
  have h1 := run_mono f hle hstep (j - r) r
  rw [show r + (j - r) = j by omega] at h1
  have h2 := run_mono f hle hstep (i - j) j
  rw [show j + (i - j) = i by omega] at h2
  omega

theorem run_extent (r : Nat) : ∀ n, ∃ e, r ≤ e ∧ e < r + 1 + n ∧ (∀ i, r ≤ i → i ≤ e → f i = f r) ∧
    (∀ i, e < i → i < r + 1 + n → f i ≠ f r)
  | 0 => ⟨r, Nat.le_refl _, by omega, fun i h1 h2 => by rw [show i = r by omega], fun i h1 h2 => by omega⟩
  | n + 1 => by
    obtain ⟨e, h1, h2, h3, h4⟩ := run_extent r n
    by_cases h : f (r + 1 + n) = f r
    · have he : e + 1 = r + 1 + n := by
        by_cases hlt : e + 1 < r + 1 + n
        · exact absurd h (run_after f hle hstep r (e + 1) (by omega) (h4 (e + 1) (by omega) hlt) _ (by omega))
        · omega
      refine ⟨r + 1 + n, by omega, by omega, ?_, fun i h5 h6 => by omega⟩
      intro i h5 h6
      by_cases hie : i ≤ e
      · exact h3 i h5 hie
      · rw [show i = r + 1 + n by omega]; exact h
    · refine ⟨e, h1, by omega, h3, ?_⟩
      intro i h5 h6
      by_cases hlt : i < r + 1 + n
      · exact h4 i h5 hlt
      · rw [show i = r + 1 + n by omega]; exact h

/-- the indices with the value `f r` below `R` are the interval from `f r` to some `e ≥ r` -/
theorem run_interval (R r : Nat) (hr : r < R) :
    ∃ e, r ≤ e ∧ e < R ∧ ∀ r', r' < R → (f r' = f r ↔ f r ≤ r' ∧ r' ≤ e) := by
  obtain ⟨e, h1, h2, h3, h4⟩ := run_extent f hle hstep r (R - r - 1)
  refine ⟨e, h1, by omega, ?_⟩
  intro r' hr'
  constructor
  · intro h
    refine ⟨by rw [← h]; exact hle r', ?_⟩
    by_cases hlt : e < r'
    · exact absurd h (h4 r' hlt (by omega))
    · omega
  · rintro ⟨h5, h6⟩
    by_cases hrr : r ≤ r'
    · exact h3 r' hrr h6
    · have := run_back f hle hstep r (r - r') (by omega)
      rw [show r - (r - r') = r' by omega] at this
      exact this

end

theorem entryOwner_step (d : Decor) (t : TableSpec) (j r : Nat) :
    entryOwner d t (r + 1) j = entryOwner d t r j ∨ entryOwner d t (r + 1) j = r + 1 := by
  unfold entryOwner
  split
  · simp only [runStart]
    split
    · split
      · exact Or.inl rfl
      · exact Or.inr rfl
    · exact Or.inr rfl
  · exact Or.inr rfl

section
variable (d : Decor) (t : TableSpec)

/-! ## All cells within the bounds of a key have that key -/

theorem keyH_same (i p i' p' : Nat) (hi : i < t.headerRows + t.rules.length)
    (hp : p < 1 + t.inputs.length + t.outputs.length + t.annotations.length)
    (hi' : i' < t.headerRows + t.rules.length)
    (hp' : p' < 1 + t.inputs.length + t.outputs.length + t.annotations.length)
    (hne : ∀ o j, keyH d t i p ≠ .inE o j)
    (h : (kLane d t (keyH d t i p)).1 ≤ i' ∧ i' ≤ (kLane d t (keyH d t i p)).2 ∧
      (kPos t.inputs.length t.outputs.length (keyH d t i p)).1 ≤ p' ∧
      p' ≤ (kPos t.inputs.length t.outputs.length (keyH d t i p)).2) :
    keyH d t i' p' = keyH d t i p := by
  have info := keyH_info d t i p hi hp
  have hH := headerRows_eq t
  have hl1 := hl_le t
  have hv1 := hv_le t
  unfold InBounds at info
  -- a key that stands in one cell only
  have single : (kLane d t (keyH d t i p)).1 = (kLane d t (keyH d t i p)).2 →
      (kPos t.inputs.length t.outputs.length (keyH d t i p)).1 =
        (kPos t.inputs.length t.outputs.length (keyH d t i p)).2 →
      keyH d t i' p' = keyH d t i p := by
    intro e1 e2
    have := info.2.1 hne
    have hi2 : i' = i := by omega
    have hp2 : p' = p := by omega
    rw [hi2, hp2]
  have noVal : ∀ i', i' ≤ hl t → ¬ (t.hasValues && i' + 1 == t.headerRows) = true := by
    intro i' hle hc
    have := (isVal_iff t i').mp hc
    omega
  generalize hK : keyH d t i p = K at *
  cases K with
  | hpBlank => exact single rfl rfl
  | comp j => exact single rfl rfl
  | inVal j => exact single rfl rfl
  | outVal j => exact single rfl rfl
  | annBlank j => exact single rfl rfl
  | ruleNo r => exact single rfl rfl
  | outE r j => exact single rfl rfl
  | annE r j => exact single rfl rfl
  | inE o j => exact absurd rfl (hne o j)
  | hp =>
    simp only [kLane, kPos] at h
    have hp0 : p' = 0 := by omega
    subst hp0
    rw [keyH_zero]
    by_cases hsv : (d.split && t.hasValues) = true
    · rw [if_pos hsv] at h
      rw [if_pos (by omega)]
      rw [if_neg]
      intro hc
      simp only [Bool.and_eq_true] at hc
      exact noVal i' h.2.1 (by simpa using hc.2)
    · rw [if_neg hsv] at h
      rw [if_pos (by omega)]
      rw [if_neg]
      intro hc
      simp only [Bool.and_eq_true] at hc
      have := (isVal_iff t i').mp (by simpa using hc.2)
      exact hsv (by simp [hc.1, this.1])
  | ann j =>
    simp only [kLane, kPos] at h
    have hpe : p' = t.inputs.length + t.outputs.length + 1 + j := by omega
    subst hpe
    rw [keyH_ann d t i' _ (by omega)]
    have hj : t.inputs.length + t.outputs.length + 1 + j - 1 - t.inputs.length - t.outputs.length = j := by
      omega
    rw [hj]
    by_cases hsv : (d.split && t.hasValues) = true
    · rw [if_pos hsv] at h
      rw [if_pos (by omega)]
      rw [if_neg]
      intro hc
      simp only [Bool.and_eq_true] at hc
      exact noVal i' h.2.1 (by simpa using hc.2)
    · rw [if_neg hsv] at h
      rw [if_pos (by omega)]
      rw [if_neg]
      intro hc
      simp only [Bool.and_eq_true] at hc
      have := (isVal_iff t i').mp (by simpa using hc.2)
      exact hsv (by simp [hc.1, this.1])
  | expr j =>
    simp only [kLane, kPos, kOk] at h info
    have hpe : p' = j + 1 := by omega
    subst hpe
    rw [keyH_in d t i' _ (by omega) (by omega), if_pos (by omega), if_neg (noVal i' h.2.1),
      Nat.add_sub_cancel]
  | label =>
    simp only [kLane, kPos, kOk] at h info
    have hi0 : i' = 0 := by omega
    subst hi0
    rw [keyH_out d t 0 p' (by omega) (by omega), if_pos (by omega), if_neg (noVal 0 (by omega))]
    rw [if_pos]
    rcases info.2.2.2.2 with hm | hL
    · simp [hm]
    · simp [hL]

/-! ## The rectangle of a key -/

/-- **The cells with the key of a cell are exactly a rectangle of lanes and positions**; position
0 (hit policy, rule numbers) is never joined with another position. -/
theorem keyH_rect (i p : Nat) (hi : i < t.headerRows + t.rules.length)
    (hp : p < 1 + t.inputs.length + t.outputs.length + t.annotations.length) :
    ∃ i0 i1 p0 p1, i0 ≤ i ∧ i ≤ i1 ∧ i1 < t.headerRows + t.rules.length ∧ p0 ≤ p ∧ p ≤ p1 ∧
      p1 < 1 + t.inputs.length + t.outputs.length + t.annotations.length ∧ (p0 = 0 → p1 = 0) ∧
      ∀ i' p', i' < t.headerRows + t.rules.length →
        p' < 1 + t.inputs.length + t.outputs.length + t.annotations.length →
        (keyH d t i' p' = keyH d t i p ↔ i0 ≤ i' ∧ i' ≤ i1 ∧ p0 ≤ p' ∧ p' ≤ p1) := by
  have info := keyH_info d t i p hi hp
  have hH := headerRows_eq t
  have hl1 := hl_le t
  have hv1 := hv_le t
  by_cases hin : ∃ o j, keyH d t i p = .inE o j
  · obtain ⟨o, j, hK⟩ := hin
    unfold InBounds at info
    rw [hK] at info
    simp only [kLane, kPos, kOk] at info
    obtain ⟨hlo, _, hp1, hp2, hjn⟩ := info
    have hpe : p = j + 1 := by omega
    subst hpe
    have hiH : ¬ i < t.headerRows := by omega
    have hown : entryOwner d t (i - t.headerRows) j = o := by
      rw [keyH_in d t i _ (by omega) (by omega), if_neg hiH, Nat.add_sub_cancel] at hK
      injection hK
    obtain ⟨e, he1, he2, he3⟩ := run_interval (fun r => entryOwner d t r j)
      (fun r => entryOwner_le d t r j) (fun r => entryOwner_step d t j r) t.rules.length
      (i - t.headerRows) (by omega)
    simp only [hown] at he3
    refine ⟨t.headerRows + o, t.headerRows + e, j + 1, j + 1, by omega, by omega, by omega,
      Nat.le_refl _, Nat.le_refl _, by omega, by omega, ?_⟩
    intro i' p' hi' hp'
    rw [hK]
    constructor
    · intro hk'
      have info' := keyH_info d t i' p' hi' hp'
      unfold InBounds at info'
      rw [hk'] at info'
      simp only [kLane, kPos, kOk] at info'
      obtain ⟨hlo', _, hq1, hq2, _⟩ := info'
      have hpe' : p' = j + 1 := by omega
      subst hpe'
      rw [keyH_in d t i' _ (by omega) (by omega), if_neg (by omega), Nat.add_sub_cancel] at hk'
      injection hk' with hk' _
      have := (he3 (i' - t.headerRows) (by omega)).mp hk'
      omega
    · rintro ⟨h1, h2, h3, h4⟩
      have hpe' : p' = j + 1 := by omega
      subst hpe'
      rw [keyH_in d t i' _ (by omega) (by omega), if_neg (by omega), Nat.add_sub_cancel]
      rw [(he3 (i' - t.headerRows) (by omega)).mpr (by omega)]
  · have hne : ∀ o j, keyH d t i p ≠ .inE o j := fun o j e => hin ⟨o, j, e⟩
    refine ⟨(kLane d t (keyH d t i p)).1, (kLane d t (keyH d t i p)).2,
      (kPos t.inputs.length t.outputs.length (keyH d t i p)).1,
      (kPos t.inputs.length t.outputs.length (keyH d t i p)).2,
      info.1, info.2.1 hne, ?_, info.2.2.1, info.2.2.2.1, ?_, ?_, ?_⟩
    · have a1 := info.1
      have a2 := info.2.1 hne
      revert a1 a2
      generalize keyH d t i p = K
      intro a1 a2
      cases K <;> simp only [kLane] at a1 a2 ⊢ <;> (try split) <;> omega
    · have a1 := info.2.2.1
      have a2 := info.2.2.2.1
      revert a1 a2
      generalize keyH d t i p = K
      intro a1 a2
      cases K <;> simp only [kPos] at a1 a2 ⊢ <;> omega
    · generalize keyH d t i p = K
      cases K <;> simp only [kPos] <;> intro h0 <;> omega
    · intro i' p' hi' hp'
      constructor
      · intro hk'
        have info' := keyH_info d t i' p' hi' hp'
        unfold InBounds at info'
        rw [hk'] at info'
        exact ⟨info'.1, info'.2.1 hne, info'.2.2.1, info'.2.2.2.1⟩
      · intro h
        exact keyH_same d t i p i' p' hi hp hi' hp' hne h

end

/-! ## The sheet of a table -/

theorem rectSheet_rows (d : Decor) (L : Layout) (t : TableSpec) (ho : t.orientation = .ruleAsRow) :
    RectSheet (sheetOf d L t) := by
  have hs : sheetOf d L t =
      { nrows := t.headerRows + t.rules.length,
        ncols := 1 + t.inputs.length + t.outputs.length + t.annotations.length,
        key := keyH d t, text := textOfKey d t, colW := L.colW, rowH := L.rowH,
        vDbl := fun b => b == 1 + t.inputs.length ||
          (t.annotations.length != 0 && b == 1 + t.inputs.length + t.outputs.length),
        hDbl := fun b => b == t.headerRows } := by
    unfold sheetOf; rw [ho]
  rw [hs]
  intro r c hr hc
  simp only at hr hc
  obtain ⟨i0, i1, p0, p1, h1, h2, h3, h4, h5, h6, _, h8⟩ := keyH_rect d t r c hr hc
  exact ⟨i0, p0, i1, p1, ⟨by omega, h3⟩, ⟨by omega, h6⟩, fun r' c' hr' hc' => h8 r' c' hr' hc'⟩

theorem rectSheet_cols (d : Decor) (L : Layout) (t : TableSpec) (ho : t.orientation = .ruleAsColumn) :
    RectSheet (sheetOf d L t) := by
  have hs : sheetOf d L t =
      { nrows := t.inputs.length + t.outputs.length + t.annotations.length + 1,
        ncols := t.headerRows + t.rules.length,
        key := fun row col => keyH d t col
          (if row = t.inputs.length + t.outputs.length + t.annotations.length then 0 else row + 1),
        text := textOfKey d t, colW := L.colW, rowH := L.rowH,
        vDbl := fun b => b == t.headerRows,
        hDbl := fun b => b == t.inputs.length ||
          (t.annotations.length != 0 && b == t.inputs.length + t.outputs.length) } := by
    unfold sheetOf; rw [ho]
  rw [hs]
  intro r c hr hc
  simp only at hr hc ⊢
  have hpos : (if r = t.inputs.length + t.outputs.length + t.annotations.length then 0 else r + 1) <
      1 + t.inputs.length + t.outputs.length + t.annotations.length := by split <;> omega
  obtain ⟨i0, i1, p0, p1, h1, h2, h3, h4, h5, h6, h7, h8⟩ := keyH_rect d t c _ hc hpos
  by_cases hp0 : p0 = 0
  · have hp1 := h7 hp0
    refine ⟨t.inputs.length + t.outputs.length + t.annotations.length, i0,
      t.inputs.length + t.outputs.length + t.annotations.length, i1,
      ⟨Nat.le_refl _, by simp only; omega⟩, ⟨by omega, h3⟩, ?_⟩
    intro r' c' hr' hc'
    simp only at hr' hc' ⊢
    have hpos' : (if r' = t.inputs.length + t.outputs.length + t.annotations.length then 0 else r' + 1) <
        1 + t.inputs.length + t.outputs.length + t.annotations.length := by split <;> omega
    rw [h8 c' _ hc' hpos']
    split <;> omega
  · refine ⟨p0 - 1, i0, p1 - 1, i1, ⟨by omega, by simp only; omega⟩, ⟨by omega, h3⟩, ?_⟩
    intro r' c' hr' hc'
    simp only at hr' hc' ⊢
    have hpos' : (if r' = t.inputs.length + t.outputs.length + t.annotations.length then 0 else r' + 1) <
        1 + t.inputs.length + t.outputs.length + t.annotations.length := by split <;> omega
    rw [h8 c' _ hc' hpos']
    split <;> omega

/-- **The regions of the sheet of every table are rectangles** (both orientations, merged input
entries or not). -/
theorem rectSheet_sheetOf (d : Decor) (L : Layout) (t : TableSpec)
    (ho : t.orientation ≠ .crossTable) : RectSheet (sheetOf d L t) := by
  cases hor : t.orientation with
  | ruleAsRow => exact rectSheet_rows d L t hor
  | ruleAsColumn => exact rectSheet_cols d L t hor
  | crossTable => exact absurd hor ho

end Dmn.Recog
