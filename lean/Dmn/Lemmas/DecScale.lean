import Dmn.Lemmas.DecFinalize

/-! The specification does not depend on the common scale; shifting digits between the
numerator and the exponent does not change it. -/

namespace Dmn
namespace D128

theorem absDiff_mul (X Y t : Nat) : absDiff (X * t) (Y * t) = absDiff X Y * t := by
  unfold absDiff
  by_cases h : X ≤ Y
  · rw [if_pos h, if_pos (Nat.mul_le_mul_right t h), Nat.sub_mul]
  · rw [if_neg h]
    by_cases ht : t = 0
    · subst ht; simp
    · have : ¬ X * t ≤ Y * t := by
        intro hh
        exact h (Nat.le_of_mul_le_mul_right hh (Nat.pos_of_ne_zero ht))
      rw [if_neg this, Nat.sub_mul]

theorem necore_scale (X Y U t : Nat) (d : D128) (ht : 0 < t) :
    NECore (X * t) (Y * t) (U * t) d ↔ NECore X Y U d := by
  unfold NECore
  rw [absDiff_mul]
  have e1 : 2 * (absDiff X Y * t) = (2 * absDiff X Y) * t := by ring
  have e2 : 20 * (Y * t - X * t) = (20 * (Y - X)) * t := by rw [← Nat.sub_mul]; ring
  rw [e1, e2]
  have a1 : (2 * absDiff X Y) * t ≤ U * t ↔ 2 * absDiff X Y ≤ U := Nat.mul_le_mul_right_iff ht
  have a2 : (2 * absDiff X Y) * t = U * t ↔ 2 * absDiff X Y = U := Nat.mul_left_inj (by omega)
  have a3 : X * t = Y * t ↔ X = Y := Nat.mul_left_inj (by omega)
  have a4 : X * t < Y * t ↔ X < Y := Nat.mul_lt_mul_right ht
  have a5 : (20 * (Y - X)) * t ≤ U * t ↔ 20 * (Y - X) ≤ U := Nat.mul_le_mul_right_iff ht
  rw [a1, a2, a3, a4, a5]

/-- `NearestEven` may be evaluated at any common scale `s` below both exponents -/
theorem nearestEven_at (N D : Nat) (e : Int) (d : D128) (s : Int) (hs : s ≤ e) (hs' : s ≤ d.exp) :
    NearestEven N D e d ↔
      NECore (N * 10 ^ (e - s).toNat) (d.coeff * (10 ^ (d.exp - s).toNat * D)) (10 ^ (d.exp - s).toNat * D) d := by
  unfold NearestEven
  have h1 : (e - s).toNat = (e - min e d.exp).toNat + (min e d.exp - s).toNat := by omega
  have h2 : (d.exp - s).toNat = (d.exp - min e d.exp).toNat + (min e d.exp - s).toNat := by omega
  rw [h1, h2, pow10_add, pow10_add]
  generalize 10 ^ (e - min e d.exp).toNat = A
  generalize 10 ^ (d.exp - min e d.exp).toNat = B
  have ht := pow10_pos (min e d.exp - s).toNat
  generalize 10 ^ (min e d.exp - s).toNat = t at *
  have e1 : N * (A * t) = (N * A) * t := by ring
  have e2 : d.coeff * (B * t * D) = (d.coeff * (B * D)) * t := by ring
  have e3 : B * t * D = (B * D) * t := by ring
  rw [e1, e2, e3, necore_scale _ _ _ _ _ ht]

/-- `Overflows` may be evaluated at any common scale -/
theorem overflows_at (N D : Nat) (e : Int) (s : Int) (hs : s ≤ e) (hs' : s ≤ eTop) :
    Overflows N D e ↔ 2 * N * 10 ^ (e - s).toNat ≥ (2 * 10 ^ 34 - 1) * 10 ^ (eTop - s).toNat * D := by
  unfold Overflows
  simp only []
  have h1 : (e - s).toNat = (e - min e eTop).toNat + (min e eTop - s).toNat := by omega
  have h2 : (eTop - s).toNat = (eTop - min e eTop).toNat + (min e eTop - s).toNat := by omega
  rw [h1, h2, pow10_add, pow10_add]
  generalize 10 ^ (e - min e eTop).toNat = A
  generalize 10 ^ (eTop - min e eTop).toNat = B
  have ht := pow10_pos (min e eTop - s).toNat
  generalize 10 ^ (min e eTop - s).toNat = t at *
  have e1 : 2 * N * (A * t) = (2 * N * A) * t := by ring
  have e2 : (2 * 10 ^ 34 - 1) * (B * t) * D = ((2 * 10 ^ 34 - 1) * B * D) * t := by ring
  rw [e1, e2]
  exact (Nat.mul_le_mul_right_iff ht).symm

/-- moving `k` digits from the exponent into the numerator does not change the specification -/
theorem roundsHalfEven_shift (neg : Bool) (N D : Nat) (e : Int) (k : Nat) (r : D128R) :
    RoundsHalfEven neg (N * 10 ^ k) D (e - (k : Int)) r ↔ RoundsHalfEven neg N D e r := by
  unfold RoundsHalfEven
  cases r with
  | nan => exact Iff.rfl
  | inf s =>
    simp only []
    have hs1 : min (e - (k : Int)) eTop ≤ e - (k : Int) := by omega
    have hs2 : min (e - (k : Int)) eTop ≤ eTop := by omega
    rw [overflows_at (N * 10 ^ k) D (e - k) _ hs1 hs2, overflows_at N D e (min (e - (k : Int)) eTop) (by omega) hs2]
    have : (e - min (e - (k : Int)) eTop).toNat = k + (e - (k : Int) - min (e - (k : Int)) eTop).toNat := by omega
    rw [this, pow10_add]
    have e1 : 2 * (N * 10 ^ k) * 10 ^ (e - (k : Int) - min (e - (k : Int)) eTop).toNat
        = 2 * N * (10 ^ k * 10 ^ (e - (k : Int) - min (e - (k : Int)) eTop).toNat) := by ring
    rw [e1]
  | fin d =>
    simp only []
    have hs1 : min (e - (k : Int)) d.exp ≤ e - (k : Int) := by omega
    have hs2 : min (e - (k : Int)) d.exp ≤ d.exp := by omega
    rw [nearestEven_at (N * 10 ^ k) D (e - k) d _ hs1 hs2,
      nearestEven_at N D e d (min (e - (k : Int)) d.exp) (by omega) hs2]
    have : (e - min (e - (k : Int)) d.exp).toNat = k + (e - (k : Int) - min (e - (k : Int)) d.exp).toNat := by omega
    rw [this, pow10_add]
    have e1 : N * 10 ^ k * 10 ^ (e - (k : Int) - min (e - (k : Int)) d.exp).toNat
        = N * (10 ^ k * 10 ^ (e - (k : Int) - min (e - (k : Int)) d.exp).toNat) := by ring
    rw [e1]

end D128
end Dmn
