import Dmn.Model.Eval
import Dmn.Lemmas.EvalM
import Dmn.Lemmas.Iter
import Dmn.Lemmas.EvalSemLoops

/-!
# Function invocation and context literals, in closed form

`eval_function_positional` / `eval_function_named` / `eval_function_definition` and the loop of
`build_context` (`builders.rs`), described by what they bind.
-/

namespace Dmn.Eval
open EvalM Value

/-! ## invocation -/

/-- The context of arguments of an invocation: every formal parameter bound to the argument at
its position coerced to the parameter's type (`parameter_type.coerced(argument)`, null when the
argument cannot be coerced — C16), in the order of the parameters. -/
def argCtx (ps : List (String × FType)) (args : List Value) (cx : Ctx) : Ctx :=
  (ps.zip args).foldl (fun cx pa => Ctx.set cx pa.1.1 (Value.coerced pa.1.2 pa.2)) cx

/-- The loop of `eval_function_positional` rejects too few arguments (too many are rejected before
the loop: `invokePositional`). -/
theorem bindPositional_eq (ps : List (String × FType)) (args : List Value) (cx : Ctx) :
    bindPositional ps args cx = if ps.length ≤ args.length then some (argCtx ps args cx) else none := by
  induction ps generalizing args cx with
  | nil => simp [bindPositional, argCtx]
  | cons p ps ih =>
    obtain ⟨n, t⟩ := p
    cases args with
    | nil => simp [bindPositional]
    | cons a as =>
      simp only [bindPositional, ih, List.length_cons, Nat.add_le_add_iff_right, argCtx, List.zip_cons_cons,
        List.foldl_cons]

theorem namedGet_namedInsert (m : List (String × Value × Nat)) (k : String) (v : Value) (pos : Nat) (k' : String) :
    namedGet (namedInsert m k v pos) k' = if k = k' then some v else namedGet m k' := by
  induction m with
  | nil => simp [namedInsert, namedGet]
  | cons e m ih =>
    obtain ⟨k0, e0⟩ := e
    simp only [namedInsert]
    by_cases h1 : k = k0
    · subst h1
      rw [if_pos rfl]
      simp only [namedGet]
      by_cases h3 : k = k'
      · rw [if_pos h3, if_pos h3]
      · rw [if_neg h3, if_neg h3, if_neg h3]
    · rw [if_neg h1]
      by_cases h2 : k < k0
      · rw [if_pos h2]
        simp only [namedGet]
      · rw [if_neg h2]
        simp only [namedGet, ih]
        by_cases h3 : k0 = k'
        · subst h3
          rw [if_pos rfl, if_neg h1, if_pos rfl]
        · rw [if_neg h3, if_neg h3]

/-- the evaluated items of a `NamedParameters` node -/
def namedValues (pairs : List (String × Value)) : List Value :=
  pairs.map (fun p => .namedParam (.paramName p.1) p.2)

/-- `build_named_parameters`: the map binds every name to the value of its **last** occurrence. -/
theorem namedGet_collectNamed (pairs : List (String × Value)) (pos : Nat) (acc : List (String × Value × Nat))
    (k : String) :
    namedGet (collectNamed (namedValues pairs) pos acc) k =
      (match pairs.reverse.find? (fun p => p.1 = k) with
        | some p => some p.2
        | none => namedGet acc k) := by
  induction pairs generalizing pos acc with
  | nil => simp [namedValues, collectNamed]
  | cons p ps ih =>
    obtain ⟨n, v⟩ := p
    simp only [namedValues, List.map_cons, collectNamed] at ih ⊢
    rw [ih]
    simp only [List.reverse_cons, List.find?_append, namedGet_namedInsert]
    cases List.find? (fun p => decide (p.1 = k)) ps.reverse with
    | some q => rfl
    | none =>
      by_cases h : n = k
      · simp [h]
      · simp [h]

/-- `eval_function_named` looks every formal parameter up by name: that is the positional
binding of the arguments permuted into the order of declaration; a parameter without argument
makes the invocation null, arguments without parameter are ignored. -/
theorem bindNamed_eq (ps : List (String × FType)) (m : List (String × Value × Nat)) (cx : Ctx) :
    bindNamed ps m cx = (match ps.mapM (fun p => namedGet m p.1) with
      | some args => bindPositional ps args cx
      | none => none) := by
  induction ps generalizing cx with
  | nil => simp [bindNamed, bindPositional]
  | cons p ps ih =>
    obtain ⟨n, t⟩ := p
    simp only [bindNamed, List.mapM_cons]
    cases hn : namedGet m n with
    | none => simp
    | some a =>
      simp only [ih, Option.bind_eq_bind, Option.bind_some, Option.pure_def]
      cases List.mapM (fun p => namedGet m p.1) ps with
      | none => simp
      | some args => simp [bindPositional]

theorem mapM_namedGet_length (ps : List (String × FType)) (m : List (String × Value × Nat)) (args : List Value)
    (h : ps.mapM (fun p => namedGet m p.1) = some args) : args.length = ps.length := by
  induction ps generalizing args with
  | nil => simp at h; subst h; rfl
  | cons p ps ih =>
    simp only [List.mapM_cons, Option.bind_eq_bind, Option.pure_def] at h
    cases hn : namedGet m p.1 with
    | none => simp [hn] at h
    | some a =>
      cases hr : List.mapM (fun p => namedGet m p.1) ps with
      | none => simp [hn, hr] at h
      | some rest =>
        simp [hn, hr] at h
        subst h
        simp [ih rest hr]

theorem callFunction_ok (env : Env) (cx : Ctx) (body : Ast) (rt : FType) (s : Scope) (r : Value)
    (h : env.call body (s ++ [cx]) = .ok (r, s ++ [cx])) :
    callFunction env cx body rt s = .ok (Value.coerced rt r, s) := by
  simp only [callFunction, bind_def, bracket_ok cx _ s r h, pure_def]

/-- named invocation = positional invocation with the arguments in declaration order, when every
argument name is the name of a formal parameter -/
theorem invokeNamed_eq_positional (env : Env) (ps : List (String × FType)) (body : Ast) (rt : FType)
    (m : List (String × Value × Nat)) (args : List Value)
    (h : ps.mapM (fun p => namedGet m p.1) = some args) (hu : unknownNamed ps m = false) :
    invokeNamed env (.fn ps body rt) (.namedParams m) = invokePositional env (.fn ps body rt) args := by
  have hl := mapM_namedGet_length ps m args h
  have : ¬ args.length > ps.length := by omega
  simp only [invokeNamed, invokePositional, bindNamed_eq, h, hu, this, Bool.false_eq_true, if_false]

theorem invokeNamed_missing (env : Env) (ps : List (String × FType)) (body : Ast) (rt : FType)
    (m : List (String × Value × Nat)) (h : ps.mapM (fun p => namedGet m p.1) = none) (s : Scope) :
    invokeNamed env (.fn ps body rt) (.namedParams m) s = .ok (.null, s) := by
  simp only [invokeNamed, bindNamed_eq, h]
  split <;> rfl

/-- an argument whose name is not the name of a formal parameter makes the invocation null -/
theorem invokeNamed_unknown (env : Env) (ps : List (String × FType)) (body : Ast) (rt : FType)
    (m : List (String × Value × Nat)) (h : unknownNamed ps m = true) (s : Scope) :
    invokeNamed env (.fn ps body rt) (.namedParams m) s = .ok (.null, s) := by
  simp only [invokeNamed, h, if_true, pure_def]

/-- more arguments than formal parameters make the invocation null -/
theorem invokePositional_surplus (env : Env) (ps : List (String × FType)) (body : Ast) (rt : FType)
    (args : List Value) (h : args.length > ps.length) (s : Scope) :
    invokePositional env (.fn ps body rt) args s = .ok (.null, s) := by
  simp only [invokePositional, h, if_true, pure_def]

/-! ## context literals -/

/-- How an entry's key is written: a name, or a string literal (trimmed). -/
inductive EntryKey where
  | name (k : String)
  | text (t : String)

def EntryKey.ast : EntryKey → Ast
  | .name k => .contextEntryKey k
  | .text t => .string t

def EntryKey.key : EntryKey → String
  | .name k => k
  | .text t => t.trimAscii.toString

/-- An entry of a context literal: the key as written, the expression, its value. -/
abbrev CEntry := EntryKey × Ast × Value

def CEntry.ast (e : CEntry) : Ast := .contextEntry e.1.ast e.2.1

/-- The context a list of evaluated entries builds: `BTreeMap::insert` in the order written
(a later entry with the same key **replaces** the earlier one). -/
def ctxFold (ents : List CEntry) (c : Ctx) : Ctx :=
  ents.foldl (fun c e => Ctx.set c e.1.key e.2.2) c

theorem ctxFold_append (pre post : List CEntry) (c : Ctx) :
    ctxFold (pre ++ post) c = ctxFold post (ctxFold pre c) := by
  simp [ctxFold, List.foldl_append]

/-- exactly the keys written: a key is bound iff an entry has it, and then to the value of the
last such entry -/
theorem get_ctxFold (ents : List CEntry) (c : Ctx) (k : String) :
    Ctx.get (ctxFold ents c) k = (match ents.reverse.find? (fun e => e.1.key = k) with
      | some e => some e.2.2
      | none => Ctx.get c k) := by
  induction ents generalizing c with
  | nil => simp [ctxFold]
  | cons e es ih =>
    have : ctxFold (e :: es) c = ctxFold es (Ctx.set c e.1.key e.2.2) := rfl
    rw [this, ih]
    simp only [List.reverse_cons, List.find?_append, Ctx.get_set]
    cases List.find? (fun e => decide (e.1.key = k)) es.reverse with
    | some q => rfl
    | none =>
      by_cases h : e.1.key = k
      · simp [h]
      · simp [h]

theorem entryKey_eval (env : Env) (k : EntryKey) (v : Value) (t : Scope) :
    (do let l ← evalStep env k.ast; pure (contextEntryV l v) : EvalM Value) t = .ok (.ctxEntry k.key v, t) := by
  cases k <;> simp [EntryKey.ast, EntryKey.key, evalStep, bind_def, pure_def, contextEntryV]

theorem contains_set (c : Ctx) (k : String) (v : Value) (k' : String) :
    Ctx.contains (Ctx.set c k v) k' = (decide (k = k') || Ctx.contains c k') := by
  simp only [Ctx.contains, Ctx.get_set]
  by_cases h : k = k'
  · simp [h]
  · simp [h]

/-- The loop of `build_context` in a scope whose top is the context pushed for the literal: every
entry is evaluated with the earlier entries (of this literal) on top of the scope; the keys are
distinct (and not yet in the accumulator). -/
theorem evalContextEntries_spec (env : Env) (s : Scope) :
    ∀ (ents : List CEntry) (acc top : Ctx),
      (∀ pre e post, ents = pre ++ e :: post →
        evalStep env e.2.1 (s ++ [ctxFold pre top]) = .ok (e.2.2, s ++ [ctxFold pre top])) →
      (ents.map (fun e => e.1.key)).Nodup → (∀ e ∈ ents, Ctx.contains acc e.1.key = false) →
      evalContextEntries env (ents.map CEntry.ast) acc (s ++ [top]) =
        .ok (some (ctxFold ents acc), s ++ [ctxFold ents top])
  | [], acc, top, _, _, _ => rfl
  | e :: es, acc, top, h, hnd, hacc => by
    have h0 := h [] e es rfl
    simp only [ctxFold, List.foldl_nil] at h0
    have hk : evalStep env e.1.ast (s ++ [top]) = .ok
        ((match e.1 with | .name k => Value.ctxEntryKey k | .text t => Value.str t), s ++ [top]) := by
      cases e.1 <;> simp [EntryKey.ast, evalStep, pure_def]
    have hv : evalStep env (CEntry.ast e) (s ++ [top]) = .ok (.ctxEntry e.1.key e.2.2, s ++ [top]) := by
      simp only [CEntry.ast, evalStep, bind_def, hk, h0, pure_def]
      cases e.1 <;> simp [contextEntryV, EntryKey.key]
    have hfresh : Ctx.contains acc e.1.key = false := hacc e List.mem_cons_self
    simp only [List.map_cons, evalContextEntries, bind_def, hv, hfresh, Bool.false_eq_true, if_false, setEntry,
      setEntry_append]
    simp only [List.map_cons, List.nodup_cons] at hnd
    have ih := evalContextEntries_spec env s es (Ctx.set acc e.1.key e.2.2) (Ctx.set top e.1.key e.2.2)
      (by
        intro pre e' post hes
        have := h (e :: pre) e' post (by rw [hes]; rfl)
        simpa only [ctxFold, List.foldl_cons] using this)
      hnd.2
      (by
        intro e' he'
        rw [contains_set]
        have h1 : e.1.key ≠ e'.1.key := by
          intro heq
          exact hnd.1 (by rw [heq]; exact List.mem_map_of_mem (f := fun e => e.1.key) he')
        simp [h1, hacc e' (List.mem_cons_of_mem _ he')])
    simpa only [ctxFold, List.foldl_cons] using ih

/-- A key written twice: the loop of `build_context` ends with `none` at the second occurrence
(`pre` has distinct keys, the key of `e` is among them). -/
theorem evalContextEntries_dup (env : Env) (s : Scope) :
    ∀ (pre : List CEntry) (e : CEntry) (post : List Ast) (acc top : Ctx),
      (∀ p1 x p2, pre ++ [e] = p1 ++ x :: p2 →
        evalStep env x.2.1 (s ++ [ctxFold p1 top]) = .ok (x.2.2, s ++ [ctxFold p1 top])) →
      (pre.map (fun e => e.1.key)).Nodup → (∀ x ∈ pre, Ctx.contains acc x.1.key = false) →
      (Ctx.contains acc e.1.key = true ∨ e.1.key ∈ pre.map (fun e => e.1.key)) →
      evalContextEntries env (pre.map CEntry.ast ++ CEntry.ast e :: post) acc (s ++ [top]) =
        .ok (none, s ++ [ctxFold pre top])
  | [], e, post, acc, top, h, _, _, hdup => by
    have h0 := h [] e [] rfl
    simp only [ctxFold, List.foldl_nil] at h0
    have hk : evalStep env e.1.ast (s ++ [top]) = .ok
        ((match e.1 with | .name k => Value.ctxEntryKey k | .text t => Value.str t), s ++ [top]) := by
      cases e.1 <;> simp [EntryKey.ast, evalStep, pure_def]
    have hv : evalStep env (CEntry.ast e) (s ++ [top]) = .ok (.ctxEntry e.1.key e.2.2, s ++ [top]) := by
      simp only [CEntry.ast, evalStep, bind_def, hk, h0, pure_def]
      cases e.1 <;> simp [contextEntryV, EntryKey.key]
    have hc : Ctx.contains acc e.1.key = true := by
      rcases hdup with hc | hm
      · exact hc
      · simp at hm
    simp only [List.map_nil, List.nil_append, evalContextEntries, bind_def, hv, hc, if_true, pure_def, ctxFold,
      List.foldl_nil]
  | p :: pre, e, post, acc, top, h, hnd, hacc, hdup => by
    have h0 := h [] p (pre ++ [e]) rfl
    simp only [ctxFold, List.foldl_nil] at h0
    have hk : evalStep env p.1.ast (s ++ [top]) = .ok
        ((match p.1 with | .name k => Value.ctxEntryKey k | .text t => Value.str t), s ++ [top]) := by
      cases p.1 <;> simp [EntryKey.ast, evalStep, pure_def]
    have hv : evalStep env (CEntry.ast p) (s ++ [top]) = .ok (.ctxEntry p.1.key p.2.2, s ++ [top]) := by
      simp only [CEntry.ast, evalStep, bind_def, hk, h0, pure_def]
      cases p.1 <;> simp [contextEntryV, EntryKey.key]
    have hfresh : Ctx.contains acc p.1.key = false := hacc p List.mem_cons_self
    simp only [List.map_cons, List.cons_append, evalContextEntries, bind_def, hv, hfresh, Bool.false_eq_true,
      if_false, setEntry, setEntry_append]
    simp only [List.map_cons, List.nodup_cons] at hnd
    have ih := evalContextEntries_dup env s pre e post (Ctx.set acc p.1.key p.2.2) (Ctx.set top p.1.key p.2.2)
      (by
        intro p1 x p2 hes
        have := h (p :: p1) x p2 (by rw [List.cons_append, hes]; rfl)
        simpa only [ctxFold, List.foldl_cons] using this)
      hnd.2
      (by
        intro x hx
        rw [contains_set]
        have h1 : p.1.key ≠ x.1.key := by
          intro heq
          exact hnd.1 (by rw [heq]; exact List.mem_map_of_mem (f := fun e => e.1.key) hx)
        simp [h1, hacc x (List.mem_cons_of_mem _ hx)])
      (by
        rw [contains_set]
        rcases hdup with hc | hm
        · left; simp [hc]
        · simp only [List.map_cons, List.mem_cons] at hm
          rcases hm with heq | hm
          · left; simp [heq]
          · right; exact hm)
    simpa only [ctxFold, List.foldl_cons] using ih

end Dmn.Eval
