import Dmn.Lemmas.CanvasSamples2

/-!
# An input entry merged over three adjacent rules (ruleAsColumn)
-/

namespace Dmn.Recog

/-- an input entry merged over three adjacent rules (the class of the seeded change C19-19): the
drawing is legal, the table is well formed, the merged cell is one region (18 regions instead of
20) and the two stages evaluate to true -/
theorem sample_merged_three_cols :
    let l := laidOut mergedDecor (mergedTable .ruleAsColumn)
    l.2.1.wf = true ∧ fitsB l.1 l.2.2 l.2.1 = true ∧ (expectedRegions l.1 l.2.2 l.2.1).length = 18 ∧
      stageRegions l.1 l.2.2 l.2.1 = true ∧ stagePlane l.1 l.2.2 l.2.1 = true := by
  decide +kernel

end Dmn.Recog
