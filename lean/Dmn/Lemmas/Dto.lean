import Dmn.Model.Dto

/-! Helper lemmas for C18 (ii): reading back the DTO of a value. -/

namespace Dmn.Dto

theorem setEntry_fresh {acc : List (List Char × TV)} {k : List Char} {v : TV}
    (h : acc.any (fun e => e.1 == k) = false) : setEntry acc k v = acc ++ [(k, v)] := by
  induction acc with
  | nil => rfl
  | cons e acc ih =>
    obtain ⟨k', v'⟩ := e
    simp only [List.any_cons, Bool.or_eq_false_iff, beq_eq_false_iff_ne, ne_eq] at h
    simp only [setEntry, List.cons_append]
    rw [if_neg h.1, ih h.2]

theorem readSimple_scalar (rd : Readers) (k : Kind) (t : List Char) (h : canonical rd (.scalar k t) = true) :
    readSimple rd (some (xsdOf k)) (some t) false = some (.scalar k t) := by
  cases k <;> simp only [canonical, Bool.and_eq_true, beq_iff_eq] at h <;>
    simp [readSimple, xsdOf, h]

theorem roundtrip (rd : Readers) (v : TV) : canonical rd v = true → fromDto rd (toDto v) = some v := by
  refine TV.rec
    (motive_1 := fun v => canonical rd v = true → fromDto rd (toDto v) = some v)
    (motive_2 := fun xs => canonicalList rd xs = true → fromList rd (toDtoList xs) = some xs)
    (motive_3 := fun es => canonicalEntries rd es = true →
      ∀ acc : List (List Char × TV), (∀ e ∈ es, acc.any (fun a => a.1 == e.1) = false) →
        fromComps rd (toDtoComps es) acc = some (acc ++ es))
    (motive_4 := fun e => canonical rd e.2 = true → fromDto rd (toDto e.2) = some e.2)
    ?null ?str ?bool ?scalar ?list ?ctx ?other ?nil ?cons ?enil ?econs ?pair v
  case null => intro _; simp [toDto, fromDto, readSimple]
  case str => intro s _; simp [toDto, fromDto, readSimple]
  case bool => intro b _; cases b <;> simp [toDto, fromDto, readSimple, tTrue, tFalse]
  case scalar => intro k t h; simp only [toDto, fromDto]; exact readSimple_scalar rd k t h
  case list =>
    intro xs ih h
    simp only [canonical] at h
    simp [toDto, fromDto, ih h]
  case ctx =>
    intro es ih h
    simp only [canonical] at h
    have := ih h [] (by intro e _; rfl)
    simp [toDto, fromDto, this]
  case other => intro d h; simp [canonical] at h
  case nil => intro _; simp [toDtoList, fromList]
  case cons =>
    intro x xs ihx ihxs h
    simp only [canonicalList, Bool.and_eq_true] at h
    simp [toDtoList, fromList, ihx h.1, ihxs h.2]
  case enil => intro _ acc _; simp [toDtoComps, fromComps]
  case econs =>
    intro e es ihe ihes h acc hacc
    obtain ⟨k, v⟩ := e
    simp only [canonicalEntries, Bool.and_eq_true, beq_iff_eq, Bool.not_eq_true'] at h
    obtain ⟨⟨⟨hname, hfresh⟩, hv⟩, hes⟩ := h
    have hk : acc.any (fun a => a.1 == k) = false := hacc (k, v) List.mem_cons_self
    simp only [toDtoComps, fromComps, ihe hv, hname, setEntry_fresh hk, Bool.false_eq_true, if_false]
    rw [ihes hes (acc ++ [(k, v)])]
    · simp
    · intro e he
      have h1 := hacc e (List.mem_cons_of_mem _ he)
      simp only [List.any_append, List.any_cons, List.any_nil, Bool.or_false, h1, Bool.false_or]
      rw [beq_eq_false_iff_ne]
      intro hke
      have : es.any (fun e' => e'.1 == k) = true := by
        rw [List.any_eq_true]; exact ⟨e, he, by simp [hke]⟩
      rw [this] at hfresh; cases hfresh
  case pair => intro k v ih; exact ih

end Dmn.Dto
