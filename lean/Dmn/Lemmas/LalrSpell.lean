import Dmn.Model.LalrSpell

/-!
# `spellOk` decided on the regenerated tables (two halves, each a linear pass)
-/

namespace Dmn.Lalr

open Dmn.Gen.Lalr Dmn.Gen.LalrAcc in
/-- the action entries of `YY_TABLE` / `YY_CHECK`: shifts and explicit reductions -/
theorem spell_table_ok :
    allIdx2 (spellEntryOk gen PREDS ACC feelGrammar) 0 gen.table gen.check = true := by decide +kernel

open Dmn.Gen.Lalr Dmn.Gen.LalrAcc in
/-- the default reductions `YY_DEF_ACT` -/
theorem spell_default_ok :
    allIdx (fun s d => (s : Int) == gen.final || d == 0 || redSpells gen PREDS ACC feelGrammar s d) 0 gen.defAct
      = true := by decide +kernel

end Dmn.Lalr
