import Dmn.Model.Dec
import Dmn.Model.DecSpec
import Mathlib.Tactic.Ring

/-! Digit counting, half-even rounding of `c / 10^k`, and the rounding step `finalize`. -/

namespace Dmn
namespace D128

/-! ### powers of ten -/

theorem pow10_pos (k : Nat) : 0 < 10 ^ k := Nat.pow_pos (by decide)

theorem pow10_le {a b : Nat} (h : a ≤ b) : 10 ^ a ≤ 10 ^ b := Nat.pow_le_pow_right (by decide) h

theorem pow10_lt {a b : Nat} (h : a < b) : 10 ^ a < 10 ^ b := Nat.pow_lt_pow_right (by decide) h

theorem pow10_lt_iff {a b : Nat} : 10 ^ a < 10 ^ b ↔ a < b := Nat.pow_lt_pow_iff_right (by decide)

theorem pow10_succ (k : Nat) : 10 ^ (k + 1) = 10 * 10 ^ k := by rw [Nat.pow_succ, Nat.mul_comm]

theorem pow10_add (a b : Nat) : 10 ^ (a + b) = 10 ^ a * 10 ^ b := Nat.pow_add 10 a b

/-! ### digit counting -/

theorem ndigitsAux_zero (fuel : Nat) : ndigitsAux fuel 0 = 0 := by
  cases fuel <;> simp [ndigitsAux]

theorem ndigitsAux_spec (fuel n : Nat) (h : n ≤ fuel) (hn : n ≠ 0) :
    1 ≤ ndigitsAux fuel n ∧ 10 ^ (ndigitsAux fuel n - 1) ≤ n ∧ n < 10 ^ ndigitsAux fuel n := by
  induction fuel generalizing n with
  | zero => omega
  | succ f ih =>
    unfold ndigitsAux
    rw [if_neg hn]
    by_cases h10 : n / 10 = 0
    · rw [h10, ndigitsAux_zero]
      simp
      omega
    · obtain ⟨h1, h2, h3⟩ := ih (n / 10) (by omega) h10
      refine ⟨by omega, ?_, ?_⟩
      · have : ndigitsAux f (n / 10) + 1 - 1 = (ndigitsAux f (n / 10) - 1) + 1 := by omega
        rw [this, pow10_succ]
        omega
      · rw [pow10_succ]
        omega

/-- `k` digits: `10^(k-1) ≤ n < 10^k` -/
theorem digits_unique (n k j : Nat) (hk : 1 ≤ k) (hj : 1 ≤ j)
    (h1 : 10 ^ (k - 1) ≤ n) (h2 : n < 10 ^ k) (h3 : 10 ^ (j - 1) ≤ n) (h4 : n < 10 ^ j) : k = j := by
  have a : k - 1 < j := pow10_lt_iff.mp (Nat.lt_of_le_of_lt h1 h4)
  have b : j - 1 < k := pow10_lt_iff.mp (Nat.lt_of_le_of_lt h3 h2)
  omega

theorem ndigits_zero : ndigits 0 = 0 := by simp [ndigits]

theorem ndigits_spec (n : Nat) (hn : n ≠ 0) :
    1 ≤ ndigits n ∧ 10 ^ (ndigits n - 1) ≤ n ∧ n < 10 ^ ndigits n := by
  unfold ndigits
  rw [if_neg hn]
  simp only []
  split
  · next h => exact ⟨by omega, by simpa using h.1, h.2⟩
  · split
    · next h => exact ⟨by omega, by simpa using h.1, h.2⟩
    · exact ndigitsAux_spec n n (Nat.le_refl _) hn

theorem ndigits_eq (n k : Nat) (hk : 1 ≤ k) (h1 : 10 ^ (k - 1) ≤ n) (h2 : n < 10 ^ k) : ndigits n = k := by
  have hn : n ≠ 0 := by
    have := pow10_pos (k - 1); omega
  obtain ⟨a, b, c⟩ := ndigits_spec n hn
  exact digits_unique n _ _ a hk b c h1 h2

theorem ndigits_le_of_lt (n k : Nat) (h : n < 10 ^ k) : ndigits n ≤ k := by
  by_cases hn : n = 0
  · subst hn; rw [ndigits_zero]; omega
  · obtain ⟨a, b, _⟩ := ndigits_spec n hn
    have : ndigits n - 1 < k := pow10_lt_iff.mp (Nat.lt_of_le_of_lt b h)
    omega

theorem lt_of_ndigits_le (n k : Nat) (h : ndigits n ≤ k) : n < 10 ^ k := by
  by_cases hn : n = 0
  · subst hn; exact pow10_pos k
  · obtain ⟨_, _, c⟩ := ndigits_spec n hn
    exact Nat.lt_of_lt_of_le c (pow10_le h)

theorem ndigits_pos (n : Nat) (hn : n ≠ 0) : 1 ≤ ndigits n := (ndigits_spec n hn).1

/-! ### rounding `c / 10^k` -/

theorem divRound_zero_drop (c : Nat) : divRound c 0 false = c := by
  unfold divRound roundsUp
  simp [Nat.mod_one]

theorem absDiff_le_iff (a b u : Nat) : 2 * absDiff a b ≤ u ↔ 2 * a ≤ 2 * b + u ∧ 2 * b ≤ 2 * a + u := by
  unfold absDiff; split <;> omega

theorem absDiff_eq_iff (a b u : Nat) :
    2 * absDiff a b = u ↔ (a ≤ b ∧ 2 * b = 2 * a + u) ∨ (b < a ∧ 2 * a = 2 * b + u) := by
  unfold absDiff; split <;> omega

theorem absDiff_self (a : Nat) : absDiff a a = 0 := by unfold absDiff; simp

theorem pow10_even (k : Nat) (hk : 1 ≤ k) : 10 ^ k % 2 = 0 := by
  obtain ⟨j, rfl⟩ : ∃ j, k = j + 1 := ⟨k - 1, by omega⟩
  rw [pow10_succ]; omega


/-- The half-even rounding of `c / 10^k`, relative to an exact value `N/D` with
`c ≤ N/D < c+1` (`sticky` ⇔ `c < N/D`; then `k ≥ 1`): the rounded quotient `q` is the floor or
the floor + 1, it is nearest to `N/(D·10^k)`, a tie gives an even `q`, and the direction of
rounding is justified. -/
theorem divRound_rounds (c k : Nat) (sticky : Bool) (N D : Nat) (hD : 0 < D)
    (hlo : c * D ≤ N) (hhi : N < (c + 1) * D) (hst : sticky = true ↔ c * D < N)
    (hk : sticky = true → 1 ≤ k) :
    c / 10 ^ k ≤ divRound c k sticky ∧ divRound c k sticky ≤ c / 10 ^ k + 1 ∧
    2 * absDiff N (divRound c k sticky * (10 ^ k * D)) ≤ 10 ^ k * D ∧
    (2 * absDiff N (divRound c k sticky * (10 ^ k * D)) = 10 ^ k * D → divRound c k sticky % 2 = 0) ∧
    (divRound c k sticky = c / 10 ^ k + 1 → 2 * N ≥ (2 * (c / 10 ^ k) + 1) * (10 ^ k * D)) ∧
    (divRound c k sticky = c / 10 ^ k → c / 10 ^ k * (10 ^ k * D) ≤ N) ∧
    (k = 0 → N = divRound c k sticky * (10 ^ k * D)) := by
  have hp := pow10_pos k
  generalize hpe : 10 ^ k = p at *
  have hdm := Nat.div_add_mod c p
  have hr := Nat.mod_lt c hp
  generalize hq0 : c / p = q0 at *
  generalize hrr : c % p = r at *
  -- products as atoms
  have hA : c * D = q0 * (p * D) + r * D := by
    rw [← hdm]; ring
  have hB : r * D < p * D := Nat.mul_lt_mul_of_pos_right hr hD
  have hBD : r * D + D ≤ p * D := by
    have : (r + 1) * D ≤ p * D := Nat.mul_le_mul_right D (by omega)
    rw [Nat.add_mul, Nat.one_mul] at this
    exact this
  have hS : (q0 + 1) * (p * D) = q0 * (p * D) + p * D := by ring
  have hC : (c + 1) * D = c * D + D := by ring
  have h2 : (2 * q0 + 1) * (p * D) = 2 * (q0 * (p * D)) + p * D := by ring
  generalize hAe : q0 * (p * D) = A at *
  generalize hBe : r * D = B at *
  generalize hPD : p * D = PD at *
  have hPDpos : 0 < PD := by rw [← hPD]; exact Nat.mul_pos hp hD
  have hst' : sticky = false → N = c * D := by
    intro h
    have : ¬ (c * D < N) := fun hh => by rw [hst.mpr hh] at h; exact Bool.noConfusion h
    omega
  unfold divRound roundsUp
  simp only [hpe, hq0, hrr]
  by_cases h1 : 2 * r > p
  · -- above half: up
    have hb : 2 * B ≥ PD + D := by
      have : (p + 1) * D ≤ (2 * r) * D := Nat.mul_le_mul_right D (by omega)
      rw [Nat.add_mul, Nat.one_mul, hPD, Nat.mul_assoc, hBe] at this
      omega
    rw [if_pos h1]
    simp only [if_true]
    rw [absDiff_le_iff, absDiff_eq_iff, hS, h2]
    refine ⟨by omega, by omega, by omega, by omega, by omega, by omega, ?_⟩
    intro hk0; subst hk0; simp at hpe; omega
  · rw [if_neg h1]
    by_cases h2r : 2 * r = p
    · have hb : 2 * B = PD := by
        have : (2 * r) * D = p * D := by rw [h2r]
        rw [Nat.mul_assoc, hBe, hPD] at this
        exact this
      rw [if_pos h2r]
      have hk1 : k ≠ 0 := by
        intro hk0; subst hk0; simp at hpe; omega
      cases hs : sticky with
      | true =>
        have : c * D < N := hst.mp hs
        simp only [Bool.true_or, if_true]
        rw [absDiff_le_iff, absDiff_eq_iff, hS, h2]
        refine ⟨by omega, by omega, by omega, by omega, by omega, by omega, by omega⟩
      | false =>
        have hN := hst' hs
        simp only [Bool.false_or]
        by_cases hodd : q0 % 2 = 1
        · have : (q0 % 2 == 1) = true := by simp [hodd]
          rw [this]
          simp only [if_true]
          rw [absDiff_le_iff, absDiff_eq_iff, hS, h2]
          refine ⟨by omega, by omega, by omega, by omega, by omega, by omega, by omega⟩
        · have : (q0 % 2 == 1) = false := by simp [hodd]
          rw [this]
          simp only [Bool.false_eq_true, if_false]
          rw [absDiff_le_iff, absDiff_eq_iff, hAe]
          refine ⟨by omega, by omega, by omega, by omega, by omega, by omega, by omega⟩
    · rw [if_neg h2r]
      simp only [Bool.false_eq_true, if_false]
      rw [absDiff_le_iff, absDiff_eq_iff, hAe]
      by_cases hk0 : k = 0
      · subst hk0
        simp at hpe
        subst hpe
        have hr0 : r = 0 := by omega
        subst hr0
        have hs : sticky = false := by
          cases hs : sticky with
          | false => rfl
          | true => have := hk hs; omega
        have hN := hst' hs
        simp at hBe
        refine ⟨by omega, by omega, by omega, by omega, by omega, by omega, by omega⟩
      · have hev := pow10_even k (by omega)
        rw [hpe] at hev
        have hb : 2 * B + 2 * D ≤ PD := by
          have : (2 * r + 2) * D ≤ p * D := Nat.mul_le_mul_right D (by omega)
          rw [Nat.add_mul, Nat.mul_assoc, hBe, hPD] at this
          omega
        refine ⟨by omega, by omega, by omega, by omega, by omega, by omega, by omega⟩


/-! ### the cut exponent -/

theorem cutExp_spec (c : Nat) (e : Int) :
    ∃ k : Nat, cutExp c e = e + (k : Int) ∧ eTiny ≤ cutExp c e ∧ ndigits c ≤ 34 + k ∧
      (k = 0 ∨ cutExp c e = eTiny ∨ k + 34 = ndigits c) := by
  refine ⟨(cutExp c e - e).toNat, ?_⟩
  unfold cutExp eTiny
  simp only []
  split <;> split <;> omega

theorem div_lt_of_digits (c k : Nat) (h : ndigits c ≤ 34 + k) : c / 10 ^ k < 10 ^ 34 := by
  have h1 := lt_of_ndigits_le c (34 + k) h
  rw [pow10_add, Nat.mul_comm] at h1
  exact Nat.div_lt_of_lt_mul h1

theorem le_div_of_digits (c k : Nat) (hc : c ≠ 0) (h : k + 34 = ndigits c) : 10 ^ 33 ≤ c / 10 ^ k := by
  obtain ⟨_, h2, _⟩ := ndigits_spec c hc
  have : ndigits c - 1 = 33 + k := by omega
  rw [this, pow10_add] at h2
  exact (Nat.le_div_iff_mul_le (pow10_pos k)).mpr h2

/-! ### unfolding the specification at a convenient scale -/

theorem nearestEven_ge (N D : Nat) (e : Int) (d : D128) (j : Nat) (hj : d.exp = e + (j : Int)) :
    NearestEven N D e d ↔ NECore N (d.coeff * (10 ^ j * D)) (10 ^ j * D) d := by
  unfold NearestEven
  have h1 : min e d.exp = e := by omega
  have h2 : (e - e).toNat = 0 := by omega
  have h3 : (d.exp - e).toNat = j := by omega
  rw [h1, h2, h3]
  simp

theorem nearestEven_le (N D : Nat) (e : Int) (d : D128) (j : Nat) (hj : e = d.exp + (j : Int)) :
    NearestEven N D e d ↔ NECore (N * 10 ^ j) (d.coeff * D) D d := by
  unfold NearestEven
  have h1 : min e d.exp = d.exp := by omega
  have h2 : (e - d.exp).toNat = j := by omega
  have h3 : (d.exp - d.exp).toNat = 0 := by omega
  rw [h1, h2, h3]
  simp

theorem overflows_le (N D : Nat) (e : Int) (j : Nat) (hj : eTop = e + (j : Int)) :
    Overflows N D e ↔ 2 * N ≥ (2 * 10 ^ 34 - 1) * 10 ^ j * D := by
  unfold Overflows
  have h1 : min e eTop = e := by omega
  have h2 : (e - e).toNat = 0 := by omega
  have h3 : (eTop - e).toNat = j := by omega
  simp only [h1, h2, h3]
  simp

theorem overflows_ge (N D : Nat) (e : Int) (j : Nat) (hj : e = eTop + (j : Int)) :
    Overflows N D e ↔ 2 * N * 10 ^ j ≥ (2 * 10 ^ 34 - 1) * D := by
  unfold Overflows
  have h1 : min e eTop = eTop := by omega
  have h2 : (e - eTop).toNat = j := by omega
  have h3 : (eTop - eTop).toNat = 0 := by omega
  simp only [h1, h2, h3]
  simp

/-! ### `finalize` on values that need no rounding -/

theorem finalize_exact (neg : Bool) (c : Nat) (e : Int) (hc : c < 10 ^ 34) (h0 : c ≠ 0)
    (hlo : -6176 ≤ e) (hhi : e ≤ 6111) : finalize neg c e false = .fin ⟨neg, c, e⟩ := by
  have hnd : ndigits c ≤ 34 := ndigits_le_of_lt c 34 hc
  have hnd1 := ndigits_pos c h0
  have hcut : cutExp c e = e := by
    unfold cutExp eTiny
    simp only []
    rw [if_neg (by omega), if_neg (by omega)]
  unfold finalize
  rw [if_neg (by simp [h0]), hcut]
  have h3 : (e - e).toNat = 0 := by omega
  rw [h3, divRound_zero_drop]
  unfold pack
  have h4 : c ≠ 10 ^ 34 := by omega
  simp only [if_neg h4, if_neg h0]
  have h5 : ¬ (e + (ndigits c : Int) - 1 > eMax) := by unfold eMax; omega
  rw [if_neg h5]
  have h6 : ¬ (e > eTop) := by unfold eTop; omega
  rw [if_neg h6]

theorem finalize_zero (neg : Bool) (e : Int) : finalize neg 0 e false = .fin ⟨neg, 0, clampExp e⟩ := by
  unfold finalize
  rw [if_pos ⟨rfl, rfl⟩]

theorem clampExp_id (e : Int) (hlo : -6176 ≤ e) (hhi : e ≤ 6111) : clampExp e = e := by
  unfold clampExp eTiny eTop
  rw [if_neg (by omega), if_neg (by omega)]

theorem clampExp_range (e : Int) : -6176 ≤ clampExp e ∧ clampExp e ≤ 6111 := by
  unfold clampExp eTiny eTop
  split
  · omega
  · split <;> omega

end D128
end Dmn
