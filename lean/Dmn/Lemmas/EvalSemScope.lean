import Dmn.Lemmas.EvalRel

/-!
# The value of an expression depends on the bindings of the scope, not on its shape

Two scopes have the same *visible bindings* (`Scope.equivVisible`) when the top-down lookup
`Scope::get_entry` answers the same for every name; they have the same *qualified bindings*
(`Scope.equivDeep`) when `Scope::search_deep` answers the same for every qualified name
(a one-segment qualified name is a plain lookup, so the second implies the first).  The
evaluator reads the scope through exactly these two functions, and everything it pushes it
pushes on both scopes alike: evaluation in two scopes with the same qualified bindings has the
same outcome.  Since `Scope::search_deep` resolves the first segment exactly as `get_entry` does
(the first context from the top that binds it decides), the qualified bindings are a function of
the visible ones (`scopeSearchDeep_eq_visible'`), so the same visible bindings suffice
(`equivDeep_of_equivVisible'`; before the repair of `search_deep` a shadowed binding of the first
segment could answer: finding F-C01-qualified-name-shadow, fixed).
-/

namespace Dmn

/-- `Scope::get_entry` answers the same in both scopes for every name. -/
def Scope.equivVisible (s1 s2 : Scope) : Prop := ∀ k, Scope.getEntry s1 k = Scope.getEntry s2 k

/-- `Scope::search_deep` answers the same in both scopes for every qualified name. -/
def Scope.equivDeep (s1 s2 : Scope) : Prop :=
  ∀ names, Eval.scopeSearchDeep s1 names = Eval.scopeSearchDeep s2 names

namespace Eval
open EvalM

/-- `find?` by `contains` and `findSome?` by `get` pick the same context. -/
theorem findSome_get_eq_find (l : List Ctx) (k : String) :
    l.findSome? (fun c => Ctx.get c k) = (match l.find? (fun c => Ctx.contains c k) with
      | some c => Ctx.get c k
      | none => none) := by
  induction l with
  | nil => rfl
  | cons c l ih =>
    cases hc : Ctx.get c k with
    | none => simp [Ctx.contains, hc, ih]
    | some v => simp [Ctx.contains, hc]

theorem scopeSearchDeep_single (s : Scope) (k : String) : scopeSearchDeep s [k] = Scope.getEntry s k := by
  simp only [scopeSearchDeep, Scope.getEntry, findSome_get_eq_find]
  cases List.find? (fun c => Ctx.contains c k) s.reverse <;> rfl

theorem scopeSearchDeep_push (s : Scope) (c : Ctx) (names : List String) :
    scopeSearchDeep (s ++ [c]) names = (match names with
      | [] => none
      | first :: _ => if Ctx.contains c first then ctxSearchDeep c names else scopeSearchDeep s names) := by
  cases names with
  | nil => rfl
  | cons first rest =>
    simp only [scopeSearchDeep, List.reverse_append, List.reverse_cons, List.reverse_nil,
      List.nil_append, List.cons_append, List.find?_cons]
    cases Ctx.contains c first <;> rfl

theorem equivVisible_of_equivDeep {s1 s2 : Scope} (h : Scope.equivDeep s1 s2) : Scope.equivVisible s1 s2 := by
  intro k
  rw [← scopeSearchDeep_single, ← scopeSearchDeep_single]
  exact h [k]

theorem equivDeep_push {s1 s2 : Scope} (h : Scope.equivDeep s1 s2) (c : Ctx) :
    Scope.equivDeep (s1 ++ [c]) (s2 ++ [c]) := by
  intro names
  rw [scopeSearchDeep_push, scopeSearchDeep_push]
  cases names with
  | nil => rfl
  | cons first rest => simp only [h (first :: rest)]

theorem equivDeep_refl (s : Scope) : Scope.equivDeep s s := fun _ => rfl

theorem equivDeep_symm {s1 s2 : Scope} (h : Scope.equivDeep s1 s2) : Scope.equivDeep s2 s1 :=
  fun n => (h n).symm

/-- The two computations leave their scopes alone and have the same outcome (value, panic or
divergence) whenever they are started in scopes with the same qualified bindings. -/
def SameOnEquiv {α : Type} (m m' : EvalM α) : Prop :=
  Pres m ∧ Pres m' ∧
    ∀ s s', Scope.equivDeep s s' → (m s).map Prod.fst = (m' s').map Prod.fst

/-- what is left of an outcome inside a pushed context: the value and the pushed context -/
def topOf {α : Type} (r : α × Scope) : α × Option Ctx := (r.1, r.2.getLast?)

/-- The companion for the loop of a context literal: the computations touch only the context
on top and agree on the value and on that context. -/
def SameOnEquivTop {α : Type} (m m' : EvalM α) : Prop :=
  TopOnly m ∧ TopOnly m' ∧
    ∀ s s' c, Scope.equivDeep s s' → (m (s ++ [c])).map topOf = (m' (s' ++ [c])).map topOf

theorem sameOnEquiv_bind {α β : Type} {m m' : EvalM α} {f f' : α → EvalM β}
    (hm : SameOnEquiv m m') (hf : ∀ a, SameOnEquiv (f a) (f' a)) : SameOnEquiv (m >>= f) (m' >>= f') := by
  refine ⟨pres_bind hm.1 (fun a => (hf a).1), pres_bind hm.2.1 (fun a => (hf a).2.1), ?_⟩
  intro s s' hS
  have h := hm.2.2 s s' hS
  rw [bind_def, bind_def]
  cases h1 : m s with
  | ok r =>
    obtain ⟨a, t⟩ := r
    have e1 : t = s := hm.1 _ _ _ h1
    subst e1
    rw [h1] at h
    cases h2 : m' s' with
    | ok r' =>
      obtain ⟨a', t'⟩ := r'
      have e2 : t' = s' := hm.2.1 _ _ _ h2
      subst e2
      rw [h2] at h
      simp only [Outcome.map, Outcome.ok.injEq] at h
      subst h
      exact (hf a).2.2 t t' hS
    | panic p => rw [h2] at h; simp [Outcome.map] at h
    | diverge => rw [h2] at h; simp [Outcome.map] at h
  | panic p =>
    rw [h1] at h
    cases h2 : m' s' with
    | ok r' => rw [h2] at h; simp [Outcome.map] at h
    | panic p' => rw [h2] at h; simpa [Outcome.map] using h
    | diverge => rw [h2] at h; simp [Outcome.map] at h
  | diverge =>
    rw [h1] at h
    cases h2 : m' s' with
    | ok r' => rw [h2] at h; simp [Outcome.map] at h
    | panic p' => rw [h2] at h; simp [Outcome.map] at h
    | diverge => rfl

theorem sameOnEquiv_refl_of {α : Type} (m : EvalM α) (hp : Pres m)
    (h : ∀ s s', Scope.equivDeep s s' → (m s).map Prod.fst = (m s').map Prod.fst) : SameOnEquiv m m :=
  ⟨hp, hp, h⟩

theorem getLast?_append_single (s : Scope) (c : Ctx) : (s ++ [c]).getLast? = some c := by
  simp

theorem sameOnEquivTop_bind {α β : Type} {m m' : EvalM α} {f f' : α → EvalM β}
    (hm : SameOnEquivTop m m') (hf : ∀ a, SameOnEquivTop (f a) (f' a)) :
    SameOnEquivTop (m >>= f) (m' >>= f') := by
  refine ⟨topOnly_bind hm.1 (fun a => (hf a).1), topOnly_bind hm.2.1 (fun a => (hf a).2.1), ?_⟩
  intro s s' c hS
  have h := hm.2.2 s s' c hS
  rw [bind_def, bind_def]
  cases h1 : m (s ++ [c]) with
  | ok r =>
    obtain ⟨a, t⟩ := r
    obtain ⟨c1, e1⟩ := hm.1 _ _ _ _ h1
    subst e1
    rw [h1] at h
    cases h2 : m' (s' ++ [c]) with
    | ok r' =>
      obtain ⟨a', t'⟩ := r'
      obtain ⟨c2, e2⟩ := hm.2.1 _ _ _ _ h2
      subst e2
      rw [h2] at h
      simp only [Outcome.map, topOf, getLast?_append_single, Outcome.ok.injEq, Prod.mk.injEq,
        Option.some.injEq] at h
      obtain ⟨ha, hc⟩ := h
      subst ha; subst hc
      exact (hf a).2.2 s s' c1 hS
    | panic p => rw [h2] at h; simp [Outcome.map] at h
    | diverge => rw [h2] at h; simp [Outcome.map] at h
  | panic p =>
    rw [h1] at h
    cases h2 : m' (s' ++ [c]) with
    | ok r' => rw [h2] at h; simp [Outcome.map] at h
    | panic p' => rw [h2] at h; simpa [Outcome.map] using h
    | diverge => rw [h2] at h; simp [Outcome.map] at h
  | diverge =>
    rw [h1] at h
    cases h2 : m' (s' ++ [c]) with
    | ok r' => rw [h2] at h; simp [Outcome.map] at h
    | panic p' => rw [h2] at h; simp [Outcome.map] at h
    | diverge => rfl

theorem sameOnEquivTop_of {α : Type} {m m' : EvalM α} (h : SameOnEquiv m m') : SameOnEquivTop m m' := by
  refine ⟨topOnly_of_pres h.1, topOnly_of_pres h.2.1, ?_⟩
  intro s s' c hS
  have hv := h.2.2 _ _ (equivDeep_push hS c)
  cases h1 : m (s ++ [c]) with
  | ok r =>
    obtain ⟨a, t⟩ := r
    have e1 := h.1 _ _ _ h1
    subst e1
    rw [h1] at hv
    cases h2 : m' (s' ++ [c]) with
    | ok r' =>
      obtain ⟨a', t'⟩ := r'
      have e2 := h.2.1 _ _ _ h2
      subst e2
      rw [h2] at hv
      simp only [Outcome.map, Outcome.ok.injEq] at hv
      subst hv
      simp [Outcome.map, topOf]
    | panic p => rw [h2] at hv; simp [Outcome.map] at hv
    | diverge => rw [h2] at hv; simp [Outcome.map] at hv
  | panic p =>
    rw [h1] at hv
    cases h2 : m' (s' ++ [c]) with
    | ok r' => rw [h2] at hv; simp [Outcome.map] at hv
    | panic p' => rw [h2] at hv; simpa [Outcome.map] using hv
    | diverge => rw [h2] at hv; simp [Outcome.map] at hv
  | diverge =>
    rw [h1] at hv
    cases h2 : m' (s' ++ [c]) with
    | ok r' => rw [h2] at hv; simp [Outcome.map] at hv
    | panic p' => rw [h2] at hv; simp [Outcome.map] at hv
    | diverge => rfl

theorem sameOnEquiv_pushPop {α β : Type} {m m' : EvalM α} (c : Ctx) (g : α → β)
    (hm : SameOnEquivTop m m') :
    SameOnEquiv (do EvalM.push c; let r ← m; EvalM.pop; Pure.pure (g r))
      (do EvalM.push c; let r ← m'; EvalM.pop; Pure.pure (g r)) := by
  refine ⟨pres_pushPop c hm.1 g, pres_pushPop c hm.2.1 g, ?_⟩
  intro s s' hS
  have h := hm.2.2 s s' c hS
  simp only [bind_def, push, pop, pure_def, Scope.push]
  cases h1 : m (s ++ [c]) with
  | ok r =>
    obtain ⟨a, t⟩ := r
    rw [h1] at h
    cases h2 : m' (s' ++ [c]) with
    | ok r' =>
      obtain ⟨a', t'⟩ := r'
      rw [h2] at h
      simp only [Outcome.map, topOf, Outcome.ok.injEq, Prod.mk.injEq] at h
      simp only [Outcome.map, h.1]
    | panic p => rw [h2] at h; simp [Outcome.map] at h
    | diverge => rw [h2] at h; simp [Outcome.map] at h
  | panic p =>
    rw [h1] at h
    cases h2 : m' (s' ++ [c]) with
    | ok r' => rw [h2] at h; simp [Outcome.map] at h
    | panic p' => rw [h2] at h; simpa [Outcome.map] using h
    | diverge => rw [h2] at h; simp [Outcome.map] at h
  | diverge =>
    rw [h1] at h
    cases h2 : m' (s' ++ [c]) with
    | ok r' => rw [h2] at h; simp [Outcome.map] at h
    | panic p' => rw [h2] at h; simp [Outcome.map] at h
    | diverge => rfl

def scopeRel : EvalRel where
  R := SameOnEquiv
  Q := SameOnEquivTop
  pure := fun a => ⟨pres_pure a, pres_pure a, fun _ _ _ => rfl⟩
  bind := sameOnEquiv_bind
  lift := fun o => ⟨pres_lift o, pres_lift o, fun _ _ _ => by cases o <;> rfl⟩
  getEntry := fun k => ⟨pres_getEntry k, pres_getEntry k, fun s s' hS => by
    simp only [EvalM.getEntry, Outcome.map, equivVisible_of_equivDeep hS k]⟩
  searchDeep := fun names => by
    have hp : Pres (do let s ← EvalM.getScope; Pure.pure ((scopeSearchDeep s names).getD Value.null) : EvalM Value) :=
      pres_bind pres_getScope (fun _ => pres_pure _)
    refine ⟨hp, hp, fun s s' hS => ?_⟩
    simp only [bind_def, EvalM.getScope, pure_def, Outcome.map, hS names]
  qOfR := sameOnEquivTop_of
  qPure := fun a => sameOnEquivTop_of ⟨pres_pure a, pres_pure a, fun _ _ _ => rfl⟩
  qBind := sameOnEquivTop_bind
  qSetEntry := fun k v => ⟨topOnly_setEntry k v, topOnly_setEntry k v, fun s s' c _ => by
    simp only [EvalM.setEntry, setEntry_append, Outcome.map, topOf, getLast?_append_single]⟩
  pushPop := sameOnEquiv_pushPop

/-- Function bodies at every fuel. -/
theorem call_sameOnEquiv (num : NumOps) (bp : String → List Value → Outcome Value)
    (bn : String → List (String × Value × Nat) → Outcome Value) (v : Variant) :
    ∀ n b, SameOnEquiv ((mkEnv num bp bn v n).call b) ((mkEnv num bp bn v n).call b) := by
  intro n
  induction n with
  | zero => intro b; exact ⟨pres_diverge, pres_diverge, fun _ _ _ => rfl⟩
  | succ n ih =>
    intro b
    have h := r_evalStep scopeRel (mkEnv num bp bn v n) (mkEnv num bp bn v n).call ih b
    rw [mkEnv_withCall] at h
    exact h

theorem evalWith_sameOnEquiv (num : NumOps) (bp : String → List Value → Outcome Value)
    (bn : String → List (String × Value × Nat) → Outcome Value) (v : Variant) (n : Nat) (a : Ast) :
    SameOnEquiv (evalWith v num bp bn n a) (evalWith v num bp bn n a) := by
  have h := r_evalStep scopeRel (mkEnv num bp bn v n) (mkEnv num bp bn v n).call
    (call_sameOnEquiv num bp bn v n) a
  rw [mkEnv_withCall] at h
  exact h

/-! ## when the visible bindings determine the qualified ones -/

/-- What a qualified name denotes in terms of the visible bindings alone: the first segment is
looked up top-down, the rest inside the context found. -/
def visibleSearchDeep (s : Scope) : List String → Option Value
  | [] => none
  | [n] => Scope.getEntry s n
  | n :: m :: rest =>
    match Scope.getEntry s n with
    | some (.ctx sub) => ctxSearchDeep sub (m :: rest)
    | _ => none

/-- No name is bound in two contexts of the scope. -/
def NoShadow : Scope → Prop
  | [] => True
  | c :: s => (∀ d ∈ s, ∀ k, Ctx.get c k = none ∨ Ctx.get d k = none) ∧ NoShadow s

theorem noShadow_append_single (s : Scope) (c : Ctx) :
    NoShadow (s ++ [c]) ↔ NoShadow s ∧ ∀ d ∈ s, ∀ k, Ctx.get d k = none ∨ Ctx.get c k = none := by
  induction s with
  | nil => simp [NoShadow]
  | cons e s ih =>
    simp only [List.cons_append, NoShadow, ih, List.mem_append, List.mem_cons, List.not_mem_nil, or_false]
    constructor
    · rintro ⟨h1, h2, h3⟩
      refine ⟨⟨fun d hd k => h1 d (Or.inl hd) k, h2⟩, ?_⟩
      rintro d (rfl | hd) k
      · exact h1 c (Or.inr rfl) k
      · exact h3 d hd k
    · rintro ⟨⟨h1, h2⟩, h3⟩
      refine ⟨?_, h2, fun d hd k => h3 d (Or.inr hd) k⟩
      rintro d (hd | rfl) k
      · exact h1 d hd k
      · exact h3 e (Or.inl rfl) k

theorem scope_rev_induction {P : Scope → Prop} (nil : P [])
    (snoc : ∀ s c, P s → P (s ++ [c])) : ∀ s, P s := by
  intro s
  suffices h : ∀ r : List Ctx, P r.reverse by simpa using h s.reverse
  intro r
  induction r with
  | nil => exact nil
  | cons c r ih => simpa using snoc _ c ih

theorem scopeSearchDeep_nil (s : Scope) : scopeSearchDeep s [] = none := rfl

theorem getEntry_none_of_unbound (s : Scope) (n : String) (h : ∀ d ∈ s, Ctx.get d n = none) :
    Scope.getEntry s n = none := by
  simp only [Scope.getEntry, List.findSome?_eq_none_iff, List.mem_reverse]
  exact h

theorem getEntry_push (s : Scope) (c : Ctx) (k : String) :
    Scope.getEntry (s ++ [c]) k = (match Ctx.get c k with
      | some v => some v
      | none => Scope.getEntry s k) := by
  simp only [Scope.getEntry, List.reverse_append, List.reverse_cons, List.reverse_nil,
    List.nil_append, List.cons_append, List.findSome?_cons]
  cases Ctx.get c k <;> rfl

theorem searchDeep_aux (l : List Ctx) (n : String) (rest : List String) :
    (match l.find? (fun c => Ctx.contains c n) with
      | some c => ctxSearchDeep c (n :: rest)
      | none => none) =
    (match rest with
      | [] => l.findSome? (fun c => Ctx.get c n)
      | m :: r =>
        match l.findSome? (fun c => Ctx.get c n) with
        | some (.ctx sub) => ctxSearchDeep sub (m :: r)
        | _ => none) := by
  induction l with
  | nil => cases rest <;> rfl
  | cons c l ih =>
    cases hc : Ctx.get c n with
    | none =>
      have hcn : Ctx.contains c n = false := by simp [Ctx.contains, hc]
      simp only [List.find?_cons, hcn, List.findSome?_cons, hc]
      exact ih
    | some v =>
      have hcn : Ctx.contains c n = true := by simp [Ctx.contains, hc]
      simp only [List.find?_cons, hcn, List.findSome?_cons, hc]
      cases rest with
      | nil => simp [ctxSearchDeep, hc]
      | cons m r =>
        cases v <;> simp [ctxSearchDeep, hc]

/-- `Scope::search_deep` is a function of the visible bindings — in every scope. -/
theorem scopeSearchDeep_eq_visible' (s : Scope) (names : List String) :
    scopeSearchDeep s names = visibleSearchDeep s names := by
  match names with
  | [] => rfl
  | [n] => rw [scopeSearchDeep_single]; rfl
  | n :: m :: rest =>
    simp only [scopeSearchDeep, visibleSearchDeep, Scope.getEntry]
    exact searchDeep_aux s.reverse n (m :: rest)

/-- In a scope without shadowing `Scope::search_deep` is a function of the visible bindings
(the form that held before the repair; now a special case of `scopeSearchDeep_eq_visible'`). -/
theorem scopeSearchDeep_eq_visible (s : Scope) (_h : NoShadow s) (names : List String) :
    scopeSearchDeep s names = visibleSearchDeep s names :=
  scopeSearchDeep_eq_visible' s names

theorem visibleSearchDeep_congr {s1 s2 : Scope} (h : Scope.equivVisible s1 s2) (names : List String) :
    visibleSearchDeep s1 names = visibleSearchDeep s2 names := by
  match names with
  | [] => rfl
  | [n] => exact h n
  | n :: m :: rest => simp only [visibleSearchDeep, h n]

/-- Scopes that have the same visible bindings have the same qualified bindings. -/
theorem equivDeep_of_equivVisible' {s1 s2 : Scope} (h : Scope.equivVisible s1 s2) : Scope.equivDeep s1 s2 := by
  intro names
  rw [scopeSearchDeep_eq_visible' s1, scopeSearchDeep_eq_visible' s2]
  exact visibleSearchDeep_congr h names

/-- Scopes without shadowing that have the same visible bindings have the same qualified bindings. -/
theorem equivDeep_of_equivVisible {s1 s2 : Scope} (h : Scope.equivVisible s1 s2)
    (_h1 : NoShadow s1) (_h2 : NoShadow s2) : Scope.equivDeep s1 s2 :=
  equivDeep_of_equivVisible' h

end Eval
end Dmn
