import Dmn.Lemmas.DecDigits

/-! `scientific_to_plain ∘ decQuadToString` computed symbolically: `plain_of_not_f1`,
`plain_of_f1`. -/

namespace Dmn
namespace D128

/-! ### the `split` helpers -/

theorem breakOn2_cons_ne (c1 c2 a : Char) (l : List Char) (h : a ≠ c1) :
    breakOn2 c1 c2 (a :: l) = (breakOn2 c1 c2 l).map (fun p => (a :: p.1, p.2)) := by
  cases l with
  | nil => simp [breakOn2]
  | cons b rest =>
    rw [breakOn2]
    have : ¬ (a = c1 ∧ b = c2) := fun hh => h hh.1
    rw [if_neg this]
    cases breakOn2 c1 c2 (b :: rest) with
    | none => rfl
    | some p => cases p; rfl

theorem breakOn2_none (c1 c2 : Char) (s : List Char) (h : c1 ∉ s) : breakOn2 c1 c2 s = none := by
  induction s with
  | nil => rfl
  | cons a l ih =>
    have ha : a ≠ c1 := fun e => h (by simp [e])
    have hl : c1 ∉ l := fun e => h (by simp [e])
    rw [breakOn2_cons_ne _ _ _ _ ha, ih hl]; rfl

theorem breakOn2_found (c1 c2 : Char) (xs ys : List Char) (h : c1 ∉ xs) :
    breakOn2 c1 c2 (xs ++ c1 :: c2 :: ys) = some (xs, ys) := by
  induction xs with
  | nil => simp [breakOn2]
  | cons a l ih =>
    have ha : a ≠ c1 := fun e => h (by simp [e])
    have hl : c1 ∉ l := fun e => h (by simp [e])
    rw [List.cons_append, breakOn2_cons_ne _ _ _ _ ha, ih hl]; rfl

theorem breakOn2_other (c1 c2 c3 : Char) (xs ys : List Char) (h : c1 ∉ xs) (h' : c1 ∉ ys)
    (h3 : c3 ≠ c2) (h31 : c3 ≠ c1) : breakOn2 c1 c2 (xs ++ c1 :: c3 :: ys) = none := by
  induction xs with
  | nil =>
    simp only [List.nil_append]
    rw [breakOn2]
    have : ¬ (c1 = c1 ∧ c3 = c2) := fun hh => h3 hh.2
    rw [if_neg this, breakOn2_cons_ne _ _ _ _ h31, breakOn2_none _ _ _ h']; rfl
  | cons a l ih =>
    have ha : a ≠ c1 := fun e => h (by simp [e])
    have hl : c1 ∉ l := fun e => h (by simp [e])
    rw [List.cons_append, breakOn2_cons_ne _ _ _ _ ha, ih hl]; rfl

theorem breakOn1_none (c : Char) (s : List Char) (h : c ∉ s) : breakOn1 c s = none := by
  induction s with
  | nil => rfl
  | cons a l ih =>
    have ha : a ≠ c := fun e => h (by simp [e])
    have hl : c ∉ l := fun e => h (by simp [e])
    rw [breakOn1, if_neg ha, ih hl]

theorem breakOn1_found (c : Char) (xs ys : List Char) (h : c ∉ xs) :
    breakOn1 c (xs ++ c :: ys) = some (xs, ys) := by
  induction xs with
  | nil => simp [breakOn1]
  | cons a l ih =>
    have ha : a ≠ c := fun e => h (by simp [e])
    have hl : c ∉ l := fun e => h (by simp [e])
    rw [List.cons_append, breakOn1, if_neg ha, ih hl]

theorem upTo2_none (c1 c2 : Char) (s : List Char) (h : c1 ∉ s) : upTo2 c1 c2 s = s := by
  unfold upTo2; rw [breakOn2_none _ _ _ h]

theorem upTo1_none (c : Char) (s : List Char) (h : c ∉ s) : upTo1 c s = s := by
  unfold upTo1; rw [breakOn1_none _ _ h]

/-! ### membership facts -/

theorem AllDigits.not_mem_E {l : List Char} (h : AllDigits l) : 'E' ∉ l :=
  fun hm => isDigit_ne_E (h _ hm) rfl
theorem AllDigits.not_mem_dot {l : List Char} (h : AllDigits l) : '.' ∉ l :=
  fun hm => isDigit_ne_dot (h _ hm) rfl

/-- the sign prefix of the printed text -/
def signOf (neg : Bool) : List Char := if neg then ['-'] else []

theorem not_mem_signOf_E (n : Bool) : 'E' ∉ signOf n := by cases n <;> simp [signOf]
theorem not_mem_signOf_dot (n : Bool) : '.' ∉ signOf n := by cases n <;> simp [signOf]

theorem stripPlus_of_digits (l : List Char) (h : AllDigits l) : stripPlus l = l := by
  cases l with
  | nil => rfl
  | cons c r =>
    have hc : c ≠ '+' := isDigit_ne_plus (h c (by simp))
    unfold stripPlus
    split
    · next heq => injection heq with h1 _; exact absurd h1 hc
    · rfl

theorem parseUsize_natDigits (n : Nat) (h : n < 2 ^ 64) : parseUsize (natDigits n) = some n := by
  unfold parseUsize
  have hd := allDigits_natDigits n
  have hne := natDigits_ne_nil n
  rw [stripPlus_of_digits _ hd]
  have he : (natDigits n).isEmpty = false := by
    cases hl : natDigits n with
    | nil => exact absurd hl hne
    | cons _ _ => rfl
  simp only [he, hd.all, readNat_natDigits, h]
  simp


/-! ### `sciToPlainU` on the shapes `decQuadToString` produces -/

theorem sciToPlainU_noE (s : List Char) (h : 'E' ∉ s) : sciToPlainU s = some s := by
  unfold sciToPlainU
  rw [breakOn2_none _ _ _ h, breakOn2_none _ _ _ h]

theorem sciToPlainU_plus_dot (b a : List Char) (n : Nat) (hb : '.' ∉ b) (ha : '.' ∉ a)
    (hbE : 'E' ∉ b) (haE : 'E' ∉ a) (hn : n < 2 ^ 64) (hlen : a.length ≤ n) :
    sciToPlainU ((b ++ '.' :: a) ++ 'E' :: '+' :: natDigits n) = some (b ++ a ++ zeros (n - a.length)) := by
  have hm : 'E' ∉ b ++ '.' :: a := by
    simp only [List.mem_append, List.mem_cons]
    intro h; rcases h with h | h | h
    · exact hbE h
    · exact absurd h (by decide)
    · exact haE h
  unfold sciToPlainU
  rw [breakOn2_found _ _ _ _ hm]
  simp only []
  rw [upTo2_none _ _ _ (allDigits_natDigits n).not_mem_E, parseUsize_natDigits n hn]
  simp only []
  rw [breakOn1_found _ _ _ hb]
  simp only []
  rw [upTo1_none _ _ ha, if_neg (by omega)]

theorem sciToPlainU_plus_nodot (m : List Char) (n : Nat) (hm : '.' ∉ m) (hmE : 'E' ∉ m)
    (hn : n < 2 ^ 64) :
    sciToPlainU (m ++ 'E' :: '+' :: natDigits n)
      = if m.all (· == '0') then some ['0'] else some (m ++ zeros n) := by
  unfold sciToPlainU
  rw [breakOn2_found _ _ _ _ hmE]
  simp only []
  rw [upTo2_none _ _ _ (allDigits_natDigits n).not_mem_E, parseUsize_natDigits n hn]
  simp only []
  rw [breakOn1_none _ _ hm]

theorem sciToPlainU_minus_dot (b a : List Char) (n : Nat) (hb : '.' ∉ b) (ha : '.' ∉ a)
    (hbE : 'E' ∉ b) (haE : 'E' ∉ a) (hn : n < 2 ^ 64) :
    sciToPlainU ((b ++ '.' :: a) ++ 'E' :: '-' :: natDigits n)
      = some (['0', '.'] ++ zeros (n - 1) ++ b ++ a) := by
  have hm : 'E' ∉ b ++ '.' :: a := by
    simp only [List.mem_append, List.mem_cons]
    intro h; rcases h with h | h | h
    · exact hbE h
    · exact absurd h (by decide)
    · exact haE h
  unfold sciToPlainU
  rw [breakOn2_other _ _ _ _ _ hm (allDigits_natDigits n).not_mem_E (by decide) (by decide)]
  simp only []
  rw [breakOn2_found _ _ _ _ hm]
  simp only []
  rw [upTo2_none _ _ _ (allDigits_natDigits n).not_mem_E, parseUsize_natDigits n hn]
  simp only []
  rw [breakOn1_found _ _ _ hb]
  simp only []
  rw [upTo1_none _ _ ha]

theorem sciToPlainU_minus_nodot (m : List Char) (n : Nat) (hm : '.' ∉ m) (hmE : 'E' ∉ m)
    (hn : n < 2 ^ 64) :
    sciToPlainU (m ++ 'E' :: '-' :: natDigits n) = some (['0', '.'] ++ zeros (n - 1) ++ m) := by
  unfold sciToPlainU
  rw [breakOn2_other _ _ _ _ _ hmE (allDigits_natDigits n).not_mem_E (by decide) (by decide)]
  simp only []
  rw [breakOn2_found _ _ _ _ hmE]
  simp only []
  rw [upTo2_none _ _ _ (allDigits_natDigits n).not_mem_E, parseUsize_natDigits n hn]
  simp only []
  rw [breakOn1_none _ _ hm]

end D128
end Dmn

namespace Dmn
namespace D128

theorem signOf_eq (d : D128) : (if d.neg = true then ['-'] else []) = signOf d.neg := rfl

/-- mantissa of the exponential form: `d` or `d.ddd` -/
def mantissa (c : Char) (rest : List Char) : List Char :=
  match rest with
  | [] => [c]
  | _ :: _ => c :: '.' :: rest

theorem toSci_sci (d : D128) (c : Char) (rest : List Char) (hcr : natDigits d.coeff = c :: rest)
    (hs : d.exp > 0 ∨ ((rest.length + 1 : Nat) : Int) + d.exp < -5) :
    toSci d = (signOf d.neg ++ mantissa c rest) ++
      'E' :: (if ((rest.length + 1 : Nat) : Int) + d.exp - 1 < 0 then '-' else '+') ::
        natDigits (((rest.length + 1 : Nat) : Int) + d.exp - 1).natAbs := by
  unfold toSci
  rw [hcr]
  simp only [List.length_cons, signOf_eq]
  rw [if_pos hs]
  cases rest with
  | nil => simp [mantissa]
  | cons c2 r2 => simp [mantissa]

theorem toSci_plain (d : D128) (c : Char) (rest : List Char) (hcr : natDigits d.coeff = c :: rest)
    (hs : ¬ (d.exp > 0 ∨ ((rest.length + 1 : Nat) : Int) + d.exp < -5)) :
    toSci d =
      if ((rest.length + 1 : Nat) : Int) + d.exp > 0 then
        if ((rest.length + 1 : Nat) : Int) + d.exp < ((rest.length + 1 : Nat) : Int) then
          signOf d.neg ++ (c :: rest).take (((rest.length + 1 : Nat) : Int) + d.exp).toNat ++ ['.'] ++
            (c :: rest).drop (((rest.length + 1 : Nat) : Int) + d.exp).toNat
        else signOf d.neg ++ c :: rest
      else signOf d.neg ++ ['0', '.'] ++ zeros (-(((rest.length + 1 : Nat) : Int) + d.exp)).toNat ++ c :: rest := by
  unfold toSci
  rw [hcr]
  simp only [List.length_cons, signOf_eq]
  rw [if_neg hs]

theorem plainSpec_eq (d : D128) (c : Char) (rest : List Char) (hcr : natDigits d.coeff = c :: rest) :
    plainSpec d =
      if d.exp ≥ 0 then signOf d.neg ++ c :: rest ++ zeros (zexp d)
      else if (-d.exp).toNat < rest.length + 1 then
        signOf d.neg ++ (c :: rest).take (rest.length + 1 - (-d.exp).toNat) ++ ['.'] ++
          (c :: rest).drop (rest.length + 1 - (-d.exp).toNat)
      else signOf d.neg ++ ['0', '.'] ++ zeros ((-d.exp).toNat - (rest.length + 1)) ++ c :: rest := by
  unfold plainSpec
  rw [hcr]
  simp only [List.length_cons, signOf_eq]

theorem not_mem_sign_digit_E (n : Bool) (c : Char) (hc : isDigit c = true) : 'E' ∉ signOf n ++ [c] := by
  simp only [List.mem_append, List.mem_singleton]
  intro hh; rcases hh with hh | hh
  · exact not_mem_signOf_E n hh
  · exact isDigit_ne_E hc hh.symm

theorem not_mem_sign_digit_dot (n : Bool) (c : Char) (hc : isDigit c = true) : '.' ∉ signOf n ++ [c] := by
  simp only [List.mem_append, List.mem_singleton]
  intro hh; rcases hh with hh | hh
  · exact not_mem_signOf_dot n hh
  · exact isDigit_ne_dot hc hh.symm

/-- what `Display` prints for a number that `decQuadToString` renders in exponential form -/
theorem plain_sci (d : D128) (c : Char) (rest : List Char) (hcr : natDigits d.coeff = c :: rest)
    (hlen : rest.length + 1 ≤ 34) (hlo : -6176 ≤ d.exp) (hhi : d.exp ≤ 6111)
    (hs : d.exp > 0 ∨ ((rest.length + 1 : Nat) : Int) + d.exp < -5) (hneg : d.neg = false) :
    sciToPlainU (toSci d) =
      if d.exp > 0 then some (c :: rest ++ zeros (zexp d))
      else some (['0', '.'] ++ zeros ((-d.exp).toNat - (rest.length + 1)) ++ c :: rest) := by
  have hds := allDigits_natDigits d.coeff
  have hcd : isDigit c = true := hds c (by rw [hcr]; simp)
  have hrest : AllDigits rest := fun x hx => hds x (by rw [hcr]; simp [hx])
  rw [toSci_sci d c rest hcr hs]
  by_cases hpos : d.exp > 0
  · rw [if_pos hpos, if_neg (by omega)]
    have hn : (((rest.length + 1 : Nat) : Int) + d.exp - 1).natAbs = rest.length + d.exp.toNat := by omega
    rw [hn]
    cases rest with
    | nil =>
      simp only [mantissa]
      rw [sciToPlainU_plus_nodot _ _ (not_mem_sign_digit_dot _ _ hcd) (not_mem_sign_digit_E _ _ hcd)
        (by simp only [List.length_nil]; omega)]
      rw [hneg]
      simp only [signOf, Bool.false_eq_true, if_false, List.nil_append, List.all_cons, List.all_nil, Bool.and_true]
      by_cases hz : d.coeff = 0
      · have : natDigits d.coeff = ['0'] := by rw [hz]; rfl
        rw [hcr] at this
        injection this with h1 _
        subst h1
        simp [zexp, hz, zeros]
      · obtain ⟨c', rest', hc', hne⟩ := natDigits_head d.coeff hz
        rw [hcr] at hc'
        injection hc' with h1 _
        subst h1
        have : (c == '0') = false := by simpa using hne
        simp [this, zexp, hz]
    | cons c2 r2 =>
      simp only [mantissa]
      have hz : d.coeff ≠ 0 := by
        intro hz
        have : natDigits d.coeff = ['0'] := by rw [hz]; rfl
        rw [hcr] at this
        injection this with _ h2
        exact absurd h2 (by simp)
      have e1 : signOf d.neg ++ c :: '.' :: c2 :: r2 = (signOf d.neg ++ [c]) ++ '.' :: (c2 :: r2) := by simp
      rw [e1, sciToPlainU_plus_dot _ _ _ (not_mem_sign_digit_dot _ _ hcd) hrest.not_mem_dot
        (not_mem_sign_digit_E _ _ hcd) hrest.not_mem_E (by omega) (by omega)]
      rw [hneg]
      simp [signOf, zexp, hz]
  · have hsm : ((rest.length + 1 : Nat) : Int) + d.exp < -5 := by omega
    rw [if_neg hpos, if_pos (by omega)]
    have hn : (((rest.length + 1 : Nat) : Int) + d.exp - 1).natAbs = (-d.exp).toNat - (rest.length + 1) + 1 := by omega
    rw [hn]
    cases rest with
    | nil =>
      simp only [mantissa]
      rw [sciToPlainU_minus_nodot _ _ (not_mem_sign_digit_dot _ _ hcd) (not_mem_sign_digit_E _ _ hcd)
        (by simp only [List.length_nil]; omega)]
      rw [hneg]
      simp [signOf]
    | cons c2 r2 =>
      simp only [mantissa]
      have e1 : signOf d.neg ++ c :: '.' :: c2 :: r2 = (signOf d.neg ++ [c]) ++ '.' :: (c2 :: r2) := by simp
      rw [e1, sciToPlainU_minus_dot _ _ _ (not_mem_sign_digit_dot _ _ hcd) hrest.not_mem_dot
        (not_mem_sign_digit_E _ _ hcd) hrest.not_mem_E (by omega)]
      rw [hneg]
      simp [signOf]

/-- what `Display` prints for a number that `decQuadToString` renders without exponent -/
theorem plain_nosci (d : D128) (c : Char) (rest : List Char) (hcr : natDigits d.coeff = c :: rest)
    (hs : ¬ (d.exp > 0 ∨ ((rest.length + 1 : Nat) : Int) + d.exp < -5)) :
    sciToPlainU (toSci d) = some (plainSpec d) := by
  have hds := allDigits_natDigits d.coeff
  have hcd : isDigit c = true := hds c (by rw [hcr]; simp)
  have hrest : AllDigits rest := fun x hx => hds x (by rw [hcr]; simp [hx])
  have hsE := not_mem_signOf_E d.neg
  have hdigE : 'E' ∉ c :: rest := by
    intro hh
    rcases List.mem_cons.mp hh with hh | hh
    · exact isDigit_ne_E hcd hh.symm
    · exact hrest.not_mem_E hh
  rw [toSci_plain d c rest hcr hs, plainSpec_eq d c rest hcr]
  by_cases hp : ((rest.length + 1 : Nat) : Int) + d.exp > 0
  · rw [if_pos hp]
    by_cases hlt : ((rest.length + 1 : Nat) : Int) + d.exp < ((rest.length + 1 : Nat) : Int)
    · rw [if_pos hlt, if_neg (by omega : ¬ d.exp ≥ 0), if_pos (by omega : (-d.exp).toNat < rest.length + 1)]
      have hk : (((rest.length + 1 : Nat) : Int) + d.exp).toNat = rest.length + 1 - (-d.exp).toNat := by omega
      rw [hk, sciToPlainU_noE]
      simp only [List.mem_append, List.mem_singleton]
      intro hh
      rcases hh with ((hh | hh) | hh) | hh
      · exact hsE hh
      · exact hdigE (List.mem_of_mem_take hh)
      · exact absurd hh (by decide)
      · exact hdigE (List.mem_of_mem_drop hh)
    · rw [if_neg hlt, if_pos (by omega : d.exp ≥ 0)]
      have : zexp d = 0 := by unfold zexp; split <;> omega
      rw [this, sciToPlainU_noE]
      · simp [zeros]
      · simp only [List.mem_append]
        intro hh; rcases hh with hh | hh
        · exact hsE hh
        · exact hdigE hh
  · rw [if_neg hp, if_neg (by omega : ¬ d.exp ≥ 0), if_neg (by omega : ¬ (-d.exp).toNat < rest.length + 1)]
    have hk : (-(((rest.length + 1 : Nat) : Int) + d.exp)).toNat = (-d.exp).toNat - (rest.length + 1) := by omega
    rw [hk, sciToPlainU_noE]
    simp only [List.mem_append]
    intro hh
    rcases hh with ((hh | hh) | hh) | hh
    · exact hsE hh
    · simp only [List.mem_cons, List.mem_nil_iff, or_false] at hh
      rcases hh with hh | hh <;> exact absurd hh (by decide)
    · have := List.eq_of_mem_replicate hh
      exact absurd this (by decide)
    · exact hdigE hh

/-! ### the sign is kept aside -/

theorem sciToPlain_sign (n : Bool) (u : List Char) :
    sciToPlain (signOf n ++ u) = (sciToPlain u).map (fun t => signOf n ++ t) := by
  cases n with
  | false => simp [signOf]
  | true =>
    simp only [signOf, if_true, List.singleton_append]
    rw [sciToPlain]
    cases sciToPlain u <;> rfl

theorem sciToPlain_of_head (s : List Char) (c : Char) (h : s.head? = some c) (hc : c ≠ '-') :
    sciToPlain s = sciToPlainU s := by
  cases s with
  | nil => simp at h
  | cons c' l =>
    simp at h
    subst h
    unfold sciToPlain
    split
    · next heq => injection heq with h1 _; exact absurd h1 hc
    · rfl

theorem toSci_sign (d : D128) : toSci d = signOf d.neg ++ toSci ⟨false, d.coeff, d.exp⟩ := by
  unfold toSci
  simp only [signOf_eq]
  simp only [signOf, Bool.false_eq_true, if_false, List.nil_append]
  split
  · simp [List.append_assoc]
  · split
    · split <;> simp [List.append_assoc]
    · simp [List.append_assoc]

theorem plainSpec_sign (d : D128) : plainSpec d = signOf d.neg ++ plainSpec ⟨false, d.coeff, d.exp⟩ := by
  unfold plainSpec zexp
  simp only [signOf_eq]
  simp only [signOf, Bool.false_eq_true, if_false, List.nil_append]
  split
  · simp [List.append_assoc]
  · split <;> simp [List.append_assoc]

/-- the text `decQuadToString` prints for a non-negative number starts with a digit -/
theorem toSci_head (d : D128) (hneg : d.neg = false) : ∃ c, (toSci d).head? = some c ∧ isDigit c = true := by
  obtain ⟨c, rest, hcr⟩ : ∃ c rest, natDigits d.coeff = c :: rest := by
    cases hl : natDigits d.coeff with
    | nil => exact absurd hl (natDigits_ne_nil _)
    | cons c rest => exact ⟨c, rest, rfl⟩
  have hcd : isDigit c = true := allDigits_natDigits d.coeff c (by rw [hcr]; simp)
  by_cases hs : d.exp > 0 ∨ ((rest.length + 1 : Nat) : Int) + d.exp < -5
  · rw [toSci_sci d c rest hcr hs, hneg]
    cases rest with
    | nil => exact ⟨c, by simp [signOf, mantissa], hcd⟩
    | cons c2 r2 => exact ⟨c, by simp [signOf, mantissa], hcd⟩
  · rw [toSci_plain d c rest hcr hs, hneg]
    by_cases hp : ((rest.length + 1 : Nat) : Int) + d.exp > 0
    · rw [if_pos hp]
      by_cases hlt : ((rest.length + 1 : Nat) : Int) + d.exp < ((rest.length + 1 : Nat) : Int)
      · rw [if_pos hlt]
        obtain ⟨k, hk⟩ : ∃ k, (((rest.length + 1 : Nat) : Int) + d.exp).toNat = k + 1 :=
          ⟨(((rest.length + 1 : Nat) : Int) + d.exp).toNat - 1, by omega⟩
        rw [hk]
        exact ⟨c, by simp [signOf], hcd⟩
      · rw [if_neg hlt]
        exact ⟨c, by simp [signOf], hcd⟩
    · rw [if_neg hp]
      exact ⟨'0', by simp [signOf], by decide⟩

/-- **`Display` prints the expected plain text, for every finite decimal128** (after the fixes
4df4c0b and de58a23; never a panic) -/
theorem plain_eq (d : D128) (hwf : WF d) : plain d = some (plainSpec d) := by
  obtain ⟨hc, hlo, hhi⟩ := hwf
  have hu : sciToPlain (toSci ⟨false, d.coeff, d.exp⟩) = some (plainSpec ⟨false, d.coeff, d.exp⟩) := by
    obtain ⟨c0, h0, hd0⟩ := toSci_head ⟨false, d.coeff, d.exp⟩ rfl
    rw [sciToPlain_of_head _ c0 h0 (isDigit_ne_minus hd0)]
    obtain ⟨c, rest, hcr⟩ : ∃ c rest, natDigits d.coeff = c :: rest := by
      cases hl : natDigits d.coeff with
      | nil => exact absurd hl (natDigits_ne_nil _)
      | cons c rest => exact ⟨c, rest, rfl⟩
    have hlen : (natDigits d.coeff).length ≤ 34 := natDigits_length_le _ 34 (by decide) hc
    rw [hcr] at hlen
    simp only [List.length_cons] at hlen
    by_cases hs : d.exp > 0 ∨ ((rest.length + 1 : Nat) : Int) + d.exp < -5
    · rw [plain_sci ⟨false, d.coeff, d.exp⟩ c rest hcr hlen hlo hhi hs rfl,
        plainSpec_eq ⟨false, d.coeff, d.exp⟩ c rest hcr]
      simp only [signOf, Bool.false_eq_true, if_false, List.nil_append]
      by_cases hpos : d.exp > 0
      · rw [if_pos hpos, if_pos (by omega)]
      · rw [if_neg hpos, if_neg (by omega), if_neg (by omega)]
    · exact plain_nosci ⟨false, d.coeff, d.exp⟩ c rest hcr hs
  unfold plain
  rw [toSci_sign, sciToPlain_sign, hu, plainSpec_sign d]
  rfl

end D128
end Dmn
