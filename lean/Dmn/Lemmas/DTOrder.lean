import Dmn.Lemmas.DecisionTable

/-!
# The order PRIORITY and OUTPUT ORDER sort by, declaratively

* `lexLe` is the lexicographic order of core Lean on lists of natural numbers (`lexLe_iff_le`), antisymmetric;
* a list that is a permutation of `l`, sorted by a total preorder and stable with respect to a key on which the
  preorder is antisymmetric is determined by these three facts (`stable_sorted_unique`);
* the head of the stable merge sort is the first element that is minimal (`head_mergeSort`).
-/

namespace Dmn.DT

theorem lexLe_iff_le : ∀ a b : List Nat, Spec.lexLe a b = true ↔ a ≤ b
  | [], b => by simp [Spec.lexLe]
  | a :: as, [] => by simp [Spec.lexLe]
  | a :: as, b :: bs => by
    have ih := lexLe_iff_le as bs
    simp only [Spec.lexLe, Bool.or_eq_true, decide_eq_true_eq, Bool.and_eq_true, List.cons_le_cons_iff, ih]

theorem lexLe_antisymm : ∀ a b : List Nat, Spec.lexLe a b = true → Spec.lexLe b a = true → a = b
  | [], [], _, _ => rfl
  | [], _ :: _, _, h => by simp [Spec.lexLe] at h
  | _ :: _, [], h, _ => by simp [Spec.lexLe] at h
  | a :: as, b :: bs, h1, h2 => by
    simp only [Spec.lexLe, Bool.or_eq_true, decide_eq_true_eq, Bool.and_eq_true] at h1 h2
    rcases h1 with h1 | ⟨h1, h1'⟩
    · rcases h2 with h2 | ⟨h2, _⟩ <;> omega
    · rcases h2 with h2 | ⟨_, h2'⟩
      · omega
      · rw [h1, lexLe_antisymm as bs h1' h2']

/-- `¬ a ≤ b` for the key order is `b < a`. -/
theorem lexLe_false_iff_lt (a b : List Nat) : Spec.lexLe a b = false ↔ b < a := by
  rw [← Bool.not_eq_true, lexLe_iff_le]
  exact List.not_le

/-- **Sorted + stable + permutation determine the list.**  `le` a Boolean relation, `κ` a key such that elements
that are `le` each other both ways have the same key: two lists that are permutations of each other, both sorted by
`le`, and in which the elements of every key come in the same order, are equal. -/
theorem stable_sorted_unique {α κ : Type} [DecidableEq κ] (le : α → α → Bool) (key : α → κ)
    (anti : ∀ a b, le a b = true → le b a = true → key a = key b) :
    ∀ l1 l2 : List α, l1.Perm l2 → l1.Pairwise (fun a b => le a b = true) → l2.Pairwise (fun a b => le a b = true) →
      (∀ k, l1.filter (fun x => key x = k) = l2.filter (fun x => key x = k)) → l1 = l2
  | [], l2, hp, _, _, _ => by simpa using hp.symm.eq_nil
  | a :: l1, [], hp, _, _, _ => by simpa using hp.eq_nil
  | a :: l1, b :: l2, hp, h1, h2, hst => by
    have s1 := List.pairwise_cons.mp h1
    have s2 := List.pairwise_cons.mp h2
    -- both heads are minimal, so they have the same key
    have hab : key a = key b := by
      by_cases e : a = b
      · rw [e]
      · have hb : b ∈ l1 := by
          have : b ∈ a :: l1 := hp.symm.subset List.mem_cons_self
          rcases List.mem_cons.mp this with h | h
          · exact absurd h.symm e
          · exact h
        have ha : a ∈ l2 := by
          have : a ∈ b :: l2 := hp.subset List.mem_cons_self
          rcases List.mem_cons.mp this with h | h
          · exact absurd h e
          · exact h
        exact anti a b (s1.1 b hb) (s2.1 a ha)
    -- the first element with that key is the same in both
    have hk := hst (key a)
    have eab : a = b := by
      rw [List.filter_cons, List.filter_cons] at hk
      simp only [decide_true, if_true] at hk
      rw [if_pos (by simp [hab])] at hk
      exact (List.cons.inj hk).1
    subst eab
    congr 1
    refine stable_sorted_unique le key anti l1 l2 (List.Perm.cons_inv hp) s1.2 s2.2 (fun k => ?_)
    have := hst k
    rw [List.filter_cons, List.filter_cons] at this
    by_cases hk' : key a = k
    · simp only [hk', decide_true, if_true] at this
      exact (List.cons.inj this).2
    · simp only [hk', decide_false] at this
      exact this

/-- The head of the stable merge sort by a total preorder: the first element that is `le` every element. -/
theorem head_mergeSort {α : Type} (le : α → α → Bool)
    (trans : ∀ a b c, le a b → le b c → le a c) (total : ∀ a b, le a b || le b a) (l : List α) :
    (l.mergeSort le).head? = l.find? (fun r => l.all (fun r' => le r r')) := by
  rw [← sortStable_eq_mergeSort le trans total, head_sortStable le trans total]

end Dmn.DT
