import Dmn.Lemmas.CanvasRegionBox
import Dmn.Lemmas.CanvasLists

/-!
# The top left corners of the thin layer, in reading order; the information item box

`findTopLeftCorners_eq`: `find_top_left_corners` on a rectangular content, as a `flatMap` over the
rows and positions.  `corners_of_sheet`: on the thin layer of the canvas of a drawn sheet the top
left corners are the corner of the information item box (when there is a name) and then, row by
row, the top left vertices of the grid cells that have a line above and to the left (`originPts`).
`recognizeRegion_nameBox`: the information item box is a closed box of the thin layer.
-/

namespace Dmn.Recog
open Scan (ok error)

theorem flatMap_congr' {α β : Type} (l : List α) (f g : α → List β) (h : ∀ a ∈ l, f a = g a) :
    l.flatMap f = l.flatMap g := by
  induction l with
  | nil => rfl
  | cons a as ih =>
    rw [List.flatMap_cons, List.flatMap_cons, h a (by simp), ih (fun b hb => h b (by simp [hb]))]

/-- `find_top_left_corners` on a rectangular content -/
theorem findTopLeftCorners_eq {c : Content} {R W : Nat} (h : Shape c R W) (l : Layer) :
    findTopLeftCorners c l = (List.range R).flatMap (fun y => (List.range W).flatMap (fun x =>
      if cornersTopLeft.contains (chOf c l y x) then [(⟨x, y⟩ : Point)] else [])) := by
  unfold findTopLeftCorners
  rw [zipIdx_eq_range, List.flatMap_map, Array.length_toList, h.rows]
  apply flatMap_congr'
  intro y hy
  have hy' : y < R := List.mem_range.mp hy
  obtain ⟨row, hrow, hw⟩ := h.row hy'
  have hyc : y < c.size := by rw [h.rows]; exact hy'
  have hcy : c.toList[y]! = row := by
    rw [getElem!_pos c.toList y (by simpa using hyc), Array.getElem_toList]
    have := Array.getElem?_eq_getElem hyc
    rw [hrow] at this
    exact (Option.some.inj this).symm
  simp only [hcy]
  rw [filterMap_eq_flatMap, zipIdx_eq_range, List.flatMap_map, Array.length_toList, hw]
  apply flatMap_congr'
  intro x hx
  have hx' : x < W := List.mem_range.mp hx
  have hxr : x < row.size := by rw [hw]; exact hx'
  have hrx : row.toList[x]! = row[x] := by
    rw [getElem!_pos row.toList x (by simpa using hxr), Array.getElem_toList]
  have hch : chOf c l y x = (row[x]).get l := by
    unfold chOf
    rw [hrow]
    simp only [Array.getElem?_eq_getElem hxr]
  simp only [hrx, hch]
  split <;> rfl

/-- the top left vertices of the grid cells with a line above and to the left, row by row -/
def originPts (s : Sheet) (o : Nat) : List Point :=
  (List.range s.nrows).flatMap (fun r => (List.range s.ncols).flatMap (fun c =>
    if s.vSeg r c && s.hSeg r c then [(⟨s.xPos c, o + s.yPos r⟩ : Point)] else []))

section
variable {s : Sheet} {name : Option Text} {boxRight : Nat} {bc0 br0 : Nat} {bc1 br1 : Option Nat}

/-- a row that is neither the top of the box nor a boundary row above a grid row has no corner -/
theorem row_no_corner (hf : SheetFits s name boxRight) (g : DoubleGrid s bc0 br0 bc1 br1) (y x : Nat)
    (hy : y < boxLines name + s.yPos s.nrows + 2) (hx : x < s.xPos s.ncols + 1)
    (h0 : name.isSome = true → y ≠ 0) (hb : ∀ br, br < s.nrows → y ≠ boxLines name + s.yPos br) :
    cornersTopLeft.contains (Th s name boxRight y x) = false := by
  by_cases hbox : y < boxLines name
  · cases hname : name with
    | none => rw [hname] at hbox; simp [boxLines] at hbox
    | some nm =>
      have hy0 := h0 (by rw [hname]; rfl)
      obtain ⟨i, rfl⟩ : ∃ i, y = 1 + i := ⟨y - 1, by omega⟩
      have hi : i < (splitLines nm).length := by
        rw [hname] at hbox; simp only [boxLines] at hbox; omega
      rw [← hname, Th_box_text hf nm hname i x hi hx]
      split
      · decide
      · split
        · decide
        · split <;> decide
  · obtain ⟨j, rfl⟩ : ∃ j, y = boxLines name + j := ⟨y - boxLines name, by omega⟩
    by_cases hlast : j = s.yPos s.nrows + 1
    · subst hlast
      rw [← Nat.add_assoc, Th_last hf x hx]; decide
    · rcases s.render_locate j (by omega) with ⟨br, hbr, rfl⟩ | ⟨r, l, hr, hl, rfl⟩
      · have hbrn : br = s.nrows := by
          by_cases hlt : br < s.nrows
          · exact absurd rfl (hb br hlt)
          · omega
        subst hbrn
        have hpos : 0 < s.nrows := hf.rows
        rcases s.line_locate x hx with ⟨bc, hbc, rfl⟩ | ⟨c, i, hc, hi, rfl⟩
        · rw [Th_vertex hf g s.nrows bc hpos (Nat.le_refl _) hbc, J_topLeft]
          simp [Sheet.armDown]
        · rw [Th_hseg hf s.nrows c i hpos (Nat.le_refl _) hc hi]
          split <;> decide
      · rcases s.line_locate x hx with ⟨bc, hbc, rfl⟩ | ⟨c, i, hc, hi, rfl⟩
        · rw [Th_sep hf r l bc hr hl hbc]
          split <;> decide
        · rw [Th_cell hf r l c i hr hl hc hi]; decide

/-- the corners of a boundary row above a grid row -/
theorem row_boundary (hf : SheetFits s name boxRight) (g : DoubleGrid s bc0 br0 bc1 br1) (br : Nat)
    (hbr : br < s.nrows) :
    (List.range (s.xPos s.ncols + 1)).flatMap (fun x =>
      if cornersTopLeft.contains (Th s name boxRight (boxLines name + s.yPos br) x)
      then [(⟨x, boxLines name + s.yPos br⟩ : Point)] else []) =
    (List.range s.ncols).flatMap (fun c =>
      if s.vSeg br c && s.hSeg br c then [(⟨s.xPos c, boxLines name + s.yPos br⟩ : Point)] else []) := by
  rw [sparse_flatMap _ s.xPos s.ncols (s.xPos s.ncols + 1)
    (fun i hi => by have := xPos_le s (show i ≤ s.ncols by omega); omega)
    (fun i j hij _ => xPos_strict s hij)]
  · apply flatMap_congr'
    intro bc hbc
    have hbc' : bc < s.ncols := List.mem_range.mp hbc
    obtain ⟨u, hu, _⟩ := Th_vertex' hf g br bc (by omega) (by omega)
    rw [hu, J_topLeft]
    have hd : s.armDown br bc = s.vSeg br bc := by simp [Sheet.armDown, hbr]
    have hr : s.armRight br bc = s.hSeg br bc := by simp [Sheet.armRight, hbc']
    rw [hd, hr]
  · intro x hx hne
    have hnot : cornersTopLeft.contains (Th s name boxRight (boxLines name + s.yPos br) x) = false := by
      rcases s.line_locate x hx with ⟨bc, hbc, rfl⟩ | ⟨c, i, hc, hi, rfl⟩
      · have hbcn : bc = s.ncols := by
          by_cases hlt : bc < s.ncols
          · exact absurd rfl (hne bc hlt)
          · omega
        subst hbcn
        obtain ⟨u, hu, _⟩ := Th_vertex' hf g br s.ncols (by omega) (Nat.le_refl _)
        rw [hu, J_topLeft]
        simp [Sheet.armRight]
      · cases br with
        | zero =>
          show cornersTopLeft.contains (Th s name boxRight (boxLines name) _) = false
          rw [Th_top_seg hf g c i hc hi]
          split <;> decide
        | succ b =>
          rw [Th_hseg hf (b + 1) c i (by omega) (by omega) hc hi]
          split <;> decide
    rw [hnot]; rfl

/-- **The top left corners of the thin layer in reading order**: the corner of the information
item box, then the origins of the regions of the sheet row by row. -/
theorem corners_of_sheet (hf : SheetFits s name boxRight) (g : DoubleGrid s bc0 br0 bc1 br1)
    {c' : Content} (hs : Shape c' (boxLines name + s.yPos s.nrows + 2) (s.xPos s.ncols + 1))
    (hth : ∀ y x, y < boxLines name + s.yPos s.nrows + 2 → x < s.xPos s.ncols + 1 →
      chOf c' .thin y x = Th s name boxRight y x) :
    findTopLeftCorners c' .thin =
      (if name.isSome then [(⟨0, 0⟩ : Point)] else []) ++ originPts s (boxLines name) := by
  rw [findTopLeftCorners_eq hs]
  -- the rows in terms of the thin layer of the drawing
  have hrow : ∀ y, y < boxLines name + s.yPos s.nrows + 2 →
      (List.range (s.xPos s.ncols + 1)).flatMap (fun x =>
        if cornersTopLeft.contains (chOf c' .thin y x) then [(⟨x, y⟩ : Point)] else []) =
      (List.range (s.xPos s.ncols + 1)).flatMap (fun x =>
        if cornersTopLeft.contains (Th s name boxRight y x) then [(⟨x, y⟩ : Point)] else []) := by
    intro y hy
    apply flatMap_congr'
    intro x hx
    rw [hth y x hy (List.mem_range.mp hx)]
  rw [flatMap_congr' _ _ _ (fun y hy => hrow y (List.mem_range.mp hy))]
  have hempty : ∀ y, y < boxLines name + s.yPos s.nrows + 2 → (name.isSome = true → y ≠ 0) →
      (∀ br, br < s.nrows → y ≠ boxLines name + s.yPos br) →
      (List.range (s.xPos s.ncols + 1)).flatMap (fun x =>
        if cornersTopLeft.contains (Th s name boxRight y x) then [(⟨x, y⟩ : Point)] else []) = [] := by
    intro y hy h0 hb
    apply flatMap_eq_nil_of
    intro x hx
    rw [row_no_corner hf g y x hy (List.mem_range.mp hx) h0 hb]; rfl
  cases hname : name with
  | none =>
    rw [← hname]
    rw [sparse_flatMap _ (fun br => boxLines name + s.yPos br) s.nrows _
      (fun i hi => by have := yPos_le s (show i ≤ s.nrows by omega); omega)
      (fun i j hij _ => by have := yPos_strict s hij; omega)
      (fun y hy hne => hempty y hy (by rw [hname]; intro h; cases h) (fun br hbr => hne br hbr))]
    rw [hname]
    simp only [Option.isSome_none, Bool.false_eq_true, if_false, List.nil_append, originPts]
    apply flatMap_congr'
    intro br hbr
    rw [← hname]
    exact row_boundary hf g br (List.mem_range.mp hbr)
  | some nm =>
    rw [← hname]
    have ho : 0 < boxLines name := by rw [hname]; simp only [boxLines]; omega
    rw [sparse_flatMap _ (fun i => if i = 0 then 0 else boxLines name + s.yPos (i - 1)) (s.nrows + 1) _
      (fun i hi => by
        split
        · omega
        · have := yPos_le s (show i - 1 ≤ s.nrows by omega); omega)
      (fun i j hij hj => by
        have hj0 : ¬ j = 0 := by omega
        rw [if_neg hj0]
        split
        · omega
        · have := yPos_strict s (show i - 1 < j - 1 by omega); omega)
      (fun y hy hne => hempty y hy (fun _ => by have := hne 0 (by omega); simpa using this)
        (fun br hbr => by
          have := hne (br + 1) (by omega)
          simpa using this))]
    rw [List.range_succ_eq_map (n := s.nrows), List.flatMap_cons, List.flatMap_map]
    congr 1
    · -- the top of the box
      simp only [if_true]
      rw [sparse_flatMap _ (fun _ => 0) 1 _ (fun _ _ => by omega) (fun i j hij hj => by omega)]
      · simp only [List.range_one, List.flatMap_cons, List.flatMap_nil, List.append_nil]
        rw [Th_box_top hf nm hname 0 (by omega)]
        simp [hname]
        decide
      · intro x hx hne
        have hx0 : ¬ x = 0 := fun e => hne 0 (by omega) e
        rw [Th_box_top hf nm hname x hx, if_neg hx0]
        split
        · rfl
        · split <;> rfl
    · unfold originPts
      apply flatMap_congr'
      intro br hbr
      simp only [Function.comp, Nat.succ_ne_zero, if_false, Nat.add_sub_cancel]
      exact row_boundary hf g br (List.mem_range.mp hbr)

/-! ## The information item box -/

/-- **The information item box is a closed box of the thin layer**: `recognize_region` from its
top left corner returns it. -/
theorem recognizeRegion_nameBox (hf : SheetFits s name boxRight) (g : DoubleGrid s bc0 br0 bc1 br1)
    {c' : Content} (hs : Shape c' (boxLines name + s.yPos s.nrows + 2) (s.xPos s.ncols + 1))
    (hth : ∀ y x, y < boxLines name + s.yPos s.nrows + 2 → x < s.xPos s.ncols + 1 →
      chOf c' .thin y x = Th s name boxRight y x) (nm : Text) (hname : name = some nm) :
    recognizeRegion c' .thin ⟨0, 0⟩ = ok ⟨0, 0, boxRight + 1, boxLines name + 1⟩ := by
  obtain ⟨_, hb2, hb3, hb4⟩ := hf.box nm hname
  have ho : boxLines name = 1 + (splitLines nm).length := by rw [hname]; rfl
  have hW : boxRight < s.xPos s.ncols + 1 := by omega
  refine recognizeRegion_box hs (by omega) hW (by omega) (by omega) ?_
  have top : ∀ x, x < s.xPos s.ncols + 1 → chOf c' .thin 0 x = Th s name boxRight 0 x :=
    fun x hx => hth 0 x (by omega) hx
  have side : ∀ y, 0 < y → y < boxLines name → ∀ x, x < s.xPos s.ncols + 1 → chOf c' .thin y x =
      (if x = 0 then '│' else if x < boxRight then ' ' else if x = boxRight then '│' else charOuter) := by
    intro y hy0 hy x hx
    obtain ⟨i, rfl⟩ : ∃ i, y = 1 + i := ⟨y - 1, by omega⟩
    rw [hth _ x (by omega) hx, Th_box_text hf nm hname i x (by omega) hx]
  -- the top border of the body between the corners of the box
  have bottom : ∀ x, 0 < x → x < boxRight → Passes cornersBottomLeft ['─', '┬']
      (chOf c' .thin (boxLines name) x) := by
    intro x hx0 hxb
    have hxW : x < s.xPos s.ncols + 1 := by omega
    rw [hth _ x (by omega) hxW]
    rcases s.line_locate x hxW with ⟨bc, hbc, rfl⟩ | ⟨c, i, hc, hi, rfl⟩
    · rw [Th_top_vertex hf g bc hbc]
      have hbcpos : 0 < bc := by
        cases bc with
        | zero => simp [xPos_zero] at hx0
        | succ b => omega
      have hbclt : bc < s.ncols := xPos_lt_imp s (by omega)
      have harm : boxArm name boxRight (s.xPos bc) = false := by
        simp [boxArm]; intro _; omega
      have hl : s.armLeft 0 bc = true := by simp [Sheet.armLeft, hbcpos, Sheet.hSeg]
      have hr : s.armRight 0 bc = true := by simp [Sheet.armRight, hbclt, Sheet.hSeg]
      rw [harm, hl, hr]; exact J_bottom_inner _
    · rw [Th_top_seg hf g c i hc hi]
      have harm : boxArm name boxRight (s.xPos c + (1 + i)) = false := by
        simp [boxArm]; intro _; omega
      rw [harm]
      exact ⟨by decide, by decide⟩
  refine ⟨?_, ?_, ?_, ?_, bottom, ?_, ?_, ?_⟩
  · intro x hx0 hxb
    rw [top x (by omega), Th_box_top hf nm hname x (by omega), if_neg (by omega), if_pos hxb]
    exact ⟨by decide, by decide⟩
  · rw [top boxRight hW, Th_box_top hf nm hname boxRight hW, if_neg (by omega), if_neg (by omega),
      if_pos rfl]
    decide
  · intro y hy0 hy
    rw [side y hy0 hy boxRight hW, if_neg (by omega), if_neg (by omega), if_pos rfl]
    exact ⟨by decide, by decide⟩
  · -- bottom right: the top border under the right edge of the box
    rw [hth _ boxRight (by omega) hW]
    rcases s.line_locate boxRight hW with ⟨bc, hbc, hbx⟩ | ⟨c, i, hc, hi, hbx⟩
    · rw [show Th s name boxRight (boxLines name) boxRight =
          Th s name boxRight (boxLines name) (s.xPos bc) from by rw [← hbx], Th_top_vertex hf g bc hbc]
      have hbcpos : 0 < bc := by
        cases bc with
        | zero => rw [xPos_zero] at hbx; omega
        | succ b => omega
      have harm : boxArm name boxRight (s.xPos bc) = true := by simp [boxArm, hname, hbx]
      have hl : s.armLeft 0 bc = true := by simp [Sheet.armLeft, hbcpos, Sheet.hSeg]
      rw [harm, hl]; exact J_bottomRight _ _
    · rw [show Th s name boxRight (boxLines name) boxRight =
          Th s name boxRight (boxLines name) (s.xPos c + (1 + i)) from by rw [← hbx],
        Th_top_seg hf g c i hc hi]
      have harm : boxArm name boxRight (s.xPos c + (1 + i)) = true := by simp [boxArm, hname, ← hbx]
      rw [harm]; decide
  · -- bottom left
    rw [hth _ 0 (by omega) (by omega)]
    have := Th_top_vertex hf g 0 (Nat.zero_le _)
    rw [xPos_zero] at this
    rw [this]
    have harm : boxArm name boxRight 0 = true := by simp [boxArm, hname]
    have hr : s.armRight 0 0 = true := by simp [Sheet.armRight, Sheet.hSeg, hf.cols]
    rw [harm, hr]; exact J_bottomLeft _ _
  · intro y hy0 hy
    rw [side y hy0 hy 0 (by omega), if_pos rfl]
    exact ⟨by decide, by decide⟩
  · rw [top 0 (by omega), Th_box_top hf nm hname 0 (by omega), if_pos rfl]
    decide

end

end Dmn.Recog
