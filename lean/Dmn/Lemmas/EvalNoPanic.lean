import Dmn.Lemmas.EvalInd

/-! Panic-freedom of the evaluator model as an instance of the generic induction principle. -/

namespace Dmn.Eval
open EvalM

/-- The computation never reports a Rust panic. -/
def NoPanic {α : Type} (m : EvalM α) : Prop := ∀ s p, m s ≠ .panic p

def noPanicPred : EvalPred where
  P := NoPanic
  Q := NoPanic
  Good := fun o => ∀ p, o ≠ .panic p
  pure := by intro α a s p h; cases h
  bind := by
    intro α β m f hm hf s p h
    rw [bind_def] at h
    split at h
    · exact hf _ _ _ h
    · rename_i q hq; exact hm s q hq
    · cases h
  lift := by
    intro α o ho s p h
    unfold EvalM.lift at h
    cases o with
    | ok a => cases h
    | panic q => exact ho q rfl
    | diverge => cases h
  getEntry := by intro k s p h; cases h
  getScope := by intro s p h; cases h
  qOfP := fun h => h
  qPure := by intro α a s p h; cases h
  qBind := by
    intro α β m f hm hf s p h
    rw [bind_def] at h
    split at h
    · exact hf _ _ _ h
    · rename_i q hq; exact hm s q hq
    · cases h
  qSetEntry := by intro k v s p h; cases h
  pushPop := by
    intro α β m c g hm s p h
    simp only [bind_def, push, pop, pure_def] at h
    split at h
    · cases h
    · rename_i q hq; exact hm _ q hq
    · cases h

theorem loop_no_panic (fuel : Nat) (states : List Iter.State) (ctx : Ctx) (acc : List Ctx) (p : String) :
    Iter.loop fuel states ctx acc ≠ .panic p := by
  induction fuel generalizing states ctx acc with
  | zero => intro h; cases h
  | succ n ih =>
    intro h
    simp only [Iter.loop] at h
    split at h
    · cases h
    · exact ih _ _ _ h

theorem run_no_panic (states : List Iter.State) (p : String) : Iter.run states ≠ .panic p := by
  unfold Iter.run
  split
  · intro h; cases h
  · exact loop_no_panic _ _ _ _ p

end Dmn.Eval
