import Dmn.Lemmas.XmlModel

/-!
# The shape of a parsed decision table is the shape of its XML element (C12)
-/

namespace Dmn.Xml

theorem mapE_ok_map_prop {α β γ : Type} {f : α → PRes β} {xs : List α} {ys : List β}
    (h : mapE f xs = .ok ys) (g : β → γ) (k : α → γ) (hk : ∀ x y, f x = .ok y → g y = k x) :
    ys.map g = xs.map k := by
  induction xs generalizing ys with
  | nil => simp [mapE] at h; subst h; rfl
  | cons z zs ih =>
    simp only [mapE] at h
    cases hz : f z with
    | error e => rw [hz] at h; simp at h
    | ok y =>
      rw [hz] at h
      cases hm : mapE f zs with
      | error e => rw [hm] at h; simp at h
      | ok ys' =>
        rw [hm] at h
        simp at h
        subst h
        simp [hk z y hz, ih hm]

/-- A parsed rule has one input entry per `inputEntry` child and one output entry per `outputEntry`
child of the `rule` element. -/
theorem parseDecisionTableRule_counts {r : ANode} {rule : Rule} (h : parseDecisionTableRule r = .ok rule) :
    (rule.inputEntries.length, rule.outputEntries.length) =
      ((filterIn r.children N.inputEntry).length, (filterIn r.children N.outputEntry).length) := by
  unfold parseDecisionTableRule at h
  obtain ⟨ins, hi, h⟩ := pres_bind_ok h
  obtain ⟨outs, ho, h⟩ := pres_bind_ok h
  have : rule = ⟨ins, outs⟩ := by
    have := h; simp [pure, Except.pure] at this; exact this.symm
  subst this
  simp only [parseDecisionTableInputEntries] at hi
  simp only [parseDecisionTableOutputEntries] at ho
  simp [mapE_ok_length hi, mapE_ok_length ho]

/-- The numbers of clauses, rules and entries of a parsed decision table are the numbers of `input`,
`output`, `rule`, `inputEntry` and `outputEntry` elements of the `decisionTable` element. -/
theorem parseDecisionTableNode_counts {c : ANode} {t : DTable} (h : parseDecisionTableNode c = .ok t) :
    t.inputs.length = (filterIn c.children N.input).length ∧
    t.outputs.length = (filterIn c.children N.output).length ∧
    t.rules.map (fun r => (r.inputEntries.length, r.outputEntries.length)) =
      (filterIn c.children N.rule).map
        (fun r => ((filterIn r.children N.inputEntry).length, (filterIn r.children N.outputEntry).length)) := by
  unfold parseDecisionTableNode at h
  obtain ⟨ins, hi, h⟩ := pres_bind_ok h
  obtain ⟨outs, ho, h⟩ := pres_bind_ok h
  obtain ⟨rules, hr, h⟩ := pres_bind_ok h
  obtain ⟨hp, _, h⟩ := pres_bind_ok h
  obtain ⟨po, _, h⟩ := pres_bind_ok h
  have : t = ⟨ins, outs, rules, hp, po, optionalAttribute c A.outputLabel⟩ := by
    have := h; simp [pure, Except.pure] at this; exact this.symm
  subst this
  simp only [parseDecisionTableInputs] at hi
  simp only [parseDecisionTableOutputs] at ho
  simp only [parseDecisionTableRules] at hr
  refine ⟨mapE_ok_length hi, mapE_ok_length ho, ?_⟩
  exact mapE_ok_map_prop hr _ _ (fun x y hxy => parseDecisionTableRule_counts hxy)

end Dmn.Xml
