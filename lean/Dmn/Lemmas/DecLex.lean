import Dmn.Lemmas.DecParse
import Dmn.Lemmas.DecFinalize

/-! The text → number direction: `ofString` (decQuadFromString, hence `FromStr for FeelNumber`,
`try_from_xsd_*`, `build_numeric`, `number()`) against the specification reader `lexValue`. -/

namespace Dmn
namespace D128

theorem digitVal_le {c : Char} (h : isDigit c = true) : digitVal c ≤ 9 := by
  unfold isDigit at h; unfold digitVal
  simp only [Bool.and_eq_true, decide_eq_true_eq] at h
  obtain ⟨_, h2⟩ := h
  have h3 : c.val ≤ '9'.val := h2
  have h4 : c.val.toNat ≤ ('9' : Char).val.toNat := UInt32.le_iff_toNat_le.mp h3
  have h5 : ('9' : Char).val.toNat = 57 := by decide
  have h6 : c.toNat = c.val.toNat := rfl
  omega

theorem foldl_read_lt (ds : List Char) (hd : AllDigits ds) (acc : Nat) :
    ds.foldl (fun a c => a * 10 + digitVal c) acc < (acc + 1) * 10 ^ ds.length := by
  induction ds generalizing acc with
  | nil => simp
  | cons c cs ih =>
    have hv : digitVal c ≤ 9 := digitVal_le (hd c (by simp))
    have h1 := ih (fun x hx => hd x (by simp [hx])) (acc * 10 + digitVal c)
    rw [List.foldl_cons, List.length_cons, Nat.pow_succ]
    have h2 : (acc * 10 + digitVal c + 1) * 10 ^ cs.length ≤ ((acc + 1) * 10) * 10 ^ cs.length :=
      Nat.mul_le_mul_right _ (by omega)
    have h3 : (acc + 1) * 10 * 10 ^ cs.length = (acc + 1) * (10 ^ cs.length * 10) := by
      rw [Nat.mul_assoc, Nat.mul_comm 10]
    omega

/-- a run of `k` digits denotes a number below `10^k` -/
theorem readNat_lt (ds : List Char) (hd : AllDigits ds) : readNat ds < 10 ^ ds.length := by
  have := foldl_read_lt ds hd 0
  simpa [readNat] using this

theorem spanDigits_fst_digits (cs : List Char) : AllDigits (spanDigits cs).1 := by
  induction cs with
  | nil => intro c hc; simp [spanDigits] at hc
  | cons c cs ih =>
    unfold spanDigits
    by_cases h : isDigit c = true
    · rw [if_pos h]
      intro x hx
      simp only [List.mem_cons] at hx
      rcases hx with hx | hx
      · subst hx; exact h
      · exact ih x hx
    · rw [if_neg h]; intro x hx; simp at hx

theorem fracPart_fst_digits (r : List Char) : AllDigits (fracPart r).1 := by
  unfold fracPart
  split
  · exact spanDigits_fst_digits _
  · intro c hc; simp at hc

/-- what `ofString` does with a text the specification reader accepts: the same three parts go
to `ofDigits` -/
theorem ofString_of_lex (s : List Char) (neg : Bool) (N : Nat) (e : Int)
    (h : lexValue s = some (neg, N, e)) :
    ∃ ip fp ex, AllDigits ip ∧ AllDigits fp ∧ ofString s = ofDigits neg ip fp ex ∧
      N = readNat (ip ++ fp) ∧ e = ex - (fp.length : Int) := by
  unfold lexValue at h
  unfold ofString
  generalize hs : stripSign s = p at h ⊢
  obtain ⟨ng, s1⟩ := p
  simp only [] at h ⊢
  generalize hsp : spanDigits s1 = q at h ⊢
  obtain ⟨ip, r1⟩ := q
  simp only [] at h ⊢
  generalize hfp : fracPart r1 = q2 at h ⊢
  obtain ⟨fp, r2⟩ := q2
  simp only [] at h ⊢
  have hip : AllDigits ip := by have := spanDigits_fst_digits s1; rw [hsp] at this; exact this
  have hfpd : AllDigits fp := by have := fracPart_fst_digits r1; rw [hfp] at this; exact this
  by_cases hemp : ip.isEmpty = true ∧ fp.isEmpty = true
  · rw [if_pos hemp] at h; cases h
  · rw [if_neg hemp] at h ⊢
    cases hpe : parseExp r2 with
    | none => rw [hpe] at h; cases h
    | some ex =>
      rw [hpe] at h
      simp only [] at h ⊢
      injection h with h
      injection h with h1 h2
      injection h2 with h2 h3
      subst h1
      exact ⟨ip, fp, ex, hip, hfpd, rfl, h2.symm, h3.symm⟩

/-- a text outside the grammar is never read as a finite number -/
theorem ofString_not_lex (s : List Char) (h : lexValue s = none) : (ofString s).toOption = none := by
  unfold lexValue at h
  unfold ofString
  generalize stripSign s = p at h ⊢
  obtain ⟨ng, s1⟩ := p
  simp only [] at h ⊢
  generalize spanDigits s1 = q at h ⊢
  obtain ⟨ip, r1⟩ := q
  simp only [] at h ⊢
  generalize fracPart r1 = q2 at h ⊢
  obtain ⟨fp, r2⟩ := q2
  simp only [] at h ⊢
  by_cases hemp : ip.isEmpty = true ∧ fp.isEmpty = true
  · rw [if_pos hemp]
    split <;> rfl
  · rw [if_neg hemp] at h ⊢
    cases hpe : parseExp r2 with
    | none => rfl
    | some ex => rw [hpe] at h; cases h

/-- `ofDigits` rounds correctly: the digits `ip.fp` with the written exponent `ex` denote
`N·10^(ex − |fp|)`, and the result is the decimal128 rounding of that value — whatever the number
of digits and whatever the exponent (far outside the range: ±Infinity resp. a zero) -/
theorem ofDigits_rounds (neg : Bool) (ip fp : List Char) (ex : Int) (hip : AllDigits ip)
    (hfp : AllDigits fp) (hN : readNat (ip ++ fp) ≠ 0) :
    RoundsHalfEven neg (readNat (ip ++ fp)) 1 (ex - (fp.length : Int)) (ofDigits neg ip fp ex) := by
  have hlt : readNat (ip ++ fp) < 10 ^ (ip ++ fp).length := readNat_lt _ (hip.append hfp)
  unfold ofDigits
  simp only []
  generalize hNdef : readNat (ip ++ fp) = N at *
  generalize hedef : ex - (fp.length : Int) = e at *
  generalize hldef : (ip ++ fp).length = len at *
  have hN1 : 1 ≤ N := by omega
  by_cases hbig : N ≠ 0 ∧ e > 7000
  · rw [if_pos hbig]
    unfold RoundsHalfEven
    refine ⟨rfl, ?_⟩
    unfold Overflows eTop
    simp only []
    have hmin : min e 6111 = 6111 := by omega
    rw [hmin]
    have h35 : 35 ≤ (e - 6111).toNat := by omega
    have hp : 10 ^ 35 ≤ 10 ^ (e - 6111).toNat := pow10_le h35
    have hz : ((6111 : Int) - 6111).toNat = 0 := by omega
    rw [hz, Nat.pow_zero, Nat.mul_one, Nat.mul_one]
    have h1 : 2 * 1 * 10 ^ 35 ≤ 2 * N * 10 ^ (e - 6111).toNat :=
      Nat.mul_le_mul (Nat.mul_le_mul_left 2 hN1) hp
    have h2 : 2 * 10 ^ 34 - 1 ≤ 2 * 1 * 10 ^ 35 := by decide
    exact Nat.le_trans h2 h1
  · rw [if_neg hbig]
    by_cases hsmall : N ≠ 0 ∧ e + (len : Int) < -7000
    · rw [if_pos hsmall]
      unfold RoundsHalfEven
      have hwf : WF ⟨neg, 0, eTiny⟩ := by
        show (0 : Nat) < 10 ^ 34 ∧ (-6176 : Int) ≤ eTiny ∧ eTiny ≤ 6111
        unfold eTiny; exact ⟨by decide, by decide, by decide⟩
      refine ⟨rfl, hwf, ?_⟩
      show NECore (N * 10 ^ (e - min e eTiny).toNat) (0 * (10 ^ (eTiny - min e eTiny).toNat * 1))
        (10 ^ (eTiny - min e eTiny).toNat * 1) ⟨neg, 0, eTiny⟩
      unfold eTiny
      have hmin : min e (-6176) = e := by omega
      rw [hmin]
      have hz : (e - e).toNat = 0 := by omega
      rw [hz, Nat.pow_zero, Nat.mul_one, Nat.zero_mul, Nat.mul_one]
      have hk : len + 1 ≤ (-6176 - e).toNat := by omega
      have hp : 10 ^ (len + 1) ≤ 10 ^ (-6176 - e).toNat := pow10_le hk
      have hs : 10 ^ (len + 1) = 10 * 10 ^ len := pow10_succ len
      have hab : absDiff N 0 = N := by unfold absDiff; rw [if_neg (by omega)]; omega
      unfold NECore
      rw [hab]
      refine ⟨by omega, fun _ => rfl, Or.inr (Or.inr rfl), ?_⟩
      intro hh
      have h0 : (0 : Nat) = 10 ^ 33 := hh.1
      exact absurd h0 (by decide)
    · rw [if_neg hsmall, if_neg hN]
      exact finalize_rounds neg N e false N 1 (by decide) (by omega) (by omega)
        (by constructor <;> intro hh <;> [cases hh; omega]) (by intro hh; cases hh) (by omega)

/-- zero written in any form is a zero with the written sign -/
theorem ofDigits_zero (neg : Bool) (ip fp : List Char) (ex : Int) (hN : readNat (ip ++ fp) = 0) :
    IsZeroWith neg (ofDigits neg ip fp ex) := by
  unfold ofDigits
  simp only []
  rw [if_neg (by intro hh; exact hh.1 hN), if_neg (by intro hh; exact hh.1 hN), if_pos hN]
  have := clampExp_range (ex - (fp.length : Int))
  show (0 : Nat) = 0 ∧ neg = neg ∧ (0 : Nat) < 10 ^ 34 ∧ -6176 ≤ clampExp (ex - (fp.length : Int)) ∧
    clampExp (ex - (fp.length : Int)) ≤ 6111
  exact ⟨rfl, rfl, by decide, this.1, this.2⟩

/-- at most 34 significant digits and an exponent inside the range: read exactly -/
theorem ofDigits_exact_exp (neg : Bool) (ip fp : List Char) (ex : Int)
    (hc : readNat (ip ++ fp) < 10 ^ 34) (h0 : readNat (ip ++ fp) ≠ 0)
    (hlo : -6176 ≤ ex - (fp.length : Int)) (hhi : ex - (fp.length : Int) ≤ 6111) :
    ofDigits neg ip fp ex = .fin ⟨neg, readNat (ip ++ fp), ex - (fp.length : Int)⟩ := by
  unfold ofDigits
  simp only []
  rw [if_neg (by omega), if_neg (by
    intro hh
    have := hh.2
    omega), if_neg h0, finalize_exact neg _ _ hc h0 hlo hhi]

/-! ### the specification reader on the shapes `Display` prints -/

theorem lexValue_int (n : Bool) (c : Char) (l : List Char) (h : AllDigits (c :: l)) :
    lexValue (signOf n ++ c :: l) = some (n, readNat (c :: l), 0) := by
  unfold lexValue
  rw [stripSign_sign n c l (h c (by simp))]
  simp only []
  rw [spanDigits_allDigits _ h]
  simp [fracPart, parseExp]

theorem lexValue_point (n : Bool) (c : Char) (l fs : List Char)
    (h : AllDigits (c :: l)) (hf : AllDigits fs) :
    lexValue (signOf n ++ ((c :: l) ++ '.' :: fs))
      = some (n, readNat ((c :: l) ++ fs), -(fs.length : Int)) := by
  unfold lexValue
  have e1 : signOf n ++ ((c :: l) ++ '.' :: fs) = signOf n ++ c :: (l ++ '.' :: fs) := by simp
  rw [e1, stripSign_sign n c _ (h c (by simp))]
  simp only []
  have h2 := spanDigits_append (c :: l) '.' fs h isDigit_false_dot
  simp only [List.cons_append] at h2
  rw [h2]
  simp only [fracPart]
  rw [spanDigits_allDigits _ hf]
  simp [parseExp]

/-- the two specification readers agree: a plain text `-?digits(.digits)?` that `plainValue`
reads as `(sign, m, f)` is read by `lexValue` as `m·10^(-f)` with the same sign -/
theorem lexValue_of_plainValue (t : List Char) (n : Bool) (m f : Nat)
    (h : plainValue t = some (n, m, f)) : lexValue t = some (n, m, -(f : Int)) := by
  unfold plainValue at h
  -- the sign: `-` or nothing (a `+` is not plain)
  have hsign : stripSign t = stripMinus t ∨ ∃ r, t = '+' :: r := by
    cases t with
    | nil => left; rfl
    | cons a r =>
      by_cases ha : a = '-'
      · subst ha; left; rfl
      · by_cases hp : a = '+'
        · right; exact ⟨r, by rw [hp]⟩
        · left
          unfold stripSign stripMinus
          split
          · next heq => injection heq with h1 _; exact absurd h1 ha
          · next heq => injection heq with h1 _; exact absurd h1 hp
          · split
            · next heq => injection heq with h1 _; exact absurd h1 ha
            · rfl
  rcases hsign with hs | ⟨r, hr⟩
  · unfold lexValue
    rw [hs]
    generalize stripMinus t = p at h ⊢
    obtain ⟨ng, s1⟩ := p
    simp only [] at h ⊢
    unfold unsignedValue at h
    generalize hsp : spanDigits s1 = q at h ⊢
    obtain ⟨ip, r1⟩ := q
    have hip : AllDigits ip := by have := spanDigits_fst_digits s1; rw [hsp] at this; exact this
    cases ip with
    | nil => simp at h
    | cons c0 ip =>
      cases r1 with
      | nil =>
        simp only [] at h ⊢
        injection h with h
        injection h with h1 h2
        injection h2 with h2 h3
        subst h1; subst h2; subst h3
        simp [fracPart, parseExp]
      | cons c fr =>
        simp only [] at h ⊢
        by_cases hc : c = '.' ∧ fr ≠ [] ∧ fr.all isDigit = true
        · rw [if_pos hc] at h
          injection h with h
          injection h with h1 h2
          injection h2 with h2 h3
          subst h1; subst h2; subst h3
          obtain ⟨hc1, _, hc3⟩ := hc
          subst hc1
          simp only [fracPart]
          rw [spanDigits_allDigits _ (allDigits_of_all hc3)]
          simp [parseExp]
        · rw [if_neg hc] at h; cases h
  · subst hr
    exfalso
    have : unsignedValue (stripMinus ('+' :: r)).2 = none := by
      have e : stripMinus ('+' :: r) = (false, '+' :: r) := rfl
      rw [e]
      unfold unsignedValue
      have : spanDigits ('+' :: r) = ([], '+' :: r) := by
        unfold spanDigits
        rw [if_neg (by decide)]
      rw [this]
    rw [this] at h
    cases h

end D128
end Dmn
