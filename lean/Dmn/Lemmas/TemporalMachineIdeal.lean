import Dmn.Lemmas.TemporalMachineOps

/-!
# The machine-integer layer against the unbounded-`Int` model of C14/C15

`ideal op` is the value of the operation in `Dmn/Model/Temporal.lean` (and `Dmn.Cal`), where
months, nanoseconds and day numbers are unbounded integers; `Op.inRange` says that this value and
the intermediate results the Rust code needs are representable.
-/

namespace Dmn.TemporalMachine
open Dmn Dmn.Cal Dmn.Temporal

/-- The value of the operation on unbounded integers (the model the C14/C15 theorems are about). -/
def ideal : Op → Res
  | .ymAdd a b => optRes (feelAddYmd a b)
  | .ymSub a b => optRes (feelSubYmd a b)
  | .ymNeg a => optRes (feelNegYmd a)
  | .ymYears a => .int (ymdYears a)
  | .ymMonths a => .int (ymdMonths a)
  | .ymPrint a => .text (printYmDur a)
  | .dtdAdd a b => optRes (feelAddDtd a b)
  | .dtdSub a b => optRes (feelSubDtd a b)
  | .dtdNeg a => optRes (feelNegDtd a)
  | .dtdDays a => .int ((a.natAbs : Int) / nsPerDay)
  | .dtdHours a => .int ((a.natAbs : Int) % nsPerDay / nsPerHour)
  | .dtdMinutes a => .int ((a.natAbs : Int) % nsPerDay % nsPerHour / nsPerMinute)
  | .dtdSeconds a => .int ((a.natAbs : Int) % nsPerDay % nsPerHour % nsPerMinute / nsPerSecond)
  | .dtdPrint a => .text (printDtDur a)
  | .time4Offset a =>
    if -53999 ≤ Int.tdiv a 1000000000 ∧ Int.tdiv a 1000000000 ≤ 53999 then .int (Int.tdiv a 1000000000) else .null
  | .ymLit y mo neg => optRes (ymLitIdeal y mo neg)
  | .dtLit d h mi s f neg =>
    .int (let n := d.getD 0 * nsPerDay + h.getD 0 * nsPerHour + mi.getD 0 * nsPerMinute + s.getD 0 * nsPerSecond +
            f.getD 0
          if neg then -n else n)
  | .dateYm a b => .int (a.ymDuration b)
  | .dateWeekday d => .int (Cal.weekday (daysFromCivil d.y d.m d.d))

/-- The exact result (and, for the accessors, the absolute value and the count converted with
`as usize` / `as isize`) is representable in the type the Rust code computes it in. -/
def Op.inRange : Op → Bool
  | .ymAdd a b => tI64.fits (a + b)
  | .ymSub a b => tI64.fits (a - b)
  | .ymNeg a => tI64.fits (-a)
  | .dtdAdd a b => tI128.fits (a + b)
  | .dtdSub a b => tI128.fits (a - b)
  | .dtdNeg a => decide (a ≠ tI128.lo)
  | .dtdDays a => decide (a ≠ tI128.lo) && decide ((a.natAbs : Int) / nsPerDay ≤ tUsize.hi)
  | .dtdHours a | .dtdMinutes a | .dtdSeconds a | .dtdPrint a => decide (a ≠ tI128.lo)
  | .time4Offset a => tI64.fits (Int.tdiv a nsPerSecond)
  | _ => true

theorem usize_small (x : Int) (h0 : 0 ≤ x) (h1 : x ≤ 18446744073709551615) : Temporal.usize x = x := by
  unfold Temporal.usize
  omega

/-- Every operation with well-typed operands whose unchecked `i128` arithmetic is exact returns,
in both integer modes. -/
theorem run_ok_of_exact (m : IntMode) (op : Op) (hw : op.wellTyped = true) (hx : op.i128Exact = true) :
    ∃ r, run m op = .ok r := by
  cases op with
  | ymAdd a b => exact ⟨_, rfl⟩
  | ymSub a b => exact ⟨_, rfl⟩
  | ymNeg a => exact ⟨_, rfl⟩
  | ymYears a => exact ⟨_, rfl⟩
  | ymMonths a => exact ⟨_, rfl⟩
  | ymPrint a =>
    have h := fits_i64 a hw
    exact ⟨_, by simp only [run]; rw [ymPrint_eq m a h.1 h.2]; rfl⟩
  | dtdAdd a b => exact ⟨_, by simp only [run, dtdAdd]; rw [dtd_arith_eq m _ hx]; rfl⟩
  | dtdSub a b => exact ⟨_, by simp only [run, dtdSub]; rw [dtd_arith_eq m _ hx]; rfl⟩
  | dtdNeg a =>
    have h := fits_i128 a hw
    have hn : a ≠ -170141183460469231731687303715884105728 := of_decide_eq_true hx
    exact ⟨_, by simp only [run, dtdNeg]; rw [arith_i128 m _ _ (by omega) (by omega)]; rfl⟩
  | dtdDays a => exact ⟨_, by simp only [run]; rw [dtdGetDays_eq m a hw (of_decide_eq_true hx)]; rfl⟩
  | dtdHours a => exact ⟨_, by simp only [run]; rw [dtdGetHours_eq m a hw (of_decide_eq_true hx)]; rfl⟩
  | dtdMinutes a => exact ⟨_, by simp only [run]; rw [dtdGetMinutes_eq m a hw (of_decide_eq_true hx)]; rfl⟩
  | dtdSeconds a => exact ⟨_, by simp only [run]; rw [dtdGetSeconds_eq m a hw (of_decide_eq_true hx)]; rfl⟩
  | dtdPrint a => exact ⟨_, by simp only [run]; rw [dtdPrint_eq m a hw (of_decide_eq_true hx)]; rfl⟩
  | time4Offset a => exact ⟨_, rfl⟩
  | ymLit y mo neg =>
    unfold Op.wellTyped at hw
    simp only [Bool.and_eq_true] at hw
    refine ⟨_, by
      simp only [run]
      rw [ymCombine_eq m y mo neg ?_ ?_]
      · rfl
      · intro v hv; subst hv
        have h := hw.1
        simp only [Bool.and_eq_true, decide_eq_true_eq] at h
        exact ⟨h.1, (fits_i64 v h.2).2⟩
      · intro v hv; subst hv
        have h := hw.2
        simp only [Bool.and_eq_true, decide_eq_true_eq] at h
        exact ⟨h.1, (fits_i64 v h.2).2⟩⟩
  | dtLit d h mi s f neg =>
    unfold Op.wellTyped at hw
    simp only [Bool.and_eq_true] at hw
    obtain ⟨⟨⟨⟨hd, hh⟩, hmi⟩, hs⟩, hf⟩ := hw
    refine ⟨_, by
      simp only [run]
      rw [dtCombine_eq m d h mi s f neg ?_ ?_ ?_ ?_ ?_]
      · rfl
      · intro v hv; subst hv; exact fits_u64 v hd
      · intro v hv; subst hv; exact fits_u64 v hh
      · intro v hv; subst hv; exact fits_u64 v hmi
      · intro v hv; subst hv; exact fits_u64 v hs
      · intro v hv; subst hv
        simp only [Bool.and_eq_true, decide_eq_true_eq] at hf
        omega⟩
  | dateYm a b =>
    unfold Op.wellTyped at hw
    simp only [Bool.and_eq_true, decide_eq_true_eq] at hw
    exact ⟨_, by simp only [run]; rw [dateYmDuration_eq m a b hw.1.1.1.1.1 hw.1.1.1.1.2 hw.1.1.1.2 hw.1.2]; rfl⟩
  | dateWeekday d =>
    unfold Op.wellTyped at hw
    simp only [Bool.and_eq_true, decide_eq_true_eq] at hw
    exact ⟨_, by simp only [run]; rw [dateWeekdayFallback_eq m d hw.1.1 hw.1.2 hw.2]; rfl⟩

/-- Inside the representable range the machine result is the value on unbounded integers. -/
theorem run_eq_ideal (m : IntMode) (op : Op) (hw : op.wellTyped = true) (hr : op.inRange = true) :
    run m op = .ok (ideal op) := by
  cases op with
  | ymAdd a b =>
    have h := fits_i64 _ hr
    simp only [run, ymAdd, ideal, feelAddYmd]
    rw [checkedOp_i64_some _ h.1 h.2]; rfl
  | ymSub a b =>
    have h := fits_i64 _ hr
    simp only [run, ymSub, ideal, feelSubYmd]
    rw [checkedOp_i64_some _ h.1 h.2]; rfl
  | ymNeg a =>
    have h := fits_i64 _ hr
    simp only [run, ymNeg, ideal, feelNegYmd]
    rw [checkedOp_i64_some _ h.1 h.2]; rfl
  | ymYears a => rfl
  | ymMonths a => rfl
  | ymPrint a =>
    have h := fits_i64 a hw
    simp only [run]; rw [ymPrint_eq m a h.1 h.2]; rfl
  | dtdAdd a b => simp only [run, dtdAdd]; rw [dtd_arith_eq m _ hr]; rfl
  | dtdSub a b => simp only [run, dtdSub]; rw [dtd_arith_eq m _ hr]; rfl
  | dtdNeg a =>
    have h := fits_i128 a hw
    have hn : a ≠ -170141183460469231731687303715884105728 := of_decide_eq_true hr
    simp only [run, dtdNeg]; rw [arith_i128 m _ _ (by omega) (by omega)]; rfl
  | dtdDays a =>
    unfold Op.inRange at hr
    simp only [Bool.and_eq_true, decide_eq_true_eq] at hr
    simp only [run]; rw [dtdGetDays_eq m a hw hr.1]
    unfold Temporal.dtdDays ideal
    have h2 : (a.natAbs : Int) / nsPerDay ≤ 18446744073709551615 := hr.2
    have h0 : 0 ≤ (a.natAbs : Int) / nsPerDay := by simp only [nsPerDay, nsPerHour, nsPerMinute, nsPerSecond]; omega
    rw [usize_small _ h0 h2]; rfl
  | dtdHours a =>
    simp only [run]; rw [dtdGetHours_eq m a hw (of_decide_eq_true hr)]
    unfold Temporal.dtdHours ideal
    rw [usize_small _ (by simp only [nsPerDay, nsPerHour, nsPerMinute, nsPerSecond]; omega)
      (by simp only [nsPerDay, nsPerHour, nsPerMinute, nsPerSecond]; omega)]; rfl
  | dtdMinutes a =>
    simp only [run]; rw [dtdGetMinutes_eq m a hw (of_decide_eq_true hr)]
    unfold Temporal.dtdMinutes ideal
    rw [usize_small _ (by simp only [nsPerDay, nsPerHour, nsPerMinute, nsPerSecond]; omega)
      (by simp only [nsPerDay, nsPerHour, nsPerMinute, nsPerSecond]; omega)]; rfl
  | dtdSeconds a =>
    simp only [run]; rw [dtdGetSeconds_eq m a hw (of_decide_eq_true hr)]
    unfold Temporal.dtdSeconds ideal
    rw [usize_small _ (by simp only [nsPerDay, nsPerHour, nsPerMinute, nsPerSecond]; omega)
      (by simp only [nsPerDay, nsPerHour, nsPerMinute, nsPerSecond]; omega)]; rfl
  | dtdPrint a => simp only [run]; rw [dtdPrint_eq m a hw (of_decide_eq_true hr)]; rfl
  | time4Offset a =>
    simp only [run, ideal]
    rw [time4Offset_eq a hr]
    by_cases hg : -53999 ≤ Int.tdiv a 1000000000 ∧ Int.tdiv a 1000000000 ≤ 53999
    · rw [if_pos hg, if_pos hg]; rfl
    · rw [if_neg hg, if_neg hg]; rfl
  | ymLit y mo neg =>
    unfold Op.wellTyped at hw
    simp only [Bool.and_eq_true] at hw
    simp only [run]
    rw [ymCombine_eq m y mo neg ?_ ?_]
    · rfl
    · intro v hv; subst hv
      have h := hw.1
      simp only [Bool.and_eq_true, decide_eq_true_eq] at h
      exact ⟨h.1, (fits_i64 v h.2).2⟩
    · intro v hv; subst hv
      have h := hw.2
      simp only [Bool.and_eq_true, decide_eq_true_eq] at h
      exact ⟨h.1, (fits_i64 v h.2).2⟩
  | dtLit d h mi s f neg =>
    unfold Op.wellTyped at hw
    simp only [Bool.and_eq_true] at hw
    obtain ⟨⟨⟨⟨hd, hh⟩, hmi⟩, hs⟩, hf⟩ := hw
    simp only [run]
    rw [dtCombine_eq m d h mi s f neg ?_ ?_ ?_ ?_ ?_]
    · rfl
    · intro v hv; subst hv; exact fits_u64 v hd
    · intro v hv; subst hv; exact fits_u64 v hh
    · intro v hv; subst hv; exact fits_u64 v hmi
    · intro v hv; subst hv; exact fits_u64 v hs
    · intro v hv; subst hv
      simp only [Bool.and_eq_true, decide_eq_true_eq] at hf
      omega
  | dateYm a b =>
    unfold Op.wellTyped at hw
    simp only [Bool.and_eq_true, decide_eq_true_eq] at hw
    simp only [run]; rw [dateYmDuration_eq m a b hw.1.1.1.1.1 hw.1.1.1.1.2 hw.1.1.1.2 hw.1.2]; rfl
  | dateWeekday d =>
    unfold Op.wellTyped at hw
    simp only [Bool.and_eq_true, decide_eq_true_eq] at hw
    simp only [run]; rw [dateWeekdayFallback_eq m d hw.1.1 hw.1.2 hw.2]; rfl

/-! ## The statements outside `run`: zones, the year sign, fractions, the `time offset` property -/

theorem zoneOffset_ok (m : IntMode) (neg : Bool) (h mi : Int) (s : Option Int)
    (hh : 0 ≤ h ∧ h ≤ 99) (hmi : 0 ≤ mi ∧ mi ≤ 99) (hs : ∀ v, s = some v → 0 ≤ v ∧ v ≤ 99) :
    ∃ r, zoneOffset m neg h mi s = .ok r := by
  unfold zoneOffset
  simp (disch := omega) only [arith_i32, bind_ok]
  cases s with
  | none =>
    simp only [bind_ok]
    cases neg
    · exact ⟨_, rfl⟩
    · simp (disch := omega) only [arith_i32, bind_ok, if_true]
      exact ⟨_, rfl⟩
  | some v =>
    have hv := hs v rfl
    by_cases h59 : v > 59
    · simp only [h59, if_true, bind_ok]
      exact ⟨_, rfl⟩
    · simp (disch := omega) only [h59, if_false, arith_i32, map_ok, bind_ok]
      cases neg
      · exact ⟨_, rfl⟩
      · simp (disch := omega) only [arith_i32, bind_ok, if_true]
        exact ⟨_, rfl⟩

theorem dateNegYear_ok (m : IntMode) (y : Int) (h : 0 ≤ y ∧ y ≤ 999999999) : dateNegYear m y = .ok (-y) := by
  unfold dateNegYear
  simp (disch := omega) only [arith_i32]

theorem zoneAbs_ok (m : IntMode) (o : Int) (h : -53999 ≤ o ∧ o ≤ 53999) :
    zoneAbs m o = .ok (o.natAbs : Int) := by
  unfold zoneAbs
  by_cases h0 : o < 0
  · rw [if_pos h0]
    simp (disch := omega) only [arith_i32]
    congr 1; omega
  · rw [if_neg h0]
    simp (disch := omega) only [arith_i32]
    congr 1; omega

theorem dtdOfSeconds_ok (m : IntMode) (sec : Int) (h : tI64.fits sec = true) :
    dtdOfSeconds m sec = .ok (sec * nsPerSecond) := by
  have hb := fits_i64 sec h
  unfold dtdOfSeconds
  simp only [nsPerSecond]
  simp (disch := omega) only [arith_i128, bind_ok]
  congr 1; omega

theorem dtdOfNanos_ok (m : IntMode) (a : Int) (h : tI64.fits a = true) : dtdOfNanos m a = .ok a := by
  have hb := fits_i64 a h
  unfold dtdOfNanos
  simp (disch := omega) only [arith_i128]
  congr 1; omega

theorem eastOffset_ok (o : Int) (h : -53999 ≤ o ∧ o ≤ 53999) : eastOffset o = .ok o := by
  unfold eastOffset
  rw [if_pos (by omega)]

/-- The largest accumulator from which `k` more rounds stay below 10⁹. -/
def fracCap : Nat → Int
  | 0 => 999999999
  | k + 1 => (fracCap k - 9) / 10

theorem fracCap_le (k : Nat) : fracCap k ≤ 999999999 := by
  induction k with
  | zero => decide
  | succ k ih => unfold fracCap; omega

theorem fractionToNanos_go_ok (m : IntMode) (k : Nat) (ds : List Nat) (acc : Int) (hd : ∀ d ∈ ds, d ≤ 9)
    (ha : 0 ≤ acc ∧ acc ≤ fracCap k) :
    ∃ v, fractionToNanos.go m k ds acc = .ok v ∧ 0 ≤ v ∧ v < 1000000000 := by
  induction k generalizing ds acc with
  | zero =>
    refine ⟨acc, rfl, ha.1, ?_⟩
    have := ha.2
    unfold fracCap at this
    omega
  | succ k ih =>
    unfold fractionToNanos.go
    have hc := fracCap_le k
    have ha2 := ha.2
    unfold fracCap at ha2
    have hdig : (ds.headD 0 : Nat) ≤ 9 := by
      cases ds with
      | nil => simp
      | cons d r => simpa using hd d (by simp)
    generalize fracCap k = P at ha2 hc ih
    have a1 : tU64.arith m (acc * 10) sMod = .ok (acc * 10) := arith_u64 m _ _ (by omega) (by omega)
    rw [a1, bind_ok]
    have a2 : tU64.arith m (acc * 10 + (ds.headD 0 : Nat)) sMod = .ok (acc * 10 + (ds.headD 0 : Nat)) :=
      arith_u64 m _ _ (by omega) (by omega)
    rw [a2, bind_ok]
    refine ih ds.tail _ ?_ ?_
    · intro d hd'
      exact hd d (List.mem_of_mem_tail hd')
    · constructor <;> omega

theorem fractionToNanos_ok (m : IntMode) (ds : List Nat) (hd : ∀ d ∈ ds, d ≤ 9) :
    ∃ v, fractionToNanos m ds = .ok v ∧ 0 ≤ v ∧ v < 1000000000 := by
  unfold fractionToNanos
  exact fractionToNanos_go_ok m 9 ds 0 hd (by decide)

theorem nanosAsU32_id (ns : Int) (h : 0 ≤ ns ∧ ns < 1000000000) : nanosAsU32 ns = ns :=
  wrap_u32_id ns h.1 (by omega)

end Dmn.TemporalMachine
