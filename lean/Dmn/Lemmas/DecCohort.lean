import Dmn.Lemmas.DecCmp
import Dmn.Model.DecSpec

/-! Representations of one value (cohort members): `reduce` maps all of them to one triple. -/

namespace Dmn.D128

theorem mul_pow10_mod (m d : Nat) (hd : 1 ≤ d) : (m * 10 ^ d) % 10 = 0 := by
  obtain ⟨j, rfl⟩ : ∃ j, d = j + 1 := ⟨d - 1, by omega⟩
  rw [pow10_succ, ← Nat.mul_assoc, Nat.mul_comm m 10, Nat.mul_assoc]
  exact Nat.mul_mod_right 10 _

theorem pow10_cancel (m m' p q : Nat) (h : m * 10 ^ p = m' * 10 ^ q) (hpq : p ≤ q) : m = m' * 10 ^ (q - p) := by
  have e : q = (q - p) + p := by omega
  rw [e, pow10_add, ← Nat.mul_assoc] at h
  exact Nat.eq_of_mul_eq_mul_right (pow10_pos p) h

theorem sint_inj' (n : Bool) (x y : Nat) (h : sint n x = sint n y) : x = y := by
  unfold sint at h
  cases n <;> simp at h <;> omega

/-- two representable triples with the same sign and the same value reduce to the same triple -/
theorem reduce_congr (a b : D128) (ha : WF a) (hb : WF b) (h : SameValue a b) (hn : a.neg = b.neg) :
    reduce a = reduce b := by
  obtain ⟨_, _, hahi⟩ := ha
  obtain ⟨_, _, hbhi⟩ := hb
  unfold SameValue scaled at h
  rw [hn] at h
  have hv := sint_inj' _ _ _ h
  unfold reduce
  by_cases ha0 : a.coeff = 0
  · have hb0 : b.coeff = 0 := by
      rw [ha0, Nat.zero_mul] at hv
      have := pow10_pos (b.exp - min a.exp b.exp).toNat
      rcases Nat.mul_eq_zero.mp hv.symm with h1 | h1
      · exact h1
      · omega
    rw [if_pos ha0, if_pos hb0, hn]
  · have hb0 : b.coeff ≠ 0 := by
      intro hb0
      rw [hb0, Nat.zero_mul] at hv
      have := pow10_pos (a.exp - min a.exp b.exp).toNat
      rcases Nat.mul_eq_zero.mp hv with h1 | h1
      · exact ha0 h1
      · omega
    rw [if_neg ha0, if_neg hb0]
    obtain ⟨a1, a2, a3⟩ := stripZeros_spec (eTop - a.exp).toNat a.coeff
    have a4 := stripZeros_done (eTop - a.exp).toNat a.coeff
    obtain ⟨b1, b2, b3⟩ := stripZeros_spec (eTop - b.exp).toNat b.coeff
    have b4 := stripZeros_done (eTop - b.exp).toNat b.coeff
    generalize stripZeros (eTop - a.exp).toNat a.coeff = ra at *
    generalize stripZeros (eTop - b.exp).toNat b.coeff = rb at *
    obtain ⟨m, k⟩ := ra
    obtain ⟨m', k'⟩ := rb
    simp only [] at a1 a2 a3 a4 b1 b2 b3 b4 ⊢
    have hm := a3 ha0
    have hm' := b3 hb0
    rw [a1, b1, Nat.mul_assoc, Nat.mul_assoc, ← pow10_add, ← pow10_add] at hv
    unfold eTop at *
    generalize hs : min a.exp b.exp = s at *
    have key : m = m' ∧ k + (a.exp - s).toNat = k' + (b.exp - s).toNat := by
      rcases Nat.lt_trichotomy (k + (a.exp - s).toNat) (k' + (b.exp - s).toNat) with hlt | heq | hgt
      · exfalso
        have := pow10_cancel _ _ _ _ hv (by omega)
        have hmod := mul_pow10_mod m' (k' + (b.exp - s).toNat - (k + (a.exp - s).toNat)) (by omega)
        rw [← this] at hmod
        rcases a4 with x | x | x
        · exact hm x
        · exact x hmod
        · omega
      · refine ⟨?_, heq⟩
        rw [heq] at hv
        exact Nat.eq_of_mul_eq_mul_right (pow10_pos _) hv
      · exfalso
        have := pow10_cancel _ _ _ _ hv.symm (by omega)
        have hmod := mul_pow10_mod m (k + (a.exp - s).toNat - (k' + (b.exp - s).toNat)) (by omega)
        rw [← this] at hmod
        rcases b4 with x | x | x
        · exact hm' x
        · exact x hmod
        · omega
    obtain ⟨k1, k2⟩ := key
    subst k1
    have : a.exp + (k : Int) = b.exp + (k' : Int) := by omega
    rw [hn, this]

end Dmn.D128
