import Dmn.Lemmas.DecCmp
import Dmn.Lemmas.DecScale

/-! The specification of a correctly rounded result does not depend on the scale at which the
exact value is written (`roundsHalfEven_shift`, `Lemmas/DecScale.lean`); from there: a correctly
rounded `a − p` is the correctly rounded mathematical modulo whenever `p` is exactly `b·⌊a/b⌋`. -/

namespace Dmn
namespace D128

/-- two writings `M1·10^k1 = M2·10^k2` of one exact value at one common exponent `s0` -/
theorem rounds_same_value (M1 M2 : Int) (s1 s2 : Int) (k1 k2 : Nat) (hs : s1 - (k1 : Int) = s2 - (k2 : Int))
    (hE : M1 * ((10 ^ k1 : Nat) : Int) = M2 * ((10 ^ k2 : Nat) : Int)) (r : D128R)
    (h : RoundsHalfEven (decide (M1 < 0)) M1.natAbs 1 s1 r) :
    RoundsHalfEven (decide (M2 < 0)) M2.natAbs 1 s2 r := by
  have hp1 := pow10_cast_pos k1
  have hp2 := pow10_cast_pos k2
  have hneg : (M1 < 0) ↔ (M2 < 0) := by
    have a1 : M1 * ((10 ^ k1 : Nat) : Int) < 0 * ((10 ^ k1 : Nat) : Int) ↔ M1 < 0 := Int.mul_lt_mul_right hp1
    have a2 : M2 * ((10 ^ k2 : Nat) : Int) < 0 * ((10 ^ k2 : Nat) : Int) ↔ M2 < 0 := Int.mul_lt_mul_right hp2
    rw [Int.zero_mul] at a1 a2
    rw [← a1, ← a2, hE]
  have habs : M1.natAbs * 10 ^ k1 = M2.natAbs * 10 ^ k2 := by
    have := congrArg Int.natAbs hE
    simpa [Int.natAbs_mul] using this
  have hd : decide (M1 < 0) = decide (M2 < 0) := by simp [hneg]
  rw [← roundsHalfEven_shift _ _ _ _ k1] at h
  rw [← roundsHalfEven_shift _ _ _ _ k2, ← hs, ← habs, ← hd]
  exact h

/-- a correctly rounded `a − p` is the correctly rounded mathematical modulo when `p` is exactly
`b·⌊a/b⌋` -/
theorem addSpec_to_modulo (a b p : D128) (r : D128R)
    (hp : scaled p (min p.exp b.exp) = scaled b (min p.exp b.exp) * floorQuot a b)
    (h : AddSpec a (D128.flip p) r) : ModuloSpec a b r := by
  -- the three scales
  let s1 : Int := min a.exp p.exp
  let s2 : Int := min a.exp b.exp
  let t : Int := min p.exp b.exp
  let s0 : Int := min s1 s2
  have hs1 : min a.exp (D128.flip p).exp = s1 := rfl
  -- everything at s0
  have ha1 := scaled_shift a s0 s1 (by omega) (by omega)
  have hp1 := scaled_shift p s0 s1 (by omega) (by omega)
  have ha2 := scaled_shift a s0 s2 (by omega) (by omega)
  have hb2 := scaled_shift b s0 s2 (by omega) (by omega)
  have hpt := scaled_shift p s0 t (by omega) (by omega)
  have hbt := scaled_shift b s0 t (by omega) (by omega)
  have hflip : scaled (D128.flip p) s1 = - scaled p s1 := by
    unfold D128.flip scaled sint
    cases p.neg <;> simp
  have hp0 : scaled p s0 = scaled b s0 * floorQuot a b := by
    rw [hpt, hbt, hp]; ring
  have hE : exactSum a (D128.flip p) * ((10 ^ (s1 - s0).toNat : Nat) : Int)
      = exactMod a b * ((10 ^ (s2 - s0).toNat : Nat) : Int) := by
    unfold exactSum exactMod
    rw [hs1]
    show (scaled a s1 + scaled (D128.flip p) s1) * _ = (scaled a s2 - scaled b s2 * floorQuot a b) * _
    rw [hflip]
    have e1 : (scaled a s1 + -scaled p s1) * ((10 ^ (s1 - s0).toNat : Nat) : Int) = scaled a s0 - scaled p s0 := by
      rw [ha1, hp1]; ring
    have e2 : (scaled a s2 - scaled b s2 * floorQuot a b) * ((10 ^ (s2 - s0).toNat : Nat) : Int)
        = scaled a s0 - scaled b s0 * floorQuot a b := by
      rw [ha2, hb2]; ring
    rw [e1, e2, hp0]
  have hs : s1 - (((s1 - s0).toNat : Nat) : Int) = s2 - (((s2 - s0).toNat : Nat) : Int) := by omega
  have hz : exactSum a (D128.flip p) = 0 ↔ exactMod a b = 0 := by
    have hp1' := pow10_cast_pos (s1 - s0).toNat
    have hp2' := pow10_cast_pos (s2 - s0).toNat
    constructor
    · intro h0
      rw [h0, Int.zero_mul] at hE
      rcases Int.mul_eq_zero.mp hE.symm with h' | h'
      · exact h'
      · omega
    · intro h0
      rw [h0, Int.zero_mul] at hE
      rcases Int.mul_eq_zero.mp hE with h' | h'
      · exact h'
      · omega
  unfold AddSpec at h
  simp only [] at h
  unfold ModuloSpec
  by_cases h0 : exactSum a (D128.flip p) = 0
  · rw [if_pos h0] at h
    rw [if_pos (hz.mp h0)]
    cases hb : (a.neg && (D128.flip p).neg)
    · rw [hb] at h; exact Or.inl h
    · rw [hb] at h; exact Or.inr h
  · rw [if_neg h0, hs1] at h
    rw [if_neg (fun h' => h0 (hz.mpr h'))]
    exact rounds_same_value _ _ s1 s2 _ _ hs hE r h

end D128
end Dmn
