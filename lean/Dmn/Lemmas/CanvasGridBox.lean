import Dmn.Lemmas.CanvasGridDefs

/-!
# One closed box per grid cell

On a content whose grid layer holds the full grid of a sheet (`SheetGrid`): every grid cell
`(r, c)` is a closed box of the grid layer (`gridBox_of_sheetGrid`), `recognize_rectangle` from its
top left corner returns the cell's rectangle (`recognizeRectangle_cell`), and the top left corners
of the grid layer on a boundary row are exactly the top left vertices of the grid cells
(`sheetGrid_corner_iff`).
-/

namespace Dmn.Recog
open Scan (ok error)

section
variable {c : Content} {s : Sheet} {o : Nat}

/-- between two neighbouring boundary columns there are only segment positions of that column -/
theorem between_cols (s : Sheet) {cc x : Nat} (hc : cc < s.ncols) (h1 : s.xPos cc < x)
    (h2 : x < s.xPos (cc + 1)) : ∃ i, i < s.w cc ∧ x = s.xPos cc + (1 + i) := by
  have hle := xPos_le s (show cc + 1 ≤ s.ncols by omega)
  rcases s.line_locate x (by omega) with ⟨bc, _, rfl⟩ | ⟨c', i, _, hi, rfl⟩
  · have := xPos_lt_imp s h1
    have := xPos_lt_imp s h2
    omega
  · have := seg_between s hi h1 h2
    have hcc : c' = cc := by omega
    subst hcc
    exact ⟨i, hi, rfl⟩

/-- between two neighbouring boundary rows there are only text lines of that row -/
theorem between_rows (s : Sheet) {r y : Nat} (hr : r < s.nrows) (h1 : s.yPos r < y)
    (h2 : y < s.yPos (r + 1)) : ∃ l, l < s.h r ∧ y = s.yPos r + (1 + l) := by
  have hle := yPos_le s (show r + 1 ≤ s.nrows by omega)
  rcases s.render_locate y (by omega) with ⟨br, _, rfl⟩ | ⟨r', l, _, hl, rfl⟩
  · have := yPos_lt_imp s h1
    have := yPos_lt_imp s h2
    omega
  · have := line_between s hl h1 h2
    have hrr : r' = r := by omega
    subst hrr
    exact ⟨l, hl, rfl⟩

/-- **One closed box per grid cell**: in the full grid every grid cell is a closed box of the grid
layer — junctions at its four vertices, `─` / `│` only between them. -/
theorem gridBox_of_sheetGrid (hg : SheetGrid c s o) {r cc : Nat} (hr : r < s.nrows) (hc : cc < s.ncols) :
    GridBox c .grid (s.xPos cc) (o + s.yPos r) (s.xPos (cc + 1)) (o + s.yPos (r + 1)) := by
  have hJ1 : ∀ u r' : Bool, ['┼', '┬', '┤', '┐'].contains (J u true true r') = true := by
    intro u r'; cases u <;> cases r' <;> decide
  have hJ2 : ∀ d r' : Bool, ['┼', '┴', '┤', '┘'].contains (J true d true r') = true := by
    intro d r'; cases d <;> cases r' <;> decide
  have hJ3 : ∀ d l : Bool, ['┼', '└', '├', '┴'].contains (J true d l true) = true := by
    intro d l; cases d <;> cases l <;> decide
  have hJ4 : ∀ u l : Bool, ['┼', '┬', '├', '┌'].contains (J u true l true) = true := by
    intro u l; cases u <;> cases l <;> decide
  have hr1 : decide (r < s.nrows) = true := by simpa using hr
  have hr2 : decide (0 < r + 1) = true := by simp
  have hc1 : decide (cc < s.ncols) = true := by simpa using hc
  have hc2 : decide (0 < cc + 1) = true := by simp
  refine ⟨?_, ?_, ?_, ?_, ?_, ?_, ?_, ?_⟩
  · intro x h1 h2
    obtain ⟨i, hi, rfl⟩ := between_cols s hc h1 h2
    rw [hg.hseg r cc i (by omega) hc hi]
    exact ⟨by decide, by decide⟩
  · rw [hg.vertex r (cc + 1) (by omega) (by omega), hr1, hc2]
    exact hJ1 _ _
  · intro y h1 h2
    obtain ⟨l, hl, hy⟩ := between_rows s hr (show s.yPos r < y - o by omega) (by omega)
    have : y = o + (s.yPos r + (1 + l)) := by omega
    rw [this, hg.sep r l (cc + 1) hr hl (by omega)]
    exact ⟨by decide, by decide⟩
  · rw [hg.vertex (r + 1) (cc + 1) (by omega) (by omega), hr2, hc2]
    exact hJ2 _ _
  · intro x h1 h2
    obtain ⟨i, hi, rfl⟩ := between_cols s hc h1 h2
    rw [hg.hseg (r + 1) cc i (by omega) hc hi]
    exact ⟨by decide, by decide⟩
  · rw [hg.vertex (r + 1) cc (by omega) (by omega), hr2, hc1]
    exact hJ3 _ _
  · intro y h1 h2
    obtain ⟨l, hl, hy⟩ := between_rows s hr (show s.yPos r < y - o by omega) (by omega)
    have : y = o + (s.yPos r + (1 + l)) := by omega
    rw [this, hg.sep r l cc hr hl (by omega)]
    exact ⟨by decide, by decide⟩
  · rw [hg.vertex r cc (by omega) (by omega), hr1, hc1]
    exact hJ4 _ _

/-- `recognize_rectangle` from the top left vertex of a grid cell returns the cell's rectangle -/
theorem recognizeRectangle_cell (hs : Shape c (o + s.yPos s.nrows + 2) (s.xPos s.ncols + 1))
    (hg : SheetGrid c s o) {r cc : Nat} (hr : r < s.nrows) (hc : cc < s.ncols) :
    recognizeRectangle c .grid ⟨s.xPos cc, o + s.yPos r⟩ = ok (s.cellRect o r cc) := by
  have h1 := xPos_strict s (show cc < cc + 1 by omega)
  have h2 := xPos_le s (show cc + 1 ≤ s.ncols by omega)
  have h3 := yPos_strict s (show r < r + 1 by omega)
  have h4 := yPos_le s (show r + 1 ≤ s.nrows by omega)
  have := recognizeRectangle_box hs (layer := .grid) (l := s.xPos cc) (t := o + s.yPos r)
    (r := s.xPos (cc + 1)) (b := o + s.yPos (r + 1)) h1 (by omega) (by omega) (by omega)
    (gridBox_of_sheetGrid hg hr hc)
  rw [this]
  rfl

/-- the top left corners of the grid layer on a boundary row: exactly the top left vertices of
the grid cells (not the vertices of the last boundary row or column, not the segments) -/
theorem sheetGrid_corner_iff (hg : SheetGrid c s o) {br : Nat} (hbr : br ≤ s.nrows) {x : Nat}
    (hx : x < s.xPos s.ncols + 1) :
    cornersTopLeft.contains (chOf c .grid (o + s.yPos br) x) = true ↔
      br < s.nrows ∧ ∃ cc, cc < s.ncols ∧ x = s.xPos cc := by
  rcases s.line_locate x hx with ⟨bc, hbc, rfl⟩ | ⟨c', i, hc', hi, rfl⟩
  · rw [hg.vertex br bc hbr hbc, J_topLeft]
    constructor
    · intro h
      simp only [Bool.and_eq_true, decide_eq_true_eq] at h
      exact ⟨h.1, bc, h.2, rfl⟩
    · intro ⟨h1, cc, h2, h3⟩
      have := xPos_inj s h3
      subst this
      simp [h1, h2]
  · rw [hg.hseg br c' i hbr hc' hi]
    constructor
    · intro h; exact absurd h (by decide)
    · intro ⟨_, cc, hcc, h3⟩
      exfalso
      by_cases hlt : cc ≤ c'
      · have := xPos_le (s := { s with ncols := c' }) (bc := cc) hlt
        have h5 : s.xPos cc ≤ s.xPos c' := this
        omega
      · have := xPos_lt s (show c' < cc by omega)
        omega

/-- a text line holds no top left corner in the grid layer -/
theorem sheetGrid_text_row (hg : SheetGrid c s o) {r l : Nat} (hr : r < s.nrows) (hl : l < s.h r)
    {x : Nat} (hx : x < s.xPos s.ncols + 1) :
    cornersTopLeft.contains (chOf c .grid (o + (s.yPos r + (1 + l))) x) = false := by
  rcases s.line_locate x hx with ⟨bc, hbc, rfl⟩ | ⟨c', i, hc', hi, rfl⟩
  · rw [hg.sep r l bc hr hl hbc]; decide
  · rw [hg.cell r l c' i hr hl hc' hi]; decide

end

end Dmn.Recog
