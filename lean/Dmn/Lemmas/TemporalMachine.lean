import Dmn.Model.TemporalMachine

/-!
# Lemmas about the machine-integer layer of the temporal code (C05 part (a))

Basic facts about `IntTy.arith`, then per operation: the outcome is `ok` for every well-typed
operand (no panic, both integer modes) and equals the unbounded-`Int` value.
-/

namespace Dmn.TemporalMachine
open Dmn Dmn.Cal Dmn.Temporal

@[simp] theorem bind_ok {α β : Type} (a : α) (f : α → Outcome β) : (Outcome.ok a).bind f = f a := rfl
@[simp] theorem map_ok {α β : Type} (a : α) (f : α → β) : (Outcome.ok a).map f = .ok (f a) := rfl

/-- In-range arithmetic returns the exact result, in both modes. -/
theorem arith_ok (t : IntTy) (m : IntMode) (x : Int) (s : String) (h1 : t.lo ≤ x) (h2 : x ≤ t.hi) :
    t.arith m x s = .ok x := by
  unfold IntTy.arith
  rw [if_pos ⟨h1, h2⟩]

theorem arith_i32 (m : IntMode) (x : Int) (s : String) (h1 : -2147483648 ≤ x) (h2 : x ≤ 2147483647) :
    tI32.arith m x s = .ok x := arith_ok tI32 m x s h1 h2

theorem arith_i64 (m : IntMode) (x : Int) (s : String) (h1 : -9223372036854775808 ≤ x)
    (h2 : x ≤ 9223372036854775807) : tI64.arith m x s = .ok x := arith_ok tI64 m x s h1 h2

theorem arith_u64 (m : IntMode) (x : Int) (s : String) (h1 : 0 ≤ x) (h2 : x ≤ 18446744073709551615) :
    tU64.arith m x s = .ok x := arith_ok tU64 m x s h1 h2

theorem arith_i128 (m : IntMode) (x : Int) (s : String)
    (h1 : -170141183460469231731687303715884105728 ≤ x)
    (h2 : x ≤ 170141183460469231731687303715884105727) : tI128.arith m x s = .ok x :=
  arith_ok tI128 m x s h1 h2

/-- Without overflow checks no arithmetic operation panics. -/
theorem arith_wrapping (t : IntTy) (x : Int) (s : String) : ∃ v, t.arith .wrapping x s = .ok v := by
  unfold IntTy.arith
  by_cases h : t.lo ≤ x ∧ x ≤ t.hi
  · exact ⟨x, by rw [if_pos h]⟩
  · exact ⟨t.wrap x, by rw [if_neg h]⟩

/-- With overflow checks an out-of-range result is a panic. -/
theorem arith_checked_panic (t : IntTy) (x : Int) (s : String) (h : ¬ (t.lo ≤ x ∧ x ≤ t.hi)) :
    t.arith .checked x s = .panic s := by
  unfold IntTy.arith
  rw [if_neg h]

theorem wrapTo_id (hi modulus x : Int) (h1 : hi + 1 - modulus ≤ x ∨ (0 ≤ x ∧ hi + 1 = modulus)) (h2 : x ≤ hi)
    (h3 : hi < modulus) (h4 : 0 ≤ hi) : wrapTo hi modulus x = x := by
  unfold wrapTo
  have hm : 0 < modulus := by omega
  by_cases hx : 0 ≤ x
  · have e : x % modulus = x := Int.emod_eq_of_lt hx (by omega)
    simp only [e]
    rw [if_neg (by omega)]
  · have hx' : x < 0 := by omega
    have e : x % modulus = x + modulus := by
      have h5 : (x + modulus) % modulus = x + modulus := Int.emod_eq_of_lt (by omega) (by omega)
      rw [← h5, Int.add_emod_right]
    simp only [e]
    rw [if_pos (by omega)]
    omega

theorem wrap_u64_id (x : Int) (h1 : 0 ≤ x) (h2 : x ≤ 18446744073709551615) : tU64.wrap x = x :=
  wrapTo_id _ _ x (Or.inr ⟨h1, by decide⟩) h2 (by decide) (by decide)

theorem wrap_u32_id (x : Int) (h1 : 0 ≤ x) (h2 : x ≤ 4294967295) : tU32.wrap x = x :=
  wrapTo_id _ _ x (Or.inr ⟨h1, by decide⟩) h2 (by decide) (by decide)

theorem wrap_i64_id (x : Int) (h1 : -9223372036854775808 ≤ x) (h2 : x ≤ 9223372036854775807) :
    tI64.wrap x = x :=
  wrapTo_id _ _ x (Or.inl (by show 9223372036854775807 + 1 - 18446744073709551616 ≤ x; omega)) h2 (by decide) (by decide)

theorem wrap_i32_id (x : Int) (h1 : -2147483648 ≤ x) (h2 : x ≤ 2147483647) : tI32.wrap x = x :=
  wrapTo_id _ _ x (Or.inl (by show 2147483647 + 1 - 4294967296 ≤ x; omega)) h2 (by decide) (by decide)

/-- The property that an outcome is not a panic. -/
def NoPanic {α : Type} (o : Outcome α) : Prop := ∀ s, o ≠ .panic s

theorem noPanic_ok {α : Type} (a : α) : NoPanic (Outcome.ok a) := by
  intro s h; cases h

theorem noPanic_map {α β : Type} (o : Outcome α) (f : α → β) (h : NoPanic o) : NoPanic (o.map f) := by
  intro s
  cases o with
  | ok a => intro h'; cases h'
  | panic s' => exact absurd rfl (h s')
  | diverge => intro h'; cases h'

/-- The outcomes of the wrapping mode: every chain of `arith` steps returns. -/
def IsOk {α : Type} (o : Outcome α) : Prop := ∃ v, o = .ok v

theorem isOk_noPanic {α : Type} {o : Outcome α} (h : IsOk o) : NoPanic o := by
  obtain ⟨v, rfl⟩ := h
  exact noPanic_ok v

theorem isOk_bind {α β : Type} {o : Outcome α} {f : α → Outcome β} (h : IsOk o) (hf : ∀ a, IsOk (f a)) :
    IsOk (o.bind f) := by
  obtain ⟨v, rfl⟩ := h
  exact hf v

theorem isOk_map {α β : Type} {o : Outcome α} (f : α → β) (h : IsOk o) : IsOk (o.map f) := by
  obtain ⟨v, rfl⟩ := h
  exact ⟨f v, rfl⟩

theorem isOk_ok {α : Type} (a : α) : IsOk (Outcome.ok a) := ⟨a, rfl⟩

theorem isOk_arith (t : IntTy) (x : Int) (s : String) : IsOk (t.arith .wrapping x s) := arith_wrapping t x s

end Dmn.TemporalMachine
