import Dmn.Lemmas.DecRound

/-! Scaled integer values: comparison, sign operations, reduce. -/

namespace Dmn
namespace D128

theorem sint_mul_pow (n : Bool) (c k : Nat) : sint n (c * 10 ^ k) = sint n c * ((10 ^ k : Nat) : Int) := by
  unfold sint
  cases n <;> simp [Int.natCast_mul, Int.neg_mul]

/-- rescaling the common exponent multiplies the scaled integer by a power of ten -/
theorem scaled_shift (d : D128) (s t : Int) (hs : s ≤ t) (ht : t ≤ d.exp) :
    scaled d s = scaled d t * ((10 ^ (t - s).toNat : Nat) : Int) := by
  unfold scaled
  have : (d.exp - s).toNat = (d.exp - t).toNat + (t - s).toNat := by omega
  rw [this, pow10_add, ← Nat.mul_assoc, sint_mul_pow]

theorem compare_mul_pos (x y p : Int) (hp : 0 < p) : compare (x * p) (y * p) = compare x y := by
  simp only [compare, compareOfLessAndEq]
  have h1 : x * p < y * p ↔ x < y := Int.mul_lt_mul_right hp
  have h2 : x * p = y * p ↔ x = y := by
    constructor
    · intro h; exact Int.eq_of_mul_eq_mul_right (by omega) h
    · intro h; rw [h]
  by_cases a : x < y
  · rw [if_pos a, if_pos (h1.mpr a)]
  · rw [if_neg a, if_neg (fun h => a (h1.mp h))]
    by_cases b : x = y
    · rw [if_pos b, if_pos (h2.mpr b)]
    · rw [if_neg b, if_neg (fun h => b (h2.mp h))]

theorem pow10_cast_pos (k : Nat) : (0 : Int) < ((10 ^ k : Nat) : Int) := by
  have := pow10_pos k
  omega

/-- `cmp` is the comparison of the values at *any* common scale -/
theorem cmp_at_scale (a b : D128) (s : Int) (ha : s ≤ a.exp) (hb : s ≤ b.exp) :
    cmp a b = compare (scaled a s) (scaled b s) := by
  have hm : s ≤ min a.exp b.exp := by omega
  rw [scaled_shift a s (min a.exp b.exp) hm (by omega), scaled_shift b s (min a.exp b.exp) hm (by omega),
    compare_mul_pos _ _ _ (pow10_cast_pos _)]
  rfl

theorem compare_int_swap (x y : Int) : compare x y = (compare y x).swap := by
  simp only [compare, compareOfLessAndEq]
  by_cases a : x < y
  · rw [if_pos a, if_neg (by omega), if_neg (by omega)]; rfl
  · rw [if_neg a]
    by_cases b : x = y
    · rw [if_pos b, if_neg (by omega), if_pos b.symm]; rfl
    · rw [if_neg b, if_pos (by omega)]; rfl

theorem compare_int_lt {x y : Int} : compare x y = .lt ↔ x < y := by
  simp only [compare, compareOfLessAndEq]
  by_cases a : x < y
  · simp [a]
  · by_cases b : x = y <;> simp [a, b]

theorem compare_int_eq {x y : Int} : compare x y = .eq ↔ x = y := by
  simp only [compare, compareOfLessAndEq]
  by_cases a : x < y
  · simp [a]; omega
  · by_cases b : x = y <;> simp [a, b]

theorem compare_int_gt {x y : Int} : compare x y = .gt ↔ y < x := by
  simp only [compare, compareOfLessAndEq]
  by_cases a : x < y
  · simp [a]; omega
  · by_cases b : x = y
    · simp [a, b]
    · simp [a, b]; omega

/-! ### strip zeros / reduce -/

theorem stripZeros_spec (limit n : Nat) :
    n = (stripZeros limit n).1 * 10 ^ (stripZeros limit n).2 ∧ (stripZeros limit n).2 ≤ limit ∧
      (n ≠ 0 → (stripZeros limit n).1 ≠ 0) := by
  induction limit generalizing n with
  | zero => simp [stripZeros]
  | succ l ih =>
    unfold stripZeros
    by_cases h : n ≠ 0 ∧ n % 10 = 0
    · rw [if_pos h]
      obtain ⟨h1, h2, h3⟩ := ih (n / 10)
      simp only []
      refine ⟨?_, by omega, ?_⟩
      · rw [pow10_succ, ← Nat.mul_assoc, Nat.mul_comm _ 10, Nat.mul_assoc, ← h1]
        omega
      · intro _
        exact h3 (by omega)
    · rw [if_neg h]
      simp

/-- after stripping, the last digit is non-zero unless the limit was reached (or the number is 0) -/
theorem stripZeros_done (limit n : Nat) :
    (stripZeros limit n).1 = 0 ∨ (stripZeros limit n).1 % 10 ≠ 0 ∨ (stripZeros limit n).2 = limit := by
  induction limit generalizing n with
  | zero => simp [stripZeros]
  | succ l ih =>
    unfold stripZeros
    by_cases h : n ≠ 0 ∧ n % 10 = 0
    · rw [if_pos h]
      simp only []
      rcases ih (n / 10) with h1 | h1 | h1
      · exact Or.inl h1
      · exact Or.inr (Or.inl h1)
      · exact Or.inr (Or.inr (by omega))
    · rw [if_neg h]
      simp only []
      by_cases h0 : n = 0
      · exact Or.inl h0
      · exact Or.inr (Or.inl (by omega))

end D128
end Dmn
