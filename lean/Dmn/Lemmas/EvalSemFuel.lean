import Dmn.Lemmas.EvalRel

/-!
# More fuel never changes a completed evaluation

Fuel bounds the nesting of function-body evaluations (`mkEnv`); running out of it is the
outcome `diverge`.  `fuelRel` relates a computation to one that *refines* it: wherever the
first does not diverge the second has the very same outcome (value and scope, or panic).
Every primitive refines itself, refinement is a congruence for sequencing, so by `r_evalStep`
the evaluator with a better body evaluator refines the evaluator with a worse one.
-/

namespace Dmn.Eval
open EvalM

/-- `m'` has the outcome of `m` wherever `m` does not run out of fuel. -/
def Refines {α : Type} (m m' : EvalM α) : Prop := ∀ s, m s = .diverge ∨ m' s = m s

theorem refines_refl {α : Type} (m : EvalM α) : Refines m m := fun _ => Or.inr rfl

theorem refines_trans {α : Type} {m1 m2 m3 : EvalM α} (h12 : Refines m1 m2) (h23 : Refines m2 m3) :
    Refines m1 m3 := by
  intro s
  rcases h12 s with h | h
  · exact Or.inl h
  · rcases h23 s with h' | h'
    · left; rw [← h, h']
    · right; rw [h', h]

theorem refines_bind {α β : Type} {m m' : EvalM α} {f f' : α → EvalM β}
    (hm : Refines m m') (hf : ∀ a, Refines (f a) (f' a)) : Refines (m >>= f) (m' >>= f') := by
  intro s
  rw [bind_def, bind_def]
  rcases hm s with h | h
  · left; rw [h]
  · rw [h]
    cases m s with
    | ok r => exact hf r.1 r.2
    | panic p => right; rfl
    | diverge => left; rfl

def fuelRel : EvalRel where
  R := Refines
  Q := Refines
  pure := fun _ => refines_refl _
  bind := refines_bind
  lift := fun _ => refines_refl _
  getEntry := fun _ => refines_refl _
  searchDeep := fun _ => refines_refl _
  qOfR := id
  qPure := fun _ => refines_refl _
  qBind := refines_bind
  qSetEntry := fun _ _ => refines_refl _
  pushPop := fun _ _ hm =>
    refines_bind (refines_refl _) (fun _ => refines_bind hm (fun _ => refines_refl _))

/-- One more unit of fuel refines the evaluator of function bodies. -/
theorem call_refines_succ (num : NumOps) (bp : String → List Value → Outcome Value)
    (bn : String → List (String × Value × Nat) → Outcome Value) (v : Variant) :
    ∀ n b, Refines ((mkEnv num bp bn v n).call b) ((mkEnv num bp bn v (n + 1)).call b) := by
  intro n
  induction n with
  | zero => intro b s; left; rfl
  | succ n ih =>
    intro b
    have h := r_evalStep fuelRel (mkEnv num bp bn v n) (mkEnv num bp bn v (n + 1)).call ih b
    rw [mkEnv_withCall] at h
    exact h

theorem evalWith_refines_succ (num : NumOps) (bp : String → List Value → Outcome Value)
    (bn : String → List (String × Value × Nat) → Outcome Value) (v : Variant) (n : Nat) (a : Ast) :
    Refines (evalWith v num bp bn n a) (evalWith v num bp bn (n + 1) a) := by
  have h := r_evalStep fuelRel (mkEnv num bp bn v n) (mkEnv num bp bn v (n + 1)).call
    (call_refines_succ num bp bn v n) a
  rw [mkEnv_withCall] at h
  exact h

theorem evalWith_refines_le (num : NumOps) (bp : String → List Value → Outcome Value)
    (bn : String → List (String × Value × Nat) → Outcome Value) (v : Variant) (n n' : Nat) (h : n ≤ n')
    (a : Ast) : Refines (evalWith v num bp bn n a) (evalWith v num bp bn n' a) := by
  induction n' with
  | zero =>
    have : n = 0 := by omega
    subst this; exact refines_refl _
  | succ k ih =>
    by_cases hk : n ≤ k
    · exact refines_trans (ih hk) (evalWith_refines_succ num bp bn v k a)
    · have : n = k + 1 := by omega
      subst this; exact refines_refl _

end Dmn.Eval
