import Dmn.Model.EvalNames
import Dmn.Lemmas.EvalRel
import Dmn.Lemmas.EvalSemScope
import Dmn.Lemmas.EvalSemMore

/-!
# The names an evaluation looks up

`namesIn G a`: every name the closure built for the syntax tree `a` can look up in the scope — the
plain names (`Name`) and the first segments of the qualified names — satisfies `G` (the sub-trees are
exactly those `build_evaluator` builds evaluators for: the name after a path's dot, the variable of an
iteration context and the parameter names are not lookups).  `EvalRelG G` is `EvalRel` with the two
lookups guarded by `G`, and `g_evalStep` is `r_evalStep` for trees with `namesIn G`: a relation between
computations that holds between a lookup of a name in `G` and itself, is a congruence for sequencing
and survives the `push … pop` brackets holds between the closures built for such a tree in two
environments whose function-body evaluators are related.
-/

namespace Dmn.Eval
open EvalM

/-- `EvalRel` with the lookups guarded: only names satisfying `G` are looked up. -/
structure EvalRelG (G : String → Bool) where
  R : {α : Type} → EvalM α → EvalM α → Prop
  Q : {α : Type} → EvalM α → EvalM α → Prop
  pure : ∀ {α : Type} (a : α), R (Pure.pure a : EvalM α) (Pure.pure a)
  bind : ∀ {α β : Type} {m m' : EvalM α} {f f' : α → EvalM β},
    R m m' → (∀ a, R (f a) (f' a)) → R (m >>= f) (m' >>= f')
  lift : ∀ {α : Type} (o : Outcome α), R (EvalM.lift o) (EvalM.lift o)
  getEntry : ∀ k, G k = true → R (EvalM.getEntry k) (EvalM.getEntry k)
  /-- `Scope::search_deep` for a qualified name whose first segment satisfies `G` -/
  searchDeep : ∀ (n : String) (rest : List String), G n = true →
    R (do let s ← EvalM.getScope; Pure.pure ((scopeSearchDeep s (n :: rest)).getD Value.null))
      (do let s ← EvalM.getScope; Pure.pure ((scopeSearchDeep s (n :: rest)).getD Value.null))
  searchDeepNil :
    R (do let s ← EvalM.getScope; Pure.pure ((scopeSearchDeep s []).getD Value.null))
      (do let s ← EvalM.getScope; Pure.pure ((scopeSearchDeep s []).getD Value.null))
  qOfR : ∀ {α : Type} {m m' : EvalM α}, R m m' → Q m m'
  qPure : ∀ {α : Type} (a : α), Q (Pure.pure a : EvalM α) (Pure.pure a)
  qBind : ∀ {α β : Type} {m m' : EvalM α} {f f' : α → EvalM β},
    Q m m' → (∀ a, Q (f a) (f' a)) → Q (m >>= f) (m' >>= f')
  qSetEntry : ∀ k v, Q (EvalM.setEntry k v) (EvalM.setEntry k v)
  pushPop : ∀ {α β : Type} {m m' : EvalM α} (c : Ctx) (g : α → β), Q m m' →
    R (do EvalM.push c; let r ← m; EvalM.pop; Pure.pure (g r))
      (do EvalM.push c; let r ← m'; EvalM.pop; Pure.pure (g r))

section helpers
variable {G : String → Bool} (E : EvalRelG G)

theorem g_bracket {α : Type} (c : Ctx) {m m' : EvalM α} (hm : E.R m m') :
    E.R (bracket c m) (bracket c m') :=
  E.pushPop c id (E.qOfR hm)

theorem g_filterItem {pred pred' : EvalM Value} (hp : E.R pred pred') (v : Value) :
    E.R (filterItem pred v) (filterItem pred' v) := by
  have ht : E.R (do let r ← pred; Pure.pure (Value.isTrue r) : EvalM Bool)
      (do let r ← pred'; Pure.pure (Value.isTrue r) : EvalM Bool) :=
    E.bind hp (fun _ => E.pure _)
  unfold filterItem
  split
  · split
    · exact g_bracket E _ ht
    · exact g_bracket E _ (g_bracket E _ ht)
  · exact g_bracket E _ ht

theorem g_itemScoped {pred pred' : EvalM Value} (hp : E.R pred pred') (v : Value) :
    E.R (itemScoped pred v) (itemScoped pred' v) := by
  unfold itemScoped
  split
  · split
    · exact g_bracket E _ hp
    · exact g_bracket E _ (g_bracket E _ hp)
  · exact g_bracket E _ hp

theorem g_filterLoop {pred pred' : EvalM Value} (hp : E.R pred pred') (vs : List Value) :
    E.R (filterLoop pred vs) (filterLoop pred' vs) := by
  induction vs with
  | nil => exact E.pure _
  | cons v vs ih =>
    unfold filterLoop
    exact E.bind (g_filterItem E hp v) (fun _ => E.bind ih (fun _ => E.pure _))

theorem g_forLoop {body body' : EvalM Value} (hb : E.R body body') (cs : List Ctx) (results : List Value) :
    E.R (forLoop body cs results) (forLoop body' cs results) := by
  induction cs generalizing results with
  | nil => exact E.pure _
  | cons c cs ih =>
    unfold forLoop
    exact E.bind (g_bracket E _ hb) (fun _ => ih _)

theorem g_quantLoop {sat sat' : EvalM Value} (hs : E.R sat sat') (isSome : Bool) (cs : List Ctx) (acc : Bool × Bool) :
    E.R (quantLoop isSome sat cs acc) (quantLoop isSome sat' cs acc) := by
  induction cs generalizing acc with
  | nil => exact E.pure _
  | cons c cs ih =>
    unfold quantLoop
    exact E.bind (g_bracket E _ hs) (fun _ => ih _)

theorem g_callFunction (env : Env) (call' : Ast → EvalM Value) (hc : ∀ b, E.R (env.call b) (call' b))
    (args : Ctx) (body : Ast) (rt : FType) :
    E.R (callFunction env args body rt) (callFunction (env.withCall call') args body rt) := by
  unfold callFunction
  exact E.bind (g_bracket E _ (hc body)) (fun _ => E.pure _)

theorem g_invokePositional (env : Env) (call' : Ast → EvalM Value) (hc : ∀ b, E.R (env.call b) (call' b))
    (f : Value) (args : List Value) :
    E.R (invokePositional env f args) (invokePositional (env.withCall call') f args) := by
  unfold invokePositional
  split
  · exact E.lift _
  · split
    · exact E.pure _
    · split
      · exact g_callFunction E env call' hc _ _ _
      · exact E.pure _
  · exact E.pure _

theorem g_invokeNamed (env : Env) (call' : Ast → EvalM Value) (hc : ∀ b, E.R (env.call b) (call' b))
    (f : Value) (args : Value) :
    E.R (invokeNamed env f args) (invokeNamed (env.withCall call') f args) := by
  unfold invokeNamed
  split
  · split
    · exact E.lift _
    · exact E.pure _
  · split
    · split
      · exact E.pure _
      · split
        · exact g_callFunction E env call' hc _ _ _
        · exact E.pure _
    · exact g_callFunction E env call' hc _ _ _
  · exact E.pure _


end helpers

/-! ## qualified names -/

theorem all_isSegment (xs : List Ast) (h : xs.all isSegment = true) :
    ∃ names : List String, xs = names.map Ast.qualifiedNameSegment := by
  induction xs with
  | nil => exact ⟨[], rfl⟩
  | cons x xs ih =>
    simp only [List.all_cons, Bool.and_eq_true] at h
    obtain ⟨names, hx⟩ := ih h.2
    cases x <;> simp [isSegment] at h
    rename_i n
    exact ⟨n :: names, by rw [hx]; rfl⟩

theorem qnIn_cases {G : String → Bool} (xs : List Ast) (h : qnIn G xs = true) :
    xs = [] ∨ ∃ n rest, G n = true ∧ xs = (n :: rest).map Ast.qualifiedNameSegment := by
  cases xs with
  | nil => exact Or.inl rfl
  | cons x rest =>
    right
    cases x <;> simp [qnIn] at h
    rename_i n
    obtain ⟨names, hr⟩ := all_isSegment rest (by simpa using h.2)
    exact ⟨n, names, h.1, by rw [hr]; rfl⟩

/-- The closure built for a qualified name: one `Scope::search_deep`. -/
theorem evalStep_qualifiedName (env : Env) (segs : List String) :
    evalStep env (.qualifiedName (segs.map Ast.qualifiedNameSegment)) =
      (do let s ← EvalM.getScope; Pure.pure ((scopeSearchDeep s segs).getD Value.null)) := by
  funext s
  simp only [evalStep, bind_def, evalList_segments env segs s, getScope, pure_def]
  simp [List.filterMap_map, Function.comp_def]

/-- One proof step for a node: peel binds, close leaves, split matches. -/
local macro "g_step" : tactic =>
  `(tactic| first
    | exact EvalRelG.pure _ _
    | assumption
    | apply EvalRelG.bind
    | split
    | intro _)

mutual
/-- The closures built for a syntax tree that looks up only names in `G`, in two environments whose
function-body evaluators are related, are related. -/
theorem g_evalStep {G : String → Bool} (E : EvalRelG G) (env : Env) (call' : Ast → EvalM Value)
    (hc : ∀ b, E.R (env.call b) (call' b)) :
    (a : Ast) → namesIn G a = true → E.R (evalStep env a) (evalStep (env.withCall call') a)
  | .add a b | .and a b | .contextEntry a b | .contextTypeEntry a b | .div a b | .eq a b | .exp a b
  | .formalParameter a b | .functionDefinition a b | .functionType a b | .ge a b | .gt a b | .in a b
  | .instanceOf a b | .le a b | .lt a b | .mul a b | .nq a b | .or a b | .range a b | .sub a b => by
    intro hn
    simp only [namesIn, Bool.and_eq_true] at hn
    have ha := g_evalStep E env call' hc a hn.1
    have hb := g_evalStep E env call' hc b hn.2
    simp only [evalStep]
    repeat g_step
  | .out a b => by
    intro hn
    simp only [namesIn, Bool.and_eq_true] at hn
    have ha := g_evalStep E env call' hc a hn.1
    have hb := g_evalStep E env call' hc b hn.2
    simp only [evalStep]
    repeat g_step
  | .between a b c => by
    intro hn
    simp only [namesIn, Bool.and_eq_true] at hn
    have ha := g_evalStep E env call' hc a hn.1.1
    have hb := g_evalStep E env call' hc b hn.1.2
    have hd := g_evalStep E env call' hc c hn.2
    simp only [evalStep]
    repeat g_step
  | .if a b c => by
    intro hn
    simp only [namesIn, Bool.and_eq_true] at hn
    have ha := g_evalStep E env call' hc a hn.1.1
    have hb := g_evalStep E env call' hc b hn.1.2
    have hd := g_evalStep E env call' hc c hn.2
    simp only [evalStep]
    repeat g_step
  | .evaluatedExpression a => by
    intro hn
    simp only [namesIn] at hn
    simp only [evalStep]; exact g_evalStep E env call' hc a hn
  | .intervalEnd a _ | .intervalStart a _ | .listType a | .neg a | .rangeType a | .unaryGe a
  | .unaryGt a | .unaryLe a | .unaryLt a => by
    intro hn
    simp only [namesIn] at hn
    have ha := g_evalStep E env call' hc a hn
    simp only [evalStep]
    repeat g_step
  | .contextType xs | .expressionList xs | .formalParameters xs | .list xs | .namedParameters xs
  | .negatedList xs | .parameterTypes xs => by
    intro hn
    simp only [namesIn] at hn
    have hx := g_evalList E env call' hc xs hn
    simp only [evalStep]
    repeat g_step
  | .qualifiedName xs => by
    intro hn
    simp only [namesIn] at hn
    rcases qnIn_cases xs hn with h0 | ⟨n, rest, hg, h0⟩
    · have h1 := evalStep_qualifiedName env []
      have h2 := evalStep_qualifiedName (env.withCall call') []
      simp only [List.map_nil] at h1 h2
      rw [h0, h1, h2]
      exact E.searchDeepNil
    · rw [h0, evalStep_qualifiedName env (n :: rest), evalStep_qualifiedName (env.withCall call') (n :: rest)]
      exact E.searchDeep n rest hg
  | .context es => by
    intro hn
    simp only [namesIn] at hn
    simp only [evalStep]
    exact E.pushPop [] ctxResult (gq_evalContextEntries E env call' hc es [] hn)
  | .filter a b => by
    intro hn
    simp only [namesIn, Bool.and_eq_true] at hn
    have ha := g_evalStep E env call' hc a hn.1
    have hb := g_evalStep E env call' hc b hn.2
    have hf := fun vs => g_filterLoop E hb vs
    simp only [evalStep]
    apply E.bind ha
    intro l
    split
    · apply E.bind (hf _)
      intro _
      apply E.bind hb
      intro r
      split <;> exact E.pure _
    · split
      · exact E.bind (g_itemScoped E hb _) (fun _ => E.pure _)
      · exact E.pure _
  | .for (.iterationContexts items) body => by
    intro hn
    simp only [namesIn, Bool.and_eq_true] at hn
    have hb := g_evalStep E env call' hc body hn.2
    simp only [evalStep]
    apply E.bind (g_evalIteration E env call' hc items 0 hn.1)
    intro st
    split
    · exact E.pure _
    · exact E.pure _
    · exact E.bind (E.lift _) (fun _ => E.bind (g_forLoop E hb _ _) (fun _ => E.pure _))
  | .every (.quantifiedContexts items) (.satisfies body) => by
    intro hn
    simp only [namesIn, Bool.and_eq_true] at hn
    have hb := g_evalStep E env call' hc body hn.2
    simp only [evalStep]
    apply E.bind (g_evalQuantified E env call' hc items 0 hn.1)
    intro st
    split
    · exact E.pure _
    · exact E.pure _
    · exact E.bind (E.lift _) (fun _ => E.bind (g_quantLoop E hb _ _ _) (fun _ => E.pure _))
  | .some (.quantifiedContexts items) (.satisfies body) => by
    intro hn
    simp only [namesIn, Bool.and_eq_true] at hn
    have hb := g_evalStep E env call' hc body hn.2
    simp only [evalStep]
    apply E.bind (g_evalQuantified E env call' hc items 0 hn.1)
    intro st
    split
    · exact E.pure _
    · exact E.pure _
    · exact E.bind (E.lift _) (fun _ => E.bind (g_quantLoop E hb _ _ _) (fun _ => E.pure _))
  | .functionInvocation f (.positionalParameters xs) => by
    intro hn
    simp only [namesIn, Bool.and_eq_true] at hn
    have hf := g_evalStep E env call' hc f hn.1
    simp only [evalStep]
    exact E.bind hf (fun _ => E.bind (g_evalList E env call' hc xs hn.2) (fun _ => g_invokePositional E env call' hc _ _))
  | .functionInvocation f (.namedParameters xs) => by
    intro hn
    simp only [namesIn, Bool.and_eq_true] at hn
    have hf := g_evalStep E env call' hc f hn.1
    simp only [evalStep]
    exact E.bind hf (fun _ => E.bind (g_evalList E env call' hc xs hn.2) (fun _ => g_invokeNamed E env call' hc _ _))
  | .namedParameter (.parameterName name) v => by
    intro hn
    simp only [namesIn] at hn
    have hv := g_evalStep E env call' hc v hn
    simp only [evalStep]
    exact E.bind hv (fun _ => E.pure _)
  | .path a (.name n) => by
    intro hn
    simp only [namesIn] at hn
    have ha := g_evalStep E env call' hc a hn
    simp only [evalStep]
    exact E.bind ha (fun _ => E.pure _)
  | .functionBody body external => by
    intro _
    simp only [evalStep]
    split <;> exact E.pure _
  | .name n => by
    intro hn
    simp only [namesIn] at hn
    simp only [evalStep]
    exact E.bind (E.getEntry _ hn) (fun _ => E.pure _)
  | .at _ | .boolean _ | .contextEntryKey _ | .contextTypeEntryKey _ | .feelType _ | .irrelevant
  | .null | .numeric .. | .parameterName _ | .qualifiedNameSegment _ | .string _ => by
    intro _
    simp only [evalStep]; exact E.pure _
  | .commaList _ | .iterationContexts _ | .iterationContextSingle .. | .iterationContextRange ..
  | .positionalParameters _ | .quantifiedContext .. | .quantifiedContexts _ | .satisfies _ => by
    intro _
    simp only [evalStep]; exact E.pure _
  | .for ctxs body => by
    cases ctxs with
    | iterationContexts items =>
      intro hn
      simp only [namesIn, Bool.and_eq_true] at hn
      have hb := g_evalStep E env call' hc body hn.2
      simp only [evalStep]
      apply E.bind (g_evalIteration E env call' hc items 0 hn.1)
      intro st
      split
      · exact E.pure _
      · exact E.pure _
      · exact E.bind (E.lift _) (fun _ => E.bind (g_forLoop E hb _ _) (fun _ => E.pure _))
    | _ =>
      intro hn
      simp only [namesIn, Bool.and_eq_true] at hn
      have hb := g_evalStep E env call' hc body hn.2
      simp only [evalStep]
      exact E.bind (E.lift _) (fun _ => E.bind (g_forLoop E hb _ _) (fun _ => E.pure _))
  | .every ctxs sat => by
    cases ctxs with
    | quantifiedContexts items =>
      cases sat with
      | satisfies body =>
        intro hn
        simp only [namesIn, Bool.and_eq_true] at hn
        simp only [evalStep]
        exact E.bind (g_evalQuantified E env call' hc items 0 hn.1) (fun st => by
          split
          · exact E.pure _
          · exact E.pure _
          · exact E.bind (E.lift _) (fun _ => E.bind (g_quantLoop E (g_evalStep E env call' hc body hn.2) _ _ _) (fun _ => E.pure _)))
      | _ => intro _; simp only [evalStep]; exact E.pure _
    | _ => intro _; simp only [evalStep]; exact E.pure _
  | .some ctxs sat => by
    cases ctxs with
    | quantifiedContexts items =>
      cases sat with
      | satisfies body =>
        intro hn
        simp only [namesIn, Bool.and_eq_true] at hn
        simp only [evalStep]
        exact E.bind (g_evalQuantified E env call' hc items 0 hn.1) (fun st => by
          split
          · exact E.pure _
          · exact E.pure _
          · exact E.bind (E.lift _) (fun _ => E.bind (g_quantLoop E (g_evalStep E env call' hc body hn.2) _ _ _) (fun _ => E.pure _)))
      | _ => intro _; simp only [evalStep]; exact E.pure _
    | _ => intro _; simp only [evalStep]; exact E.pure _
  | .functionInvocation f args => by
    cases args with
    | positionalParameters xs =>
      intro hn
      simp only [namesIn, Bool.and_eq_true] at hn
      simp only [evalStep]
      exact E.bind (g_evalStep E env call' hc f hn.1) (fun _ => E.bind (g_evalList E env call' hc xs hn.2) (fun _ => g_invokePositional E env call' hc _ _))
    | namedParameters xs =>
      intro hn
      simp only [namesIn, Bool.and_eq_true] at hn
      simp only [evalStep]
      exact E.bind (g_evalStep E env call' hc f hn.1) (fun _ => E.bind (g_evalList E env call' hc xs hn.2) (fun _ => g_invokeNamed E env call' hc _ _))
    | _ => intro _; simp only [evalStep]; exact E.pure _
  | .namedParameter n v => by
    cases n with
    | parameterName _ =>
      intro hn
      simp only [namesIn] at hn
      simp only [evalStep]
      exact E.bind (g_evalStep E env call' hc v hn) (fun _ => E.pure _)
    | _ => intro _; simp only [evalStep]; exact E.pure _
  | .path a b => by
    cases b with
    | name _ =>
      intro hn
      simp only [namesIn] at hn
      simp only [evalStep]
      exact E.bind (g_evalStep E env call' hc a hn) (fun _ => E.pure _)
    | _ => intro _; simp only [evalStep]; exact E.pure _
theorem g_evalList {G : String → Bool} (E : EvalRelG G) (env : Env) (call' : Ast → EvalM Value)
    (hc : ∀ b, E.R (env.call b) (call' b)) :
    (as : List Ast) → namesInList G as = true → E.R (evalList env as) (evalList (env.withCall call') as)
  | [] => by intro _; simp only [evalList]; exact E.pure _
  | a :: as => by
    intro hn
    simp only [namesInList, Bool.and_eq_true] at hn
    simp only [evalList]
    exact E.bind (g_evalStep E env call' hc a hn.1) (fun _ => E.bind (g_evalList E env call' hc as hn.2) (fun _ => E.pure _))
/-- The loop of a context literal writes into the context pushed for it and nowhere else. -/
theorem gq_evalContextEntries {G : String → Bool} (E : EvalRelG G) (env : Env) (call' : Ast → EvalM Value)
    (hc : ∀ b, E.R (env.call b) (call' b)) :
    (es : List Ast) → (acc : Ctx) → namesInList G es = true →
      E.Q (evalContextEntries env es acc) (evalContextEntries (env.withCall call') es acc)
  | [], acc => by intro _; simp only [evalContextEntries]; exact E.qPure _
  | e :: es, acc => by
    intro hn
    simp only [namesInList, Bool.and_eq_true] at hn
    simp only [evalContextEntries]
    apply E.qBind (E.qOfR (g_evalStep E env call' hc e hn.1))
    intro v
    split
    · split
      · exact E.qPure _
      · exact E.qBind (E.qSetEntry _ _) (fun _ => gq_evalContextEntries E env call' hc es _ hn.2)
    · exact gq_evalContextEntries E env call' hc es _ hn.2
theorem g_evalQuantified {G : String → Bool} (E : EvalRelG G) (env : Env) (call' : Ast → EvalM Value)
    (hc : ∀ b, E.R (env.call b) (call' b)) :
    (items : List Ast) → (pos : Nat) → namesInQuantified G items = true →
      E.R (evalQuantified env items pos) (evalQuantified (env.withCall call') items pos)
  | [], pos => by intro _; simp only [evalQuantified]; exact E.pure _
  | .quantifiedContext (.name n) e :: items, pos => by
    intro hn
    simp only [namesInQuantified, Bool.and_eq_true] at hn
    simp only [evalQuantified]
    apply E.bind (g_evalStep E env call' hc e hn.1)
    intro v
    split
    · exact E.pure _
    · exact E.pure _
    · exact E.bind (g_evalQuantified E env call' hc items _ hn.2) (fun _ => E.pure _)
  | item :: items, pos => by
    cases item with
    | quantifiedContext nm e =>
      cases nm with
      | name n =>
        intro hn
        simp only [namesInQuantified, Bool.and_eq_true] at hn
        simp only [evalQuantified]
        apply E.bind (g_evalStep E env call' hc e hn.1)
        intro v
        split
        · exact E.pure _
        · exact E.pure _
        · exact E.bind (g_evalQuantified E env call' hc items _ hn.2) (fun _ => E.pure _)
      | _ =>
        intro hn
        simp only [namesInQuantified, Bool.and_eq_true] at hn
        simp only [evalQuantified]; exact g_evalQuantified E env call' hc items _ hn.2
    | _ =>
      intro hn
      simp only [namesInQuantified, Bool.and_eq_true] at hn
      simp only [evalQuantified]; exact g_evalQuantified E env call' hc items _ hn.2
theorem g_evalIteration {G : String → Bool} (E : EvalRelG G) (env : Env) (call' : Ast → EvalM Value)
    (hc : ∀ b, E.R (env.call b) (call' b)) :
    (items : List Ast) → (pos : Nat) → namesInIteration G items = true →
      E.R (evalIteration env items pos) (evalIteration (env.withCall call') items pos)
  | [], pos => by intro _; simp only [evalIteration]; exact E.pure _
  | item :: items, pos => by
    cases item with
    | iterationContextSingle nm e =>
      cases nm with
      | name n =>
        intro hn
        simp only [namesInIteration, Bool.and_eq_true] at hn
        simp only [evalIteration]
        apply E.bind (g_evalStep E env call' hc e hn.1)
        intro v
        split
        · exact E.pure _
        · exact E.pure _
        · exact E.bind (g_evalIteration E env call' hc items _ hn.2) (fun _ => E.pure _)
      | _ =>
        intro hn
        simp only [namesInIteration, Bool.and_eq_true] at hn
        simp only [evalIteration]; exact g_evalIteration E env call' hc items _ hn.2
    | iterationContextRange nm lo hi =>
      cases nm with
      | name n =>
        intro hn
        simp only [namesInIteration, Bool.and_eq_true] at hn
        simp only [evalIteration]
        refine E.bind (g_evalStep E env call' hc lo hn.1.1) (fun _ => E.bind (g_evalStep E env call' hc hi hn.1.2) (fun _ => ?_))
        split
        · exact E.pure _
        · exact E.bind (g_evalIteration E env call' hc items _ hn.2) (fun _ => E.pure _)
      | _ =>
        intro hn
        simp only [namesInIteration, Bool.and_eq_true] at hn
        simp only [evalIteration]; exact g_evalIteration E env call' hc items _ hn.2
    | _ =>
      intro hn
      simp only [namesInIteration, Bool.and_eq_true] at hn
      simp only [evalIteration]; exact g_evalIteration E env call' hc items _ hn.2
end

end Dmn.Eval
