import Dmn.Lemmas.RefParserPrint

/-!
# C06 — the compositional lemma and the round trip

`parse_pr`: printed bare in mode `m` and followed by `rest`, a tree `t` that may stand
unparenthesised under the minimum `min` (`startsOk`) and whose open operand loops do not
accept the first token of `rest` (`notAbsorbed`) is read back by `parseExpr min` up to the
point where the loop of `parseExpr` itself goes on with `t` as its left operand:

    parseExpr min (pr m t ++ rest) = parseLoop min (fbOf t) t rest.

The proof is by recursion on the tree; operands go through `parse_opd` (bare: the
induction hypothesis; parenthesised: the induction hypothesis at minimum 0 in front of `)`).
-/

namespace Dmn.Ref

/-- The statement of the compositional lemma for one tree. -/
def Reads (m : Mode) (c : Tree) : Prop :=
  ∀ (min : Nat) (rest : List Tok), startsOk m min c = true → notAbsorbed m c rest →
    parseExpr min (pr m c ++ rest) = parseLoop min (fbOf c) c rest

/-- An operand, parenthesised (`w = true`) or bare. -/
theorem parse_opd {m : Mode} {c : Tree} (ih : Reads m c) (w : Bool) (k : Nat) (rest : List Tok)
    (hb : w = false → startsOk m k c = true ∧ notAbsorbed m c rest) :
    parseExpr k (par w (pr m c) ++ rest) = parseLoop k (if w then none else fbOf c) c rest := by
  cases w with
  | false =>
    obtain ⟨h1, h2⟩ := hb rfl
    simpa [par_false] using ih k rest h1 h2
  | true =>
    have hop : opLevel Tok.rparen = none := rfl
    have h0 : parseExpr 0 (pr m c ++ (.rparen :: rest)) = some (c, .rparen :: rest) := by
      rw [ih 0 (.rparen :: rest) (startsOk_zero m c) (notAbsorbed_of_none m c hop rest)]
      exact parseLoop_stop_none hop
    have hl : rest.length ≤ (pr m c ++ (.rparen :: rest)).length := by
      simp [List.length_append]; omega
    have := parseExpr_paren (min := k) h0 hl
    simpa [par_true, List.append_assoc] using this

/-- An operand in front of something its loop stops at. -/
theorem parse_opd_stop {m : Mode} {c : Tree} (ih : Reads m c) (w : Bool) (k : Nat) (rest : List Tok)
    (hb : w = false → startsOk m k c = true ∧ notAbsorbed m c rest) (hs : stopsAt k rest) :
    parseExpr k (par w (pr m c) ++ rest) = some (c, rest) := by
  rw [parse_opd ih w k rest hb]
  exact parseLoop_stops hs _ _

theorem length_le_append (xs rest : List Tok) : rest.length ≤ (xs ++ rest).length := by
  simp [List.length_append]

theorem length_le_append_cons (xs : List Tok) (t : Tok) (rest : List Tok) :
    rest.length ≤ (xs ++ t :: rest).length := by
  simp [List.length_append]; omega

/-- What `notAbsorbed` says about a tree `c` whose last operand `r` is read under the minimum
`k` and is parenthesised iff `wrapped m n r`. -/
theorem tail_conditions (m : Mode) (c r : Tree) (k : Nat) (n : Bool) (rest : List Tok)
    (hn : n = !startsOk m k r)
    (habs : ∀ t, absorbs m c t = (levelGe t k || (!wrapped m n r && absorbs m r t)))
    (hna : notAbsorbed m c rest) :
    (wrapped m n r = false → startsOk m k r = true ∧ notAbsorbed m r rest) ∧ stopsAt k rest := by
  constructor
  · intro hwf
    constructor
    · have := wrapped_false hwf
      rw [hn] at this
      simpa using this
    · cases rest with
      | nil => trivial
      | cons t rest =>
        simp only [notAbsorbed] at hna ⊢
        rw [habs t] at hna
        simp [hwf] at hna
        exact hna.2
  · cases rest with
    | nil => trivial
    | cons t rest =>
      simp only [notAbsorbed] at hna
      rw [habs t] at hna
      simp only [stopsAt]
      simp at hna
      exact hna.1

/-- What `startsOk` says about a tree whose first operand `l` is followed by the token `T` of
level `L` and is parenthesised iff `wrapped m n l`. -/
theorem head_conditions (m : Mode) (l : Tree) (min L : Nat) (T : Tok) (n : Bool) (rest : List Tok)
    (hn : n = false → absorbs m l T = false)
    (hs : (decide (min ≤ L) && (wrapped m n l || startsOk m min l)) = true) :
    ¬ L < min ∧ (wrapped m n l = false → startsOk m min l = true ∧ notAbsorbed m l (T :: rest)) := by
  simp at hs
  refine ⟨by omega, fun hwf => ⟨?_, ?_⟩⟩
  · simpa [hwf] using hs.2
  · simp only [notAbsorbed]
    exact hn (wrapped_false hwf)

theorem needs_binL (m : Mode) (o : BinOp) (c : Tree) :
    needs m (.binL o) c = (absorbs m c (tokOf o) || fbOf c == some (lvl o)) := rfl
theorem needs_binR (m : Mode) (o : BinOp) (c : Tree) : needs m (.binR o) c = !startsOk m (rhsMin o) c := rfl
theorem needs_negArg (m : Mode) (c : Tree) : needs m .negArg c = !startsOk m negMin c := rfl
theorem needs_betweenE (m : Mode) (c : Tree) : needs m .betweenE c = absorbs m c .between := rfl
theorem needs_betweenLo (m : Mode) (c : Tree) : needs m .betweenLo c = false := rfl
theorem needs_betweenHi (m : Mode) (c : Tree) : needs m .betweenHi c = !startsOk m hiMin c := rfl
theorem needs_instE (m : Mode) (c : Tree) : needs m .instE c = absorbs m c .instance := rfl
theorem needs_pathE (m : Mode) (c : Tree) : needs m .pathE c = absorbs m c .dot := rfl
theorem needs_filterE (m : Mode) (c : Tree) : needs m .filterE c = absorbs m c .lbrack := rfl
theorem needs_filterI (m : Mode) (c : Tree) : needs m .filterI c = false := rfl
theorem needs_callF (m : Mode) (c : Tree) : needs m .callF c = absorbs m c .lparen := rfl
theorem needs_callArg (m : Mode) (c : Tree) : needs m .callArg c = false := rfl

/-- An operand between delimiters: read at minimum 0 up to a token that is no operator. -/
theorem parse_delimited {m : Mode} {c : Tree} (ih : Reads m c) (n : Bool) {t : Tok} (ht : opLevel t = none)
    (rest : List Tok) :
    parseExpr 0 (par (wrapped m n c) (pr m c) ++ (t :: rest)) = some (c, t :: rest) :=
  parse_opd_stop ih _ 0 (t :: rest) (fun _ => ⟨startsOk_zero m c, notAbsorbed_of_none m c ht rest⟩)
    (stopsAt_of_none ht 0 rest)

mutual
theorem parse_pr (m : Mode) : ∀ t : Tree, Reads m t
  | .atom a => by
    intro min rest _ _
    simp only [pr, fbOf, List.cons_append, List.nil_append]
    exact parseExpr_atom min a rest
  | .bin o l r => by
    intro min rest hs hna
    have ihl := parse_pr m l
    have ihr := parse_pr m r
    simp only [pr, List.append_assoc, List.cons_append]
    -- the left operand, up to the operator
    obtain ⟨hm, hlb⟩ := head_conditions m l min (lvl o) (tokOf o) (needs m (.binL o) l)
      (par (wrapped m (needs m (.binR o) r) r) (pr m r) ++ rest)
      (fun hn => by rw [needs_binL] at hn; simp at hn; exact hn.1)
      (by simpa only [startsOk, needs_binL] using hs)
    rw [parse_opd ihl _ min _ hlb]
    -- the operator and the right operand
    obtain ⟨hrb, hstop⟩ := tail_conditions m (.bin o l r) r (rhsMin o) (needs m (.binR o) r) rest rfl
      (fun t => by simp only [absorbs, needs_binR]) hna
    have hr := parse_opd_stop ihr _ (rhsMin o) rest hrb hstop
    have hf : ¬ (if wrapped m (needs m (.binL o) l) l then none else fbOf l) = some (lvl o) := by
      cases hw : wrapped m (needs m (.binL o) l) l with
      | true => simp
      | false =>
        have := wrapped_false hw
        rw [needs_binL] at this
        simp at this
        simpa using this.2
    rw [parseLoop_bin hm hf hr (length_le_append _ _)]
    rfl
  | .neg e => by
    intro min rest _ hna
    have ihe := parse_pr m e
    simp only [pr, List.cons_append]
    obtain ⟨heb, hstop⟩ := tail_conditions m (.neg e) e negMin (needs m .negArg e) rest rfl
      (fun t => by simp only [absorbs, needs_negArg]) hna
    have he := parse_opd_stop ihe _ negMin rest heb hstop
    rw [parseExpr_neg he (length_le_append _ _)]
    rfl
  | .between e lo hi => by
    intro min rest hs hna
    have ihe := parse_pr m e
    have ihlo := parse_pr m lo
    have ihhi := parse_pr m hi
    simp only [pr, List.append_assoc, List.cons_append]
    obtain ⟨hm, heb⟩ := head_conditions m e min betweenLvl .between (needs m .betweenE e)
      (par (wrapped m (needs m .betweenLo lo) lo) (pr m lo) ++
        (.band :: (par (wrapped m (needs m .betweenHi hi) hi) (pr m hi) ++ rest)))
      (fun hn => by rw [needs_betweenE] at hn; exact hn)
      (by simpa only [startsOk, needs_betweenE] using hs)
    rw [parse_opd ihe _ min _ heb]
    have hlo := parse_delimited ihlo (needs m .betweenLo lo) (t := .band) rfl
      (par (wrapped m (needs m .betweenHi hi) hi) (pr m hi) ++ rest)
    obtain ⟨hhb, hstop⟩ := tail_conditions m (.between e lo hi) hi hiMin (needs m .betweenHi hi) rest rfl
      (fun t => by simp only [absorbs, needs_betweenHi]) hna
    have hhi := parse_opd_stop ihhi _ hiMin rest hhb hstop
    rw [parseLoop_between hm hlo (length_le_append_cons _ _ _) hhi
      (Nat.le_trans (length_le_append _ _) (length_le_append_cons _ _ _))]
    rfl
  | .instOf e q qs => by
    intro min rest hs hna
    have ihe := parse_pr m e
    simp only [pr, List.append_assoc, List.cons_append]
    obtain ⟨hm, heb⟩ := head_conditions m e min instLvl .instance (needs m .instE e)
      (.kof :: .name q :: (prQual qs ++ rest))
      (fun hn => by rw [needs_instE] at hn; exact hn)
      (by simpa only [startsOk, needs_instE] using hs)
    rw [parse_opd ihe _ min _ heb]
    have hq : parseQual (prQual qs ++ rest) = (qs, rest) := by
      apply parseQual_prQual
      intro n rest' hrest
      subst hrest
      simp [notAbsorbed, absorbs] at hna
    rw [parseLoop_inst hm hq (length_le_append _ _)]
    rfl
  | .path e n => by
    intro min rest hs _
    have ihe := parse_pr m e
    simp only [pr, List.append_assoc, List.cons_append, List.nil_append]
    obtain ⟨hm, heb⟩ := head_conditions m e min dotLvl .dot (needs m .pathE e) (.name n :: rest)
      (fun hn => by rw [needs_pathE] at hn; exact hn)
      (by simpa only [startsOk, needs_pathE] using hs)
    rw [parse_opd ihe _ min _ heb, parseLoop_dot hm]
    rfl
  | .filter e i => by
    intro min rest hs _
    have ihe := parse_pr m e
    have ihi := parse_pr m i
    simp only [pr, List.append_assoc, List.cons_append, List.nil_append]
    obtain ⟨hm, heb⟩ := head_conditions m e min brackLvl .lbrack (needs m .filterE e)
      (par (wrapped m (needs m .filterI i) i) (pr m i) ++ (.rbrack :: rest))
      (fun hn => by rw [needs_filterE] at hn; exact hn)
      (by simpa only [startsOk, needs_filterE] using hs)
    rw [parse_opd ihe _ min _ heb]
    have hi := parse_delimited ihi (needs m .filterI i) (t := .rbrack) rfl rest
    rw [parseLoop_filter hm hi (length_le_append_cons _ _ _)]
    rfl
  | .call f .nil => by
    intro min rest hs _
    have ihf := parse_pr m f
    simp only [pr, prArgs, List.append_assoc, List.cons_append, List.nil_append]
    obtain ⟨hm, hfb⟩ := head_conditions m f min parenLvl .lparen (needs m .callF f) (.rparen :: rest)
      (fun hn => by rw [needs_callF] at hn; exact hn)
      (by simpa only [startsOk, needs_callF] using hs)
    rw [parse_opd ihf _ min _ hfb, parseLoop_call_nil hm]
    rfl
  | .call f (.cons a as) => by
    intro min rest hs _
    have ihf := parse_pr m f
    have iha := parse_pr m a
    have ihas := parseArgsTail_pr m as rest
    simp only [pr, prArgs, List.append_assoc, List.cons_append]
    obtain ⟨hm, hfb⟩ := head_conditions m f min parenLvl .lparen (needs m .callF f)
      (par (wrapped m (needs m .callArg a) a) (pr m a) ++ (prArgsTail m as ++ rest))
      (fun hn => by rw [needs_callF] at hn; exact hn)
      (by simpa only [startsOk, needs_callF] using hs)
    rw [parse_opd ihf _ min _ hfb]
    obtain ⟨t, ts, hts, hop⟩ := prArgsTail_head m as rest
    have ha : parseExpr 0 (par (wrapped m (needs m .callArg a) a) (pr m a) ++ (prArgsTail m as ++ rest)) =
        some (a, prArgsTail m as ++ rest) := by
      rw [hts]; exact parse_delimited iha _ hop ts
    rw [parseLoop_call hm ha (length_le_append _ _) ihas
      (Nat.le_trans (length_le_append _ _) (length_le_append _ _))]
    rfl

theorem parseArgsTail_pr (m : Mode) : ∀ (as : Args) (rest : List Tok),
    parseArgsTail (prArgsTail m as ++ rest) = some (as, rest)
  | .nil, rest => by
    simp only [prArgsTail, List.cons_append, List.nil_append]
    exact parseArgsTail_nil rest
  | .cons a as, rest => by
    have iha := parse_pr m a
    have ihas := parseArgsTail_pr m as rest
    simp only [prArgsTail, List.append_assoc, List.cons_append]
    obtain ⟨t, ts, hts, hop⟩ := prArgsTail_head m as rest
    have ha : parseExpr 0 (par (wrapped m (needs m .callArg a) a) (pr m a) ++ (prArgsTail m as ++ rest)) =
        some (a, prArgsTail m as ++ rest) := by
      rw [hts]; exact parse_delimited iha _ hop ts
    exact parseArgsTail_cons ha (length_le_append _ _) ihas
end

end Dmn.Ref
