import Dmn.Lemmas.RefParserEnds

/-!
# C06 — the compositional lemma and the round trip

`parse_pr`: printed bare in mode `m` and followed by `rest`, a tree `t` that may stand
unparenthesised under the minimum `min` (`startsOk`) and whose open operand loops do not
accept the first token of `rest` (`notAbsorbed`) is read back by `parseExpr min` up to the
point where the loop of `parseExpr` itself goes on with `t` as its left operand:

    parseExpr min (pr m t ++ rest) = parseLoop min (fbOf t) t rest.

The proof is by recursion on the tree; operands go through `parse_opd` (bare: the
induction hypothesis; parenthesised: the induction hypothesis at minimum 0 in front of `)`).
-/

namespace Dmn.Ref

/-- The statement of the compositional lemma for one tree. -/
def Reads (m : Mode) (c : Tree) : Prop :=
  ∀ (min : Nat) (rest : List Tok), startsOk m min c = true → notAbsorbed m c rest →
    parseExpr min (pr m c ++ rest) = parseLoop min (fbOf c) c rest

/-- An operand, parenthesised (`w = true`) or bare. -/
theorem parse_opd {m : Mode} {c : Tree} (ih : Reads m c) (w : Bool) (k : Nat) (rest : List Tok)
    (hb : w = false → startsOk m k c = true ∧ notAbsorbed m c rest) :
    parseExpr k (par w (pr m c) ++ rest) = parseLoop k (if w then none else fbOf c) c rest := by
  cases w with
  | false =>
    obtain ⟨h1, h2⟩ := hb rfl
    simpa [par_false] using ih k rest h1 h2
  | true =>
    have hop : Delim Tok.rparen := ⟨rfl, rfl⟩
    have h0 : parseExpr 0 (pr m c ++ (.rparen :: rest)) = some (c, .rparen :: rest) := by
      rw [ih 0 (.rparen :: rest) (startsOk_zero m c) (notAbsorbed_of_none m c hop rest)]
      exact parseLoop_stop_none hop.1
    have hl : rest.length ≤ (pr m c ++ (.rparen :: rest)).length := by
      simp [List.length_append]; omega
    have := parseExpr_paren (min := k) h0 hl
    simpa [par_true, List.append_assoc] using this

/-- An operand in front of something its loop stops at. -/
theorem parse_opd_stop {m : Mode} {c : Tree} (ih : Reads m c) (w : Bool) (k : Nat) (rest : List Tok)
    (hb : w = false → startsOk m k c = true ∧ notAbsorbed m c rest) (hs : stopsAt k rest) :
    parseExpr k (par w (pr m c) ++ rest) = some (c, rest) := by
  rw [parse_opd ih w k rest hb]
  exact parseLoop_stops hs _ _

theorem length_le_append (xs rest : List Tok) : rest.length ≤ (xs ++ rest).length := by
  simp [List.length_append]

theorem length_le_append_cons (xs : List Tok) (t : Tok) (rest : List Tok) :
    rest.length ≤ (xs ++ t :: rest).length := by
  simp [List.length_append]; omega

/-- What `notAbsorbed` says about a tree `c` whose last operand `r` is read under the minimum
`k` and is parenthesised iff `wrapped m n r`. -/
theorem tail_conditions (m : Mode) (c r : Tree) (k : Nat) (n : Bool) (rest : List Tok)
    (hn : n = !startsOk m k r)
    (habs : ∀ t, absorbs m c t = (levelGe t k || (!wrapped m n r && absorbs m r t)))
    (hna : notAbsorbed m c rest) :
    (wrapped m n r = false → startsOk m k r = true ∧ notAbsorbed m r rest) ∧ stopsAt k rest := by
  constructor
  · intro hwf
    constructor
    · have := wrapped_false hwf
      rw [hn] at this
      simpa using this
    · cases rest with
      | nil => trivial
      | cons t rest =>
        simp only [notAbsorbed] at hna ⊢
        rw [habs t] at hna
        simp [hwf] at hna
        exact hna.2
  · cases rest with
    | nil => trivial
    | cons t rest =>
      simp only [notAbsorbed] at hna
      rw [habs t] at hna
      simp only [stopsAt]
      simp at hna
      exact hna.1

/-- What `startsOk` says about a tree whose first operand `l` is followed by the token `T` of
level `L` and is parenthesised iff `wrapped m n l`. -/
theorem head_conditions (m : Mode) (l : Tree) (min L : Nat) (T : Tok) (n : Bool) (rest : List Tok)
    (hn : n = false → absorbs m l T = false)
    (hs : (decide (min ≤ L) && (wrapped m n l || startsOk m min l)) = true) :
    ¬ L < min ∧ (wrapped m n l = false → startsOk m min l = true ∧ notAbsorbed m l (T :: rest)) := by
  simp at hs
  refine ⟨by omega, fun hwf => ⟨?_, ?_⟩⟩
  · simpa [hwf] using hs.2
  · simp only [notAbsorbed]
    exact hn (wrapped_false hwf)

theorem needs_binL (m : Mode) (o : BinOp) (c : Tree) :
    needs m (.binL o) c = (absorbs m c (tokOf o) || fbOf c == some (lvl o)) := rfl
theorem needs_binR (m : Mode) (o : BinOp) (c : Tree) : needs m (.binR o) c = !startsOk m (rhsMin o) c := rfl
theorem needs_negArg (m : Mode) (c : Tree) : needs m .negArg c = !startsOk m negMin c := rfl
theorem needs_betweenE (m : Mode) (c : Tree) : needs m .betweenE c = absorbs m c .between := rfl
theorem needs_betweenLo (m : Mode) (c : Tree) : needs m .betweenLo c = false := rfl
theorem needs_betweenHi (m : Mode) (c : Tree) : needs m .betweenHi c = !startsOk m hiMin c := rfl
theorem needs_instE (m : Mode) (c : Tree) : needs m .instE c = absorbs m c .instance := rfl
theorem needs_pathE (m : Mode) (c : Tree) : needs m .pathE c = absorbs m c .dot := rfl
theorem needs_filterE (m : Mode) (c : Tree) : needs m .filterE c = absorbs m c .lbrack := rfl
theorem needs_filterI (m : Mode) (c : Tree) : needs m .filterI c = false := rfl
theorem needs_callF (m : Mode) (c : Tree) : needs m .callF c = absorbs m c .lparen := rfl
theorem needs_callArg (m : Mode) (c : Tree) : needs m .callArg c = false := rfl
theorem needs_delim (m : Mode) (c : Tree) : needs m .delim c = false := rfl
theorem needs_open (m : Mode) (k : Nat) (c : Tree) : needs m (.open k) c = !startsOk m k c := rfl

/-- An operand between delimiters: read at minimum 0 up to a token that is no operator. -/
theorem parse_delimited {m : Mode} {c : Tree} (ih : Reads m c) (n : Bool) {t : Tok} (ht : Delim t)
    (rest : List Tok) :
    parseExpr 0 (par (wrapped m n c) (pr m c) ++ (t :: rest)) = some (c, t :: rest) :=
  parse_opd_stop ih _ 0 (t :: rest) (fun _ => ⟨startsOk_zero m c, notAbsorbed_of_none m c ht rest⟩)
    (stopsAt_of_none ht.1 0 rest)

/-- The same in front of a token list whose first token is a delimiter. -/
theorem parse_delimited' {m : Mode} {c : Tree} (ih : Reads m c) (n : Bool) {X : List Tok} {t : Tok} {ts : List Tok}
    (hX : X = t :: ts) (ht : Delim t) :
    parseExpr 0 (par (wrapped m n c) (pr m c) ++ X) = some (c, X) := by
  rw [hX]; exact parse_delimited ih n ht ts

theorem not_ellipsis_of_head {X : List Tok} {t : Tok} {ts : List Tok} (hX : X = t :: ts) (ht : t ≠ .ellipsis) :
    ∀ x, X ≠ .ellipsis :: x := by
  intro x h; rw [hX] at h; injection h with h1; exact ht h1

theorem not_colon_of_head {X : List Tok} {t : Tok} {ts : List Tok} (hX : X = t :: ts) (ht : t ≠ .colon) :
    ∀ x, X ≠ .colon :: x := by
  intro x h; rw [hX] at h; injection h with h1; exact ht h1

/-- The list form of `in` does not apply to a token list an operand is read from. -/
theorem noInList_of_parse {o : BinOp} {k : Nat} {rest : List Tok} {res : Tree × List Tok}
    (h : parseExpr k rest = some res) : NoInList o rest := by
  intro rest0 h0 a rest1 hp
  obtain ⟨_, hr⟩ := inListOf_length h0
  subst hr
  rw [parseExpr.eq_def] at h
  simp [hp] at h

mutual
theorem parse_pr (m : Mode) : ∀ t : Tree, Reads m t
  | .atom a => by
    intro min rest _ _
    simp only [pr, fbOf, List.cons_append, List.nil_append]
    exact parseExpr_atom min a rest
  | .bin o l r => by
    intro min rest hs hna
    have ihl := parse_pr m l
    have ihr := parse_pr m r
    simp only [pr, List.append_assoc, List.cons_append]
    -- the left operand, up to the operator
    obtain ⟨hm, hlb⟩ := head_conditions m l min (lvl o) (tokOf o) (needs m (.binL o) l)
      (par (wrapped m (needs m (.binR o) r) r) (pr m r) ++ rest)
      (fun hn => by rw [needs_binL] at hn; simp at hn; exact hn.1)
      (by simpa only [startsOk, needs_binL] using hs)
    rw [parse_opd ihl _ min _ hlb]
    -- the operator and the right operand
    obtain ⟨hrb, hstop⟩ := tail_conditions m (.bin o l r) r (rhsMin o) (needs m (.binR o) r) rest rfl
      (fun t => by simp only [absorbs, needs_binR]) hna
    have hr := parse_opd_stop ihr _ (rhsMin o) rest hrb hstop
    have hf : ¬ (if wrapped m (needs m (.binL o) l) l then none else fbOf l) = some (lvl o) := by
      cases hw : wrapped m (needs m (.binL o) l) l with
      | true => simp
      | false =>
        have := wrapped_false hw
        rw [needs_binL] at this
        simp at this
        simpa using this.2
    rw [parseLoop_bin hm hf (noInList_of_parse hr) hr (length_le_append _ _)]
    rfl
  | .neg e => by
    intro min rest _ hna
    have ihe := parse_pr m e
    simp only [pr, List.cons_append]
    obtain ⟨heb, hstop⟩ := tail_conditions m (.neg e) e negMin (needs m .negArg e) rest rfl
      (fun t => by simp only [absorbs, needs_negArg]) hna
    have he := parse_opd_stop ihe _ negMin rest heb hstop
    rw [parseExpr_neg he (length_le_append _ _)]
    rfl
  | .between e lo hi => by
    intro min rest hs hna
    have ihe := parse_pr m e
    have ihlo := parse_pr m lo
    have ihhi := parse_pr m hi
    simp only [pr, List.append_assoc, List.cons_append]
    obtain ⟨hm, heb⟩ := head_conditions m e min betweenLvl .between (needs m .betweenE e)
      (par (wrapped m (needs m .betweenLo lo) lo) (pr m lo) ++
        (.band :: (par (wrapped m (needs m .betweenHi hi) hi) (pr m hi) ++ rest)))
      (fun hn => by rw [needs_betweenE] at hn; exact hn)
      (by simpa only [startsOk, needs_betweenE] using hs)
    rw [parse_opd ihe _ min _ heb]
    have hlo := parse_delimited ihlo (needs m .betweenLo lo) (t := .band) ⟨rfl, rfl⟩
      (par (wrapped m (needs m .betweenHi hi) hi) (pr m hi) ++ rest)
    obtain ⟨hhb, hstop⟩ := tail_conditions m (.between e lo hi) hi hiMin (needs m .betweenHi hi) rest rfl
      (fun t => by simp only [absorbs, needs_betweenHi]) hna
    have hhi := parse_opd_stop ihhi _ hiMin rest hhb hstop
    rw [parseLoop_between hm hlo (length_le_append_cons _ _ _) hhi
      (Nat.le_trans (length_le_append _ _) (length_le_append_cons _ _ _))]
    rfl
  | .instOf e q qs => by
    intro min rest hs hna
    have ihe := parse_pr m e
    simp only [pr, List.append_assoc, List.cons_append]
    obtain ⟨hm, heb⟩ := head_conditions m e min instLvl .instance (needs m .instE e)
      (.kof :: .name q :: (prQual qs ++ rest))
      (fun hn => by rw [needs_instE] at hn; exact hn)
      (by simpa only [startsOk, needs_instE] using hs)
    rw [parse_opd ihe _ min _ heb]
    have hq : parseQual (prQual qs ++ rest) = (qs, rest) := by
      apply parseQual_prQual
      intro n rest' hrest
      subst hrest
      simp [notAbsorbed, absorbs] at hna
    rw [parseLoop_inst hm hq (length_le_append _ _)]
    rfl
  | .path e n => by
    intro min rest hs _
    have ihe := parse_pr m e
    simp only [pr, List.append_assoc, List.cons_append, List.nil_append]
    obtain ⟨hm, heb⟩ := head_conditions m e min dotLvl .dot (needs m .pathE e) (.name n :: rest)
      (fun hn => by rw [needs_pathE] at hn; exact hn)
      (by simpa only [startsOk, needs_pathE] using hs)
    rw [parse_opd ihe _ min _ heb, parseLoop_dot hm]
    rfl
  | .filter e i => by
    intro min rest hs _
    have ihe := parse_pr m e
    have ihi := parse_pr m i
    simp only [pr, List.append_assoc, List.cons_append, List.nil_append]
    obtain ⟨hm, heb⟩ := head_conditions m e min brackLvl .lbrack (needs m .filterE e)
      (par (wrapped m (needs m .filterI i) i) (pr m i) ++ (.rbrack :: rest))
      (fun hn => by rw [needs_filterE] at hn; exact hn)
      (by simpa only [startsOk, needs_filterE] using hs)
    rw [parse_opd ihe _ min _ heb]
    have hi := parse_delimited ihi (needs m .filterI i) (t := .rbrack) ⟨rfl, rfl⟩ rest
    rw [parseLoop_filter hm hi (length_le_append_cons _ _ _)]
    rfl
  | .call f .nil => by
    intro min rest hs _
    have ihf := parse_pr m f
    simp only [pr, prArgs, List.append_assoc, List.cons_append, List.nil_append]
    obtain ⟨hm, hfb⟩ := head_conditions m f min parenLvl .lparen (needs m .callF f) (.rparen :: rest)
      (fun hn => by rw [needs_callF] at hn; exact hn)
      (by simpa only [startsOk, needs_callF] using hs)
    rw [parse_opd ihf _ min _ hfb, parseLoop_call_nil hm]
    rfl
  | .call f (.cons a as) => by
    intro min rest hs _
    have ihf := parse_pr m f
    have iha := parse_pr m a
    have ihas := parseArgsTail_pr m .rparen ⟨rfl, rfl⟩ (by simp) (by simp) as rest
    simp only [pr, prArgs, List.append_assoc, List.cons_append]
    obtain ⟨hm, hfb⟩ := head_conditions m f min parenLvl .lparen (needs m .callF f)
      (par (wrapped m (needs m .callArg a) a) (pr m a) ++ (prArgsTail m .rparen as ++ rest))
      (fun hn => by rw [needs_callF] at hn; exact hn)
      (by simpa only [startsOk, needs_callF] using hs)
    rw [parse_opd ihf _ min _ hfb]
    obtain ⟨t, ts, hts, hop, _, hnc⟩ := prArgsTail_head m (close := .rparen) ⟨rfl, rfl⟩ (by simp) as rest
    have ha := parse_delimited' iha (needs m .callArg a) hts hop
    rw [parseLoop_call hm (namedStart_par m _ a _ (not_colon_of_head hts hnc)) ha (length_le_append _ _) ihas
      (Nat.le_trans (length_le_append _ _) (length_le_append _ _))]
    rfl
  | .callNamed f n v bs => by
    intro min rest hs _
    have ihf := parse_pr m f
    have ihv := parse_pr m v
    have ihbs := parseBindsTail_pr m .colon .rparen ⟨rfl, rfl⟩ (by simp) (by simp) bs rest
    simp only [pr, List.append_assoc, List.cons_append]
    obtain ⟨hm, hfb⟩ := head_conditions m f min parenLvl .lparen (needs m .callF f)
      (.name n :: .colon :: (par (wrapped m (needs m .delim v) v) (pr m v) ++ (prBindsTail m .colon .rparen bs ++ rest)))
      (fun hn => by rw [needs_callF] at hn; exact hn)
      (by simpa only [startsOk, needs_callF] using hs)
    rw [parse_opd ihf _ min _ hfb]
    obtain ⟨t, ts, hts, hop, _, _⟩ := prBindsTail_head m (sep := .colon) (close := .rparen) ⟨rfl, rfl⟩ (by simp) bs rest
    have hv := parse_delimited' ihv (needs m .delim v) hts hop
    rw [parseLoop_callNamed hm hv (length_le_append _ _) ihbs
      (Nat.le_trans (length_le_append _ _) (length_le_append _ _))]
    rfl
  | .inList e a b more => by
    intro min rest hs _
    have ihe := parse_pr m e
    have iha := parse_pr m a
    have ihb := parse_pr m b
    have ihmore := parseArgsTail_pr m .rparen ⟨rfl, rfl⟩ (by simp) (by simp) more rest
    simp only [pr, List.append_assoc, List.cons_append]
    obtain ⟨hm, heb⟩ := head_conditions m e min (lvl .in_) .kin (needs m (.binL .in_) e)
      (.lparen :: (par (wrapped m (needs m .delim a) a) (pr m a) ++
        (.comma :: (par (wrapped m (needs m .delim b) b) (pr m b) ++ (prArgsTail m .rparen more ++ rest)))))
      (fun hn => by rw [needs_binL] at hn; simp at hn; exact hn.1)
      (by simpa only [startsOk, needs_binL, tokOf] using hs)
    rw [parse_opd ihe _ min _ heb]
    have hf : ¬ (if wrapped m (needs m (.binL .in_) e) e then none else fbOf e) = some (lvl .in_) := by
      cases hw : wrapped m (needs m (.binL .in_) e) e with
      | true => simp
      | false =>
        have := wrapped_false hw
        rw [needs_binL] at this
        simp at this
        simpa using this.2
    have ha := parse_delimited iha (needs m .delim a) (t := .comma) ⟨rfl, rfl⟩
      (par (wrapped m (needs m .delim b) b) (pr m b) ++ (prArgsTail m .rparen more ++ rest))
    obtain ⟨t, ts, hts, hop, _, _⟩ := prArgsTail_head m (close := .rparen) ⟨rfl, rfl⟩ (by simp) more rest
    have hb := parse_delimited' ihb (needs m .delim b) hts hop
    have htail := parseArgsTail_cons hb (length_le_append _ _) ihmore
    rw [parseLoop_inList hm hf ha (by len_tac) htail (by len_tac)]
    rfl
  | .ite c a b => by
    intro min rest _ hna
    simp only [pr, List.append_assoc, List.cons_append]
    have hc := parse_delimited (parse_pr m c) (needs m .delim c) (t := .kthen) ⟨rfl, rfl⟩
      (par (wrapped m (needs m .delim a) a) (pr m a) ++
        (.kelse :: (par (wrapped m (needs m (.open iteMin) b) b) (pr m b) ++ rest)))
    have ha := parse_delimited (parse_pr m a) (needs m .delim a) (t := .kelse) ⟨rfl, rfl⟩
      (par (wrapped m (needs m (.open iteMin) b) b) (pr m b) ++ rest)
    obtain ⟨hbb, hstop⟩ := tail_conditions m (.ite c a b) b iteMin (needs m (.open iteMin) b) rest rfl
      (fun t => by simp only [absorbs, needs_open]) hna
    have hb := parse_opd_stop (parse_pr m b) _ iteMin rest hbb hstop
    rw [parseExpr_ite hc (by len_tac) ha (by len_tac) hb (by len_tac)]
    rfl
  | .forS v d its body => by
    intro min rest _ hna
    simp only [pr, List.append_assoc, List.cons_append]
    obtain ⟨t, ts, hts, hop, hne, _⟩ := prItersTail_head m its
      (par (wrapped m (needs m (.open forMin) body) body) (pr m body) ++ rest)
    have hd := parse_delimited' (parse_pr m d) (needs m .delim d) hts hop
    have hits := parseItersTail_pr m its (par (wrapped m (needs m (.open forMin) body) body) (pr m body) ++ rest)
    obtain ⟨hbb, hstop⟩ := tail_conditions m (.forS v d its body) body forMin (needs m (.open forMin) body) rest rfl
      (fun t => by simp only [absorbs, needs_open]) hna
    have hb := parse_opd_stop (parse_pr m body) _ forMin rest hbb hstop
    rw [parseExpr_forS hd (not_ellipsis_of_head hts hne) (by len_tac) hits (by len_tac) hb (by len_tac)]
    rfl
  | .forR v lo hi its body => by
    intro min rest _ hna
    simp only [pr, List.append_assoc, List.cons_append]
    have hlo := parse_delimited (parse_pr m lo) (needs m .delim lo) (t := .ellipsis) ⟨rfl, rfl⟩
      (par (wrapped m (needs m .delim hi) hi) (pr m hi) ++ (prItersTail m its ++
        (par (wrapped m (needs m (.open forMin) body) body) (pr m body) ++ rest)))
    obtain ⟨t, ts, hts, hop, _, _⟩ := prItersTail_head m its
      (par (wrapped m (needs m (.open forMin) body) body) (pr m body) ++ rest)
    have hhi := parse_delimited' (parse_pr m hi) (needs m .delim hi) hts hop
    have hits := parseItersTail_pr m its (par (wrapped m (needs m (.open forMin) body) body) (pr m body) ++ rest)
    obtain ⟨hbb, hstop⟩ := tail_conditions m (.forR v lo hi its body) body forMin (needs m (.open forMin) body) rest rfl
      (fun t => by simp only [absorbs, needs_open]) hna
    have hb := parse_opd_stop (parse_pr m body) _ forMin rest hbb hstop
    rw [parseExpr_forR hlo (by len_tac) hhi (by len_tac) hits (by len_tac) hb (by len_tac)]
    rfl
  | .quant ev v d qs body => by
    intro min rest _ hna
    simp only [pr, List.append_assoc, List.cons_append]
    obtain ⟨t, ts, hts, hop, _, _⟩ := prBindsTail_head m (sep := .kin) (close := .ksatisfies) ⟨rfl, rfl⟩ (by simp) qs
      (par (wrapped m (needs m (.open (quantMin ev)) body) body) (pr m body) ++ rest)
    have hd := parse_delimited' (parse_pr m d) (needs m .delim d) hts hop
    have hqs := parseBindsTail_pr m .kin .ksatisfies ⟨rfl, rfl⟩ (by simp) (by simp) qs
      (par (wrapped m (needs m (.open (quantMin ev)) body) body) (pr m body) ++ rest)
    obtain ⟨hbb, hstop⟩ := tail_conditions m (.quant ev v d qs body) body (quantMin ev)
      (needs m (.open (quantMin ev)) body) rest rfl (fun t => by simp only [absorbs, needs_open]) hna
    have hb := parse_opd_stop (parse_pr m body) _ (quantMin ev) rest hbb hstop
    rw [parseExpr_quant ev hd (by len_tac) hqs (by len_tac) hb (by len_tac)]
    rfl
  | .fn ps body => by
    intro min rest _ hna
    simp only [pr, List.append_assoc, List.cons_append]
    obtain ⟨hbb, hstop⟩ := tail_conditions m (.fn ps body) body fnMin (needs m (.open fnMin) body) rest rfl
      (fun t => by simp only [absorbs, needs_open]) hna
    have hb := parse_opd_stop (parse_pr m body) _ fnMin rest hbb hstop
    rw [parseExpr_fn (parseParams_pr ps _) (prParams_length ps _) hb
      (Nat.le_trans (length_le_append _ _) (prParams_length ps _))]
    rfl
  | .list .nil => by
    intro min rest _ hna
    simp only [pr, prArgs, List.cons_append, List.nil_append]
    rw [parseExpr_list_nil (emptyListRest_rbrack (fun t ts h => by subst h; simpa [notAbsorbed, absorbs] using hna))]
    rfl
  | .list (.cons a as) => by
    intro min rest _ _
    simp only [pr, prArgs, List.append_assoc, List.cons_append]
    obtain ⟨t, ts, hts, hop, hne, _⟩ := prArgsTail_head m (close := .rbrack) ⟨rfl, rfl⟩ (by simp) as rest
    have ha := parse_delimited' (parse_pr m a) (needs m .callArg a) hts hop
    have has := parseArgsTail_pr m .rbrack ⟨rfl, rfl⟩ (by simp) (by simp) as rest
    rw [parseExpr_list_cons (emptyListRest_par m _ a _) ha (not_ellipsis_of_head hts hne) (by len_tac) has (by len_tac)]
    rfl
  | .ctx .nil => by
    intro min rest _ _
    simp only [pr, prEntries, List.cons_append, List.nil_append]
    rw [parseExpr_ctx_nil]
    rfl
  | .ctx (.cons k v es) => by
    intro min rest _ _
    simp only [pr, prEntries, List.append_assoc, List.cons_append]
    obtain ⟨t, ts, hts, hop, _, _⟩ := prEntriesTail_head m es rest
    have hv := parse_delimited' (parse_pr m v) (needs m .delim v) hts hop
    have hes := parseEntriesTail_pr m es rest
    rw [parseExpr_ctx_cons hv (by len_tac) hes (by len_tac)]
    rfl
  | .range b1 lo hi b2 => by
    intro min rest _ _
    simp only [pr, List.append_assoc, List.cons_append, List.nil_append]
    have hprobe := parseExpr_prEnd lo (t := .ellipsis) (prEnd hi ++ endTok b2 :: rest) rfl
    have hr := parseRange_pr b1 b2 lo hi rest
    have hl : rest.length ≤ (prEnd lo ++ .ellipsis :: (prEnd hi ++ endTok b2 :: rest)).length := by len_tac
    cases b1 with
    | round => rw [startTok, parseExpr_range_round hprobe hr hl]; rfl
    | rev => rw [startTok, parseExpr_range_rev hr hl]; rfl
    | square =>
      rw [startTok, parseExpr_range_square (by cases lo <;> simp [prEnd, emptyListRest]) hprobe hr hl]; rfl
  | .utest c e => by
    intro min rest _ hna
    simp only [pr, List.cons_append]
    have he : parseEnd (prEnd e ++ rest) = some (e, rest) := by
      apply parseEnd_prEnd
      intro hq n rest' hrest
      subst hrest
      simp [notAbsorbed, absorbs, hq] at hna
    rw [parseExpr_utest he (by len_tac)]
    rfl

theorem parseArgsTail_pr (m : Mode) (close : Tok) (hc : Delim close) (hce : close ≠ .ellipsis ∧ close ≠ .colon)
    (hcc : close ≠ .comma) : ∀ (as : Args) (rest : List Tok),
    parseArgsTail close (prArgsTail m close as ++ rest) = some (as, rest)
  | .nil, rest => by
    simp only [prArgsTail, List.cons_append, List.nil_append]
    exact parseArgsTail_nil hcc rest
  | .cons a as, rest => by
    have iha := parse_pr m a
    have ihas := parseArgsTail_pr m close hc hce hcc as rest
    simp only [prArgsTail, List.append_assoc, List.cons_append]
    obtain ⟨t, ts, hts, hop, _, _⟩ := prArgsTail_head m hc hce as rest
    have ha := parse_delimited' iha (needs m .callArg a) hts hop
    exact parseArgsTail_cons ha (length_le_append _ _) ihas

theorem parseBindsTail_pr (m : Mode) (sep close : Tok) (hc : Delim close) (hce : close ≠ .ellipsis ∧ close ≠ .colon)
    (hcc : close ≠ .comma) : ∀ (bs : Binds) (rest : List Tok),
    parseBindsTail sep close (prBindsTail m sep close bs ++ rest) = some (bs, rest)
  | .nil, rest => by
    simp only [prBindsTail, List.cons_append, List.nil_append]
    exact parseBindsTail_nil hcc rest
  | .cons n v bs, rest => by
    have ihv := parse_pr m v
    have ihbs := parseBindsTail_pr m sep close hc hce hcc bs rest
    simp only [prBindsTail, List.append_assoc, List.cons_append]
    obtain ⟨t, ts, hts, hop, _, _⟩ := prBindsTail_head m (sep := sep) hc hce bs rest
    have hv := parse_delimited' ihv (needs m .delim v) hts hop
    exact parseBindsTail_cons hv (length_le_append _ _) ihbs

theorem parseEntriesTail_pr (m : Mode) : ∀ (es : Entries) (rest : List Tok),
    parseEntriesTail (prEntriesTail m es ++ rest) = some (es, rest)
  | .nil, rest => by
    simp only [prEntriesTail, List.cons_append, List.nil_append]
    exact parseEntriesTail_nil rest
  | .cons k v es, rest => by
    have ihv := parse_pr m v
    have ihes := parseEntriesTail_pr m es rest
    simp only [prEntriesTail, List.append_assoc, List.cons_append]
    obtain ⟨t, ts, hts, hop, _, _⟩ := prEntriesTail_head m es rest
    have hv := parse_delimited' ihv (needs m .delim v) hts hop
    exact parseEntriesTail_cons hv (length_le_append _ _) ihes

theorem parseItersTail_pr (m : Mode) : ∀ (its : Iters) (rest : List Tok),
    parseItersTail (prItersTail m its ++ rest) = some (its, rest)
  | .nil, rest => by
    simp only [prItersTail, List.cons_append, List.nil_append]
    exact parseItersTail_nil rest
  | .single v d its, rest => by
    have ihd := parse_pr m d
    have ihits := parseItersTail_pr m its rest
    simp only [prItersTail, List.append_assoc, List.cons_append]
    obtain ⟨t, ts, hts, hop, hne, _⟩ := prItersTail_head m its rest
    have hd := parse_delimited' ihd (needs m .delim d) hts hop
    exact parseItersTail_single hd (not_ellipsis_of_head hts hne) (length_le_append _ _) ihits
  | .range v lo hi its, rest => by
    have ihlo := parse_pr m lo
    have ihhi := parse_pr m hi
    have ihits := parseItersTail_pr m its rest
    simp only [prItersTail, List.append_assoc, List.cons_append]
    have hlo := parse_delimited ihlo (needs m .delim lo) (t := .ellipsis) ⟨rfl, rfl⟩
      (par (wrapped m (needs m .delim hi) hi) (pr m hi) ++ (prItersTail m its ++ rest))
    obtain ⟨t, ts, hts, hop, _, _⟩ := prItersTail_head m its rest
    have hhi := parse_delimited' ihhi (needs m .delim hi) hts hop
    exact parseItersTail_range hlo (by len_tac) hhi (by len_tac) ihits
end

end Dmn.Ref
