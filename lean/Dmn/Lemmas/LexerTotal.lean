import Dmn.Lemmas.LexerSafe

/-!
# The iteration budgets of the model are never exhausted (`fuelOut` is unreachable)
-/

namespace Dmn.Lexer

theorem ite_ne_out {α : Type} {c : Prop} [Decidable c] {a b x : Out α}
    (ha : a ≠ x) (hb : b ≠ x) : (if c then a else b) ≠ x := by
  split
  · exact ha
  · exact hb

/-! ## Unicode escapes: no `fuelOut`, and they move the cursor forward -/

theorem hexDigits_spec (inp : List Nat) :
    ∀ (k pos acc : Nat), hexDigits inp k pos acc ≠ .fuelOut ∧
      ∀ v p, hexDigits inp k pos acc = .ok (v, p) → p = pos + k := by
  intro k
  induction k with
  | zero =>
    intro pos acc
    refine ⟨by simp [hexDigits], ?_⟩
    intro v p h
    simp only [hexDigits] at h
    cases h; rfl
  | succ k ih =>
    intro pos acc
    rw [hexDigits]
    split
    · exact ⟨(fun h => by cases h), (fun v p h => by cases h)⟩
    · split
      · rename_i ch _ _
        have := ih (pos + 1) (acc * 16 + hexVal ch)
        refine ⟨this.1, ?_⟩
        intro v p h
        have := this.2 v p h
        omega
      · exact ⟨(fun h => by cases h), (fun v p h => by cases h)⟩

theorem consumeUnicodeLiteral_spec (inp : List Nat) (pos : Nat) :
    consumeUnicodeLiteral inp pos ≠ .fuelOut ∧
      ∀ v p, consumeUnicodeLiteral inp pos = .ok (v, p) → pos < p := by
  unfold consumeUnicodeLiteral
  split
  · exact ⟨(fun h => by cases h), (fun v p h => by cases h)⟩
  · split
    · exact ⟨(fun h => by cases h), (fun v p h => by cases h)⟩
    · split
      · exact ⟨(fun h => by cases h), (fun v p h => by cases h)⟩
      · split
        · have := hexDigits_spec inp 6 (pos + 2) 0
          exact ⟨this.1, (fun v p h => by have := this.2 v p h; omega)⟩
        · split
          · have := hexDigits_spec inp 4 (pos + 2) 0
            exact ⟨this.1, (fun v p h => by have := this.2 v p h; omega)⟩
          · exact ⟨(fun h => by cases h), (fun v p h => by cases h)⟩

theorem consumeUnicode_spec (inp : List Nat) (pos : Nat) :
    consumeUnicode inp pos ≠ .fuelOut ∧
      ∀ ch p, consumeUnicode inp pos = .ok (ch, p) → pos < p := by
  unfold consumeUnicode
  split
  · exact ⟨(fun h => by cases h), (fun v p h => by cases h)⟩
  · exact ⟨(fun h => by cases h), (fun v p h => by cases h)⟩
  · rename_i hh; exact absurd hh (consumeUnicodeLiteral_spec inp pos).1
  · rename_i value p1 h1
    have hp1 := (consumeUnicodeLiteral_spec inp pos).2 value p1 h1
    split
    · refine ⟨(fun h => by cases h), ?_⟩
      intro ch p h
      cases h
      exact hp1
    · split
      · split
        · exact ⟨(fun h => by cases h), (fun v p h => by cases h)⟩
        · exact ⟨(fun h => by cases h), (fun v p h => by cases h)⟩
        · rename_i hh; exact absurd hh (consumeUnicodeLiteral_spec inp p1).1
        · rename_i low p2 h2
          have hp2 := (consumeUnicodeLiteral_spec inp p1).2 low p2 h2
          split
          · refine ⟨(fun h => by cases h), ?_⟩
            intro ch p h
            simp only [LexOutcome.ok.injEq, Prod.mk.injEq] at h
            omega
          · exact ⟨(fun h => by cases h), (fun v p h => by cases h)⟩
      · exact ⟨(fun h => by cases h), (fun v p h => by cases h)⟩

/-! ## `consume_string` -/

theorem stringLoop_spec (inp : List Nat) :
    ∀ (fuel pos : Nat) (acc : List Nat), inp.length - pos < fuel →
      stringLoop inp fuel pos acc ≠ .fuelOut ∧
      ∀ t p, stringLoop inp fuel pos acc = .ok (t, p) → pos ≤ p ∧ (t.tt = .string → pos < p) := by
  intro fuel
  induction fuel with
  | zero =>
    intro pos acc h
    exfalso
    omega
  | succ n ih =>
    intro pos acc hlen
    rw [stringLoop]
    split
    · refine ⟨(fun h => by cases h), ?_⟩
      intro t p h
      cases h
      exact ⟨Nat.le_refl _, (fun h => by cases h)⟩
    · rename_i c1 hc1
      have hpos : pos < inp.length := (List.getElem?_eq_some_iff.mp hc1).1
      have step2 : ∀ acc', stringLoop inp n (pos + 2) acc' ≠ .fuelOut ∧
          ∀ t p, stringLoop inp n (pos + 2) acc' = .ok (t, p) → pos ≤ p ∧ (t.tt = .string → pos < p) := by
        intro acc'
        have := ih (pos + 2) acc' (by omega)
        exact ⟨this.1, (fun t p h => by have := this.2 t p h; exact ⟨by omega, (fun _ => by omega)⟩)⟩
      have step1 : ∀ acc', stringLoop inp n (pos + 1) acc' ≠ .fuelOut ∧
          ∀ t p, stringLoop inp n (pos + 1) acc' = .ok (t, p) → pos ≤ p ∧ (t.tt = .string → pos < p) := by
        intro acc'
        have := ih (pos + 1) acc' (by omega)
        exact ⟨this.1, (fun t p h => by have := this.2 t p h; exact ⟨by omega, (fun _ => by omega)⟩)⟩
      simp only
      split
      · exact step2 _
      · split
        · exact step2 _
        · split
          · exact step2 _
          · split
            · exact step2 _
            · split
              · exact step2 _
              · split
                · exact step2 _
                · split
                  · split
                    · rename_i ch p1 h1
                      have hp1 := (consumeUnicode_spec inp pos).2 ch p1 h1
                      have := ih p1 (acc ++ [ch]) (by omega)
                      exact ⟨this.1, (fun t p h => by have := this.2 t p h; exact ⟨by omega, (fun _ => by omega)⟩)⟩
                    · exact ⟨(fun h => by cases h), (fun v p h => by cases h)⟩
                    · exact ⟨(fun h => by cases h), (fun v p h => by cases h)⟩
                    · rename_i hh; exact absurd hh (consumeUnicode_spec inp pos).1
                  · split
                    · refine ⟨(fun h => by cases h), ?_⟩
                      intro t p h
                      cases h
                      exact ⟨by omega, (fun _ => by omega)⟩
                    · split
                      · refine ⟨(fun h => by cases h), ?_⟩
                        intro t p h
                        cases h
                        exact ⟨Nat.le_refl _, (fun h => by cases h)⟩
                      · exact step1 _

theorem consumeString_spec (inp : List Nat) (pos : Nat) :
    consumeString inp pos ≠ .fuelOut ∧
      ∀ t p, consumeString inp pos = .ok (t, p) → pos < p := by
  unfold consumeString
  have := stringLoop_spec inp (inp.length - pos + 1) (pos + 1) [] (by omega)
  exact ⟨this.1, (fun t p h => by have := (this.2 t p h).1; omega)⟩

/-! ## The name state machine terminates within its budget -/

/-- Rank of a state of the loop: 0 when the next iteration consumes a character, 2 when it
hands over to state 2, 1 for state 2 itself. -/
def nameRank (inp : List Nat) (s : NameSt) : Nat :=
  match s.state with
  | .s2 => 1
  | .s1 | .s3 => if isNextNamePartChar inp s.pos then 0 else 2
  | .s4 => if isNextAdditionalNameSymbol inp s.pos then 0 else 2
  | .s5 => if isNextWhitespace inp s.pos then 0 else 2

def nameMeasure (inp : List Nat) (s : NameSt) : Nat :=
  4 * (inp.length - s.pos) + nameRank inp s

theorem nameRank_le (inp : List Nat) (s : NameSt) : nameRank inp s ≤ 2 := by
  unfold nameRank
  split <;> (try split) <;> omega

theorem next_some_lt {inp : List Nat} {pos : Nat} {ch : Nat} (h : inp[pos + 1]? = some ch) :
    pos + 1 < inp.length := (List.getElem?_eq_some_iff.mp h).1

theorem nameStep_decreases {inp : List Nat} {s s' : NameSt} (h : nameStep inp s = .cont s') :
    nameMeasure inp s' < nameMeasure inp s := by
  unfold nameStep at h
  unfold nameMeasure
  have hr' := nameRank_le inp s'
  cases hst : s.state <;> simp only [hst] at h
  · -- s1
    split at h
    · rename_i hn
      split at h
      · rename_i ch hch
        cases h
        have := next_some_lt hch
        simp only at hr' ⊢
        omega
      · cases h
    · rename_i hn
      cases h
      simp only [nameRank, hst, hn]
      simp
  · -- s2
    split at h
    · rename_i hn
      cases h
      simp only [nameRank, hst, hn]
      simp
    · split at h
      · rename_i hn
        cases h
        simp only [nameRank, hst, hn]
        simp
      · split at h
        · rename_i hn
          cases h
          simp only [nameRank, hst, hn]
          simp
        · cases h
  · -- s3
    split at h
    · rename_i hn
      split at h
      · rename_i ch hch
        cases h
        have := next_some_lt hch
        simp only at hr' ⊢
        omega
      · cases h
    · rename_i hn
      cases h
      simp only [nameRank, hst, hn]
      simp
  · -- s4
    split at h
    · split at h
      · rename_i ch hch
        cases h
        have := next_some_lt hch
        simp only at hr' ⊢
        omega
      · cases h
    · rename_i hn
      cases h
      simp only [nameRank, hst, hn]
      simp
  · -- s5
    split at h
    · split at h
      · rename_i ch hch
        cases h
        have := next_some_lt hch
        simp only at hr' ⊢
        omega
      · cases h
    · rename_i hn
      cases h
      simp only [nameRank, hst, hn]
      simp

theorem nameLoop_total (inp : List Nat) :
    ∀ (fuel : Nat) (s : NameSt), nameMeasure inp s < fuel → nameLoop inp fuel s ≠ .fuelOut := by
  intro fuel
  induction fuel with
  | zero => intro s h; omega
  | succ n ih =>
    intro s hm
    rw [nameLoop]
    split
    · rename_i s' hs
      have := nameStep_decreases hs
      exact ih s' (by omega)
    · intro h; cases h
    · intro h; cases h

theorem collectParts_total (inp : List Nat) (pos : Nat) : collectParts inp pos ≠ .fuelOut := by
  unfold collectParts
  split
  · intro h; cases h
  · apply nameLoop_total
    unfold nameMeasure
    have := nameRank_le inp { pos := pos, parts := [], cur := [‹Nat›], positions := [], state := .s1 }
    simp only at this ⊢
    omega

theorem prefixLoop_total (keys : List (List Nat)) (parts : List (List Nat)) (positions : List Nat) :
    ∀ n, prefixLoop keys parts positions n ≠ .fuelOut := by
  intro n
  induction n with
  | zero => intro h; cases h
  | succ m ih =>
    rw [prefixLoop]
    split
    · intro h; cases h
    · simp only
      split
      · split <;> (intro h; cases h)
      · exact ih

theorem finishName_total (l : Lx) (st : NameSt) : finishName l st ≠ .fuelOut := by
  unfold finishName
  simp only
  split
  · split
    · intro h; cases h
    · split <;> (intro h; cases h)
  · split
    · intro h; cases h
    · intro h; cases h
    · rename_i hh; exact absurd hh (prefixLoop_total _ _ _ _)
    · intro h; cases h
    · repeat' split
      all_goals (intro h; cases h)

theorem consumeName_total (l : Lx) : consumeName l ≠ .fuelOut := by
  unfold consumeName
  split
  · intro h; cases h
  · intro h; cases h
  · rename_i hh; exact absurd hh (collectParts_total _ _)
  · exact finishName_total _ _

theorem nameArm_total (l : Lx) : nameArm l ≠ .fuelOut := by
  unfold nameArm
  split
  · intro h; cases h
  · intro h; cases h
  · intro h; cases h
  · rename_i hh; exact absurd hh (consumeName_total _)

theorem readNextToken_total (l : Lx) : readNextToken l ≠ .fuelOut := by
  simp only [readNextToken, advance]
  repeat (refine ite_ne_out (fun h => by cases h) ?_)
  refine ite_ne_out ?_ ?_
  · split
    · intro h; cases h
    · intro h; cases h
    · intro h; cases h
    · rename_i hh; exact absurd hh (consumeString_spec _ _).1
  repeat (refine ite_ne_out (fun h => by cases h) ?_)
  refine ite_ne_out ?_ ?_
  · exact ite_ne_out (fun h => by cases h) (fun h => by cases h)
  refine ite_ne_out (nameArm_total _) ?_
  exact ite_ne_out (fun h => by cases h) (fun h => by cases h)

theorem nextToken_total (l : Lx) : nextToken l ≠ .fuelOut := by
  unfold nextToken
  split
  · simp only
    split <;> (intro h; cases h)
  · split
    · intro h; cases h
    · intro h; cases h
    · intro h; cases h
    · rename_i hh; exact absurd hh (readNextToken_total _)

end Dmn.Lexer
