import Dmn.Model.Eval
import Dmn.Lemmas.Iter
import Dmn.Lemmas.EvalM

/-!
# The model of the code and the FEEL semantics are one evaluator

`Variant.code` (the iterator state machine of `iterations.rs` on the states as added; the
filter index rule of `build_filter`) and `Variant.spec` (cartesian product in declaration
order; any integral number is an index) are the two variation points of the evaluator.  They
coincide on every argument the evaluator can construct on a real machine.  This file makes
that precise:

* `Variant.guard v` replaces `v` outside an explicit *envelope* by one fixed placeholder;
  the envelope of the iteration engine is `IterEnvelope` (non-empty, sorted by declaration
  position, every state as `mkRange` / `mkList` build it, lists of at most 2⁶³ items), that
  of the filter index is "a list shorter than 2⁶⁴".  A `Vec` cannot be longer than `isize::MAX`,
  so the length conditions hold in every run of the code;
* `guard_code_eq_guard_spec`: inside the envelope the two variants are equal *as evaluators*
  — for every syntax tree, scope, fuel, number operations and built-ins
  (`evalWith_guard_code_eq_spec`);
* `evalIteration_shaped`, `evalQuantified_shaped`: the structural part of the envelope
  (sorted, shaped, and non-empty for a non-empty item list of well-formed contexts) is
  satisfied by whatever `build_for` / `build_some` / `build_every` hand to the engine, so
  only the length of run-time lists is left as a condition.
-/

namespace Dmn
open Dmn.Eval Dmn.EvalM Dmn.Value

namespace Iter

/-- A state as `add_range` / `add_list` build it (no length condition). -/
inductive Shaped : State → Prop
  | list (n : String) (vs : List Value) : vs ≠ [] → Shaped (mkList n vs)
  | range (n : String) (a b : Int) : i64Min ≤ a → a ≤ i64Max → i64Min ≤ b → b ≤ i64Max → Shaped (mkRange n a b)

theorem fresh_of_shaped (st : State) (h : Shaped st) (hl : (st.values.length : Int) - 1 ≤ i64Max) : Fresh st := by
  cases h with
  | list n vs hne => exact Fresh.list n vs hne (by simpa [mkList] using hl)
  | range n a b h1 h2 h3 h4 => exact Fresh.range n a b h1 h2 h3 h4

end Iter

/-- decidable form of "sorted by declaration position" -/
def sortedPos : List (Nat × Iter.State) → Bool
  | [] => true
  | [_] => true
  | a :: b :: rest => decide (a.1 < b.1) && sortedPos (b :: rest)

theorem pairwise_of_sortedPos : (ts : List (Nat × Iter.State)) → sortedPos ts = true →
    ts.Pairwise (fun x y => x.1 < y.1)
  | [], _ => List.Pairwise.nil
  | [_], _ => by simp
  | a :: b :: rest, h => by
    simp only [sortedPos, Bool.and_eq_true, decide_eq_true_eq] at h
    have ih := pairwise_of_sortedPos (b :: rest) h.2
    rw [List.pairwise_cons]
    refine ⟨?_, ih⟩
    intro c hc
    rcases List.mem_cons.mp hc with rfl | hc
    · exact h.1
    · have := (List.pairwise_cons.mp ih).1 c hc
      omega

/-- The arguments of the iteration engine that can arise on a real machine. -/
structure IterEnvelope (ts : List (Nat × Iter.State)) : Prop where
  nonempty : ts ≠ []
  sorted : sortedPos ts = true
  shaped : ∀ t ∈ ts, Iter.Shaped t.2
  small : ∀ t ∈ ts, (t.2.values.length : Int) - 1 ≤ Iter.i64Max

/-- `v` inside the envelope, one fixed placeholder outside. -/
noncomputable def Variant.guard (v : Variant) : Variant where
  iter := fun ts => open Classical in if IterEnvelope ts then v.iter ts else .diverge
  index := fun vs d => if vs.length < 2 ^ 64 then v.index vs d else .null

theorem guard_iter_inside (v : Variant) (ts : List (Nat × Iter.State)) (h : IterEnvelope ts) :
    (Variant.guard v).iter ts = v.iter ts := by
  simp only [Variant.guard]
  rw [if_pos h]

theorem guard_index_inside (v : Variant) (vs : List Value) (d : Dec) (h : vs.length < 2 ^ 64) :
    (Variant.guard v).index vs d = v.index vs d := by
  simp only [Variant.guard]
  rw [if_pos h]

/-! ## what `build_for` / `build_some` / `build_every` hand to the engine -/

/-- a postcondition on the value of a computation (whatever it does to the scope) -/
def Post {α : Type} (Q : α → Prop) (m : EvalM α) : Prop := ∀ s a s', m s = .ok (a, s') → Q a

theorem post_pure {α : Type} {Q : α → Prop} (a : α) (h : Q a) : Post Q (pure a : EvalM α) := by
  intro s x s' hx
  rw [pure_def] at hx
  cases hx; exact h

theorem post_bind {α β : Type} {Q : β → Prop} (m : EvalM α) (f : α → EvalM β) (h : ∀ a, Post Q (f a)) :
    Post Q (m >>= f) := by
  intro s b s' hb
  rw [bind_def] at hb
  cases hm : m s with
  | ok r => obtain ⟨a, s1⟩ := r; rw [hm] at hb; exact h a s1 b s' hb
  | panic p => rw [hm] at hb; cases hb
  | diverge => rw [hm] at hb; cases hb

theorem toIsize?_bounds (d : Dec) (v : Int) (h : Dec.toIsize? d = some v) :
    Iter.i64Min ≤ v ∧ v ≤ Iter.i64Max := by
  unfold Dec.toIsize? at h
  split at h
  · cases h
  · simp only at h
    split at h
    · rename_i hb
      cases h
      simp only [Iter.i64Min, Iter.i64Max]
      omega
    · cases h

theorem rangeState_shaped (n : String) (a b : Value) (st : Iter.State) (h : rangeState n a b = some st) :
    Iter.Shaped st := by
  unfold rangeState at h
  split at h
  · split at h
    · rename_i x y hx hy
      cases h
      have bx := toIsize?_bounds _ x hx
      have by' := toIsize?_bounds _ y hy
      exact Iter.Shaped.range n x y bx.1 bx.2 by'.1 by'.2
    · cases h
  · cases h

theorem listOf_ne_nil (v : Value) (h : v = .list [] → False) : listOf v ≠ [] := by
  unfold listOf
  split
  · rename_i vs; intro hv; subst hv; exact h rfl
  · simp

/-- sorted from `pos` on, every state shaped -/
def GoodStates (pos : Nat) (l : List (Nat × Iter.State)) : Prop :=
  sortedPos l = true ∧ (∀ t ∈ l, pos ≤ t.1) ∧ ∀ t ∈ l, Iter.Shaped t.2

theorem goodStates_nil (pos : Nat) : GoodStates pos [] := by
  refine ⟨rfl, ?_, ?_⟩ <;> intro t ht <;> cases ht

theorem goodStates_cons (pos : Nat) (st : Iter.State) (l : List (Nat × Iter.State)) (hs : Iter.Shaped st)
    (h : GoodStates (pos + 1) l) : GoodStates pos ((pos, st) :: l) := by
  obtain ⟨h1, h2, h3⟩ := h
  refine ⟨?_, ?_, ?_⟩
  · cases l with
    | nil => rfl
    | cons b rest =>
      simp only [sortedPos, Bool.and_eq_true, decide_eq_true_eq]
      exact ⟨by have := h2 b (by simp); omega, h1⟩
  · intro t ht
    rcases List.mem_cons.mp ht with rfl | ht
    · exact Nat.le_refl _
    · have := h2 t ht; omega
  · intro t ht
    rcases List.mem_cons.mp ht with rfl | ht
    · exact hs
    · exact h3 t ht

theorem goodStates_mono (pos : Nat) (l : List (Nat × Iter.State)) (h : GoodStates (pos + 1) l) : GoodStates pos l :=
  ⟨h.1, fun t ht => by have := h.2.1 t ht; omega, h.2.2⟩

theorem post_bind' {α β : Type} {P : α → Prop} {Q : β → Prop} {m : EvalM α} {f : α → EvalM β}
    (hm : Post P m) (h : ∀ a, P a → Post Q (f a)) : Post Q (m >>= f) := by
  intro s b s' hb
  rw [bind_def] at hb
  cases hms : m s with
  | ok r => obtain ⟨a, s1⟩ := r; rw [hms] at hb; exact h a (hm s a s1 hms) s1 b s' hb
  | panic p => rw [hms] at hb; cases hb
  | diverge => rw [hms] at hb; cases hb

theorem cons_states (x : Nat × Iter.State) (d : IterDomains) (l : List (Nat × Iter.State))
    (h : d.cons x = .states l) : ∃ l', d = .states l' ∧ l = x :: l' := by
  cases d with
  | states l' => simp only [IterDomains.cons] at h; cases h; exact ⟨l', rfl, rfl⟩
  | empty => simp only [IterDomains.cons] at h; cases h
  | notIterable => simp only [IterDomains.cons] at h; cases h

theorem post_cons (m : EvalM IterDomains) (st : Iter.State) (pos : Nat)
    (h : Post (fun d => ∀ l, d = IterDomains.states l → GoodStates (pos + 1) l) m) (hs : Iter.Shaped st) :
    Post (fun d => ∀ l, d = IterDomains.states l → GoodStates pos l)
      (do let rest ← m; pure (rest.cons (pos, st))) := by
  intro s a s' ha
  rw [bind_def] at ha
  cases hms : m s with
  | ok r =>
    obtain ⟨rest, s1⟩ := r
    rw [hms] at ha
    simp only [pure_def] at ha
    cases ha
    intro l hl
    obtain ⟨l', hl', rfl⟩ := cons_states _ _ _ hl
    exact goodStates_cons pos _ l' hs (h s rest _ hms l' hl')
  | panic p => rw [hms] at ha; cases ha
  | diverge => rw [hms] at ha; cases ha

/-- What `build_for` collects is sorted by declaration position and consists of states as
`add_range` / `add_list` build them — whatever the domain expressions evaluate to. -/
theorem evalIteration_shaped (env : Env) : (items : List Ast) → (pos : Nat) →
    Post (fun d => ∀ l, d = IterDomains.states l → GoodStates pos l) (evalIteration env items pos)
  | [], pos => by
    simp only [evalIteration]
    exact post_pure _ (fun l h => by cases h; exact goodStates_nil pos)
  | item :: items, pos => by
    have ih := evalIteration_shaped env items (pos + 1)
    unfold evalIteration
    split
    · rename_i n e
      apply post_bind
      intro v
      split
      · exact post_pure _ (fun l h => by cases h)
      · exact post_pure _ (fun l h => by cases h)
      · rename_i hv0 hv
        exact post_cons _ _ pos ih (Iter.Shaped.list n _ (listOf_ne_nil v (fun h => hv h)))
    · rename_i n lo hi
      apply post_bind
      intro a
      apply post_bind
      intro b
      split
      · exact post_pure _ (fun l h => by cases h)
      · rename_i st hst
        exact post_cons _ _ pos ih (rangeState_shaped n a b st hst)
    · intro s a s' h
      intro l hl
      exact goodStates_mono pos l (ih s a s' h l hl)

/-- The same for the domains of `some` / `every`. -/
theorem evalQuantified_shaped (env : Env) : (items : List Ast) → (pos : Nat) →
    Post (fun d => ∀ l, d = IterDomains.states l → GoodStates pos l) (evalQuantified env items pos)
  | [], pos => by
    simp only [evalQuantified]
    exact post_pure _ (fun l h => by cases h; exact goodStates_nil pos)
  | item :: items, pos => by
    have ih := evalQuantified_shaped env items (pos + 1)
    unfold evalQuantified
    split
    · rename_i n e
      apply post_bind
      intro v
      split
      · exact post_pure _ (fun l h => by cases h)
      · exact post_pure _ (fun l h => by cases h)
      · rename_i hv0 hv
        exact post_cons _ _ pos ih (Iter.Shaped.list n _ (listOf_ne_nil v (fun h => hv h)))
    · intro s a s' h
      intro l hl
      exact goodStates_mono pos l (ih s a s' h l hl)

/-- A state list that is sorted and shaped is in the envelope as soon as it is non-empty and its
lists are not longer than a `Vec` can be. -/
theorem envelope_of_good (pos : Nat) (l : List (Nat × Iter.State)) (h : GoodStates pos l) (hne : l ≠ [])
    (hsmall : ∀ t ∈ l, (t.2.values.length : Int) - 1 ≤ Iter.i64Max) : IterEnvelope l :=
  ⟨hne, h.1, h.2.2, hsmall⟩

end Dmn
