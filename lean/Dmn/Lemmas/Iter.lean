import Dmn.Model.Iter

/-!
# Lemmas for the iteration engine: `Iter.run` visits the cartesian product
-/

namespace Dmn

namespace Ctx

theorem str_lt_of_ne_of_not_lt {a b : String} (h1 : ¬ a = b) (h2 : ¬ a < b) : b < a := by
  have h3 : b ≤ a := String.not_lt.mp h2
  apply Classical.byContradiction
  intro h4
  exact h1 (String.le_antisymm (String.not_lt.mp h4) h3)

theorem get_set (c : Ctx) (k : String) (v : Value) (k' : String) :
    get (set c k v) k' = if k = k' then some v else get c k' := by
  induction c with
  | nil => simp [set, get]
  | cons p c ih =>
    obtain ⟨k0, v0⟩ := p
    simp only [set]
    by_cases h1 : k = k0
    · subst h1
      rw [if_pos rfl]
      simp only [get]
      by_cases h3 : k = k'
      · rw [if_pos h3, if_pos h3]
      · rw [if_neg h3, if_neg h3, if_neg h3]
    · rw [if_neg h1]
      by_cases h2 : k < k0
      · rw [if_pos h2]
        simp only [get]
      · rw [if_neg h2]
        simp only [get, ih]
        by_cases h3 : k0 = k'
        · subst h3
          rw [if_pos rfl, if_neg h1, if_pos rfl]
        · rw [if_neg h3, if_neg h3]

theorem get_eq_none_of_not_mem (c : Ctx) (k : String) (h : k ∉ c.map Prod.fst) : get c k = none := by
  induction c with
  | nil => rfl
  | cons p c ih =>
    obtain ⟨k0, v0⟩ := p
    simp only [List.map_cons, List.mem_cons, not_or] at h
    simp only [get]
    rw [if_neg (fun e => h.1 e.symm)]
    exact ih h.2

theorem mem_keys_set (c : Ctx) (k : String) (v : Value) (k' : String)
    (h : k' ∈ (set c k v).map Prod.fst) : k' = k ∨ k' ∈ c.map Prod.fst := by
  induction c with
  | nil => simpa [set] using h
  | cons p c ih =>
    obtain ⟨k0, v0⟩ := p
    simp only [set] at h
    by_cases h1 : k = k0
    · rw [if_pos h1] at h
      simp only [List.map_cons, List.mem_cons] at h ⊢
      rcases h with h | h
      · exact Or.inl h
      · exact Or.inr (Or.inr h)
    · rw [if_neg h1] at h
      by_cases h2 : k < k0
      · rw [if_pos h2] at h
        simpa using h
      · rw [if_neg h2] at h
        simp only [List.map_cons, List.mem_cons] at h ⊢
        rcases h with h | h
        · exact Or.inr (Or.inl h)
        · rcases ih h with h | h
          · exact Or.inl h
          · exact Or.inr (Or.inr h)

theorem WF_nil : WF [] := by simp [WF]

theorem WF_set (c : Ctx) (k : String) (v : Value) (h : WF c) : WF (set c k v) := by
  induction c with
  | nil => simp [set, WF]
  | cons p c ih =>
    obtain ⟨k0, v0⟩ := p
    simp only [WF, List.map_cons, List.pairwise_cons] at h
    simp only [set]
    by_cases h1 : k = k0
    · subst h1
      rw [if_pos rfl]
      simpa [WF] using h
    · rw [if_neg h1]
      by_cases h2 : k < k0
      · rw [if_pos h2]
        simp only [WF, List.map_cons, List.pairwise_cons, List.mem_cons]
        refine ⟨?_, h⟩
        intro a ha
        rcases ha with ha | ha
        · subst ha; exact h2
        · exact String.lt_trans h2 (h.1 a ha)
      · rw [if_neg h2]
        simp only [WF, List.map_cons, List.pairwise_cons]
        refine ⟨?_, ih h.2⟩
        intro a ha
        rcases mem_keys_set c k v a ha with ha | ha
        · subst ha; exact str_lt_of_ne_of_not_lt h1 h2
        · exact h.1 a ha

theorem ext_of_WF (c c' : Ctx) (h : WF c) (h' : WF c') (hg : ∀ k, get c k = get c' k) : c = c' := by
  induction c generalizing c' with
  | nil =>
    cases c' with
    | nil => rfl
    | cons p c' =>
      obtain ⟨k0, v0⟩ := p
      have := hg k0
      simp [get] at this
  | cons p c ih =>
    obtain ⟨k1, v1⟩ := p
    cases c' with
    | nil =>
      have := hg k1
      simp [get] at this
    | cons q c' =>
      obtain ⟨k2, v2⟩ := q
      simp only [WF, List.map_cons, List.pairwise_cons] at h h'
      have hk : k1 = k2 := by
        apply Classical.byContradiction
        intro hne
        have e1 := hg k1
        have e2 := hg k2
        simp only [get, if_true] at e1 e2
        rw [if_neg (fun e => hne e.symm)] at e1
        rw [if_neg hne] at e2
        have m1 : k1 ∈ c'.map Prod.fst := by
          apply Classical.byContradiction
          intro hm
          rw [get_eq_none_of_not_mem c' k1 hm] at e1
          cases e1
        have m2 : k2 ∈ c.map Prod.fst := by
          apply Classical.byContradiction
          intro hm
          rw [get_eq_none_of_not_mem c k2 hm] at e2
          cases e2
        exact String.lt_asymm (h.1 k2 m2) (h'.1 k1 m1)
      subst hk
      have hv : v1 = v2 := by
        have e1 := hg k1
        simp only [get, if_true] at e1
        exact Option.some.inj e1
      subst hv
      congr 1
      apply ih c' h.2 h'.2
      intro k
      by_cases hkk : k1 = k
      · subst hkk
        rw [get_eq_none_of_not_mem c k1 (fun m => String.lt_irrefl _ (h.1 k1 m)),
          get_eq_none_of_not_mem c' k1 (fun m => String.lt_irrefl _ (h'.1 k1 m))]
      · have e := hg k
        simp only [get] at e
        rw [if_neg hkk, if_neg hkk] at e
        exact e

end Ctx

namespace Iter

/-- number of index values of a state -/
def sz (st : State) : Nat := (st.stop - st.start).natAbs + 1

/-- the state with its index at offset `k` -/
def setIdx (st : State) (k : Nat) : State := { st with index := st.start + st.step * (k : Int) }

/-- the value a state at offset `k` writes into the iteration context -/
def val (st : State) (k : Nat) : Value :=
  if st.isRange then .num (Dec.ofInt (st.start + st.step * (k : Int))) else (st.values[k]?).getD .null

/-- A state as `add_range` / `add_list` create it (non-empty, `isize` bounds). -/
structure Good (st : State) : Prop where
  dir : (st.step = 1 ∧ st.start ≤ st.stop) ∨ (st.step = -1 ∧ st.stop < st.start)
  lo1 : i64Min ≤ st.start
  hi1 : st.start ≤ i64Max
  lo2 : i64Min ≤ st.stop
  hi2 : st.stop ≤ i64Max
  idx : st.index = st.start
  list : st.isRange = false → st.start = 0 ∧ st.step = 1 ∧ st.stop = (st.values.length : Int) - 1

theorem advance_false (l : List State) : advance l false = .next l := by
  cases l <;> simp [advance]

theorem addChecked_cases (a b : Int) :
    (addChecked a b = some (a + b) ∧ i64Min ≤ a + b ∧ a + b ≤ i64Max) ∨
    (addChecked a b = none ∧ ¬ (i64Min ≤ a + b ∧ a + b ≤ i64Max)) := by
  unfold addChecked
  by_cases h : i64Min ≤ a + b ∧ a + b ≤ i64Max
  · left; simp only [h, and_self, if_true]
  · right; simp only [h, if_false, not_false_eq_true, and_self]

theorem advance_cons (s : State) (k : Nat) (rest : List State) (hg : Good s) (hk : k < sz s) :
    advance (setIdx s k :: rest) true =
      if k + 1 < sz s then .next (setIdx s (k + 1) :: rest)
      else if rest = [] then .stop
      else match advance rest true with
        | .next r' => .next (setIdx s 0 :: r')
        | .stop => .stop := by
  have hlo1 := hg.lo1; have hhi1 := hg.hi1; have hlo2 := hg.lo2; have hhi2 := hg.hi2
  unfold sz at hk ⊢
  rw [advance]
  have hidx : s.start + s.step * ((k : Int) + 1) = s.start + s.step * (k : Int) + s.step := by
    rw [Int.mul_add]; simp [Int.add_assoc]
  rcases hg.dir with ⟨hs, hd⟩ | ⟨hs, hd⟩
  · have hpos : s.step > 0 := by omega
    have hnz : (s.step == 0) = false := by simp [hs]
    have hneg : ¬ s.step < 0 := by omega
    by_cases h1 : k + 1 < (s.stop - s.start).natAbs + 1
    · rw [if_pos h1]
      have hgt : ¬ (s.start + s.step * (k : Int) + s.step > s.stop) := by rw [hs]; omega
      rcases addChecked_cases (s.start + s.step * (k : Int)) s.step with ⟨ha, _, _⟩ | ⟨_, hn⟩
      · simp only [setIdx]
        simp only [ha]
        simp [hpos, hgt, hnz, hneg, advance_false, hidx]
      · exfalso; apply hn; rw [hs]; omega
    · rw [if_neg h1]
      have hgt : (s.start + s.step * (k : Int) + s.step > s.stop) := by rw [hs]; omega
      rcases addChecked_cases (s.start + s.step * (k : Int)) s.step with ⟨ha, _, _⟩ | ⟨ha, _⟩
      · simp only [setIdx]
        simp only [ha]
        cases rest with
        | nil => simp [hpos, hgt]
        | cons r rs => simp [hpos, hgt, hnz, hneg]; rfl
      · simp only [setIdx]
        simp only [ha]
        cases rest with
        | nil => simp [hpos]
        | cons r rs => simp [hpos, hnz, hneg]; rfl
  · have hpos : ¬ s.step > 0 := by omega
    have hnz : (s.step == 0) = false := by simp [hs]
    have hneg : s.step < 0 := by omega
    by_cases h1 : k + 1 < (s.stop - s.start).natAbs + 1
    · rw [if_pos h1]
      have hgt : ¬ (s.start + s.step * (k : Int) + s.step < s.stop) := by rw [hs]; omega
      rcases addChecked_cases (s.start + s.step * (k : Int)) s.step with ⟨ha, _, _⟩ | ⟨_, hn⟩
      · simp only [setIdx]
        simp only [ha]
        simp [hpos, hgt, hnz, hneg, advance_false, hidx]
      · exfalso; apply hn; rw [hs]; omega
    · rw [if_neg h1]
      have hgt : (s.start + s.step * (k : Int) + s.step < s.stop) := by rw [hs]; omega
      rcases addChecked_cases (s.start + s.step * (k : Int)) s.step with ⟨ha, _, _⟩ | ⟨ha, _⟩
      · simp only [setIdx]
        simp only [ha]
        cases rest with
        | nil => simp [hpos, hgt, hneg]
        | cons r rs => simp [hpos, hgt, hnz, hneg]; rfl
      · simp only [setIdx]
        simp only [ha]
        cases rest with
        | nil => simp [hpos, hneg]
        | cons r rs => simp [hpos, hnz, hneg]; rfl

/-! ### Configurations: the reversed state list with an offset per state -/

abbrev Cfg := List (State × Nat)

def inst (c : Cfg) : List State := c.map (fun p => setIdx p.1 p.2)

/-- every state is `Good` and its offset is inside its domain -/
def VC (c : Cfg) : Prop := ∀ p ∈ c, Good p.1 ∧ p.2 < sz p.1

/-- all configurations of a (reversed) state list, the head varying fastest -/
def allC : List State → List Cfg
  | [] => [[]]
  | s :: rest => (allC rest).flatMap (fun c => (List.range' 0 (sz s)).map (fun k => (s, k) :: c))

/-- the configurations strictly after `c`, in counting order -/
def afterC : Cfg → List Cfg
  | [] => []
  | (s, k) :: c =>
    (List.range' (k + 1) (sz s - (k + 1))).map (fun j => (s, j) :: c)
      ++ (afterC c).flatMap (fun c' => (List.range' 0 (sz s)).map (fun j => (s, j) :: c'))

theorem sz_pos (s : State) : sz s = (sz s - 1) + 1 := by unfold sz; omega

theorem advance_inst (c : Cfg) (hv : VC c) (hne : c ≠ []) :
    advance (inst c) true = match afterC c with
      | [] => .stop
      | c' :: _ => .next (inst c') := by
  induction c with
  | nil => exact absurd rfl hne
  | cons p rest ih =>
    obtain ⟨s, k⟩ := p
    have hp := hv (s, k) (List.mem_cons_self)
    have hrest : VC rest := fun q hq => hv q (List.mem_cons_of_mem _ hq)
    simp only [inst, List.map_cons]
    rw [advance_cons s k _ hp.1 hp.2]
    simp only [afterC]
    by_cases h1 : k + 1 < sz s
    · rw [if_pos h1]
      have e : sz s - (k + 1) = (sz s - (k + 1) - 1) + 1 := by omega
      rw [e, List.range'_succ]
      simp
    · rw [if_neg h1]
      have e : sz s - (k + 1) = 0 := by omega
      rw [e]
      simp only [List.range'_zero, List.map_nil, List.nil_append]
      cases rest with
      | nil => simp [afterC]
      | cons q rest' =>
        rw [if_neg (by simp)]
        have ih' := ih hrest (by simp)
        simp only [inst] at ih'
        rw [ih']
        cases afterC (q :: rest') with
        | nil => simp
        | cons c' tl =>
          obtain ⟨m, hm⟩ : ∃ m, sz s = m + 1 := ⟨_, sz_pos s⟩
          rw [hm]
          simp [List.range'_succ, setIdx]

theorem afterC_tail (c : Cfg) (hv : VC c) (c' : Cfg) (tl : List Cfg) (h : afterC c = c' :: tl) :
    afterC c' = tl := by
  induction c generalizing c' tl with
  | nil => simp [afterC] at h
  | cons p rest ih =>
    obtain ⟨s, k⟩ := p
    have hp := hv (s, k) (List.mem_cons_self)
    have hrest : VC rest := fun q hq => hv q (List.mem_cons_of_mem _ hq)
    simp only [afterC] at h
    by_cases h1 : k + 1 < sz s
    · have e : sz s - (k + 1) = (sz s - (k + 1 + 1)) + 1 := by omega
      rw [e, List.range'_succ] at h
      simp only [List.map_cons, List.cons_append, List.cons.injEq] at h
      rw [← h.1, ← h.2]
      simp only [afterC]
    · have e : sz s - (k + 1) = 0 := by omega
      rw [e] at h
      simp only [List.range'_zero, List.map_nil, List.nil_append] at h
      cases hr : afterC rest with
      | nil => rw [hr] at h; simp at h
      | cons d tl' =>
        obtain ⟨m, hm⟩ : ∃ m, sz s = m + 1 := ⟨_, sz_pos s⟩
        rw [hr, hm] at h
        simp only [List.flatMap_cons, List.range'_succ, List.map_cons, List.cons_append,
          List.cons.injEq] at h
        rw [← h.1, ← h.2]
        simp only [afterC, ih hrest d tl' hr, hm]
        simp [List.range'_succ]

theorem afterC_mem (c : Cfg) (hv : VC c) (c' : Cfg) (h : c' ∈ afterC c) :
    VC c' ∧ c'.map Prod.fst = c.map Prod.fst := by
  induction c generalizing c' with
  | nil => simp [afterC] at h
  | cons p rest ih =>
    obtain ⟨s, k⟩ := p
    have hp := hv (s, k) (List.mem_cons_self)
    have hrest : VC rest := fun q hq => hv q (List.mem_cons_of_mem _ hq)
    simp only [afterC, List.mem_append, List.mem_map, List.mem_flatMap, List.mem_range'_1] at h
    rcases h with ⟨j, hj, rfl⟩ | ⟨d, hd, j, hj, rfl⟩
    · refine ⟨?_, by simp⟩
      intro q hq
      rcases List.mem_cons.mp hq with rfl | hq
      · exact ⟨hp.1, by simp only; omega⟩
      · exact hrest q hq
    · have := ih hrest d hd
      refine ⟨?_, by simp [this.2]⟩
      intro q hq
      rcases List.mem_cons.mp hq with rfl | hq
      · exact ⟨hp.1, by simp only; omega⟩
      · exact this.1 q hq

/-! ### The iteration context of a configuration -/

def names (c : Cfg) : List String := c.map (fun p => p.1.name)

theorem names_eq (c : Cfg) : names c = (c.map Prod.fst).map (fun s => s.name) := by
  simp [names]

/-- the context `fill` builds from `b`: outermost state (last of `c`) first, innermost last -/
def mctx : Cfg → Ctx → Ctx
  | [], b => b
  | (s, k) :: rest, b => Ctx.set (mctx rest b) s.name (val s k)

/-- the value bound to `key`: the innermost state of that name -/
def look : Cfg → String → Option Value
  | [], _ => none
  | (s, k) :: rest, key => if s.name = key then some (val s k) else look rest key

theorem look_none_iff (c : Cfg) (key : String) : look c key = none ↔ key ∉ names c := by
  induction c with
  | nil => simp [look, names]
  | cons p rest ih =>
    obtain ⟨s, k⟩ := p
    simp only [look, names, List.map_cons, List.mem_cons, not_or]
    by_cases h : s.name = key
    · rw [if_pos h]; simp [h]
    · rw [if_neg h, ih]
      simp only [names]
      constructor
      · intro h2; exact ⟨fun e => h e.symm, h2⟩
      · intro h2; exact h2.2

theorem get_mctx (c : Cfg) (b : Ctx) (key : String) :
    Ctx.get (mctx c b) key = (match look c key with
      | some v => some v
      | none => Ctx.get b key) := by
  induction c with
  | nil => simp [mctx, look]
  | cons p rest ih =>
    obtain ⟨s, k⟩ := p
    simp only [mctx, look, Ctx.get_set]
    by_cases h : s.name = key
    · rw [if_pos h, if_pos h]
    · rw [if_neg h, if_neg h, ih]

theorem WF_mctx (c : Cfg) (b : Ctx) (h : Ctx.WF b) : Ctx.WF (mctx c b) := by
  induction c with
  | nil => exact h
  | cons p rest ih =>
    obtain ⟨s, k⟩ := p
    exact Ctx.WF_set _ _ _ ih

/-- The persistent iteration context does not matter: every state overwrites its entry. -/
theorem mctx_persist (c : Cfg) (b : Ctx) (h : Ctx.WF b)
    (hk : ∀ key, key ∉ names c → Ctx.get b key = none) : mctx c b = mctx c [] := by
  apply Ctx.ext_of_WF _ _ (WF_mctx c b h) (WF_mctx c [] Ctx.WF_nil)
  intro key
  rw [get_mctx, get_mctx]
  cases hl : look c key with
  | some v => rfl
  | none =>
    simp only
    rw [hk key ((look_none_iff c key).mp hl)]
    rfl

theorem get_mctx_nil_of_not_mem (c : Cfg) (key : String) (h : key ∉ names c) :
    Ctx.get (mctx c []) key = none := by
  rw [get_mctx, (look_none_iff c key).mpr h]
  rfl

/-! ### `fill` -/

theorem fill_append (l1 l2 : List State) (b : Ctx) (w : Bool) :
    fill (l1 ++ l2) b w = fill l2 (fill l1 b w).1 (fill l1 b w).2 := by
  induction l1 generalizing b w with
  | nil => simp [fill]
  | cons st rest ih =>
    simp only [List.cons_append, fill]
    split
    · exact ih _ _
    · split
      · split
        · exact ih _ _
        · exact ih _ _
      · exact ih _ _

theorem fill_single (s : State) (k : Nat) (hg : Good s) (hk : k < sz s) (b : Ctx) (w : Bool) :
    fill [setIdx s k] b w = (Ctx.set b s.name (val s k), true) := by
  unfold sz at hk
  cases hr : s.isRange with
  | true => simp [fill, setIdx, val, hr]
  | false =>
    obtain ⟨h0, h1, h2⟩ := hg.list hr
    have hlen : k < s.values.length := by
      rcases hg.dir with ⟨_, hd⟩ | ⟨hs, _⟩
      · omega
      · omega
    have hi : (s.start + s.step * (k : Int)).toNat = k := by rw [h0, h1]; omega
    have hge : s.start + s.step * (k : Int) ≥ 0 := by rw [h0, h1]; omega
    simp [fill, setIdx, val, hr, hi, List.getElem?_eq_getElem hlen, hge]

theorem fill_inst (c : Cfg) (hv : VC c) (b : Ctx) (w : Bool) :
    fill (inst c).reverse b w = (mctx c b, if c.isEmpty then w else true) := by
  induction c generalizing b w with
  | nil => simp [inst, fill, mctx]
  | cons p rest ih =>
    obtain ⟨s, k⟩ := p
    have hp := hv (s, k) (List.mem_cons_self)
    have hrest : VC rest := fun q hq => hv q (List.mem_cons_of_mem _ hq)
    have ih' := ih hrest b w
    simp only [inst] at ih'
    simp only [inst, List.map_cons, List.reverse_cons, fill_append, ih']
    rw [fill_single s k hp.1 hp.2]
    simp [mctx]

/-! ### The `'outer` loop -/

theorem loop_spec (fuel : Nat) : ∀ (c : Cfg) (ctx : Ctx) (acc : List Ctx),
    VC c → c ≠ [] → Ctx.WF ctx → (∀ key, key ∉ names c → Ctx.get ctx key = none) →
    (afterC c).length < fuel →
    loop fuel (inst c) ctx acc = .ok (acc.reverse ++ (c :: afterC c).map (fun c => mctx c [])) := by
  induction fuel with
  | zero => intro c ctx acc _ _ _ _ h; omega
  | succ fuel ih =>
    intro c ctx acc hv hne hwf hkeys hlen
    rw [loop]
    rw [fill_inst c hv, mctx_persist c ctx hwf hkeys, advance_inst c hv hne]
    have hemp : c.isEmpty = false := by cases c with
      | nil => exact absurd rfl hne
      | cons _ _ => rfl
    simp only [hemp, Bool.false_eq_true, if_false, if_true]
    cases ha : afterC c with
    | nil => simp
    | cons c' tl =>
      simp only
      have hm := afterC_mem c hv c' (by rw [ha]; exact List.mem_cons_self)
      have htl := afterC_tail c hv c' tl ha
      have hn : names c' = names c := by rw [names_eq, names_eq, hm.2]
      have hne' : c' ≠ [] := by
        intro e
        have := hm.2
        rw [e] at this
        cases c with
        | nil => exact hne rfl
        | cons _ _ => simp at this
      rw [ih c' (mctx c []) (mctx c [] :: acc) hm.1 hne' (WF_mctx c [] Ctx.WF_nil)
        (fun key hk => get_mctx_nil_of_not_mem c key (by rw [← hn]; exact hk))
        (by rw [htl]; rw [ha] at hlen; simp at hlen; omega)]
      simp [htl]

/-! ### The declarative product as an enumeration of configurations -/

/-- one step of `product`: an inner variable of the same name shadows the outer one -/
def upd (n : String) (v : Value) (c : Ctx) : Ctx := if Ctx.contains c n then c else Ctx.set c n v

/-- `product` over a list of base contexts -/
def Gp : List State → List Ctx → List Ctx
  | [], B => B
  | st :: rest, B => (domain st).flatMap (fun v => (Gp rest B).map (upd st.name v))

theorem product_eq_Gp (states : List State) : product states = Gp states [[]] := by
  induction states with
  | nil => rfl
  | cons st rest ih => simp only [product, Gp, ih]; rfl

theorem Gp_append_single (a : List State) (s : State) (B : List Ctx) :
    Gp (a ++ [s]) B = Gp a ((domain s).flatMap (fun v => B.map (upd s.name v))) := by
  induction a with
  | nil => simp [Gp]
  | cons st rest ih => simp only [List.cons_append, Gp, ih]

/-- the context `product` builds for a configuration: innermost state (head) first, an outer
state does not overwrite -/
def pctx : Cfg → Ctx → Ctx
  | [], b => b
  | (s, k) :: rest, b => pctx rest (upd s.name (val s k) b)

theorem list_eq_map_range' (l : List Value) :
    l = (List.range' 0 l.length).map (fun k => (l[k]?).getD .null) := by
  apply List.ext_getElem
  · simp
  · intro i h1 h2
    simp [List.getElem?_eq_getElem h1]

theorem domain_eq (s : State) (hg : Good s) : domain s = (List.range' 0 (sz s)).map (val s) := by
  cases hr : s.isRange with
  | true =>
    simp only [domain, hr, if_true, List.range_eq_range', sz]
    apply List.map_congr_left
    intro i _
    simp [val, hr]
  | false =>
    obtain ⟨h0, h1, h2⟩ := hg.list hr
    have hlen : sz s = s.values.length := by
      unfold sz
      rcases hg.dir with ⟨_, hd⟩ | ⟨hs, _⟩
      · omega
      · omega
    simp only [domain, hr, Bool.false_eq_true, if_false, hlen]
    refine (list_eq_map_range' s.values).trans ?_
    apply List.map_congr_left
    intro i _
    simp [val, hr]

theorem Gp_reverse (S : List State) (hg : ∀ s ∈ S, Good s) (B : List Ctx) :
    Gp S.reverse B = (allC S).flatMap (fun c => B.map (pctx c)) := by
  induction S generalizing B with
  | nil => simp [Gp, allC, pctx]
  | cons s rest ih =>
    have hrest : ∀ t ∈ rest, Good t := fun t ht => hg t (List.mem_cons_of_mem _ ht)
    rw [List.reverse_cons, Gp_append_single, ih hrest, domain_eq s (hg s List.mem_cons_self)]
    simp only [allC, List.flatMap_assoc, List.flatMap_map, List.map_flatMap, List.map_map]
    rfl

theorem get_upd (n : String) (v : Value) (b : Ctx) (key : String) :
    Ctx.get (upd n v b) key = (match Ctx.get b key with
      | some w => some w
      | none => if n = key then some v else none) := by
  unfold upd Ctx.contains
  by_cases hk : n = key
  · subst hk
    cases hb : Ctx.get b n with
    | some w => simp [hb]
    | none => simp [Ctx.get_set]
  · cases hb : Ctx.get b n with
    | some w => simp [hk]; cases Ctx.get b key <;> rfl
    | none => simp [hk, Ctx.get_set]; cases Ctx.get b key <;> rfl

theorem get_pctx (c : Cfg) (b : Ctx) (key : String) :
    Ctx.get (pctx c b) key = (match Ctx.get b key with
      | some w => some w
      | none => look c key) := by
  induction c generalizing b with
  | nil => simp [pctx, look]; cases Ctx.get b key <;> rfl
  | cons p rest ih =>
    obtain ⟨s, k⟩ := p
    simp only [pctx, look, ih, get_upd]
    cases Ctx.get b key with
    | some w => rfl
    | none =>
      by_cases h : s.name = key
      · simp [h]
      · simp [h]

theorem WF_upd (n : String) (v : Value) (b : Ctx) (h : Ctx.WF b) : Ctx.WF (upd n v b) := by
  unfold upd
  split
  · exact h
  · exact Ctx.WF_set _ _ _ h

theorem WF_pctx (c : Cfg) (b : Ctx) (h : Ctx.WF b) : Ctx.WF (pctx c b) := by
  induction c generalizing b with
  | nil => exact h
  | cons p rest ih =>
    obtain ⟨s, k⟩ := p
    exact ih _ (WF_upd _ _ _ h)

/-- Outermost-first overwriting (`fill`) and innermost-first non-overwriting (`product`) build
the same context. -/
theorem pctx_eq_mctx (c : Cfg) : pctx c [] = mctx c [] := by
  apply Ctx.ext_of_WF _ _ (WF_pctx c [] Ctx.WF_nil) (WF_mctx c [] Ctx.WF_nil)
  intro key
  rw [get_pctx, get_mctx]
  simp only [Ctx.get]
  cases look c key <;> rfl

/-! ### The start configuration, the fuel, and `run` -/

def zeros (S : List State) : Cfg := S.map (fun s => (s, 0))

theorem allC_eq (S : List State) : allC S = zeros S :: afterC (zeros S) := by
  induction S with
  | nil => rfl
  | cons s rest ih =>
    obtain ⟨m, hm⟩ : ∃ m, sz s = m + 1 := ⟨_, sz_pos s⟩
    simp only [allC, ih, zeros, List.map_cons, afterC, hm]
    simp [List.range'_succ]

theorem inst_zeros (S : List State) (hg : ∀ s ∈ S, Good s) : inst (zeros S) = S := by
  induction S with
  | nil => rfl
  | cons s rest ih =>
    have hrest : ∀ t ∈ rest, Good t := fun t ht => hg t (List.mem_cons_of_mem _ ht)
    have h := ih hrest
    simp only [inst, zeros, List.map_map] at h
    simp only [inst, zeros, List.map_cons, List.map_map, h, List.cons.injEq, and_true]
    have := (hg s List.mem_cons_self).idx
    cases s
    simp only [setIdx] at this ⊢
    simp [this]

theorem VC_zeros (S : List State) (hg : ∀ s ∈ S, Good s) : VC (zeros S) := by
  intro p hp
  simp only [zeros, List.mem_map] at hp
  obtain ⟨s, hs, rfl⟩ := hp
  exact ⟨hg s hs, by unfold sz; omega⟩

theorem length_flatMap_const {α β : Type} (l : List α) (f : α → List β) (n : Nat)
    (h : ∀ x ∈ l, (f x).length = n) : (l.flatMap f).length = l.length * n := by
  induction l with
  | nil => simp
  | cons x xs ih =>
    rw [List.flatMap_cons, List.length_append, h x List.mem_cons_self,
      ih (fun y hy => h y (List.mem_cons_of_mem _ hy)), List.length_cons, Nat.succ_mul, Nat.add_comm]

theorem product_length_cons (st : State) (rest : List State) :
    (product (st :: rest)).length = (domain st).length * (product rest).length := by
  rw [product]
  apply length_flatMap_const
  intro v _
  simp

theorem domain_length (s : State) (hg : Good s) : (domain s).length = sz s := by
  rw [domain_eq s hg]; simp

theorem fuel_le (states : List State) (hg : ∀ s ∈ states, Good s) (a : Nat) :
    a * (product states).length ≤
      states.foldl (fun n st => n * ((st.stop - st.start).natAbs + 2)) a := by
  induction states generalizing a with
  | nil => simp [product]
  | cons st rest ih =>
    have hrest : ∀ t ∈ rest, Good t := fun t ht => hg t (List.mem_cons_of_mem _ ht)
    rw [product_length_cons, domain_length st (hg st List.mem_cons_self), List.foldl_cons]
    refine Nat.le_trans ?_ (ih hrest _)
    rw [← Nat.mul_assoc]
    apply Nat.mul_le_mul_right
    apply Nat.mul_le_mul_left
    unfold sz; omega

/-- The machine on `Good` states: the full product, in order, without divergence. -/
theorem run_eq_product_of_good (states : List State) (hne : states ≠ [])
    (hg : ∀ s ∈ states, Good s) : run states = .ok (product states) := by
  have hg' : ∀ s ∈ states.reverse, Good s := fun s hs => hg s (List.mem_reverse.mp hs)
  have hprod : product states = (allC states.reverse).map (fun c => mctx c []) := by
    rw [product_eq_Gp]
    have := Gp_reverse states.reverse hg' [[]]
    rw [List.reverse_reverse] at this
    rw [this]
    simp only [List.map_cons, List.map_nil, pctx_eq_mctx]
    induction allC states.reverse with
    | nil => rfl
    | cons x xs ih => simp [ih]
  have hlen : (afterC (zeros states.reverse)).length < fuelFor states := by
    have h1 := fuel_le states hg 1
    have h2 : (product states).length = (afterC (zeros states.reverse)).length + 1 := by
      rw [hprod, allC_eq]; simp
    unfold fuelFor
    omega
  have hne' : zeros states.reverse ≠ [] := by
    cases h : states.reverse with
    | nil => exact absurd (List.reverse_eq_nil_iff.mp h) hne
    | cons _ _ => simp [zeros]
  have hemp : states.isEmpty = false := by
    cases states with
    | nil => exact absurd rfl hne
    | cons _ _ => rfl
  unfold run
  rw [hemp]
  simp only [Bool.false_eq_true, if_false]
  have := loop_spec (fuelFor states) (zeros states.reverse) [] [] (VC_zeros _ hg') hne'
    Ctx.WF_nil (fun _ _ => rfl) hlen
  rw [inst_zeros _ hg'] at this
  rw [this, hprod, allC_eq]
  simp

/-! ### States as the evaluator creates them -/

/-- A state exactly as `add_list` / `add_range` create it, with a non-empty domain:
a non-empty list (a `Vec` has at most `isize::MAX` elements), or a range between two
`isize` values. -/
inductive Fresh : State → Prop
  | list (n : String) (vs : List Value) :
      vs ≠ [] → (vs.length : Int) - 1 ≤ i64Max → Fresh (mkList n vs)
  | range (n : String) (a b : Int) :
      i64Min ≤ a → a ≤ i64Max → i64Min ≤ b → b ≤ i64Max → Fresh (mkRange n a b)

theorem good_of_fresh (st : State) (h : Fresh st) : Good st := by
  cases h with
  | list n vs hne hlen =>
    have hpos : 0 < vs.length := List.length_pos_iff.mpr hne
    have hmin : i64Min ≤ 0 := by unfold i64Min; omega
    have hmax : (0 : Int) ≤ i64Max := by unfold i64Max; omega
    refine ⟨?_, ?_, ?_, ?_, ?_, ?_, ?_⟩ <;> simp only [mkList]
    · left; exact ⟨trivial, by omega⟩
    · exact hmin
    · exact hmax
    · omega
    · exact hlen
    · intro _; simp
  | range n a b h1 h2 h3 h4 =>
    refine ⟨?_, ?_, ?_, ?_, ?_, ?_, ?_⟩ <;> simp only [mkRange]
    · by_cases h : a ≤ b
      · rw [if_pos h]; left; exact ⟨rfl, h⟩
      · rw [if_neg h]; right; exact ⟨rfl, by omega⟩
    · exact h1
    · exact h2
    · exact h3
    · exact h4
    · intro h; cases h

/-! ### `productOuterWins`, sizes -/

theorem contains_productOuterWins (states : List State) (c : Ctx) (k : String)
    (hc : c ∈ productOuterWins states) (hk : Ctx.contains c k = true) :
    k ∈ states.map (fun s => s.name) := by
  induction states generalizing c with
  | nil =>
    simp only [productOuterWins, List.mem_singleton] at hc
    subst hc
    simp [Ctx.contains, Ctx.get] at hk
  | cons st rest ih =>
    simp only [productOuterWins, List.mem_flatMap, List.mem_map] at hc
    obtain ⟨v, _, c0, hc0, rfl⟩ := hc
    simp only [Ctx.contains, Ctx.get_set] at hk
    by_cases h : st.name = k
    · simp [h]
    · rw [if_neg h] at hk
      simp only [List.map_cons, List.mem_cons]
      exact Or.inr (ih c0 hc0 hk)

theorem flatMap_congr_mem {α β : Type} (l : List α) (f g : α → List β)
    (h : ∀ x ∈ l, f x = g x) : l.flatMap f = l.flatMap g := by
  induction l with
  | nil => rfl
  | cons x xs ih =>
    rw [List.flatMap_cons, List.flatMap_cons, h x List.mem_cons_self,
      ih (fun y hy => h y (List.mem_cons_of_mem _ hy))]

theorem foldl_mul (l : List Nat) (a : Nat) : l.foldl (· * ·) a = a * l.foldl (· * ·) 1 := by
  induction l generalizing a with
  | nil => simp
  | cons x xs ih => rw [List.foldl_cons, List.foldl_cons, ih, ih (1 * x), Nat.one_mul, Nat.mul_assoc]

/-- stable insertion leaves a strictly increasing list unchanged -/
theorem insert_sorted {α : Type} (ins : Nat × α → List (Nat × α) → List (Nat × α))
    (hnil : ∀ x, ins x [] = [x])
    (hcons : ∀ x y ys, ins x (y :: ys) = if x.1 < y.1 then x :: y :: ys else y :: ins x ys)
    (ts : List (Nat × α)) (h : ts.Pairwise (fun x y => x.1 < y.1)) : ts.foldr ins [] = ts := by
  induction ts with
  | nil => rfl
  | cons t rest ih =>
    rw [List.pairwise_cons] at h
    rw [List.foldr_cons, ih h.2]
    cases rest with
    | nil => exact hnil t
    | cons y ys => rw [hcons, if_pos (h.1 y List.mem_cons_self)]

end Iter
end Dmn
