import Dmn.Lemmas.CanvasDrawn

/-!
# The characters of the canvas of a drawn sheet

`SheetFits`: the drawing is a legal one (no text contains a box-drawing character; the
information item box ends over a single-line position of the top border).  Under it: the width
of the canvas, and what the text layer holds at the vertices, on the segments, at the separators
and inside the cells of the body, and in the lines of the information item box.
-/

namespace Dmn.Recog
open Scan (ok error)

/-- the drawing of the sheet is a legal one -/
structure SheetFits (s : Sheet) (name : Option Text) (boxRight : Nat) : Prop where
  /-- no text contains a box-drawing character -/
  texts : ∀ k, ∀ ch ∈ s.text k, plain ch = true
  /-- the name contains none either; the information item box has an interior, is not wider
  than the body, and its right edge does not meet a double line -/
  box : ∀ nm, name = some nm → (∀ ch ∈ nm, plain ch = true) ∧ 2 ≤ boxRight ∧
    boxRight ≤ s.xPos s.ncols ∧ (∀ bc, bc ≤ s.ncols → s.vDbl bc = true → boxRight ≠ s.xPos bc)
  rows : 0 < s.nrows
  cols : 0 < s.ncols

/-! ## The characters of slices -/

theorem splitLines_go_mem : ∀ (t cur : Text) (acc : List Text) (src : Text),
    (∀ ch ∈ t, ch ∈ src) → (∀ ch ∈ cur, ch ∈ src) → (∀ l ∈ acc, ∀ ch ∈ l, ch ∈ src) →
    ∀ l ∈ splitLines.go t cur acc, ∀ ch ∈ l, ch ∈ src
  | [], cur, acc, src, _, hc, ha => by
    intro l hl
    simp only [splitLines.go, List.reverse_cons, List.mem_append, List.mem_reverse,
      List.mem_singleton] at hl
    rcases hl with hl | hl
    · exact ha l hl
    · subst hl; intro ch hch; exact hc ch (by simpa using hch)
  | c :: cs, cur, acc, src, ht, hc, ha => by
    simp only [splitLines.go]
    split
    · refine splitLines_go_mem cs [] _ src (fun ch h => ht ch (by simp [h])) (by simp) ?_
      intro l hl
      rcases List.mem_cons.mp hl with rfl | hl
      · intro ch hch; exact hc ch (by simpa using hch)
      · exact ha l hl
    · refine splitLines_go_mem cs (c :: cur) acc src (fun ch h => ht ch (by simp [h])) ?_ ha
      intro ch hch
      rcases List.mem_cons.mp hch with rfl | hch
      · exact ht _ (by simp)
      · exact hc ch hch

theorem splitLines_mem (t : Text) : ∀ l ∈ splitLines t, ∀ ch ∈ l, ch ∈ t :=
  splitLines_go_mem t [] [] t (fun _ h => h) (by simp) (by simp)

theorem slice_mem (lines : List Text) (y x len : Nat) (ch : Char) (h : ch ∈ slice lines y x len) :
    ch = ' ' ∨ ∃ l ∈ lines, ch ∈ l := by
  unfold slice padTo at h
  rcases List.mem_append.mp h with h | h
  · right
    have h1 := List.mem_of_mem_drop (List.mem_of_mem_take h)
    rw [List.getD_eq_getElem?_getD] at h1
    cases hy : lines[y]? with
    | none => rw [hy] at h1; simp at h1
    | some l => rw [hy] at h1; exact ⟨l, List.mem_of_getElem? hy, h1⟩
  · left; exact List.eq_of_mem_replicate h

theorem Sheet.slice_plain (s : Sheet) (htexts : ∀ k, ∀ ch ∈ s.text k, plain ch = true)
    (r c y x len : Nat) (ch : Char) (h : ch ∈ slice (s.linesAt r c) y x len) : plain ch = true := by
  rcases slice_mem _ _ _ _ _ h with rfl | ⟨l, hl, hch⟩
  · decide
  · exact htexts _ ch (splitLines_mem _ l hl ch hch)

theorem getElem?_mem' {α : Type} {l : List α} {i : Nat} {a : α} (h : l[i]? = some a) : a ∈ l :=
  List.mem_of_getElem? h

/-! ## Vertices -/

/-- the character at the vertex of boundary row `br` and boundary column `bc` -/
def Sheet.vch (s : Sheet) (br bc : Nat) : Char := (s.vertex br bc).headD ' '

theorem Sheet.vertex_eq (s : Sheet) (br bc : Nat) : s.vertex br bc = [s.vch br bc] := by
  have := s.vertex_length br bc
  unfold Sheet.vch
  match hv : s.vertex br bc with
  | [] => rw [hv] at this; simp at this
  | [a] => rfl
  | a :: b :: rest => rw [hv] at this; simp at this

/-! ## The width of the canvas -/

theorem render_line_length (s : Sheet) (l : Text) (h : l ∈ s.render) :
    l.length = s.xPos s.ncols + 1 := by
  rw [Sheet.render_eq] at h
  rcases List.mem_append.mp h with h | h
  · obtain ⟨r, _, h⟩ := List.mem_flatMap.mp h
    rcases List.mem_cons.mp h with rfl | h
    · exact s.borderLine_length r
    · obtain ⟨i, _, rfl⟩ := List.mem_map.mp h
      exact s.textLine_length r i
  · rw [List.mem_singleton.mp h]; exact s.borderLine_length _

theorem firstLine_length (s : Sheet) (name : Option Text) (boxRight : Nat) :
    (firstLine s name boxRight).length = s.xPos s.ncols + 1 := by
  cases name with
  | none => exact s.borderLine_length 0
  | some nm => simp [firstLine, s.borderLine_length 0]

theorem maxLen_drawSheet (s : Sheet) (name : Option Text) (boxRight : Nat)
    (hf : SheetFits s name boxRight) :
    maxLen (drawSheet s name boxRight) = s.xPos s.ncols + 1 := by
  apply Nat.le_antisymm
  · refine maxLenFrom_le _ 0 _ ?_ (by omega)
    intro l hl
    obtain ⟨rest, hr⟩ := render_cons s
    have hrest : ∀ l ∈ rest, l.length = s.xPos s.ncols + 1 := fun l hl =>
      render_line_length s l (by rw [hr]; simp [hl])
    cases name with
    | none =>
      simp only [drawSheet] at hl
      rw [render_line_length s l hl]; exact Nat.le_refl _
    | some nm =>
      obtain ⟨_, h2, h3, _⟩ := hf.box nm rfl
      simp only [drawSheet, hr] at hl
      rcases List.mem_cons.mp hl with rfl | hl
      · simp; omega
      · rcases List.mem_append.mp hl with hl | hl
        · obtain ⟨x, _, rfl⟩ := List.mem_map.mp hl
          simp [padTo_length]; omega
        · rcases List.mem_cons.mp hl with rfl | hl
          · simp [s.borderLine_length 0]
          · rw [hrest l hl]; exact Nat.le_refl _
  · have hlast : (drawSheet s name boxRight)[boxLines name + s.yPos s.nrows]? =
        some (s.borderLine s.nrows) := by
      have hpos : 0 < s.yPos s.nrows := by
        rw [Sheet.yPos_eq]
        have := sumTo_mono (fun r => s.h r + 1) (show 0 + 1 ≤ s.nrows from hf.rows)
        rw [sumTo_succ] at this
        omega
      rw [drawSheet_body s name boxRight _ hpos]
      exact s.render_border s.nrows (Nat.le_refl _)
    have := length_le_maxLenFrom (drawSheet s name boxRight) 0 _ (List.mem_of_getElem? hlast)
    rw [s.borderLine_length] at this
    exact this

/-! ## The text layer of the canvas of a drawn sheet -/

/-- the canvas of the drawing of a sheet -/
def sheetCanvas (s : Sheet) (name : Option Text) (boxRight : Nat) : Content :=
  canvasOf (drawSheet s name boxRight)

theorem sheetCanvas_shape (s : Sheet) (name : Option Text) (boxRight : Nat)
    (hf : SheetFits s name boxRight) :
    Shape (sheetCanvas s name boxRight) (boxLines name + s.yPos s.nrows + 2) (s.xPos s.ncols + 1) := by
  have := canvasOf_shape (drawSheet s name boxRight)
  rw [maxLen_drawSheet s name boxRight hf, drawSheet_length] at this
  exact this

/-- the text layer in a line of the body after the first: the character of the rendered sheet -/
theorem sheetCanvas_body (s : Sheet) (name : Option Text) (boxRight : Nat)
    (hf : SheetFits s name boxRight) (j x : Nat) (hj : 0 < j) (hj' : j ≤ s.yPos s.nrows)
    (hx : x < s.xPos s.ncols + 1) (line : Text) (hl : s.render[j]? = some line) :
    chOf (sheetCanvas s name boxRight) .text (boxLines name + j) x = line.getD x charOuter := by
  unfold sheetCanvas
  rw [canvasOf_text _ _ _ (by rw [drawSheet_length]; omega)
    (by rw [maxLen_drawSheet s name boxRight hf]; exact hx)]
  unfold lineCh
  rw [List.getD_eq_getElem?_getD (l := drawSheet s name boxRight), drawSheet_body s name boxRight j hj, hl]
  rfl

theorem sheetCanvas_first (s : Sheet) (name : Option Text) (boxRight : Nat)
    (hf : SheetFits s name boxRight) (x : Nat) (hx : x < s.xPos s.ncols + 1) :
    chOf (sheetCanvas s name boxRight) .text (boxLines name) x =
      (firstLine s name boxRight).getD x charOuter := by
  unfold sheetCanvas
  rw [canvasOf_text _ _ _ (by rw [drawSheet_length]; omega)
    (by rw [maxLen_drawSheet s name boxRight hf]; exact hx)]
  unfold lineCh
  rw [List.getD_eq_getElem?_getD (l := drawSheet s name boxRight), drawSheet_first]
  rfl

theorem yPos_pos (s : Sheet) {br : Nat} (h : 0 < br) : 0 < s.yPos br := by
  rw [Sheet.yPos_eq]
  have := sumTo_mono (fun r => s.h r + 1) (show 0 + 1 ≤ br from h)
  rw [sumTo_succ] at this
  omega

theorem yPos_le (s : Sheet) {br : Nat} (h : br ≤ s.nrows) : s.yPos br ≤ s.yPos s.nrows := by
  rw [Sheet.yPos_eq, Sheet.yPos_eq]; exact sumTo_mono _ h

theorem xPos_le (s : Sheet) {bc : Nat} (h : bc ≤ s.ncols) : s.xPos bc ≤ s.xPos s.ncols := by
  rw [Sheet.xPos_eq, Sheet.xPos_eq]; exact sumTo_mono _ h

theorem yPos_lt (s : Sheet) {a b : Nat} (h : a < b) : s.yPos a + s.h a + 1 ≤ s.yPos b := by
  rw [Sheet.yPos_eq, Sheet.yPos_eq]
  have := sumTo_mono (fun r => s.h r + 1) (show a + 1 ≤ b from h)
  rw [sumTo_succ] at this
  omega

theorem xPos_lt (s : Sheet) {a b : Nat} (h : a < b) : s.xPos a + s.w a + 1 ≤ s.xPos b := by
  rw [Sheet.xPos_eq, Sheet.xPos_eq]
  have := sumTo_mono (fun c => s.w c + 1) (show a + 1 ≤ b from h)
  rw [sumTo_succ] at this
  omega

/-- **vertices of the body** (below the top border) -/
theorem sheetCanvas_vertex (s : Sheet) (name : Option Text) (boxRight : Nat)
    (hf : SheetFits s name boxRight) (br bc : Nat) (hbr : 0 < br) (hbr' : br ≤ s.nrows)
    (hbc : bc ≤ s.ncols) :
    chOf (sheetCanvas s name boxRight) .text (boxLines name + s.yPos br) (s.xPos bc) = s.vch br bc := by
  rw [sheetCanvas_body s name boxRight hf _ _ (yPos_pos s hbr) (yPos_le s hbr')
    (by have := xPos_le s hbc; omega) _ (s.render_border br hbr')]
  rw [List.getD_eq_getElem?_getD, s.borderLine_vertex br bc hbc, s.vertex_eq]
  rfl

/-- **segments of the body** (below the top border) -/
theorem sheetCanvas_hseg (s : Sheet) (name : Option Text) (boxRight : Nat)
    (hf : SheetFits s name boxRight) (br c i : Nat) (hbr : 0 < br) (hbr' : br ≤ s.nrows)
    (hc : c < s.ncols) (hi : i < s.w c) :
    (s.hSeg br c = true → chOf (sheetCanvas s name boxRight) .text (boxLines name + s.yPos br)
      (s.xPos c + (1 + i)) = (if s.hDbl br then '═' else '─')) ∧
    (s.hSeg br c = false → plain (chOf (sheetCanvas s name boxRight) .text
      (boxLines name + s.yPos br) (s.xPos c + (1 + i))) = true) := by
  have hx : s.xPos c + (1 + i) < s.xPos s.ncols + 1 := by
    have := xPos_lt s hc; have := xPos_le s (show c + 1 ≤ s.ncols from hc)
    have := xPos_lt s (show c < c + 1 by omega)
    omega
  rw [sheetCanvas_body s name boxRight hf _ _ (yPos_pos s hbr) (yPos_le s hbr') hx _
    (s.render_border br hbr')]
  rw [List.getD_eq_getElem?_getD, s.borderLine_seg br c i hc hi]
  constructor
  · intro h; rw [if_pos h]; rfl
  · intro h
    rw [if_neg (by rw [h]; decide)]
    have hlen := slice_length (s.linesAt br c) (s.yOff br c - 1) (s.xOff br c) (s.w c)
    rw [List.getElem?_eq_getElem (by omega)]
    exact s.slice_plain hf.texts _ _ _ _ _ _ (List.getElem_mem _)

/-- **separators and cells of the text lines** -/
theorem sheetCanvas_sep (s : Sheet) (name : Option Text) (boxRight : Nat)
    (hf : SheetFits s name boxRight) (r l c : Nat) (hr : r < s.nrows) (hl : l < s.h r)
    (hc : c ≤ s.ncols) :
    ((c = s.ncols ∨ s.vSeg r c = true) → chOf (sheetCanvas s name boxRight) .text
      (boxLines name + (s.yPos r + (1 + l))) (s.xPos c) = (if s.vDbl c then '║' else '│')) ∧
    (c ≠ s.ncols → s.vSeg r c = false → plain (chOf (sheetCanvas s name boxRight) .text
      (boxLines name + (s.yPos r + (1 + l))) (s.xPos c)) = true) := by
  have hy : s.yPos r + (1 + l) ≤ s.yPos s.nrows := by
    have := yPos_lt s (show r < r + 1 by omega); have := yPos_le s (show r + 1 ≤ s.nrows from hr); omega
  rw [sheetCanvas_body s name boxRight hf _ _ (by omega) hy (by have := xPos_le s hc; omega) _
    (s.render_text r l hr hl)]
  rw [List.getD_eq_getElem?_getD, s.textLine_sep r l c hc]
  constructor
  · intro h
    rcases h with rfl | h
    · rw [if_pos rfl]; rfl
    · split
      · rename_i h'; rw [h']; rfl
      · first | rfl | (rw [if_pos h]; rfl)
  · intro h1 h2
    rw [if_neg h1, if_neg (by rw [h2]; decide)]
    have hlen := slice_length (s.linesAt r c) (s.yOff r c + l) (s.xOff r c - 1) 1
    rw [List.getElem?_eq_getElem (by omega)]
    exact s.slice_plain hf.texts _ _ _ _ _ _ (List.getElem_mem _)

theorem sheetCanvas_cell (s : Sheet) (name : Option Text) (boxRight : Nat)
    (hf : SheetFits s name boxRight) (r l c i : Nat) (hr : r < s.nrows) (hl : l < s.h r)
    (hc : c < s.ncols) (hi : i < s.w c) :
    plain (chOf (sheetCanvas s name boxRight) .text
      (boxLines name + (s.yPos r + (1 + l))) (s.xPos c + (1 + i))) = true := by
  have hy : s.yPos r + (1 + l) ≤ s.yPos s.nrows := by
    have := yPos_lt s (show r < r + 1 by omega); have := yPos_le s (show r + 1 ≤ s.nrows from hr); omega
  have hx : s.xPos c + (1 + i) < s.xPos s.ncols + 1 := by
    have := xPos_le s (show c + 1 ≤ s.ncols from hc)
    have := xPos_lt s (show c < c + 1 by omega)
    omega
  rw [sheetCanvas_body s name boxRight hf _ _ (by omega) hy hx _ (s.render_text r l hr hl)]
  rw [List.getD_eq_getElem?_getD, s.textLine_cell r l c i hc hi]
  have hlen := slice_length (s.linesAt r c) (s.yOff r c + l) (s.xOff r c) (s.w c)
  rw [List.getElem?_eq_getElem (by omega)]
  exact s.slice_plain hf.texts _ _ _ _ _ _ (List.getElem_mem _)

end Dmn.Recog
