import Dmn.Lemmas.PlanePivot

/-!
# No index panic on planes of the scanner's shape
-/

namespace Dmn.Recog
open Outcome (ok error)

/-- the outcome is not a panic -/
def NP {α : Type} (o : Outcome α) : Prop := ∀ s, o ≠ .panic s

theorem NP_ok {α : Type} (a : α) : NP (ok a) := fun _ h => by cases h
theorem NP_error {α : Type} (e : Err) : NP (error e : Outcome α) := fun _ h => by cases h

theorem NP_bind {α β : Type} {x : Outcome α} {f : α → Outcome β} (hx : NP x)
    (hf : ∀ a, x = ok a → NP (f a)) : NP (x >>= f) := by
  cases x with
  | ok a => exact hf a rfl
  | error e => exact NP_error e
  | panic s => exact absurd rfl (hx s)

theorem bind_ok_inv {α β : Type} {x : Outcome α} {f : α → Outcome β} {b : β}
    (h : (x >>= f) = ok b) : ∃ a, x = ok a ∧ f a = ok b := by
  cases x with
  | ok a => exact ⟨a, rfl, h⟩
  | error e => cases h
  | panic s => cases h

theorem NP_iff_isPanic {α : Type} (o : Outcome α) : NP o ↔ o.isPanic = false := by
  cases o with
  | ok a => simp [NP, Outcome.isPanic]
  | error e => simp [NP, Outcome.isPanic]
  | panic s => simp [NP, Outcome.isPanic]

theorem NP_mapM {α β : Type} {f : α → Outcome β} : ∀ (xs : List α), (∀ a ∈ xs, NP (f a)) →
    NP (Outcome.mapM f xs)
  | [], _ => NP_ok _
  | x :: xs, h => by
    have h1 := h x (by simp)
    have h2 := NP_mapM xs (fun a ha => h a (by simp [ha]))
    simp only [Outcome.mapM]
    cases hx : f x with
    | ok b =>
      cases hxs : Outcome.mapM f xs with
      | ok bs => exact NP_ok _
      | error e => exact NP_error e
      | panic s => exact absurd hxs (h2 s)
    | error e => exact NP_error e
    | panic s => exact absurd hx (h1 s)

theorem mapM_length {α β : Type} {f : α → Outcome β} : ∀ (xs : List α) (ys : List β),
    Outcome.mapM f xs = ok ys → ys.length = xs.length
  | [], ys, h => by simp [Outcome.mapM] at h; subst h; rfl
  | x :: xs, ys, h => by
    simp only [Outcome.mapM] at h
    cases hx : f x with
    | ok b =>
      rw [hx] at h
      cases hxs : Outcome.mapM f xs with
      | ok bs =>
        rw [hxs] at h
        simp only [Outcome.ok.injEq] at h
        subst h
        simp [mapM_length xs bs hxs]
      | error e => rw [hxs] at h; cases h
      | panic s => rw [hxs] at h; cases h
    | error e => rw [hx] at h; cases h
    | panic s => rw [hx] at h; cases h

/-! ## Lookups and comparisons never panic -/

theorem NP_cell (P : Plane) (row col : Nat) : NP (P.cell row col) := by
  unfold Plane.cell
  split
  · exact NP_error _
  · split
    · exact NP_error _
    · split
      · exact NP_error _
      · exact NP_ok _

theorem NP_regionText (P : Plane) (row col : Nat) : NP (P.regionText row col) := by
  unfold Plane.regionText
  have := NP_cell P row col
  split
  · exact NP_ok _
  · exact NP_error _
  · exact NP_error _
  · rename_i s h; exact absurd h (this s)

theorem NP_regionNumber (P : Plane) (row col : Nat) : NP (P.regionNumber row col) := by
  unfold Plane.regionNumber
  have := NP_cell P row col
  split
  · exact NP_ok _
  · exact NP_error _
  · exact NP_error _
  · rename_i s h; exact absurd h (this s)

theorem NP_rowTexts (P : Plane) (row l r : Nat) : NP (P.rowTexts row l r) :=
  NP_mapM _ (fun _ _ => NP_regionText P _ _)

theorem NP_rectTexts (P : Plane) (r : Rect) : NP (P.rectTexts r) :=
  NP_mapM _ (fun _ _ => NP_rowTexts P _ _ _)

theorem NP_equalRegionsLoop (P : Plane) (n : Nat) : ∀ cs, NP (P.equalRegionsLoop n cs)
  | [] => NP_ok _
  | (row, col) :: rest => by
    unfold Plane.equalRegionsLoop
    have := NP_regionNumber P row col
    split
    · split
      · exact NP_ok _
      · exact NP_equalRegionsLoop P n rest
    · exact NP_error _
    · rename_i s h; exact absurd h (this s)

theorem NP_equalRegions (P : Plane) (r : Rect) : NP (P.equalRegions r) := by
  unfold Plane.equalRegions
  have := NP_regionNumber P r.top r.left
  split
  · exact NP_equalRegionsLoop P _ _
  · exact NP_error _
  · rename_i s h; exact absurd h (this s)

theorem NP_equalColumnsLoop (P : Plane) (rect : Rect) : ∀ xs, NP (P.equalColumnsLoop rect xs)
  | [] => NP_ok _
  | x :: xs => by
    unfold Plane.equalColumnsLoop
    have := NP_equalRegions P ⟨x, rect.top, x + 1, rect.bottom⟩
    split
    · split
      · exact NP_ok _
      · exact NP_equalColumnsLoop P rect xs
    · exact NP_error _
    · rename_i s h; exact absurd h (this s)

theorem NP_uniqueRegionsLoop (P : Plane) : ∀ seen cs, NP (P.uniqueRegionsLoop seen cs)
  | _, [] => NP_ok _
  | seen, (row, col) :: rest => by
    unfold Plane.uniqueRegionsLoop
    have := NP_regionNumber P row col
    split
    · split
      · exact NP_ok _
      · exact NP_uniqueRegionsLoop P _ rest
    · exact NP_error _
    · rename_i s h; exact absurd h (this s)

theorem NP_uniqueColumnsLoop (P : Plane) (rect : Rect) : ∀ xs, NP (P.uniqueColumnsLoop rect xs)
  | [] => NP_ok _
  | x :: xs => by
    unfold Plane.uniqueColumnsLoop
    have : NP (P.uniqueRegions ⟨x, rect.top, x + 1, rect.bottom⟩) := NP_uniqueRegionsLoop P _ _
    split
    · split
      · exact NP_ok _
      · exact NP_uniqueColumnsLoop P rect xs
    · exact NP_error _
    · rename_i s h; exact absurd h (this s)

theorem NP_equalRegionsInColumns (P : Plane) (r : Rect) : NP (P.equalRegionsInColumns r) :=
  NP_equalColumnsLoop P r _

theorem NP_valuesRows (P : Plane) (r : Rect) (h : Nat) : NP (valuesRows P r h) := by
  unfold valuesRows
  split
  · exact NP_ok _
  · exact NP_ok _
  · have := NP_equalRegionsInColumns P ⟨r.left, r.top, r.right, r.top + 2⟩
    split
    · split
      · exact NP_error _
      · exact NP_ok _
    · exact NP_error _
    · rename_i s h; exact absurd h (this s)
  · exact NP_error _

theorem NP_valuesPresentIn (P : Plane) (r : Rect) (vr : Option (Nat × Nat)) :
    NP (valuesPresentIn P r vr) := by
  unfold valuesPresentIn
  split
  · rename_i above last
    have := NP_equalRegionsInColumns P ⟨r.left, above, r.right, last + 1⟩
    split
    · exact NP_ok _
    · exact NP_error _
    · rename_i s h; exact absurd h (this s)
  · exact NP_ok _

theorem NP_inputValuesPresent (P : Plane) (r : Rect) (h : Nat) : NP (inputValuesPresent P r h) := by
  unfold inputValuesPresent
  have := NP_valuesRows P r h
  split
  · exact NP_valuesPresentIn P r _
  · exact NP_error _
  · rename_i s h; exact absurd h (this s)

theorem NP_allowedValuesText (P : Plane) (above row col : Nat) :
    NP (P.allowedValuesText above row col) := by
  unfold Plane.allowedValuesText
  have h1 := NP_regionNumber P row col
  have h2 := NP_regionNumber P above col
  split
  · split
    · split
      · exact NP_ok _
      · exact NP_regionText P _ _
    · exact NP_error _
    · rename_i s h; exact absurd h (h2 s)
  · exact NP_error _
  · rename_i s h; exact absurd h (h1 s)

theorem NP_valuesTexts (P : Plane) (above row l r : Nat) : NP (P.valuesTexts above row l r) :=
  NP_mapM _ (fun _ _ => NP_allowedValuesText P _ _ _)

theorem NP_inputValuesRow (P : Plane) (r : Rect) (b : Bool) (vr : Option (Nat × Nat)) :
    NP (inputValuesRow P r b vr) := by
  unfold inputValuesRow
  split
  · exact NP_valuesTexts P _ _ _ _
  · exact NP_ok _

theorem NP_outputHeaderSingle (P : Plane) (r : Rect) (h : Nat) :
    NP (outputHeaderSingle P r h) := by
  unfold outputHeaderSingle
  split
  · exact NP_bind (NP_regionText P _ _) (fun _ _ => NP_ok _)
  · refine NP_bind (NP_regionText P _ _) (fun _ _ => ?_)
    have := NP_equalRegions P r
    split
    · exact NP_ok _
    · exact NP_bind (NP_regionText P _ _) (fun _ _ => NP_ok _)
    · exact NP_error _
    · rename_i s h; exact absurd h (this s)
  · exact NP_error _

theorem NP_outputHeaderMulti (P : Plane) (r : Rect) (h : Nat) :
    NP (outputHeaderMulti P r h) := by
  unfold outputHeaderMulti
  have := NP_equalRegions P ⟨r.left, r.top, r.right, r.top + 1⟩
  split
  · exact NP_bind (NP_rowTexts P _ _ _) (fun _ _ => NP_ok _)
  · split
    · exact NP_bind (NP_regionText P _ _) (fun _ _ => NP_bind (NP_rowTexts P _ _ _) (fun _ _ => NP_ok _))
    · exact NP_bind (NP_rowTexts P _ _ _) (fun _ _ => NP_bind (NP_valuesTexts P _ _ _ _) (fun _ _ => NP_ok _))
    · exact NP_error _
    · rename_i s h; exact absurd h (this s)
  · split
    · exact NP_bind (NP_regionText P _ _) (fun _ _ =>
        NP_bind (NP_rowTexts P _ _ _) (fun _ _ => NP_bind (NP_valuesTexts P _ _ _ _) (fun _ _ => NP_ok _)))
    · exact NP_error _
    · exact NP_error _
    · rename_i s h; exact absurd h (this s)
  · exact NP_error _

theorem NP_outputHeader (P : Plane) (r : Rect) (w h : Nat) :
    NP (outputHeader P r w h) := by
  unfold outputHeader
  split
  · exact NP_error _
  · exact NP_outputHeaderSingle P r h
  · exact NP_outputHeaderMulti P r h

/-! ## `recognize_horizontal_table` -/

theorem NP_width (r : Rect) : NP r.width := NP_ok _
theorem NP_height (r : Rect) : NP r.height := NP_ok _

theorem NP_mainDoubleCrossing (P : Plane) : NP P.mainDoubleCrossing := by
  unfold Plane.mainDoubleCrossing
  split
  · exact NP_ok _
  · exact NP_error _

/-- `recognize_horizontal_table` does not panic, whatever the plane. -/
theorem NP_recognizeHorizontal (P : Plane) : NP (recognizeHorizontal P) := by
  have hm := NP_mainDoubleCrossing P
  have np1 : NP P.horzInputClauseRect := by
    unfold Plane.horzInputClauseRect
    split
    · exact NP_ok _
    · exact NP_error _
    · rename_i s h; exact absurd h (hm s)
  have np2 : NP P.horzInputEntriesRect := by
    unfold Plane.horzInputEntriesRect
    split
    · exact NP_ok _
    · exact NP_error _
    · rename_i s h; exact absurd h (hm s)
  have np3 : NP P.horzOutputClauseRect := by
    unfold Plane.horzOutputClauseRect
    split
    · split <;> exact NP_ok _
    · exact NP_error _
    · rename_i s h; exact absurd h (hm s)
  have np4 : NP P.horzOutputEntriesRect := by
    unfold Plane.horzOutputEntriesRect
    split
    · split <;> exact NP_ok _
    · exact NP_error _
    · rename_i s h; exact absurd h (hm s)
  have np5 : NP P.horzAnnotationClausesRect := by
    unfold Plane.horzAnnotationClausesRect; split <;> exact NP_ok _
  have np6 : NP P.horzAnnotationEntriesRect := by
    unfold Plane.horzAnnotationEntriesRect; split <;> exact NP_ok _
  unfold recognizeHorizontal
  refine NP_bind np1 (fun r1 _ => ?_)
  refine NP_bind (NP_width _) (fun icc _ => ?_)
  refine NP_bind (NP_height _) (fun h _ => ?_)
  refine NP_bind (NP_valuesRows P _ _) (fun vr _ => ?_)
  refine NP_bind (NP_valuesPresentIn P _ _) (fun ivp _ => ?_)
  refine NP_bind (NP_rowTexts P _ _ _) (fun exprs _ => ?_)
  refine NP_bind (NP_inputValuesRow P _ _ _) (fun ivals _ => ?_)
  refine NP_bind np2 (fun r2 _ => ?_)
  refine NP_bind (NP_rectTexts P _) (fun ients _ => ?_)
  refine NP_bind np3 (fun ro _ => ?_)
  refine NP_bind (NP_width _) (fun occ _ => ?_)
  have hoh : NP (outputClauseHeight ro occ) := by
    unfold outputClauseHeight
    split
    · exact NP_ok _
    · exact NP_height _
  refine NP_bind hoh (fun oh _ => ?_)
  refine NP_bind (NP_outputHeader P _ _ _) (fun out _ => ?_)
  refine NP_bind np4 (fun r4 _ => ?_)
  refine NP_bind (NP_rectTexts P _) (fun oents _ => ?_)
  refine NP_bind np5 (fun ra _ => ?_)
  refine NP_bind (NP_width _) (fun acc _ => ?_)
  refine NP_bind (NP_rowTexts P _ _ _) (fun anns _ => ?_)
  refine NP_bind np6 (fun r6 _ => ?_)
  refine NP_bind (NP_rectTexts P _) (fun aents _ => ?_)
  exact NP_ok _

/-- the annotation names are as many as the annotation clause count -/
theorem recognizeHorizontal_anns {P : Plane} {h : Horz} (hh : recognizeHorizontal P = ok h) :
    h.annotations.length = h.annotationClauseCount := by
  unfold recognizeHorizontal at hh
  obtain ⟨r1, _, hh⟩ := bind_ok_inv hh
  obtain ⟨icc, _, hh⟩ := bind_ok_inv hh
  obtain ⟨hgt, _, hh⟩ := bind_ok_inv hh
  obtain ⟨vr, _, hh⟩ := bind_ok_inv hh
  obtain ⟨ivp, _, hh⟩ := bind_ok_inv hh
  obtain ⟨exprs, _, hh⟩ := bind_ok_inv hh
  obtain ⟨ivals, _, hh⟩ := bind_ok_inv hh
  obtain ⟨r2, _, hh⟩ := bind_ok_inv hh
  obtain ⟨ients, _, hh⟩ := bind_ok_inv hh
  obtain ⟨ro, _, hh⟩ := bind_ok_inv hh
  obtain ⟨occ, _, hh⟩ := bind_ok_inv hh
  obtain ⟨oh, _, hh⟩ := bind_ok_inv hh
  obtain ⟨out, _, hh⟩ := bind_ok_inv hh
  obtain ⟨r4, _, hh⟩ := bind_ok_inv hh
  obtain ⟨oents, _, hh⟩ := bind_ok_inv hh
  obtain ⟨ra, _, hh⟩ := bind_ok_inv hh
  obtain ⟨acc, hacc, hh⟩ := bind_ok_inv hh
  obtain ⟨anns, hanns, hh⟩ := bind_ok_inv hh
  obtain ⟨r6, _, hh⟩ := bind_ok_inv hh
  obtain ⟨aents, _, hh⟩ := bind_ok_inv hh
  simp only [Outcome.ok.injEq] at hh
  subst hh
  have hl := mapM_length _ _ hanns
  simp only [List.length_range'] at hl
  unfold Rect.width at hacc
  simp only [Outcome.ok.injEq] at hacc
  simp only [hl, hacc]

/-! ## `build` -/

theorem NP_idx {α : Type} {xs : List α} {i : Nat} (h : i < xs.length) : NP (idx xs i) := by
  simp [idx, List.getElem?_eq_getElem h]; exact NP_ok _

theorem NP_optAt {xs : List Text} {i : Nat} (h : xs.length > 0 → i < xs.length) : NP (optAt xs i) := by
  unfold optAt
  split
  · rename_i hpos
    have := NP_idx (h hpos)
    split
    · exact NP_ok _
    · exact NP_error _
    · rename_i s hs; exact absurd hs (this s)
  · exact NP_ok _

theorem NP_optValueAt {xs : List Text} {i : Nat} (h : xs.length > 0 → i < xs.length) :
    NP (optValueAt xs i) := by
  unfold optValueAt
  split
  · rename_i hpos
    have := NP_idx (h hpos)
    split
    · exact NP_ok _
    · exact NP_error _
    · rename_i s hs; exact absurd hs (this s)
  · exact NP_ok _

structure SizeOk (o : Oriented) (h : Horz) : Prop where
  f2 : h.inputExpressions.length = h.inputClauseCount
  f3 : h.inputValues.length > 0 → h.inputValues.length = h.inputClauseCount
  f5 : h.outputClauseCount > 1 → h.outputComponents.length = h.outputClauseCount
  f6 : ¬ h.outputClauseCount > 1 → h.outputComponents.length = 0
  f7 : h.outputValues.length > 0 → h.outputValues.length = h.outputClauseCount
  f9 : h.inputEntries.length = o.ruleCount
  f10 : ∀ row ∈ h.inputEntries, row.length = h.inputClauseCount
  f11 : h.outputEntries.length = o.ruleCount
  f12 : ∀ row ∈ h.outputEntries, row.length = h.outputClauseCount
  f13 : h.annotationClauseCount > 0 → h.annotationEntries.length = o.ruleCount
  f14 : h.annotationClauseCount > 0 → ∀ row ∈ h.annotationEntries, row.length = h.annotationClauseCount

theorem all_of_not_any {l : List (List Text)} {n : Nat}
    (h : ¬ (l.any (fun row => decide (row.length ≠ n)) = true)) : ∀ row ∈ l, row.length = n := by
  intro row hrow
  apply Decidable.byContradiction
  intro hne
  exact h (List.any_eq_true.mpr ⟨row, hrow, by simpa using hne⟩)

theorem validateSize_inv {o : Oriented} {h : Horz} (hv : validateSize o h = ok ()) : SizeOk o h := by
  unfold validateSize at hv
  by_cases c1 : h.inputClauseCount = 0
  · rw [if_pos c1] at hv; cases hv
  rw [if_neg c1] at hv
  by_cases c2 : h.inputExpressions.length ≠ h.inputClauseCount
  · rw [if_pos c2] at hv; cases hv
  rw [if_neg c2] at hv
  by_cases c3 : h.inputValues.length > 0 ∧ h.inputValues.length ≠ h.inputClauseCount
  · rw [if_pos c3] at hv; cases hv
  rw [if_neg c3] at hv
  by_cases c4 : h.outputClauseCount = 0
  · rw [if_pos c4] at hv; cases hv
  rw [if_neg c4] at hv
  by_cases c5 : h.outputClauseCount > 1 ∧ h.outputComponents.length ≠ h.outputClauseCount
  · rw [if_pos c5] at hv; cases hv
  rw [if_neg c5] at hv
  by_cases c6 : ¬ h.outputClauseCount > 1 ∧ h.outputComponents.length ≠ 0
  · rw [if_pos c6] at hv; cases hv
  rw [if_neg c6] at hv
  by_cases c7 : h.outputValues.length > 0 ∧ h.outputValues.length ≠ h.outputClauseCount
  · rw [if_pos c7] at hv; cases hv
  rw [if_neg c7] at hv
  by_cases c8 : o.ruleCount = 0
  · rw [if_pos c8] at hv; cases hv
  rw [if_neg c8] at hv
  by_cases c9 : h.inputEntries.length ≠ o.ruleCount
  · rw [if_pos c9] at hv; cases hv
  rw [if_neg c9] at hv
  by_cases c10 : h.inputEntries.any (fun row => row.length ≠ h.inputClauseCount) = true
  · rw [if_pos c10] at hv; cases hv
  rw [if_neg c10] at hv
  by_cases c11 : h.outputEntries.length ≠ o.ruleCount
  · rw [if_pos c11] at hv; cases hv
  rw [if_neg c11] at hv
  by_cases c12 : h.outputEntries.any (fun row => row.length ≠ h.outputClauseCount) = true
  · rw [if_pos c12] at hv; cases hv
  rw [if_neg c12] at hv
  by_cases c13 : h.annotationClauseCount > 0 ∧ h.annotationEntries.length ≠ o.ruleCount
  · rw [if_pos c13] at hv; cases hv
  rw [if_neg c13] at hv
  by_cases c14 : h.annotationClauseCount > 0 ∧
      h.annotationEntries.any (fun row => row.length ≠ h.annotationClauseCount) = true
  · rw [if_pos c14] at hv; cases hv
  refine ⟨Decidable.not_not.mp c2, fun hp => Decidable.byContradiction fun hn => c3 ⟨hp, hn⟩,
    fun hp => Decidable.byContradiction fun hn => c5 ⟨hp, hn⟩,
    fun hp => Decidable.byContradiction fun hn => c6 ⟨hp, hn⟩,
    fun hp => Decidable.byContradiction fun hn => c7 ⟨hp, hn⟩,
    Decidable.not_not.mp c9, all_of_not_any c10, Decidable.not_not.mp c11, all_of_not_any c12,
    fun hp => Decidable.byContradiction fun hn => c13 ⟨hp, hn⟩,
    fun hp => all_of_not_any (fun hany => c14 ⟨hp, hany⟩)⟩

theorem NP_ite {α : Type} {c : Prop} [Decidable c] {a b : Outcome α} (ha : NP a) (hb : NP b) :
    NP (if c then a else b) := by
  split <;> assumption

theorem NP_validateSize (o : Oriented) (h : Horz) : NP (validateSize o h) := by
  unfold validateSize
  repeat (first | exact NP_error _ | exact NP_ok _ | apply NP_ite)

theorem mem_range'_lt {s n i : Nat} (h : i ∈ List.range' s n) : s ≤ i ∧ i < s + n := by
  simp [List.mem_range'] at h
  omega

theorem NP_buildRule {o : Oriented} {h : Horz} (hs : SizeOk o h) {i : Nat} (hi : i < o.ruleCount) :
    NP (buildRule h i) := by
  unfold buildRule
  have hi1 : i < h.inputEntries.length := by rw [hs.f9]; exact hi
  have hi2 : i < h.outputEntries.length := by rw [hs.f11]; exact hi
  refine NP_bind (NP_mapM _ (fun c hc => ?_)) (fun ins _ => ?_)
  · have hc' := (mem_range'_lt hc).2
    simp only [idx, List.getElem?_eq_getElem hi1, Outcome.ok_bind]
    have hrow := hs.f10 _ (List.getElem_mem hi1)
    have hlt : c < h.inputEntries[i].length := by rw [hrow]; omega
    rw [List.getElem?_eq_getElem hlt]
    exact NP_ok _
  refine NP_bind (NP_mapM _ (fun c hc => ?_)) (fun outs _ => ?_)
  · have hc' := (mem_range'_lt hc).2
    simp only [idx, List.getElem?_eq_getElem hi2, Outcome.ok_bind]
    have hrow := hs.f12 _ (List.getElem_mem hi2)
    have hlt : c < h.outputEntries[i].length := by rw [hrow]; omega
    rw [List.getElem?_eq_getElem hlt]
    exact NP_ok _
  refine NP_bind (NP_mapM _ (fun c hc => ?_)) (fun anns _ => NP_ok _)
  · have hc' := (mem_range'_lt hc).2
    have hpos : h.annotationClauseCount > 0 := by omega
    have hi3 : i < h.annotationEntries.length := by rw [hs.f13 hpos]; exact hi
    simp only [idx, List.getElem?_eq_getElem hi3, Outcome.ok_bind]
    have hrow := hs.f14 hpos _ (List.getElem_mem hi3)
    have hlt : c < h.annotationEntries[i].length := by rw [hrow]; omega
    rw [List.getElem?_eq_getElem hlt]
    exact NP_ok _

theorem NP_buildTable (r : Recognized)
    (hann : r.horz.annotations.length = r.horz.annotationClauseCount) : NP (buildTable r) := by
  unfold buildTable
  refine NP_bind (NP_validateSize _ _) (fun _ hv => ?_)
  have hs := validateSize_inv hv
  refine NP_bind (NP_mapM _ (fun i hi => ?_)) (fun inputs _ => ?_)
  · have hi' := (mem_range'_lt hi).2
    unfold buildInput
    refine NP_bind (NP_idx (by rw [hs.f2]; omega)) (fun e _ => ?_)
    refine NP_bind (NP_optValueAt (fun hp => by rw [hs.f3 hp]; omega)) (fun v _ => NP_ok _)
  refine NP_bind (NP_mapM _ (fun i hi => ?_)) (fun outputs _ => ?_)
  · have hi' := (mem_range'_lt hi).2
    unfold buildOutput
    refine NP_bind (NP_optAt (fun hp => ?_)) (fun n _ => ?_)
    · by_cases hgt : r.horz.outputClauseCount > 1
      · rw [hs.f5 hgt]; omega
      · have := hs.f6 hgt; omega
    refine NP_bind (NP_optValueAt (fun hp => by rw [hs.f7 hp]; omega)) (fun v _ => NP_ok _)
  refine NP_bind (NP_mapM _ (fun i hi => ?_)) (fun annotations _ => ?_)
  · have hi' := (mem_range'_lt hi).2
    exact NP_idx (by rw [hann]; omega)
  refine NP_bind (NP_mapM _ (fun i hi => ?_)) (fun rules _ => NP_ok _)
  have hi' := (mem_range'_lt hi).2
  exact NP_buildRule hs (by omega)

/-! ## Orientation -/

theorem NP_skipToHOut : ∀ (rows : List (List Cell)), NP (skipToHOut rows)
  | [] => NP_error _
  | [] :: _ => NP_error _
  | (c :: cs) :: rest => by
    simp only [skipToHOut]
    split
    · exact NP_ok _
    · exact NP_skipToHOut rest

theorem NP_scanNumbers : ∀ (cells : List (Option Cell)) (mx : Nat), NP (scanNumbers cells mx)
  | [], _ => NP_ok _
  | none :: _, _ => NP_error _
  | some c :: rest, mx => by
    cases c with
    | region n t =>
      simp only [scanNumbers]
      split
      · split
        · exact NP_error _
        · exact NP_scanNumbers rest _
      · exact NP_ok _
    | _ => simp only [scanNumbers]; exact NP_ok _

theorem NP_skipToVOut : ∀ (row : List Cell), NP (skipToVOut row)
  | [] => NP_error _
  | c :: rest => by
    simp only [skipToVOut]
    split
    · exact NP_ok _
    · exact NP_skipToVOut rest

theorem NP_horizontalRuleNumbers (P : Plane) : NP (recognizeHorizontalRuleNumbers P) := by
  unfold recognizeHorizontalRuleNumbers
  split
  · exact NP_error _
  · have h1 := NP_skipToHOut P.rows
    split
    · rename_i below _
      have h2 := NP_scanNumbers (below.map (·.head?)) 0
      split
      · exact NP_ok _
      · exact NP_ok _
      · exact NP_error _
      · rename_i s hs; exact absurd hs (h2 s)
    · exact NP_error _
    · rename_i s hs; exact absurd hs (h1 s)

theorem NP_verticalRuleNumbers (P : Plane) : NP (recognizeVerticalRuleNumbers P) := by
  unfold recognizeVerticalRuleNumbers
  split
  · exact NP_error _
  · rename_i last _
    have h1 := NP_skipToVOut last
    split
    · rename_i after _
      have h2 := NP_scanNumbers (after.map some) 0
      split
      · exact NP_ok _
      · exact NP_ok _
      · exact NP_error _
      · rename_i s hs; exact absurd hs (h2 s)
    · exact NP_error _
    · rename_i s hs; exact absurd hs (h1 s)

theorem NP_rnPlacement (P : Plane) : NP (recognizeRuleNumbersPlacement P) := by
  have hH := NP_horizontalRuleNumbers P
  have hV := NP_verticalRuleNumbers P
  unfold recognizeRuleNumbersPlacement
  generalize recognizeHorizontalRuleNumbers P = o1 at hH ⊢
  generalize recognizeVerticalRuleNumbers P = o2 at hV ⊢
  cases o1 with
  | ok p =>
    cases p with
    | notPresent => exact hV
    | leftBelow n => exact NP_ok _
    | rightAfter n => exact NP_ok _
  | error e =>
    cases o2 with
    | ok p => cases p <;> first | exact NP_ok _ | exact NP_error _
    | error e' => exact NP_error _
    | panic s => exact absurd rfl (hV s)
  | panic s => exact absurd rfl (hH s)

theorem NP_hpPlacement (P : Plane) : NP (recognizeHitPolicyPlacement P) := by
  unfold recognizeHitPolicyPlacement
  split
  · exact NP_error _
  · simp only
    split
    · exact NP_ok _
    · split <;> exact NP_ok _

theorem NP_orientation (P : Plane) : NP (recognizeOrientation P) := by
  have h1 := NP_hpPlacement P
  have h2 := NP_rnPlacement P
  unfold recognizeOrientation
  generalize recognizeHitPolicyPlacement P = o1 at h1 ⊢
  generalize recognizeRuleNumbersPlacement P = o2 at h2 ⊢
  cases o1 with
  | error e => exact NP_error _
  | panic s => exact absurd rfl (h1 s)
  | ok hp =>
    cases o2 with
    | error e => exact NP_error _
    | panic s => exact absurd rfl (h2 s)
    | ok rn =>
      simp only
      split
      · cases hp <;> cases rn <;> first | exact NP_ok _ | exact NP_error _
      · split
        · cases hp <;> cases rn <;> first | exact NP_ok _ | exact NP_error _
        · cases hp <;> cases rn <;> first | exact NP_ok _ | exact NP_error _

/-! ## `pivot` -/

theorem NP_takeHeads : ∀ (rows : List (List Cell)), NP (takeHeads rows)
  | [] => NP_ok _
  | [] :: _ => NP_error _
  | (c :: cs) :: rest => by
    have := NP_takeHeads rest
    simp only [takeHeads]
    split
    · exact NP_ok _
    · exact NP_error _
    · rename_i s hs; exact absurd hs (this s)

theorem NP_pivotLoop : ∀ (k : Nat) (rows : List (List Cell)), NP (pivotLoop k rows)
  | 0, _ => NP_ok _
  | k + 1, rows => by
    have h1 := NP_takeHeads rows
    simp only [pivotLoop]
    split
    · rename_i hs ts _
      have h2 := NP_pivotLoop k ts
      split
      · exact NP_ok _
      · exact NP_error _
      · rename_i s hs'; exact absurd hs' (h2 s)
    · exact NP_error _
    · rename_i s hs; exact absurd hs (h1 s)

theorem NP_pivot (P : Plane) : NP P.pivot := by
  have : NP (pivotRows P.rows) := by
    unfold pivotRows
    split
    · exact NP_error _
    · exact NP_pivotLoop _ _
  unfold Plane.pivot
  split
  · exact NP_ok _
  · exact NP_error _
  · rename_i s hs; exact absurd hs (this s)

/-! ## The whole plane logic -/

theorem recognizeComponents_inv {P : Plane} {r : Recognized} (h : recognizeComponents P = ok r) :
    ∃ P', recognizeHorizontal P' = ok r.horz := by
  unfold recognizeComponents at h
  obtain ⟨o, _, h⟩ := bind_ok_inv h
  split at h
  · obtain ⟨hz, hhz, h⟩ := bind_ok_inv h
    simp only [Outcome.ok.injEq] at h
    subst h
    exact ⟨_, hhz⟩
  · obtain ⟨P', _, h⟩ := bind_ok_inv h
    obtain ⟨hz, hhz, h⟩ := bind_ok_inv h
    simp only [Outcome.ok.injEq] at h
    subst h
    exact ⟨_, hhz⟩
  · cases h

/-- On every plane the plane logic returns a table or an error. -/
theorem NP_recognizePlane (P : Plane) : NP (recognizePlane P) := by
  have hcomp : NP (recognizeComponents P) := by
    unfold recognizeComponents
    refine NP_bind (NP_orientation P) (fun o _ => ?_)
    split
    · exact NP_bind (NP_recognizeHorizontal _) (fun _ _ => NP_ok _)
    · exact NP_bind (NP_pivot _) (fun P' _ => NP_bind (NP_recognizeHorizontal _) (fun _ _ => NP_ok _))
    · exact NP_error _
  unfold recognizePlane
  cases hc : recognizeComponents P with
  | ok r =>
    obtain ⟨P', hP'⟩ := recognizeComponents_inv hc
    exact NP_buildTable r (recognizeHorizontal_anns hP')
  | error e => exact NP_error _
  | panic s => exact absurd hc (hcomp s)

end Dmn.Recog
