import Dmn.Model.TemporalZone

/-!
# Named zones: the wall clock of an instant and the instant of a wall clock (C14)
-/

namespace Dmn.Temporal

theorem mem_dedupInt (a : Int) (l : List Int) : a ∈ dedupInt l ↔ a ∈ l := by
  induction l with
  | nil => simp [dedupInt]
  | cons b r ih =>
    unfold dedupInt
    by_cases hb : r.contains b = true
    · rw [if_pos hb]
      have hbr : b ∈ r := by simpa using hb
      rw [ih]
      constructor
      · intro h; exact List.mem_cons_of_mem _ h
      · intro h
        rcases List.mem_cons.1 h with rfl | h
        · exact hbr
        · exact h
    · rw [if_neg hb]
      simp only [List.mem_cons, ih]

theorem offsetFrom_mem (o : Int) (trs : List (Int × Int)) (t : Int) :
    offsetFrom o trs t = o ∨ offsetFrom o trs t ∈ trs.map (·.2) := by
  induction trs generalizing o with
  | nil => exact Or.inl rfl
  | cons p r ih =>
    obtain ⟨s, n⟩ := p
    unfold offsetFrom
    by_cases hs : s ≤ t
    · rw [if_pos hs]
      rcases ih n with h | h
      · exact Or.inr (by rw [h]; simp)
      · exact Or.inr (by simp only [List.map_cons, List.mem_cons]; exact Or.inr h)
    · rw [if_neg hs]
      rcases ih o with h | h
      · exact Or.inl h
      · exact Or.inr (by simp only [List.map_cons, List.mem_cons]; exact Or.inr h)

theorem ZoneRules.offsetAt_mem (z : ZoneRules) (t : Int) : z.offsetAt t ∈ z.offsets := by
  unfold ZoneRules.offsetAt ZoneRules.offsets
  rcases offsetFrom_mem z.initial z.trs t with h | h
  · rw [h]; simp
  · exact List.mem_cons_of_mem _ h

/-- An offset is in force for the wall clock `l` exactly when the instant `l − o` has that offset. -/
theorem ZoneRules.mem_offsetsForLocal (z : ZoneRules) (l o : Int) :
    o ∈ z.offsetsForLocal l ↔ z.offsetAt (l - o) = o := by
  unfold ZoneRules.offsetsForLocal
  rw [List.mem_filter, mem_dedupInt]
  constructor
  · intro h; simpa using h.2
  · intro h
    refine ⟨?_, by simpa using h⟩
    rw [← h]
    exact z.offsetAt_mem _

/-- In terms of instants: `o` is in force for `l` exactly when some instant with the offset `o` shows `l`. -/
theorem ZoneRules.mem_offsetsForLocal_iff_instant (z : ZoneRules) (l o : Int) :
    o ∈ z.offsetsForLocal l ↔ ∃ t, z.offsetAt t = o ∧ t + z.offsetAt t = l := by
  rw [z.mem_offsetsForLocal]
  constructor
  · intro h; exact ⟨l - o, h, by rw [h]; omega⟩
  · rintro ⟨t, h1, h2⟩
    have : l - o = t := by omega
    rw [this]; exact h1

end Dmn.Temporal
