import Dmn.Lemmas.RefParserNeeded

/-!
# C06 — a needed pair around the last operand of an open construct cannot be dropped

`if … else b`, `for … return b`, `some/every … satisfies b`, `function(…) b`: when `b` must be
parenthesised under the construct's minimum (`needs (.open k) b`), the bare rendering is read
as a proper part of `b` and the whole does not come back.  Also the first operand of the list
form of `in`.
-/

namespace Dmn.Ref

theorem ite_needed (m : Mode) (c a b : Tree) (h : needs m (.open iteMin) b = true) :
    parse (.kif :: (par (wrapped m (needs m .delim c) c) (pr m c) ++
      .kthen :: (par (wrapped m (needs m .delim a) a) (pr m a) ++ .kelse :: pr m b))) ≠ some (.ite c a b) := by
  intro hp
  have hp := parse_some hp
  have hc := parse_delimited (parse_pr m c) (needs m .delim c) (t := .kthen) ⟨rfl, rfl⟩
    (par (wrapped m (needs m .delim a) a) (pr m a) ++ .kelse :: pr m b)
  have ha := parse_delimited (parse_pr m a) (needs m .delim a) (t := .kelse) ⟨rfl, rfl⟩ (pr m b)
  obtain ⟨b', Y', hb, hloop⟩ := parseExpr_ite_inv hc ha hp
  rw [needs_open] at h
  simp at h
  have hb' : parseExpr iteMin (pr m b ++ []) = some (b', Y') := by simpa using hb
  obtain ⟨_, hlt⟩ := parse_refused m b iteMin [] b' Y' h hb'
  have := (parseLoop_grows' hloop).of_no_first rfl
  injection this with _ _ hbb
  subst hbb
  omega

theorem forS_needed (m : Mode) (v : Nat) (d : Tree) (its : Iters) (body : Tree)
    (h : needs m (.open forMin) body = true) :
    parse (.kfor :: .name v :: .kin :: (par (wrapped m (needs m .delim d) d) (pr m d) ++
      (prItersTail m its ++ pr m body))) ≠ some (.forS v d its body) := by
  intro hp
  have hp := parse_some hp
  obtain ⟨t, ts, hts, hop, hne0, _⟩ := prItersTail_head m its (pr m body)
  have hd := parse_delimited' (parse_pr m d) (needs m .delim d) hts hop
  have hits := parseItersTail_pr m its (pr m body)
  obtain ⟨b', Y', hb, hloop⟩ := parseExpr_forS_inv hd (not_ellipsis_of_head hts hne0) hits hp
  rw [needs_open] at h
  simp at h
  have hb' : parseExpr forMin (pr m body ++ []) = some (b', Y') := by simpa using hb
  obtain ⟨_, hlt⟩ := parse_refused m body forMin [] b' Y' h hb'
  have := (parseLoop_grows' hloop).of_no_first rfl
  injection this with _ _ _ hbb
  subst hbb
  omega

theorem forR_needed (m : Mode) (v : Nat) (lo hi : Tree) (its : Iters) (body : Tree)
    (h : needs m (.open forMin) body = true) :
    parse (.kfor :: .name v :: .kin :: (par (wrapped m (needs m .delim lo) lo) (pr m lo) ++
      .ellipsis :: (par (wrapped m (needs m .delim hi) hi) (pr m hi) ++
        (prItersTail m its ++ pr m body)))) ≠ some (.forR v lo hi its body) := by
  intro hp
  have hp := parse_some hp
  have hlo := parse_delimited (parse_pr m lo) (needs m .delim lo) (t := .ellipsis) ⟨rfl, rfl⟩
    (par (wrapped m (needs m .delim hi) hi) (pr m hi) ++ (prItersTail m its ++ pr m body))
  obtain ⟨t, ts, hts, hop, _, _⟩ := prItersTail_head m its (pr m body)
  have hhi := parse_delimited' (parse_pr m hi) (needs m .delim hi) hts hop
  have hits := parseItersTail_pr m its (pr m body)
  obtain ⟨b', Y', hb, hloop⟩ := parseExpr_forR_inv hlo hhi hits hp
  rw [needs_open] at h
  simp at h
  have hb' : parseExpr forMin (pr m body ++ []) = some (b', Y') := by simpa using hb
  obtain ⟨_, hlt⟩ := parse_refused m body forMin [] b' Y' h hb'
  have := (parseLoop_grows' hloop).of_no_first rfl
  injection this with _ _ _ _ hbb
  subst hbb
  omega

theorem quant_needed (m : Mode) (ev : Bool) (v : Nat) (d : Tree) (qs : Binds) (body : Tree)
    (h : needs m (.open (quantMin ev)) body = true) :
    parse (quantTok ev :: .name v :: .kin :: (par (wrapped m (needs m .delim d) d) (pr m d) ++
      (prBindsTail m .kin .ksatisfies qs ++ pr m body))) ≠ some (.quant ev v d qs body) := by
  intro hp
  have hp := parse_some hp
  obtain ⟨t, ts, hts, hop, _, _⟩ := prBindsTail_head m (sep := .kin) (close := .ksatisfies) ⟨rfl, rfl⟩ (by simp)
    qs (pr m body)
  have hd := parse_delimited' (parse_pr m d) (needs m .delim d) hts hop
  have hqs := parseBindsTail_pr m .kin .ksatisfies ⟨rfl, rfl⟩ (by simp) (by simp) qs (pr m body)
  obtain ⟨b', Y', hb, hloop⟩ := parseExpr_quant_inv ev hd hqs hp
  rw [needs_open] at h
  simp at h
  have hb' : parseExpr (quantMin ev) (pr m body ++ []) = some (b', Y') := by simpa using hb
  obtain ⟨_, hlt⟩ := parse_refused m body (quantMin ev) [] b' Y' h hb'
  have := (parseLoop_grows' hloop).of_no_first rfl
  injection this with _ _ _ _ hbb
  subst hbb
  omega

theorem fn_needed (m : Mode) (ps : List Nat) (body : Tree) (h : needs m (.open fnMin) body = true) :
    parse (.kfunction :: .lparen :: (prParams ps ++ pr m body)) ≠ some (.fn ps body) := by
  intro hp
  have hp := parse_some hp
  obtain ⟨b', Y', hb, hloop⟩ := parseExpr_fn_inv (parseParams_pr ps _) hp
  rw [needs_open] at h
  simp at h
  have hb' : parseExpr fnMin (pr m body ++ []) = some (b', Y') := by simpa using hb
  obtain ⟨_, hlt⟩ := parse_refused m body fnMin [] b' Y' h hb'
  have := (parseLoop_grows' hloop).of_no_first rfl
  injection this with _ hbb
  subst hbb
  omega

/-- The first operand of `e in (a, b, …)` without the pair it needs. -/
theorem inE_needed (m : Mode) (e a b : Tree) (more : Args) (X : List Tok)
    (h : needs m (.binL .in_) e = true) :
    parse (pr m e ++ .kin :: X) ≠ some (.inList e a b more) := by
  cases ha : absorbs m e .kin with
  | true => exact first_absorbed m _ e _ _ rfl ha (fun hd => by cases hd) ⟨_, opLevel_tokOf .in_⟩
  | false =>
    intro hp
    have hp := parse_some hp
    rw [needs_binL] at h
    have ha' : absorbs m e (tokOf .in_) = false := ha
    rw [ha'] at h
    simp at h
    rw [parse_pr m e 0 _ (startsOk_zero m e) (by simp [notAbsorbed, ha])] at hp
    have := parseLoop_bin_forbidden (lhs := e) (rest := X) (Nat.not_lt_zero (lvl .in_)) h
    rw [show tokOf .in_ = Tok.kin from rfl] at this
    rw [this] at hp
    cases hp

end Dmn.Ref
