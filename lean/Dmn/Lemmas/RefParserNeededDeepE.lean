import Dmn.Lemmas.RefParserNeededDeepD
import Dmn.Lemmas.RefParserDrops

/-!
# C06 — a rendering with one pair left out is two tokens shorter

Every member of `drops m t` has two tokens fewer than `pr m t`; with `parse_length` (no token
list shorter than the minimal rendering is read as `t`) this gives `drops_not_parsed`: no
member of `drops .minimal t` — one needed pair left out at ANY depth — parses to `t`.
-/

namespace Dmn.Ref

/-- Every variant of every segment lacks exactly one pair. -/
def SegsOk (segs : List Seg) : Prop := ∀ s ∈ segs, ∀ d ∈ s.2, d.length + 2 = s.1.length

theorem segsOk_nil : SegsOk [] := fun _ h => by cases h

theorem segsOk_cons {s : Seg} {segs : List Seg} (h : ∀ d ∈ s.2, d.length + 2 = s.1.length) (hs : SegsOk segs) :
    SegsOk (s :: segs) := by
  intro s' hs'
  rcases List.mem_cons.mp hs' with rfl | h'
  · exact h
  · exact hs s' h'

theorem segsOk_fixed (p : List Tok) {segs : List Seg} (hs : SegsOk segs) : SegsOk (Seg.fixed p :: segs) :=
  segsOk_cons (fun _ h => by simp [Seg.fixed] at h) hs

theorem segsOk_opd (w : Bool) {p : List Tok} {ds : List (List Tok)} {segs : List Seg}
    (h : ∀ d ∈ ds, d.length + 2 = p.length) (hs : SegsOk segs) : SegsOk (Seg.opd w p ds :: segs) := by
  refine segsOk_cons ?_ hs
  intro d hd
  cases w with
  | false =>
    simp only [Seg.opd, par, Bool.false_eq_true, if_false, List.nil_append, List.mem_map] at hd ⊢
    obtain ⟨x, hx, rfl⟩ := hd
    exact h x hx
  | true =>
    simp only [Seg.opd, par, if_true, List.mem_append, List.mem_singleton, List.mem_map] at hd ⊢
    rcases hd with rfl | ⟨x, hx, rfl⟩
    · simp
    · have := h x hx
      simp only [List.length_cons, List.length_append, List.length_nil]
      omega

theorem segsOk_append {a b : List Seg} (ha : SegsOk a) (hb : SegsOk b) : SegsOk (a ++ b) := by
  intro s hs
  rcases List.mem_append.mp hs with h | h
  · exact ha s h
  · exact hb s h

theorem combine_length : ∀ segs : List Seg, SegsOk segs →
    ∀ d ∈ combine segs, d.length + 2 = (segsFlat segs).length
  | [], _, d, hd => by simp [combine] at hd
  | (p, ds) :: rest, hok, d, hd => by
    simp only [combine, List.mem_append, List.mem_map] at hd
    rcases hd with ⟨x, hx, rfl⟩ | ⟨x, hx, rfl⟩
    · have := hok (p, ds) (List.mem_cons_self ..) x hx
      simp only [segsFlat, List.length_append] at this ⊢
      omega
    · have := combine_length rest (fun s hs => hok s (List.mem_cons_of_mem _ hs)) x hx
      simp only [segsFlat, List.length_append]
      omega

theorem segsFlat_entriesTail (m : Mode) : ∀ es : Entries, segsFlat (segsEntriesTail m es) = prEntriesTail m es
  | .nil => by simp [segsEntriesTail, segsFlat, prEntriesTail, Seg.fixed]
  | .cons k v es => by
    simp [segsEntriesTail, segsFlat, prEntriesTail, Seg.fixed, Seg.opd, segsFlat_entriesTail m es]

theorem segsFlat_entries (m : Mode) : ∀ es : Entries, segsFlat (segsEntries m es) = prEntries m es
  | .nil => by simp [segsEntries, segsFlat, prEntries, Seg.fixed]
  | .cons k v es => by
    simp [segsEntries, segsFlat, prEntries, Seg.fixed, Seg.opd, segsFlat_entriesTail m es]

mutual
theorem drops_length (m : Mode) : ∀ t : Tree, ∀ d ∈ drops m t, d.length + 2 = (pr m t).length
  | .atom _ => by simp [drops]
  | .range _ _ _ _ => by simp [drops]
  | .utest _ _ => by simp [drops]
  | .bin o l r => by
    intro d hd
    have := combine_length _ (segsOk_opd _ (drops_length m l) (segsOk_fixed _
      (segsOk_opd _ (drops_length m r) segsOk_nil))) d hd
    simpa [segsFlat, Seg.opd, Seg.fixed, pr] using this
  | .neg e => by
    intro d hd
    have := combine_length _ (segsOk_fixed _ (segsOk_opd _ (drops_length m e) segsOk_nil)) d hd
    simpa [segsFlat, Seg.opd, Seg.fixed, pr] using this
  | .between e lo hi => by
    intro d hd
    have := combine_length _ (segsOk_opd _ (drops_length m e) (segsOk_fixed _
      (segsOk_opd _ (drops_length m lo) (segsOk_fixed _ (segsOk_opd _ (drops_length m hi) segsOk_nil))))) d hd
    simpa [segsFlat, Seg.opd, Seg.fixed, pr] using this
  | .instOf e q qs => by
    intro d hd
    have := combine_length _ (segsOk_opd _ (drops_length m e) (segsOk_fixed _ segsOk_nil)) d hd
    simpa [segsFlat, Seg.opd, Seg.fixed, pr] using this
  | .path e n => by
    intro d hd
    have := combine_length _ (segsOk_opd _ (drops_length m e) (segsOk_fixed _ segsOk_nil)) d hd
    simpa [segsFlat, Seg.opd, Seg.fixed, pr] using this
  | .filter e i => by
    intro d hd
    have := combine_length _ (segsOk_opd _ (drops_length m e) (segsOk_fixed _
      (segsOk_opd _ (drops_length m i) (segsOk_fixed _ segsOk_nil)))) d hd
    simpa [segsFlat, Seg.opd, Seg.fixed, pr] using this
  | .call f as => by
    intro d hd
    have := combine_length _ (segsOk_opd _ (drops_length m f) (segsOk_fixed _ (segsArgs_ok m .rparen as))) d hd
    simpa [segsFlat, Seg.opd, Seg.fixed, pr, segsFlat_args] using this
  | .callNamed f n v bs => by
    intro d hd
    have := combine_length _ (segsOk_opd _ (drops_length m f) (segsOk_fixed _
      (segsOk_opd _ (drops_length m v) (segsBindsTail_ok m .colon .rparen bs)))) d hd
    simpa [segsFlat, Seg.opd, Seg.fixed, pr, segsFlat_bindsTail] using this
  | .inList e a b more => by
    intro d hd
    have := combine_length _ (segsOk_opd _ (drops_length m e) (segsOk_fixed _
      (segsOk_opd _ (drops_length m a) (segsOk_fixed _
        (segsOk_opd _ (drops_length m b) (segsArgsTail_ok m .rparen more)))))) d hd
    simpa [segsFlat, Seg.opd, Seg.fixed, pr, segsFlat_argsTail] using this
  | .ite c a b => by
    intro d hd
    have := combine_length _ (segsOk_fixed _ (segsOk_opd _ (drops_length m c) (segsOk_fixed _
      (segsOk_opd _ (drops_length m a) (segsOk_fixed _ (segsOk_opd _ (drops_length m b) segsOk_nil)))))) d hd
    simpa [segsFlat, Seg.opd, Seg.fixed, pr] using this
  | .forS v dm its body => by
    intro d hd
    have := combine_length _ (segsOk_fixed _ (segsOk_opd _ (drops_length m dm)
      (segsOk_append (segsItersTail_ok m its) (segsOk_opd _ (drops_length m body) segsOk_nil)))) d hd
    simpa [segsFlat, Seg.opd, Seg.fixed, pr, segsFlat_append, segsFlat_itersTail] using this
  | .forR v lo hi its body => by
    intro d hd
    have := combine_length _ (segsOk_fixed _ (segsOk_opd _ (drops_length m lo) (segsOk_fixed _
      (segsOk_opd _ (drops_length m hi)
        (segsOk_append (segsItersTail_ok m its) (segsOk_opd _ (drops_length m body) segsOk_nil)))))) d hd
    simpa [segsFlat, Seg.opd, Seg.fixed, pr, segsFlat_append, segsFlat_itersTail] using this
  | .quant ev v dm qs body => by
    intro d hd
    have := combine_length _ (segsOk_fixed _ (segsOk_opd _ (drops_length m dm)
      (segsOk_append (segsBindsTail_ok m .kin .ksatisfies qs)
        (segsOk_opd _ (drops_length m body) segsOk_nil)))) d hd
    simpa [segsFlat, Seg.opd, Seg.fixed, pr, segsFlat_append, segsFlat_bindsTail] using this
  | .fn ps body => by
    intro d hd
    have := combine_length _ (segsOk_fixed _ (segsOk_opd _ (drops_length m body) segsOk_nil)) d hd
    simpa [segsFlat, Seg.opd, Seg.fixed, pr] using this
  | .list items => by
    intro d hd
    have := combine_length _ (segsOk_fixed _ (segsArgs_ok m .rbrack items)) d hd
    simpa [segsFlat, Seg.fixed, pr, segsFlat_args] using this
  | .ctx es => by
    intro d hd
    have := combine_length _ (segsOk_fixed _ (segsEntries_ok m es)) d hd
    simpa [segsFlat, Seg.fixed, pr, segsFlat_entries] using this
theorem segsArgs_ok (m : Mode) (close : Tok) : ∀ as : Args, SegsOk (segsArgs m close as)
  | .nil => segsOk_fixed _ segsOk_nil
  | .cons a as => segsOk_opd _ (drops_length m a) (segsArgsTail_ok m close as)
theorem segsArgsTail_ok (m : Mode) (close : Tok) : ∀ as : Args, SegsOk (segsArgsTail m close as)
  | .nil => segsOk_fixed _ segsOk_nil
  | .cons a as => segsOk_fixed _ (segsOk_opd _ (drops_length m a) (segsArgsTail_ok m close as))
theorem segsBindsTail_ok (m : Mode) (sep close : Tok) : ∀ bs : Binds, SegsOk (segsBindsTail m sep close bs)
  | .nil => segsOk_fixed _ segsOk_nil
  | .cons n v bs => segsOk_fixed _ (segsOk_opd _ (drops_length m v) (segsBindsTail_ok m sep close bs))
theorem segsEntries_ok (m : Mode) : ∀ es : Entries, SegsOk (segsEntries m es)
  | .nil => segsOk_fixed _ segsOk_nil
  | .cons k v es => segsOk_fixed _ (segsOk_opd _ (drops_length m v) (segsEntriesTail_ok m es))
theorem segsEntriesTail_ok (m : Mode) : ∀ es : Entries, SegsOk (segsEntriesTail m es)
  | .nil => segsOk_fixed _ segsOk_nil
  | .cons k v es => segsOk_fixed _ (segsOk_opd _ (drops_length m v) (segsEntriesTail_ok m es))
theorem segsItersTail_ok (m : Mode) : ∀ its : Iters, SegsOk (segsItersTail m its)
  | .nil => segsOk_fixed _ segsOk_nil
  | .single v dm its => segsOk_fixed _ (segsOk_opd _ (drops_length m dm) (segsItersTail_ok m its))
  | .range v lo hi its =>
    segsOk_fixed _ (segsOk_opd _ (drops_length m lo) (segsOk_fixed _
      (segsOk_opd _ (drops_length m hi) (segsItersTail_ok m its))))
end

/-- No rendering with one printed pair of the minimal printer left out — at any depth — is
read as the tree. -/
theorem drops_not_parsed (t : Tree) (ts : List Tok) (h : ts ∈ drops .minimal t) : parse ts ≠ some t := by
  intro hp
  have h1 := parse_length hp
  have h2 := drops_length .minimal t ts h
  omega

end Dmn.Ref
