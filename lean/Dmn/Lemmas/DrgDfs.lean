import Dmn.Model.Drg
import Dmn.Lemmas.ReqDfsCost

/-!
# `Drg.checkRequirements` and the repaired `check_requirements` (ba4278d)

`Drg.checkRequirements` (C04) is the chain-length formulation of `check_requirements`
(`model-evaluator/src/model_evaluator.rs`), which the code used until ba4278d.  Since then `check_chain`
is a depth-first search with the sets `chain` / `checked` (`Dmn.ReqDfs.dfs`).  Both give the same answer
on every graph (`checkRequirements_eq_dfs`), so the theorems of C04 about graphs that
`ModelEvaluator::new` accepts are theorems about the repaired code as well; the search expands every
element at most once (`checkRequirements_dfs_linear`).
-/

namespace Dmn.Drg

theorem checkChain_eq (g : Drg) : ∀ (f : Nat) (id : String),
    checkChain g f id = ReqDfs.chainOk g.requirementsOf f id := by
  intro f
  induction f with
  | zero =>
    intro id
    unfold checkChain ReqDfs.chainOk
    cases g.requirementsOf id <;> rfl
  | succ f ih =>
    intro id
    rw [checkChain, ReqDfs.chainOk]
    cases g.requirementsOf id with
    | none => rfl
    | some rs =>
      simp only
      congr 1
      funext r
      exact ih r

theorem requirementsOf_key (g : Drg) (id : String) (h : g.requirementsOf id ≠ none) : id ∈ g.requirementIds := by
  unfold requirementsOf at h
  by_cases hk : g.isKey id = true
  · unfold isKey at hk
    simp only [Bool.or_eq_true, List.any_eq_true, beq_iff_eq] at hk
    unfold requirementIds
    simp only [List.mem_append, List.mem_map]
    rcases hk with (⟨d, hd, rfl⟩ | ⟨b, hb, rfl⟩) | ⟨s, hs, rfl⟩
    · exact Or.inl (Or.inl ⟨d, hd, rfl⟩)
    · exact Or.inl (Or.inr ⟨b, hb, rfl⟩)
    · exact Or.inr ⟨s, hs, rfl⟩
  · simp [hk] at h

/-- A list of different strings taken from `xs` is no longer than the number of different strings of `xs`. -/
theorem length_le_distinctCount : ∀ (xs l : List String), l.Nodup → (∀ x ∈ l, x ∈ xs) → l.length ≤ distinctCount xs := by
  intro xs
  induction xs with
  | nil =>
    intro l _ h
    cases l with
    | nil => simp
    | cons a _ => exact absurd (h a (by simp)) (by simp)
  | cons x xs ih =>
    intro l hnd hsub
    unfold distinctCount
    by_cases hx : xs.contains x = true
    · rw [if_pos hx]
      apply ih l hnd
      intro y hy
      rcases List.mem_cons.mp (hsub y hy) with rfl | h
      · simpa using hx
      · exact h
    · rw [if_neg hx]
      have hnd' : (l.erase x).Nodup := hnd.erase x
      have hsub' : ∀ y ∈ l.erase x, y ∈ xs := by
        intro y hy
        have hyl : y ∈ l := List.mem_of_mem_erase hy
        have hne : y ≠ x := fun h => by
          subst h
          exact (List.Nodup.mem_erase_iff hnd).mp hy |>.1 rfl
        rcases List.mem_cons.mp (hsub y hyl) with h | h
        · exact absurd h hne
        · exact h
      have := ih (l.erase x) hnd' hsub'
      have hlen : l.length ≤ (l.erase x).length + 1 := by
        rw [List.length_erase]
        split <;> omega
      omega

/-- **The repaired `check_requirements` gives the answer of `Drg.checkRequirements`** on every graph. -/
theorem checkRequirements_eq_dfs (g : Drg) :
    g.checkRequirements = ReqDfs.dfsCheck g.requirementsOf g.requirementIds := by
  unfold checkRequirements
  rw [ReqDfs.dfsCheck_eq g.requirementsOf g.requirementIds (requirementsOf_key g) g.requirementCount
    (fun l hnd hk => length_le_distinctCount g.requirementIds l hnd (fun x hx => requirementsOf_key g x (hk x hx)))]
  congr 1
  funext id
  exact checkChain_eq g g.requirementCount id

/-- … expanding every element at most once. -/
theorem checkRequirements_dfs_linear (g : Drg) :
    ReqDfs.dfsExpansions g.requirementsOf g.requirementIds ≤ g.requirementCount :=
  ReqDfs.dfsExpansions_le g.requirementsOf g.requirementIds (requirementsOf_key g) g.requirementCount
    (length_le_distinctCount g.requirementIds)

end Dmn.Drg
