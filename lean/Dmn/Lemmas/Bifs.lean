import Dmn.Model.BifSpec

/-!
# Lemmas about the built-in function models: index arithmetic

`Usz.sub/add` succeed (in both integer modes) inside their range; the index functions of
`substring`, `sublist`, `insert before`, `remove` compute what `Spec.startIndex` prescribes.
-/

namespace Dmn
namespace Bif

theorem usz_sub_ok (m : IntMode) {a b : Nat} (site : String) (hab : b ≤ a) (ha : a < Usz.modulus) :
    Usz.sub m a b site = .ok (a - b) := by
  unfold Usz.sub Usz.modulus at *
  cases m
  · simp [hab]
  · simp only [Outcome.ok.injEq]
    omega

theorem usz_add_ok (m : IntMode) {a b : Nat} (site : String) (h : a + b < Usz.modulus) :
    Usz.add m a b site = .ok (a + b) := by
  unfold Usz.add Usz.modulus at *
  cases m
  · simp [h]
  · simp only [Outcome.ok.injEq]
    omega

theorem startIndex_pos {len : Nat} {p : Int} (h1 : 1 ≤ p) (h2 : p ≤ (len : Int)) :
    Spec.startIndex len p = some (p - 1).toNat := by
  unfold Spec.startIndex; rw [if_pos ⟨h1, h2⟩]

theorem startIndex_neg {len : Nat} {p : Int} (h1 : -(len : Int) ≤ p) (h2 : p ≤ -1) :
    Spec.startIndex len p = some ((len : Int) + p).toNat := by
  unfold Spec.startIndex
  rw [if_neg (by omega), if_pos ⟨h1, h2⟩]

theorem startIndex_none {len : Nat} {p : Int} (h1 : ¬ (1 ≤ p ∧ p ≤ (len : Int)))
    (h2 : ¬ (-(len : Int) ≤ p ∧ p ≤ -1)) : Spec.startIndex len p = none := by
  unfold Spec.startIndex
  rw [if_neg h1, if_neg h2]

theorem checkedAdd_some {a b : Nat} (h : a + b < Usz.modulus) : Usz.checkedAdd a b = some (a + b) := by
  unfold Usz.checkedAdd; rw [if_pos h]

theorem checkedAdd_none {a b : Nat} (h : ¬ a + b < Usz.modulus) : Usz.checkedAdd a b = none := by
  unfold Usz.checkedAdd; rw [if_neg h]

theorem substringAt_spec (m : IntMode) (cs : List Char) (st : Int) (count : Option Nat)
    (hL : cs.length < Usz.modulus) (h : ∀ c, count = some c → 1 ≤ c) :
    substringAt m cs st count = .ok (Spec.substringChars cs st count) := by
  unfold substringAt Spec.substringChars
  cases count with
  | none =>
    simp only
    by_cases h1 : st > 0
    · rw [if_pos h1]
      by_cases h2 : (st - 1).toNat < cs.length
      · rw [if_pos h2, startIndex_pos (by omega) (by omega)]
      · rw [if_neg h2, startIndex_none (by omega) (by omega)]
    · rw [if_neg h1]
      by_cases h2 : st < 0
      · rw [if_pos h2]
        by_cases h3 : (cs.length : Int) + st ≥ 0
        · rw [if_pos h3, startIndex_neg (by omega) (by omega)]
        · rw [if_neg h3, startIndex_none (by omega) (by omega)]
      · rw [if_neg h2, startIndex_none (by omega) (by omega)]
  | some c =>
    have hc1 := h c rfl
    simp only
    by_cases h1 : st > 0
    · rw [if_pos h1]
      by_cases h2 : (st - 1).toNat < cs.length
      · rw [if_pos h2, startIndex_pos (by omega) (by omega)]
        simp only
        by_cases hov : (st - 1).toNat + c < Usz.modulus
        · rw [checkedAdd_some hov]
          simp only
          by_cases h4 : (st - 1).toNat + c ≤ cs.length
          · rw [if_pos h4, if_pos ⟨hc1, h4⟩]
          · rw [if_neg h4, if_neg (fun hh => h4 hh.2)]
        · rw [checkedAdd_none hov]
          simp only
          rw [if_neg (by omega)]
      · rw [if_neg h2, startIndex_none (by omega) (by omega)]
    · rw [if_neg h1]
      by_cases h2 : st < 0
      · rw [if_pos h2]
        by_cases h3 : (cs.length : Int) + st ≥ 0
        · rw [if_pos h3, startIndex_neg (by omega) (by omega)]
          simp only
          by_cases hov : ((cs.length : Int) + st).toNat + c < Usz.modulus
          · rw [checkedAdd_some hov]
            simp only
            by_cases h4 : ((cs.length : Int) + st).toNat + c ≤ cs.length
            · rw [if_pos h4, if_pos ⟨hc1, h4⟩]
            · rw [if_neg h4, if_neg (fun hh => h4 hh.2)]
          · rw [checkedAdd_none hov]
            simp only
            rw [if_neg (by omega)]
        · rw [if_neg h3, startIndex_none (by omega) (by omega)]
      · rw [if_neg h2, startIndex_none (by omega) (by omega)]

/-- the signed position a decoded `(negative?, magnitude)` pair denotes -/
def posInt (pos : Bool × Nat) : Int := if pos.1 then -(pos.2 : Int) else pos.2

theorem sublist2At_spec (m : IntMode) (items : List Value) (b : Bool) (i : Nat)
    (hi : 1 ≤ i) (hi2 : i < Usz.modulus) (hL : items.length < Usz.modulus) :
    sublist2At m items (b, i) = .ok (Spec.sublistAt items (posInt (b, i)) none) := by
  unfold sublist2At Spec.sublistAt posInt
  cases b with
  | false =>
    simp only [Bool.false_eq_true, if_false]
    rw [usz_sub_ok m _ hi hi2]
    simp only
    by_cases h2 : i - 1 < items.length
    · rw [if_pos h2, startIndex_pos (by omega) (by omega)]
      unfold sliceFrom
      rw [if_pos (by omega)]
      have : ((i : Int) - 1).toNat = i - 1 := by omega
      simp only [this]
    · rw [if_neg h2, startIndex_none (by omega) (by omega)]
  | true =>
    simp only [if_true]
    by_cases h2 : i ≤ items.length
    · rw [if_pos h2, usz_sub_ok m _ h2 hL, startIndex_neg (by omega) (by omega)]
      unfold sliceFrom
      simp only
      rw [if_pos (by omega)]
      have : ((items.length : Int) + -(i : Int)).toNat = items.length - i := by omega
      simp only [this]
    · rw [if_neg h2, startIndex_none (by omega) (by omega)]

theorem sublist3At_spec (m : IntMode) (items : List Value) (b : Bool) (i n : Nat)
    (hi : 1 ≤ i) (hi2 : i < Usz.modulus) (hL : items.length < Usz.modulus) :
    sublist3At m items (b, i) n = .ok (Spec.sublistAt items (posInt (b, i)) (some n)) := by
  unfold sublist3At Spec.sublistAt posInt
  cases b with
  | false =>
    simp only [Bool.false_eq_true, if_false]
    rw [usz_sub_ok m _ hi hi2]
    simp only
    by_cases h2 : i - 1 < items.length
    · rw [startIndex_pos (by omega) (by omega)]
      have e : ((i : Int) - 1).toNat = i - 1 := by omega
      simp only [e]
      by_cases hov : i - 1 + n < Usz.modulus
      · rw [checkedAdd_some hov]
        simp only
        by_cases h3 : i - 1 + n ≤ items.length
        · rw [if_pos ⟨h2, h3⟩, if_pos h3]
          unfold slice
          rw [if_pos ⟨by omega, h3⟩]
          have : i - 1 + n - (i - 1) = n := by omega
          simp only [this]
        · rw [if_neg (fun hh => h3 hh.2), if_neg h3]
      · rw [checkedAdd_none hov]
        simp only
        rw [if_neg (by omega)]
    · rw [startIndex_none (by omega) (by omega)]
      simp only
      cases Usz.checkedAdd (i - 1) n with
      | none => rfl
      | some last => simp only; rw [if_neg (fun hh => h2 hh.1)]
  | true =>
    simp only [if_true]
    by_cases h2 : i ≤ items.length
    · rw [if_pos h2, usz_sub_ok m _ h2 hL]
      simp only
      rw [startIndex_neg (by omega) (by omega)]
      have e : ((items.length : Int) + -(i : Int)).toNat = items.length - i := by omega
      simp only [e]
      by_cases hov : items.length - i + n < Usz.modulus
      · rw [checkedAdd_some hov]
        simp only
        by_cases h3 : items.length - i + n ≤ items.length
        · rw [if_pos ⟨by omega, h3⟩, if_pos h3]
          unfold slice
          rw [if_pos ⟨by omega, h3⟩]
          have : items.length - i + n - (items.length - i) = n := by omega
          simp only [this]
        · rw [if_neg (fun hh => h3 hh.2), if_neg h3]
      · rw [checkedAdd_none hov]
        simp only
        rw [if_neg (by omega)]
    · rw [if_neg h2, startIndex_none (by omega) (by omega)]

theorem insertBeforeAt_spec (m : IntMode) (items : List Value) (b : Bool) (i : Nat) (x : Value)
    (hi : 1 ≤ i) (hi2 : i < Usz.modulus) (hL : items.length < Usz.modulus) :
    insertBeforeAt m items (b, i) x = .ok (Spec.insertBeforeAt items (posInt (b, i)) x) := by
  unfold insertBeforeAt Spec.insertBeforeAt posInt
  cases b with
  | false =>
    simp only [Bool.false_eq_true, if_false]
    by_cases h2 : i ≤ items.length
    · rw [if_pos h2, usz_sub_ok m _ hi hi2, startIndex_pos (by omega) (by omega)]
      unfold vecInsert
      simp only
      rw [if_pos (by omega)]
      have e : ((i : Int) - 1).toNat = i - 1 := by omega
      simp [e]
    · rw [if_neg h2, startIndex_none (by omega) (by omega)]
      rfl
  | true =>
    simp only [if_true]
    by_cases h2 : i ≤ items.length
    · rw [if_pos h2, usz_sub_ok m _ h2 hL, startIndex_neg (by omega) (by omega)]
      unfold vecInsert
      simp only
      rw [if_pos (by omega)]
      have e : ((items.length : Int) + -(i : Int)).toNat = items.length - i := by omega
      simp [e]
    · rw [if_neg h2, startIndex_none (by omega) (by omega)]
      rfl

theorem removeAt_spec (m : IntMode) (items : List Value) (b : Bool) (i : Nat)
    (hi : 1 ≤ i) (hi2 : i < Usz.modulus) (hL : items.length < Usz.modulus) :
    removeAt m items (b, i) = .ok (Spec.removeAt items (posInt (b, i))) := by
  unfold removeAt Spec.removeAt posInt
  cases b with
  | false =>
    simp only [Bool.false_eq_true, if_false]
    rw [usz_sub_ok m _ hi hi2]
    simp only
    by_cases h2 : i - 1 < items.length
    · rw [if_pos h2, startIndex_pos (by omega) (by omega)]
      unfold vecRemove
      rw [if_pos h2]
      have e : ((i : Int) - 1).toNat = i - 1 := by omega
      simp [e, List.eraseIdx_eq_take_drop_succ]
    · rw [if_neg h2, startIndex_none (by omega) (by omega)]
      rfl
  | true =>
    simp only [if_true]
    by_cases h2 : i ≤ items.length
    · rw [if_pos h2, usz_sub_ok m _ h2 hL, startIndex_neg (by omega) (by omega)]
      unfold vecRemove
      simp only
      rw [if_pos (by omega)]
      have e : ((items.length : Int) + -(i : Int)).toNat = items.length - i := by omega
      simp [e, List.eraseIdx_eq_take_drop_succ]
    · rw [if_neg h2, startIndex_none (by omega) (by omega)]
      rfl

/-! ## reading a position -/

theorem toUsize_toInt {d : Dec} {i : Nat} (h : d.toUsize? = some i) :
    d.toInt? = some (i : Int) ∧ i < Usz.modulus ∧ d.neg = false ∧ 0 ≤ d.exp := by
  unfold Dec.toUsize? at h
  split at h
  · exact absurd h (by simp)
  · rename_i hneg
    split at h
    · exact absurd h (by simp)
    · rename_i hexp
      simp only at h
      split at h
      · rename_i hv
        injection h with h
        subst h
        refine ⟨?_, ?_, by simpa using hneg, by omega⟩
        · unfold Dec.toInt? Dec.scoeff
          rw [if_pos (by omega)]
          simp only [Bool.not_eq_true] at hneg
          simp [hneg]
        · unfold Usz.modulus; exact hv
      · exact absurd h (by simp)

theorem toUsize_pos {d : Dec} {i : Nat} (h : d.toUsize? = some i) (hc : d.coeff ≠ 0) : 1 ≤ i := by
  unfold Dec.toUsize? at h
  split at h
  · exact absurd h (by simp)
  · split at h
    · exact absurd h (by simp)
    · simp only at h
      split at h
      · injection h with h
        subst h
        exact Nat.mul_pos (Nat.pos_of_ne_zero hc) (Nat.pow_pos (by decide))
      · exact absurd h (by simp)

/-- the position decoding on the plain text of a number (what the conversions did before
they went through the integral form; now applied to `integralForm p`) -/
def decodePosP (p : Dec) : Option (Bool × Nat) :=
  if p.isPos then (p.toUsize?).map (fun i => (false, i))
  else if p.isNeg then ((Dec.abs p).toUsize?).map (fun i => (true, i))
  else none

theorem decodePosP_sound {p : Dec} {pos : Bool × Nat} (h : decodePosP p = some pos) :
    p.toInt? = some (posInt pos) ∧ 1 ≤ pos.2 ∧ pos.2 < Usz.modulus := by
  unfold decodePosP at h
  split at h
  · rename_i hp
    cases hu : p.toUsize? with
    | none => simp [hu] at h
    | some i =>
      simp [hu] at h
      subst h
      have ⟨a, b, _, _⟩ := toUsize_toInt hu
      have hc : p.coeff ≠ 0 := by
        unfold Dec.isPos at hp; simp at hp; exact hp.2
      exact ⟨by simpa [posInt] using a, toUsize_pos hu hc, b⟩
  · split at h
    · rename_i hp hn
      cases hu : (Dec.abs p).toUsize? with
      | none => simp [hu] at h
      | some i =>
        simp [hu] at h
        subst h
        have ⟨a, b, _, hexp⟩ := toUsize_toInt hu
        obtain ⟨neg, c, e⟩ := p
        have hc : c ≠ 0 := by
          unfold Dec.isNeg at hn; simp at hn; exact hn.2
        have hneg : neg = true := by
          unfold Dec.isNeg at hn; simp at hn; exact hn.1
        subst hneg
        refine ⟨?_, toUsize_pos hu (by simpa [Dec.abs] using hc), b⟩
        simp only [Dec.abs] at a hexp
        unfold Dec.toInt? Dec.scoeff at a ⊢
        simp only at a ⊢
        rw [if_pos (by omega)] at a ⊢
        simp [posInt] at a ⊢
        rw [← a, Int.neg_mul]
    · exact absurd h (by simp)

/-- A number written without fraction digits (`exp ≥ 0`) that is not read as a position is
zero or at least `2^64` in magnitude. -/
theorem decodePosP_none {p : Dec} (hexp : 0 ≤ p.exp) (h : decodePosP p = none) :
    ∃ v, p.toInt? = some v ∧ (v = 0 ∨ Usz.modulus ≤ v.natAbs) := by
  obtain ⟨neg, c, e⟩ := p
  simp only at hexp
  refine ⟨Dec.scoeff ⟨neg, c, e⟩ * 10 ^ e.toNat, ?_, ?_⟩
  · unfold Dec.toInt?; rw [if_pos (by simpa using hexp)]
  · by_cases hc : c = 0
    · left; subst hc; simp [Dec.scoeff]
    · right
      unfold decodePosP Dec.isPos Dec.isNeg Dec.toUsize? Dec.abs at h
      simp only at h
      have hnlt : ¬ e < 0 := by omega
      cases neg with
      | false =>
        simp [hc, hnlt] at h
        simp only [Dec.scoeff, Bool.false_eq_true, if_false]
        unfold Usz.modulus
        have : ((c : Int) * 10 ^ e.toNat).natAbs = c * 10 ^ e.toNat := by
          rw [Int.natAbs_mul, Int.natAbs_pow]; simp
        omega
      | true =>
        simp [hc, hnlt] at h
        simp only [Dec.scoeff, if_true]
        unfold Usz.modulus
        have : (-(c : Int) * 10 ^ e.toNat).natAbs = c * 10 ^ e.toNat := by
          rw [Int.natAbs_mul, Int.natAbs_pow]; simp
        omega

theorem div_eq_zero_of_dvd {c k : Nat} (hk : 0 < k) (h : c % k = 0) : c / k = 0 ↔ c = 0 := by
  constructor
  · intro h0
    have := Nat.div_add_mod c k
    rw [h0, h] at this
    omega
  · intro h0; subst h0; simp

/-- an integral value: its integral form is written without fraction digits, denotes the same
integer, and is read as the same position -/
theorem decodePos_integral {p : Dec} (h : p.isIntegral = true) :
    decodePos p = decodePosP p.integralForm ∧ p.integralForm.toInt? = p.toInt? ∧ 0 ≤ p.integralForm.exp
      ∧ p.integralForm.neg = p.neg ∧ (p.integralForm.coeff = 0 ↔ p.coeff = 0) := by
  obtain ⟨neg, c, e⟩ := p
  by_cases he : e ≥ 0
  · have ht : Dec.integralForm ⟨neg, c, e⟩ = ⟨neg, c, e⟩ := by
      simp [Dec.integralForm, Dec.isIntegral, Dec.trunc, he]
    have hta : Dec.integralForm (Dec.abs ⟨neg, c, e⟩) = Dec.abs ⟨neg, c, e⟩ := by
      simp [Dec.integralForm, Dec.isIntegral, Dec.trunc, Dec.abs, he]
    refine ⟨?_, by rw [ht], by rw [ht]; exact he, by rw [ht], by rw [ht]⟩
    unfold decodePos decodePosP Dec.toUsizeV?
    rw [ht, hta]
  · have hdiv : c % 10 ^ (-e).toNat = 0 := by
      simp only [Dec.isIntegral, he, decide_false, Bool.false_or, beq_iff_eq] at h
      exact h
    have hpow : 0 < 10 ^ (-e).toNat := Nat.pow_pos (by decide)
    have hz := div_eq_zero_of_dvd hpow hdiv
    have ht : ∀ n, Dec.integralForm ⟨n, c, e⟩ = ⟨n, c / 10 ^ (-e).toNat, 0⟩ := by
      intro n; simp [Dec.integralForm, Dec.isIntegral, Dec.trunc, he, hdiv]
    refine ⟨?_, ?_, by rw [ht]; exact Int.le_refl 0, by rw [ht], by rw [ht]; exact hz⟩
    · unfold decodePos decodePosP Dec.toUsizeV? Dec.isPos Dec.isNeg Dec.abs
      simp only [ht]
      by_cases hc : c = 0
      · have := hz.mpr hc
        simp [hc]
      · have : ¬ c / 10 ^ (-e).toNat = 0 := fun h0 => hc (hz.mp h0)
        simp [hc, this]
    · rw [ht]
      unfold Dec.toInt? Dec.scoeff
      simp only [ge_iff_le, Int.le_refl, if_true, Int.toNat_zero, Int.pow_zero, Int.mul_one, he, if_false, hdiv,
        beq_self_eq_true]

/-- a value with a fraction is not a position, for the code and for the specification -/
theorem decodePos_nonintegral {p : Dec} (h : p.isIntegral = false) :
    decodePos p = none ∧ p.toInt? = none ∧ p.toUsizeV? = none ∧ p.toIsizeV? = none := by
  obtain ⟨neg, c, e⟩ := p
  simp only [Dec.isIntegral, Bool.or_eq_false_iff, decide_eq_false_iff_not, beq_eq_false_iff_ne] at h
  obtain ⟨he, hd⟩ := h
  have hlt : e < 0 := by omega
  have ht : ∀ n, Dec.integralForm ⟨n, c, e⟩ = ⟨n, c, e⟩ := by
    intro n; simp [Dec.integralForm, Dec.isIntegral, he, hd]
  refine ⟨?_, ?_, ?_, ?_⟩
  · unfold decodePos Dec.toUsizeV? Dec.abs
    simp only [ht, Dec.toUsize?, hlt, if_true]
    split <;> simp
  · unfold Dec.toInt?; simp [he, hd]
  · unfold Dec.toUsizeV?; rw [ht]; unfold Dec.toUsize?; simp [hlt]
  · unfold Dec.toIsizeV?; rw [ht]; unfold Dec.toIsize?; simp [hlt]

theorem decodePos_sound {p : Dec} {pos : Bool × Nat} (h : decodePos p = some pos) :
    p.toInt? = some (posInt pos) ∧ 1 ≤ pos.2 ∧ pos.2 < Usz.modulus := by
  cases hi : p.isIntegral with
  | false => rw [(decodePos_nonintegral hi).1] at h; cases h
  | true =>
    obtain ⟨h1, h2, _, _, _⟩ := decodePos_integral hi
    rw [h1] at h
    have := decodePosP_sound h
    rw [h2] at this
    exact this

/-- A number that is not read as a position has a fraction, is zero, or is at least `2^64` in
magnitude. -/
theorem decodePos_none {p : Dec} (h : decodePos p = none) :
    p.toInt? = none ∨ ∃ v, p.toInt? = some v ∧ (v = 0 ∨ Usz.modulus ≤ v.natAbs) := by
  cases hi : p.isIntegral with
  | false => exact Or.inl (decodePos_nonintegral hi).2.1
  | true =>
    obtain ⟨h1, h2, h3, _, _⟩ := decodePos_integral hi
    rw [h1] at h
    have := decodePosP_none h3 h
    rw [h2] at this
    exact Or.inr this

theorem startIndex_out_of_range {len : Nat} {v : Int} (hL : len < Usz.modulus)
    (h : v = 0 ∨ Usz.modulus ≤ v.natAbs) : Spec.startIndex len v = none := by
  apply startIndex_none <;> omega

end Bif
end Dmn
