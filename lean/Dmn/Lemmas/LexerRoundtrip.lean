import Dmn.Lemmas.LexerCollect
import Dmn.Lemmas.LexerTotal

/-!
# Splitting a rendered name gives back its parts
-/

namespace Dmn.Lexer

/-- A word of the name: non-empty, name part characters only. -/
def isWordPart (p : List Nat) : Bool := !p.isEmpty && p.all isNamePartChar

/-- White space that cannot be taken for a name character. -/
def isBlanks (sp : List Nat) : Bool := sp.all (fun c => isWhitespace c && !isNamePartChar c)

/-- `renderName parts spacing` is a legal way of writing the parts: every part is a word or a
single additional symbol, the spacing is white space, there is one spacing per part, and two
adjacent words are separated by at least one blank. `prevWord` says whether the part before
the first one is a word. -/
def renderOk : Bool → List (List Nat) → List (List Nat) → Bool
  | _, [], [] => true
  | prevWord, p :: ps, sp :: sps =>
    isBlanks sp && (isWordPart p || isSymbolPart p) &&
      (if prevWord && isWordPart p then !sp.isEmpty else true) && renderOk (isWordPart p) ps sps
  | _, _, _ => false

/-- The parts with the offset just after each. -/
def ends : Nat → List (List Nat) → List (List Nat) → List (List Nat × Nat)
  | _, [], _ => []
  | off, p :: ps, [] => (p, off + p.length) :: ends (off + p.length) ps []
  | off, p :: ps, sp :: sps => (p, off + sp.length + p.length) :: ends (off + sp.length + p.length) ps sps

/-- What may follow the name: nothing, or a character that is neither a name part character,
nor an additional symbol, nor white space. -/
def terminated (rest : List Nat) : Prop :=
  ∀ ch, rest.head? = some ch →
    isNamePartChar ch = false ∧ isAdditionalNameSymbol ch = false ∧ isWhitespace ch = false

theorem splitGo_blanks : ∀ (sp l : List Nat) (off : Nat), isBlanks sp = true →
    splitGo off [] (sp ++ l) = splitGo (off + sp.length) [] l := by
  intro sp
  induction sp with
  | nil => intro l off _; rfl
  | cons c sp ih =>
    intro l off h
    simp only [isBlanks, List.all_cons, Bool.and_eq_true, Bool.not_eq_true'] at h
    have hws := h.1.1
    have hnp := h.1.2
    have hns : isAdditionalNameSymbol c = false := by
      cases hp : isAdditionalNameSymbol c with
      | false => rfl
      | true => rw [sym_not_ws' hp] at hws; cases hws
    simp only [List.cons_append, splitGo, hnp, hns, hws, Bool.false_eq_true, if_false, if_true,
      List.isEmpty_nil, List.nil_append, Bool.false_and]
    rw [ih l (off + 1) (by simpa [isBlanks] using h.2)]
    simp only [List.length_cons]
    congr 1
    omega

theorem splitGo_word : ∀ (w l cur : List Nat) (off : Nat), w.all isNamePartChar = true →
    splitGo off cur (w ++ l) = splitGo (off + w.length) (cur ++ w) l := by
  intro w
  induction w with
  | nil => intro l cur off _; simp
  | cons c w ih =>
    intro l cur off h
    simp only [List.all_cons, Bool.and_eq_true] at h
    simp only [List.cons_append, splitGo, h.1, if_true]
    rw [ih l (cur ++ [c]) (off + 1) h.2]
    simp only [List.length_cons, List.append_assoc, List.singleton_append]
    congr 1
    omega

theorem word_not_sym {p : List Nat} (h : isWordPart p = true) : isSymbolPart p = false := by
  unfold isSymbolPart
  split
  · rename_i c
    simp only [isWordPart, Bool.and_eq_true, List.all_cons, List.all_nil, Bool.and_true] at h
    cases hs : isAdditionalNameSymbol c with
    | false => rfl
    | true => rw [sym_not_part hs] at h; cases h.2
  · rfl

/-- What may follow the rendered name for the split to be compositional: not a name part
character (it would extend the last word). -/
def notExtending (rest : List Nat) : Prop :=
  ∀ ch, rest.head? = some ch → isNamePartChar ch = false

theorem head_not_part : ∀ (ps sps : List (List Nat)) (rest : List Nat),
    renderOk true ps sps = true → notExtending rest →
    ∀ ch, (renderName ps sps ++ rest).head? = some ch → isNamePartChar ch = false := by
  intro ps sps rest hok hterm ch hch
  match ps, sps, hok with
  | [], [], _ =>
    simp only [renderName, List.nil_append] at hch
    exact hterm ch hch
  | p :: ps, sp :: sps, hok =>
    simp only [renderOk, Bool.and_eq_true, Bool.true_and] at hok
    obtain ⟨⟨⟨hb, hp⟩, hadj⟩, _⟩ := hok
    simp only [renderName, List.append_assoc] at hch
    cases sp with
    | cons c sp =>
      simp only [List.cons_append, List.head?_cons, Option.some.injEq] at hch
      subst hch
      simp only [isBlanks, List.all_cons, Bool.and_eq_true, Bool.not_eq_true'] at hb
      exact hb.1.2
    | nil =>
      simp only [List.nil_append] at hch
      have hsym : isSymbolPart p = true := by
        cases hw : isWordPart p with
        | true => simp [hw] at hadj
        | false => simpa [hw] using hp
      unfold isSymbolPart at hsym
      split at hsym
      · rename_i c
        simp only [List.cons_append, List.nil_append, List.head?_cons, Option.some.injEq] at hch
        subst hch
        exact sym_not_part hsym
      · cases hsym

theorem renderName_length_cons (p sp : List Nat) (ps sps : List (List Nat)) :
    (renderName (p :: ps) (sp :: sps)).length = sp.length + p.length + (renderName ps sps).length := by
  simp [renderName, List.length_append]
  omega

/-- No comment opens in the text: no `/` directly followed by `/` or `*`. -/
def noCommentStart : List Nat → Bool
  | [] => true
  | c :: s => !commentHead c s && noCommentStart s

theorem noCommentStart_append_right : ∀ (a b : List Nat), noCommentStart (a ++ b) = true →
    noCommentStart b = true := by
  intro a
  induction a with
  | nil => intro b h; exact h
  | cons c a ih =>
    intro b h
    simp only [List.cons_append, noCommentStart, Bool.and_eq_true] at h
    exact ih b h.2

theorem commentHead_take (c : Nat) (x rest : List Nat) :
    commentHead c (x ++ rest.take 1) = commentHead c (x ++ rest) := by
  unfold commentHead
  cases x with
  | cons a x => simp
  | nil => cases rest <;> simp

/-- A word followed by at most one character holds no comment opener. -/
theorem noCommentStart_word : ∀ (w x : List Nat), w.all isNamePartChar = true → x.length ≤ 1 →
    noCommentStart (w ++ x) = true := by
  intro w
  induction w with
  | nil =>
    intro x _ hx
    match x, hx with
    | [], _ => rfl
    | [a], _ => simp [noCommentStart, commentHead]
  | cons c w ih =>
    intro x h hx
    simp only [List.all_cons, Bool.and_eq_true] at h
    have hc : c ≠ 47 := by
      intro he; subst he; exact absurd h.1 (by decide)
    simp only [List.cons_append, noCommentStart, Bool.and_eq_true, Bool.not_eq_true']
    exact ⟨by simp [commentHead, hc], ih x h.2 hx⟩

/-- `split_render`: the structural splitter applied to a rendered name followed by text that
does not extend its last word returns the parts with the offsets just after them, and goes on
with the rest. -/
theorem split_render : ∀ (parts spacing : List (List Nat)) (prev : Bool) (off : Nat) (rest : List Nat),
    renderOk prev parts spacing = true → notExtending rest →
    noCommentStart (renderName parts spacing ++ rest.take 1) = true →
    splitGo off [] (renderName parts spacing ++ rest) =
      ends off parts spacing ++ splitGo (off + (renderName parts spacing).length) [] rest := by
  intro parts
  induction parts with
  | nil =>
    intro spacing prev off rest hok hterm hnc
    cases spacing with
    | cons sp sps => simp [renderOk] at hok
    | nil => simp [renderName, ends]
  | cons p ps ih =>
    intro spacing prev off rest hok hterm hnc
    cases spacing with
    | nil => simp [renderOk] at hok
    | cons sp sps =>
      simp only [renderOk, Bool.and_eq_true] at hok
      obtain ⟨⟨⟨hb, hp⟩, hadj⟩, hrest⟩ := hok
      rw [renderName_length_cons]
      simp only [renderName, List.append_assoc] at hnc
      have hnc1 := noCommentStart_append_right sp _ hnc
      have hnc2 := noCommentStart_append_right p _ hnc1
      simp only [renderName, List.append_assoc, ends]
      rw [splitGo_blanks sp _ off hb]
      cases hw : isWordPart p with
      | true =>
        have hall : p.all isNamePartChar = true := by
          simp only [isWordPart, Bool.and_eq_true] at hw; exact hw.2
        have hne : p ≠ [] := by
          intro he; subst he; simp [isWordPart] at hw
        rw [splitGo_word p _ [] (off + sp.length) hall]
        simp only [List.nil_append]
        rw [hw] at hrest
        rw [splitGo_emit hne (head_not_part ps sps rest hrest hterm)]
        rw [ih sps true _ rest hrest hterm hnc2]
        simp only [List.cons_append, Nat.add_assoc]
      | false =>
        have hsym : isSymbolPart p = true := by simpa [hw] using hp
        rw [hw] at hrest
        unfold isSymbolPart at hsym
        split at hsym
        · rename_i c
          have hcm : commentHead c (renderName ps sps ++ rest) = false := by
            simp only [List.cons_append, List.nil_append, noCommentStart, Bool.and_eq_true,
              Bool.not_eq_true'] at hnc1
            rw [← commentHead_take]; exact hnc1.1
          simp only [List.cons_append, List.nil_append, splitGo, sym_not_part hsym, hsym, hcm,
            Bool.false_eq_true, if_false, if_true, List.isEmpty_nil, List.length_cons, List.length_nil,
            Bool.not_false, Bool.and_self]
          rw [ih sps false _ rest hrest hterm hnc2]
          simp only [Nat.add_assoc, Nat.zero_add]
        · cases hsym

theorem ends_fst : ∀ (parts spacing : List (List Nat)) (off : Nat),
    (ends off parts spacing).map (·.1) = parts := by
  intro parts
  induction parts with
  | nil => intro spacing off; rfl
  | cons p ps ih =>
    intro spacing off
    cases spacing with
    | nil => simp [ends, ih]
    | cons sp sps => simp [ends, ih]

theorem ends_length (parts spacing : List (List Nat)) (off : Nat) :
    (ends off parts spacing).length = parts.length := by
  have := congrArg List.length (ends_fst parts spacing off)
  simpa using this

/-- The offset recorded for the last part is the end of the rendered text. -/
theorem ends_last : ∀ (parts spacing : List (List Nat)) (prev : Bool) (off : Nat),
    renderOk prev parts spacing = true → parts ≠ [] →
    ∃ p, (ends off parts spacing)[parts.length - 1]? = some (p, off + (renderName parts spacing).length) := by
  intro parts
  induction parts with
  | nil => intro _ _ _ _ h; exact absurd rfl h
  | cons p ps ih =>
    intro spacing prev off hok _
    cases spacing with
    | nil => simp [renderOk] at hok
    | cons sp sps =>
      simp only [renderOk, Bool.and_eq_true] at hok
      rw [renderName_length_cons]
      cases ps with
      | nil =>
        cases sps with
        | cons _ _ => simp [renderOk] at hok
        | nil => exact ⟨p, by simp [ends, renderName]; omega⟩
      | cons q qs =>
        obtain ⟨p', hp'⟩ := ih sps (isWordPart p) (off + sp.length + p.length) hok.2 (by simp)
        refine ⟨p', ?_⟩
        simp only [ends, List.length_cons, Nat.add_sub_cancel] at hp' ⊢
        rw [List.getElem?_cons_succ, hp']
        simp only [Nat.add_assoc]

/-! ## The collector always finishes with `ok` -/

theorem nameStep_no_err {inp : List Nat} {s : NameSt} {e : LexErr} {p : Nat} :
    nameStep inp s ≠ .err e p := by
  intro h
  unfold nameStep at h
  cases hst : s.state <;> simp only [hst] at h
  all_goals (repeat' split at h)
  all_goals first
    | (cases h; done)
    | skip
  all_goals
    rename_i hn _ hnone
    first
      | simp [isNextNamePartChar, hnone] at hn
      | simp [isNextAdditionalNameSymbol, hnone] at hn
      | simp [isNextWhitespace, hnone] at hn

theorem nameLoop_no_error {inp : List Nat} :
    ∀ (fuel : Nat) (s : NameSt) (e : LexErr) (p : Nat), nameLoop inp fuel s ≠ .error e p := by
  intro fuel
  induction fuel with
  | zero => intro s e p h; simp [nameLoop] at h
  | succ n ih =>
    intro s e p h
    rw [nameLoop] at h
    split at h
    · exact ih _ _ _ h
    · cases h
    · rename_i hs; exact nameStep_no_err hs

theorem collectParts_ok {inp : List Nat} {pos ch : Nat} (h : inp[pos]? = some ch) :
    ∃ st, collectParts inp pos = .ok st := by
  cases hc : collectParts inp pos with
  | ok st => exact ⟨st, rfl⟩
  | panic s => exact absurd hc (collectParts_no_panic _ _ _)
  | fuelOut => exact absurd hc (collectParts_total _ _)
  | error e p =>
    exfalso
    unfold collectParts at hc
    rw [h] at hc
    exact nameLoop_no_error _ _ _ _ hc

end Dmn.Lexer
