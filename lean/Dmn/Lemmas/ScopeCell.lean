import Dmn.Model.ScopeCell

/-! Helper lemma for the `Scope` model (C05). -/

namespace Dmn.ScopeCell

theorem withBorrow_ok {α : Type} (c : Cell) (h : c.borrowed = false) (k : List Ctx → α × List Ctx) :
    withBorrow c k = .ok (k c.contexts).1 { contexts := (k c.contexts).2, borrowed := false } := by
  simp [withBorrow, h]

/-! ## values -/

theorem find_map_set (es : Ctx) (k : String) (v : Val) (h : es.any (fun e => e.1 == k) = true) :
    (es.map (fun e => if e.1 == k then (k, v) else e)).find? (fun e => e.1 == k) = some (k, v) := by
  induction es with
  | nil => cases h
  | cons e es ih =>
    by_cases he : (e.1 == k) = true
    · simp only [List.map_cons, he, if_true, List.find?_cons, beq_self_eq_true]
    · have hf : (e.1 == k) = false := by simpa using he
      have hr : es.any (fun e => e.1 == k) = true := by
        simpa only [List.any_cons, hf, Bool.false_or] using h
      simp only [List.map_cons, hf, Bool.false_eq_true, if_false, List.find?_cons, ih hr]

theorem lookup_setIn (es : Ctx) (k : String) (v : Val) : lookup (setIn es k v) k = some v := by
  unfold lookup setIn
  by_cases h : es.any (fun e => e.1 == k) = true
  · rw [if_pos h, find_map_set es k v h]; rfl
  · rw [if_neg h, List.find?_append]
    have hn : es.find? (fun e => e.1 == k) = none := by
      rw [List.find?_eq_none]
      intro e he hk
      exact h (List.any_eq_true.mpr ⟨e, he, hk⟩)
    rw [hn]
    simp only [Option.none_or, List.find?_cons, beq_self_eq_true, Option.map_some]

theorem find_map_other (es : Ctx) (k k' : String) (v : Val) (hk : (k == k') = false) :
    (es.map (fun e => if e.1 == k then (k, v) else e)).find? (fun e => e.1 == k') = es.find? (fun e => e.1 == k') := by
  induction es with
  | nil => rfl
  | cons e es ih =>
    by_cases he : (e.1 == k) = true
    · have hek : e.1 = k := by simpa using he
      have h1 : (e.1 == k') = false := by rw [hek]; exact hk
      simp only [List.map_cons, he, if_true, List.find?_cons, h1, hk, ih]
    · have hf : (e.1 == k) = false := by simpa using he
      simp only [List.map_cons, hf, Bool.false_eq_true, if_false, List.find?_cons, ih]

theorem lookup_setIn_other (es : Ctx) (k k' : String) (v : Val) (hk : k' ≠ k) :
    lookup (setIn es k v) k' = lookup es k' := by
  have h2 : (k == k') = false := beq_false_of_ne (Ne.symm hk)
  unfold lookup setIn
  split
  · rw [find_map_other es k k' v h2]
  · rw [List.find?_append]
    simp only [List.find?_cons, h2, List.find?_nil, Option.or_none]

theorem deep_nil (v : Val) : deep v [] = some v := by cases v <;> rfl

theorem deep_single (ctx : Ctx) (k : String) : deep (.ctx ctx) [k] = lookup ctx k := by
  simp only [deep]
  cases lookup ctx k with
  | none => rfl
  | some v => exact deep_nil v

theorem find_then_lookup (l : List Ctx) (k : String) :
    (match l.find? (fun ctx => (lookup ctx k).isSome) with
      | some ctx => deep (.ctx ctx) [k]
      | none => none) = l.findSome? (fun ctx => lookup ctx k) := by
  induction l with
  | nil => rfl
  | cons c l ih =>
    cases hc : lookup c k with
    | none => simp only [List.find?_cons, hc, Option.isSome_none, List.findSome?_cons, ih]
    | some v => simp only [List.find?_cons, hc, Option.isSome_some, List.findSome?_cons, deep_single]

end Dmn.ScopeCell
