import Dmn.Model.ScopeCell

/-! Helper lemma for the `Scope` model (C05). -/

namespace Dmn.ScopeCell

theorem withBorrow_ok {α : Type} (c : Cell) (h : c.borrowed = false) (k : List Ctx → α × List Ctx) :
    withBorrow c k = .ok (k c.contexts).1 { contexts := (k c.contexts).2, borrowed := false } := by
  simp [withBorrow, h]

end Dmn.ScopeCell
