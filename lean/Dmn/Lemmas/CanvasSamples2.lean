import Dmn.Lemmas.CanvasSamples
import Dmn.Lemmas.CanvasRegions

/-!
# More sample evaluations for Props/C19.lean (stage 3 proved; what `Fits` does not cover)
-/

namespace Dmn.Recog

/-- four rules; the entry of the first input is the same in the first three rules -/
def mergedTable (o : Orientation) : TableSpec :=
  { orientation := o, hitPolicy := .unique, infoName := none,
    inputs := [⟨"Cu".toList, none⟩, ⟨"Or".toList, none⟩], outputs := [⟨none, none⟩],
    label := some "out".toList, annotations := [],
    rules := [⟨["\"B\"".toList, "<1".toList], ["1".toList], []⟩,
              ⟨["\"B\"".toList, "<5".toList], ["2".toList], []⟩,
              ⟨["\"B\"".toList, ">4".toList], ["3".toList], []⟩,
              ⟨["\"P\"".toList, "-".toList], ["4".toList], []⟩] }

def mergedDecor : Decor :=
  { hp := "U".toList, ruleNos := ["1".toList, "2".toList, "3".toList, "4".toList], split := false,
    hpBlank := [], annBlanks := [], merge := true }

/-- `Fits` alone does not give stage 4: in a layout one position wider than the texts, the drawing
is legal and its regions are found (stage 3), but the text cut out of a region is the text of the
table completed with blanks, not the text of the table -/
theorem sample_fits_not_enough :
    let l := laidOut tinyDecor (tinyNamed .ruleAsRow)
    let L' : Layout := { l.2.2 with colW := l.2.2.colW.map (· + 1) }
    l.2.1.wf = true ∧ fitsB l.1 L' l.2.1 = true ∧ stageRegions l.1 L' l.2.1 = true ∧
      stagePlane l.1 L' l.2.1 = false := by
  decide +kernel

end Dmn.Recog
