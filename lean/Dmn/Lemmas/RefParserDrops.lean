import Dmn.Lemmas.RefParserNeededExt

/-!
# C06 — `drops` (every rendering with one pair left out, at any depth) and `printWithout`

`drops m t` is what the correspondence enumerates; `printWithout t i` is what
`paren_needed_partial` speaks about.  A needed pair around an operand of the root is among
the pairs `drops` leaves out.
-/

namespace Dmn.Ref

theorem wrapped_of_needs {m : Mode} {pos : Pos} {c : Tree} (h : needs m pos c = true) :
    wrapped m (needs m pos c) c = true := by simp [wrapped, h]

theorem segsFlat_append (a b : List Seg) : segsFlat (a ++ b) = segsFlat a ++ segsFlat b := by
  induction a with
  | nil => rfl
  | cons s a ih => obtain ⟨p, ds⟩ := s; simp [segsFlat, ih]

theorem segsFlat_argsTail (m : Mode) (close : Tok) : ∀ as : Args,
    segsFlat (segsArgsTail m close as) = prArgsTail m close as
  | .nil => by simp [segsArgsTail, segsFlat, prArgsTail, Seg.fixed]
  | .cons a as => by
    simp [segsArgsTail, segsFlat, prArgsTail, Seg.fixed, Seg.opd, segsFlat_argsTail m close as]

theorem segsFlat_args (m : Mode) (close : Tok) : ∀ as : Args,
    segsFlat (segsArgs m close as) = prArgs m close as
  | .nil => by simp [segsArgs, segsFlat, prArgs, Seg.fixed]
  | .cons a as => by simp [segsArgs, segsFlat, prArgs, Seg.opd, segsFlat_argsTail m close as]

theorem segsFlat_bindsTail (m : Mode) (sep close : Tok) : ∀ bs : Binds,
    segsFlat (segsBindsTail m sep close bs) = prBindsTail m sep close bs
  | .nil => by simp [segsBindsTail, segsFlat, prBindsTail, Seg.fixed]
  | .cons n v bs => by
    simp [segsBindsTail, segsFlat, prBindsTail, Seg.fixed, Seg.opd, segsFlat_bindsTail m sep close bs]

theorem segsFlat_itersTail (m : Mode) : ∀ its : Iters, segsFlat (segsItersTail m its) = prItersTail m its
  | .nil => by simp [segsItersTail, segsFlat, prItersTail, Seg.fixed]
  | .single v d its => by
    simp [segsItersTail, segsFlat, prItersTail, Seg.fixed, Seg.opd, segsFlat_itersTail m its]
  | .range v lo hi its => by
    simp [segsItersTail, segsFlat, prItersTail, Seg.fixed, Seg.opd, segsFlat_itersTail m its]

theorem mem_combine_cons_right (s : Seg) (rest : List Seg) (x : List Tok) (hx : x ∈ combine rest) :
    s.1 ++ x ∈ combine (s :: rest) := by
  obtain ⟨p, ds⟩ := s
  simp only [combine, List.mem_append, List.mem_map]
  exact Or.inr ⟨x, hx, rfl⟩

theorem mem_combine_last (a : List Seg) (p : List Tok) (ds : List (List Tok)) (x : List Tok) (hx : x ∈ ds) :
    segsFlat a ++ x ∈ combine (a ++ [(p, ds)]) := by
  induction a with
  | nil => simp [combine, segsFlat, hx]
  | cons s a ih =>
    obtain ⟨q, es⟩ := s
    simp only [List.cons_append, combine, segsFlat, List.mem_append, List.mem_map, List.append_assoc]
    exact Or.inr ⟨_, ih, rfl⟩

/-- The last operand of an open construct, bare, after a list-like part. -/
theorem mem_combine_tail (m : Mode) (pre : List Tok) (w : Bool) (d : Tree) (segs : List Seg) (body : Tree)
    (k : Nat) (hw : wrapped m (needs m (.open k) body) body = true) :
    pre ++ (par w (pr m d) ++ (segsFlat segs ++ pr m body)) ∈
      combine (Seg.fixed pre :: Seg.opd w (pr m d) (drops m d) ::
        (segs ++ [Seg.opd (wrapped m (needs m (.open k) body) body) (pr m body) (drops m body)])) := by
  refine mem_combine_cons_right (Seg.fixed pre) _ _ (mem_combine_cons_right (Seg.opd w (pr m d) (drops m d)) _ _ ?_)
  exact mem_combine_last segs _ _ _ (by simp [hw])

set_option maxHeartbeats 400000 in
/-- The rendering `paren_needed_partial` speaks about is one of those `drops` enumerates. -/
theorem drops_contains_root (t : Tree) (i : Nat) (pos : Pos) (c : Tree)
    (h : operand t i = some (pos, c)) (hn : needsParens pos c = true) :
    printWithout t i ∈ drops .minimal t := by
  unfold needsParens at hn
  have hw := wrapped_of_needs hn
  cases t <;> (try (simp [operand] at h; done))
  case forS v d its body =>
    rcases i with _ | i <;> simp [operand] at h
    obtain ⟨rfl, rfl⟩ := h
    have key := mem_combine_tail .minimal [.kfor, .name v, .kin] (wrapped .minimal (needs .minimal .delim d) d) d
      (segsItersTail .minimal its) body forMin hw
    simpa [printWithout, drops, segsFlat_itersTail, par_false] using key
  case quant ev v d qs body =>
    rcases i with _ | i <;> simp [operand] at h
    obtain ⟨rfl, rfl⟩ := h
    have key := mem_combine_tail .minimal [quantTok ev, .name v, .kin] (wrapped .minimal (needs .minimal .delim d) d) d
      (segsBindsTail .minimal .kin .ksatisfies qs) body (quantMin ev) hw
    simpa [printWithout, drops, segsFlat_bindsTail, par_false] using key
  case forR v lo hi its body =>
    rcases i with _ | i <;> simp [operand] at h
    obtain ⟨rfl, rfl⟩ := h
    have key := mem_combine_tail .minimal [.kfor, .name v, .kin] (wrapped .minimal (needs .minimal .delim lo) lo) lo
      (Seg.fixed [.ellipsis] :: Seg.opd (wrapped .minimal (needs .minimal .delim hi) hi) (pr .minimal hi)
        (drops .minimal hi) :: segsItersTail .minimal its) body forMin hw
    simpa [printWithout, drops, segsFlat, Seg.fixed, Seg.opd, segsFlat_itersTail, par_false] using key
  all_goals
    (rcases i with _ | _ | _ | i <;> simp [operand] at h <;>
      (try (obtain ⟨rfl, rfl⟩ := h)) <;>
      (try (simp [needs] at hn; done)) <;>
      simp [printWithout, drops, combine, Seg.opd, Seg.fixed, segsFlat, segsFlat_append, segsFlat_args,
        segsFlat_argsTail, segsFlat_bindsTail, segsFlat_itersTail, hw, par])

end Dmn.Ref
