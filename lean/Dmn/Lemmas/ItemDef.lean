import Dmn.Lemmas.DTValue
import Dmn.Lemmas.FType

/-!
# Helper lemmas about the item-definition model (used by `Props/C11.lean`)
-/

namespace Dmn.ID

open Dmn DTValue Spec

theorem checkAllowed_ok (v : DTValue) (av : Allowed) (h : okAllowed v av = true) : checkAllowed v av = v := by
  cases av with
  | none => rfl
  | some p => simp only [okAllowed] at h; simp [checkAllowed, h]

theorem checkAllowed_eq (v : DTValue) (av : Allowed) :
    checkAllowed v av = if okAllowed v av then v else .null := by
  cases av with
  | none => simp [checkAllowed, okAllowed]
  | some p => cases hp : p v <;> simp [checkAllowed, okAllowed, hp]

theorem allAccept_eq (t : Simple) (xs : List DTValue) : allAccept t xs = xs.all t.accepts := by
  induction xs with
  | nil => rfl
  | cons x xs ih =>
    simp only [allAccept, List.all_cons, ih]
    cases t.accepts x <;> simp

theorem checkAllowed_null (av : Allowed) : checkAllowed .null av = .null := by
  cases av with
  | none => rfl
  | some p => cases hp : p .null <;> simp [checkAllowed, hp]

theorem accepts_null (t : Simple) : t.accepts .null = false := by cases t <;> rfl

theorem refLoop_eq (f : DTValue → DTValue) (xs : List DTValue) :
    refLoop f xs = if (xs.map f).any (· = .null) then none else some (xs.map f) := by
  induction xs with
  | nil => simp [refLoop]
  | cons x xs ih =>
    simp only [refLoop, List.map_cons, List.any_cons, ih]
    by_cases hx : f x = .null
    · simp [hx]
    · by_cases ha : ((xs.map f).any fun x => decide (x = DTValue.null)) = true
      · simp [hx, ha]
      · simp [hx, ha]

/-- The context built from the declared components of `es`, inserted in declaration order. -/
def rebuild (cs : List (Name × ItemDef)) (es : List (Name × DTValue)) (acc : List (Name × DTValue)) :
    List (Name × DTValue) :=
  cs.foldl (fun acc c => ctxInsert c.1 ((ctxGet c.1 es).getD .null) acc) acc

theorem rebuild_get (cs : List (Name × ItemDef)) (es : List (Name × DTValue)) :
    ∀ (acc : List (Name × DTValue)) (k : Name),
      ctxGet k (rebuild cs es acc) =
        if cs.any (fun c => c.1 = k) then some ((ctxGet k es).getD .null) else ctxGet k acc := by
  induction cs with
  | nil => intro acc k; simp [rebuild]
  | cons c cs ih =>
    intro acc k
    simp only [rebuild, List.foldl_cons] at ih ⊢
    rw [ih]
    simp only [List.any_cons, ctxGet_insert]
    by_cases h1 : cs.any (fun c => decide (c.1 = k)) = true
    · simp [h1]
    · simp only [h1, if_false, Bool.or_false]
      by_cases h2 : c.1 = k
      · subst h2; simp
      · have : ¬ k = c.1 := fun e => h2 e.symm
        simp [h2, this]

theorem rebuild_sorted (cs : List (Name × ItemDef)) (es acc : List (Name × DTValue)) (h : Sorted acc) :
    Sorted (rebuild cs es acc) := by
  induction cs generalizing acc with
  | nil => exact h
  | cons c cs ih =>
    simp only [rebuild, List.foldl_cons]
    exact ih _ (sorted_insert _ _ _ h)

theorem compsConform_get (k : Name → Option (DTValue → Bool)) :
    ∀ (cs : List (Name × ItemDef)) (es : List (Name × DTValue)), compsConform k cs es = true →
      ∀ c ∈ cs, ∃ x, ctxGet c.1 es = some x ∧ conformsWith k c.2 x = true
  | [], _, _ => by intro c hc; cases hc
  | (n, t) :: cs, es, h => by
    simp only [compsConform, Bool.and_eq_true] at h
    intro c hc
    simp only [List.mem_cons] at hc
    rcases hc with rfl | hc
    · cases hg : ctxGet n es with
      | none => rw [hg] at h; simp at h
      | some x => rw [hg] at h; exact ⟨x, rfl, h.1⟩
    · exact compsConform_get k cs es h.2 c hc

/-- A well-formed context that has exactly the declared components is rebuilt unchanged. -/
theorem rebuild_eq (cs : List (Name × ItemDef)) (es : List (Name × DTValue))
    (hs : Sorted es) (hpresent : ∀ c ∈ cs, ∃ x, ctxGet c.1 es = some x)
    (hdeclared : es.all (fun e => cs.any (fun c => c.1 = e.1)) = true) :
    rebuild cs es [] = es := by
  apply sorted_ext _ _ (rebuild_sorted cs es [] (by simp [Sorted])) hs
  intro k
  rw [rebuild_get]
  by_cases hk : cs.any (fun c => decide (c.1 = k)) = true
  · simp only [hk, if_true]
    simp only [List.any_eq_true, decide_eq_true_eq] at hk
    obtain ⟨c, hc, rfl⟩ := hk
    obtain ⟨x, hx⟩ := hpresent c hc
    simp [hx]
  · simp only [hk, if_false, ctxGet]
    cases hg : ctxGet k es with
    | none => rfl
    | some x =>
      exfalso
      have hm := get_some_mem hg
      simp only [List.all_eq_true] at hdeclared
      have := hdeclared _ hm
      exact hk this

/-! ## conforming values pass unchanged -/

/-- `kc` (which values conform to a named definition) and `k` (the evaluators) fit together:
whenever a definition is known to the specification it has an evaluator that is the identity
on its conforming values. -/
def Fits (kc : Name → Option (DTValue → Bool)) (k : Name → Option (DTValue → DTValue)) : Prop :=
  ∀ n p, kc n = some p → ∃ f, k n = some f ∧ ∀ v, p v = true → f v = v

theorem itemLoop_id (g : List (Name × DTValue) → Option (List (Name × DTValue)))
    (c : List (Name × DTValue) → Bool) (hg : ∀ es, c es = true → g es = some es) :
    ∀ xs, itemsConform c xs = true → itemLoop g xs = some xs
  | [], _ => rfl
  | x :: xs, h => by
    simp only [itemsConform, Bool.and_eq_true] at h
    cases x with
    | ctx es =>
      simp only at h
      simp [itemLoop, hg es h.1, itemLoop_id g c hg xs h.2]
    | null => simp at h
    | bool b => simp at h
    | num n => simp at h
    | str s => simp at h
    | atom k t => simp at h
    | list l => simp at h

mutual
theorem checkWith_id (kc : Name → Option (DTValue → Bool)) (k : Name → Option (DTValue → DTValue))
    (H : Fits kc k) : ∀ (t : ItemDef) (v : DTValue), conformsWith kc t v = true → checkWith k t v = v
  | .simple t av, v, h => by
    simp only [conformsWith, Bool.and_eq_true] at h
    simp [checkWith, h.1, checkAllowed_ok v av h.2]
  | .referenced n av, v, h => by
    simp only [conformsWith] at h
    by_cases ha : isAny n = true
    · rw [if_pos ha] at h
      simp only [checkWith, if_pos ha]
      exact checkAllowed_ok v av h
    · rw [if_neg ha] at h
      cases hk : kc (trim n) with
      | none => rw [hk] at h; simp at h
      | some p =>
        rw [hk] at h
        simp only [Bool.and_eq_true] at h
        obtain ⟨f, hf, hid⟩ := H (trim n) p hk
        simp [checkWith, ha, hf, hid v h.1, checkAllowed_ok v av h.2]
  | .component cs av, v, h => by
    cases v with
    | ctx es =>
      simp only [conformsWith, Bool.and_eq_true] at h
      obtain ⟨⟨⟨hc, hs⟩, hd⟩, ha⟩ := h
      have hloop := compLoop_id kc k H cs es [] hc
      have hpres : ∀ c ∈ cs, ∃ x, ctxGet c.1 es = some x := by
        intro c hcm
        obtain ⟨x, hx, _⟩ := compsConform_get kc cs es hc c hcm
        exact ⟨x, hx⟩
      have hre := rebuild_eq cs es ((sortedKeys_iff es).mp hs) hpres hd
      simp only [checkWith, hloop, hre]
      exact checkAllowed_ok _ av ha
    | null => simp [conformsWith] at h
    | bool b => simp [conformsWith] at h
    | num n => simp [conformsWith] at h
    | str s => simp [conformsWith] at h
    | atom k t => simp [conformsWith] at h
    | list l => simp [conformsWith] at h
  | .collSimple t av, v, h => by
    cases v with
    | list xs =>
      simp only [conformsWith, Bool.and_eq_true] at h
      simp [checkWith, allAccept_eq, h.1, checkAllowed_ok _ av h.2]
    | null => simp [conformsWith] at h
    | bool b => simp [conformsWith] at h
    | num n => simp [conformsWith] at h
    | str s => simp [conformsWith] at h
    | atom k t => simp [conformsWith] at h
    | ctx l => simp [conformsWith] at h
  | .collReferenced n av, v, h => by
    cases v with
    | list xs =>
      simp only [conformsWith] at h
      by_cases ha : isAny n = true
      · rw [if_pos ha] at h
        simp only [checkWith, if_pos ha]
        exact checkAllowed_ok _ av h
      · rw [if_neg ha] at h
        cases hk : kc (trim n) with
        | none => rw [hk] at h; simp at h
        | some p =>
          rw [hk] at h
          simp only [Bool.and_eq_true, List.all_eq_true, bne_iff_ne, ne_eq] at h
          obtain ⟨f, hf, hid⟩ := H (trim n) p hk
          have hmap : xs.map f = xs := by
            conv => rhs; rw [← List.map_id xs]
            apply List.map_congr_left
            intro x hx
            exact hid x (h.1 x hx).1
          have hnn : (xs.any fun x => decide (x = DTValue.null)) = false := by
            rw [List.any_eq_false]
            intro x hx hxn
            simp only [decide_eq_true_eq] at hxn
            exact (h.1 x hx).2 hxn
          simp only [checkWith, if_neg ha, hf, refLoop_eq, hmap, hnn]
          exact checkAllowed_ok _ av h.2
    | null => simp [conformsWith] at h
    | bool b => simp [conformsWith] at h
    | num n => simp [conformsWith] at h
    | str s => simp [conformsWith] at h
    | atom k t => simp [conformsWith] at h
    | ctx l => simp [conformsWith] at h
  | .collComponent cs av, v, h => by
    cases v with
    | list xs =>
      simp only [conformsWith, Bool.and_eq_true] at h
      have hg : ∀ es, (compsConform kc cs es && sortedKeys es &&
          es.all (fun e => cs.any (fun c => c.1 = e.1))) = true → compLoop k cs es [] = some es := by
        intro es he
        simp only [Bool.and_eq_true] at he
        obtain ⟨⟨hc, hs⟩, hd⟩ := he
        have hloop := compLoop_id kc k H cs es [] hc
        have hpres : ∀ c ∈ cs, ∃ x, ctxGet c.1 es = some x := by
          intro c hcm
          obtain ⟨x, hx, _⟩ := compsConform_get kc cs es hc c hcm
          exact ⟨x, hx⟩
        rw [hloop, rebuild_eq cs es ((sortedKeys_iff es).mp hs) hpres hd]
      have := itemLoop_id (fun es => compLoop k cs es []) _ hg xs h.1
      simp only [checkWith, this]
      exact checkAllowed_ok _ av h.2
    | null => simp [conformsWith] at h
    | bool b => simp [conformsWith] at h
    | num n => simp [conformsWith] at h
    | str s => simp [conformsWith] at h
    | atom k t => simp [conformsWith] at h
    | ctx l => simp [conformsWith] at h
theorem compLoop_id (kc : Name → Option (DTValue → Bool)) (k : Name → Option (DTValue → DTValue))
    (H : Fits kc k) : ∀ (cs : List (Name × ItemDef)) (es acc : List (Name × DTValue)),
      compsConform kc cs es = true → compLoop k cs es acc = some (rebuild cs es acc)
  | [], _, _, _ => rfl
  | (n, t) :: cs, es, acc, h => by
    simp only [compsConform, Bool.and_eq_true] at h
    cases hg : ctxGet n es with
    | none => rw [hg] at h; simp at h
    | some x =>
      rw [hg] at h
      have hx := checkWith_id kc k H t x h.1
      have := compLoop_id kc k H cs es (ctxInsert n x acc) h.2
      simp only [compLoop, hg, hx, this, rebuild, List.foldl_cons, Option.getD_some]
end

/-! ## fuel: the evaluators and the specification fit at every depth -/

theorem fits_fuel (defs : Defs) : ∀ fuel, Fits (conformsName defs fuel) (evaluator defs fuel) := by
  intro fuel
  induction fuel with
  | zero =>
    intro n p hp
    simp only [conformsName, Option.some.injEq] at hp
    subst hp
    exact ⟨_, rfl, by simp⟩
  | succ f ih =>
    intro n p hp
    simp only [conformsName] at hp
    cases hl : lookup defs n with
    | none => rw [hl] at hp; simp at hp
    | some t =>
      rw [hl] at hp
      simp only [Option.some.injEq] at hp
      subst hp
      refine ⟨checkWith (evaluator defs f) t, by simp [evaluator, hl], ?_⟩
      intro v hv
      exact checkWith_id _ _ ih t v hv

/-! ## idempotence -/

mutual
/-- Component names are pairwise distinct at every component node. -/
def WF : ItemDef → Prop
  | .component cs _ => (cs.map (·.1)).Nodup ∧ WFComps cs
  | .collComponent cs _ => (cs.map (·.1)).Nodup ∧ WFComps cs
  | .simple _ _ => True
  | .referenced _ _ => True
  | .collSimple _ _ => True
  | .collReferenced _ _ => True
def WFComps : List (Name × ItemDef) → Prop
  | [] => True
  | (_, t) :: cs => WF t ∧ WFComps cs
end

/-- The context of the checked components. -/
def chk (k : Name → Option (DTValue → DTValue)) (cs : List (Name × ItemDef)) (es : List (Name × DTValue))
    (acc : List (Name × DTValue)) : List (Name × DTValue) :=
  cs.foldl (fun acc c => ctxInsert c.1 (checkWith k c.2 ((ctxGet c.1 es).getD .null)) acc) acc

theorem compLoop_eq (k : Name → Option (DTValue → DTValue)) :
    ∀ (cs : List (Name × ItemDef)) (es acc : List (Name × DTValue)),
      compLoop k cs es acc =
        if cs.all (fun c => (ctxGet c.1 es).isSome) then some (chk k cs es acc) else none
  | [], _, _ => by simp [compLoop, chk]
  | (n, t) :: cs, es, acc => by
    simp only [compLoop]
    cases hg : ctxGet n es with
    | none => simp [hg]
    | some x =>
      simp only [List.all_cons, hg, Option.isSome_some, Bool.true_and, chk, List.foldl_cons, Option.getD_some]
      rw [compLoop_eq k cs es]
      rfl

theorem chk_get_other (k : Name → Option (DTValue → DTValue)) (cs : List (Name × ItemDef))
    (es : List (Name × DTValue)) : ∀ (acc : List (Name × DTValue)) (n : Name),
      (∀ c ∈ cs, c.1 ≠ n) → ctxGet n (chk k cs es acc) = ctxGet n acc := by
  induction cs with
  | nil => intro acc n _; rfl
  | cons c cs ih =>
    intro acc n h
    simp only [chk, List.foldl_cons] at ih ⊢
    rw [ih _ n (fun c' hc' => h c' (by simp [hc']))]
    rw [ctxGet_insert]
    have : ¬ n = c.1 := fun e => h c (by simp) e.symm
    simp [this]

theorem chk_get (k : Name → Option (DTValue → DTValue)) (cs : List (Name × ItemDef))
    (es : List (Name × DTValue)) (nd : (cs.map (·.1)).Nodup) :
    ∀ (acc : List (Name × DTValue)), ∀ c ∈ cs,
      ctxGet c.1 (chk k cs es acc) = some (checkWith k c.2 ((ctxGet c.1 es).getD .null)) := by
  induction cs with
  | nil => intro acc c hc; cases hc
  | cons c0 cs ih =>
    intro acc c hc
    simp only [List.map_cons, List.nodup_cons] at nd
    simp only [chk, List.foldl_cons]
    simp only [List.mem_cons] at hc
    rcases hc with rfl | hc
    · have := chk_get_other k cs es (ctxInsert c.1 (checkWith k c.2 ((ctxGet c.1 es).getD .null)) acc) c.1
        (by intro c' hc' e; exact nd.1 (List.mem_map.mpr ⟨c', hc', e⟩))
      simp only [chk] at this
      rw [this, ctxGet_insert]
      simp
    · have := ih nd.2 (ctxInsert c0.1 (checkWith k c0.2 ((ctxGet c0.1 es).getD .null)) acc) c hc
      simp only [chk] at this
      exact this

theorem chk_congr (k : Name → Option (DTValue → DTValue)) (cs : List (Name × ItemDef))
    (es fs : List (Name × DTValue))
    (h : ∀ c ∈ cs, checkWith k c.2 ((ctxGet c.1 es).getD .null) = checkWith k c.2 ((ctxGet c.1 fs).getD .null)) :
    ∀ acc, chk k cs es acc = chk k cs fs acc := by
  induction cs with
  | nil => intro acc; rfl
  | cons c cs ih =>
    intro acc
    simp only [chk, List.foldl_cons]
    rw [h c (by simp)]
    exact ih (fun c' hc' => h c' (by simp [hc'])) _

/-- Every evaluator is idempotent. -/
def Idem (k : Name → Option (DTValue → DTValue)) : Prop :=
  ∀ n f, k n = some f → f .null = .null ∧ ∀ v, f (f v) = f v

/-- Null is checked to null by every item definition. -/
theorem checkWith_null (k : Name → Option (DTValue → DTValue))
    (h : ∀ n f, k n = some f → f .null = .null) (t : ItemDef) : checkWith k t .null = .null := by
  cases t with
  | simple t av => simp [checkWith, accepts_null]
  | referenced n av =>
    simp only [checkWith]
    by_cases ha : isAny n = true
    · simp [ha, checkAllowed_null]
    · rw [if_neg ha]
      cases hk : k (trim n) with
      | none => rfl
      | some f => simp [h (trim n) f hk, checkAllowed_null]
  | component cs av => simp [checkWith]
  | collSimple t av => simp [checkWith]
  | collReferenced n av => simp [checkWith]
  | collComponent cs av => simp [checkWith]

theorem compLoop_second (k : Name → Option (DTValue → DTValue)) (cs : List (Name × ItemDef))
    (nd : (cs.map (·.1)).Nodup)
    (hc : ∀ c ∈ cs, ∀ v, checkWith k c.2 (checkWith k c.2 v) = checkWith k c.2 v)
    (es out : List (Name × DTValue)) (h : compLoop k cs es [] = some out) :
    compLoop k cs out [] = some out := by
  rw [compLoop_eq] at h
  split at h
  · simp only [Option.some.injEq] at h
    subst h
    rw [compLoop_eq]
    have hall : cs.all (fun c => (ctxGet c.1 (chk k cs es [])).isSome) = true := by
      simp only [List.all_eq_true]
      intro c hcm
      rw [chk_get k cs es nd [] c hcm]
      rfl
    rw [if_pos hall]
    congr 1
    apply chk_congr
    intro c hcm
    rw [chk_get k cs es nd [] c hcm]
    simp only [Option.getD_some]
    exact hc c hcm _
  · simp at h

theorem itemLoop_second (g : List (Name × DTValue) → Option (List (Name × DTValue)))
    (hg : ∀ es out, g es = some out → g out = some out) :
    ∀ xs outs, itemLoop g xs = some outs → itemLoop g outs = some outs
  | [], outs, h => by simp [itemLoop] at h; subst h; rfl
  | x :: xs, outs, h => by
    cases x with
    | ctx es =>
      simp only [itemLoop] at h
      cases hge : g es with
      | none => rw [hge] at h; simp at h
      | some out =>
        rw [hge] at h
        cases hr : itemLoop g xs with
        | none => rw [hr] at h; simp at h
        | some rest =>
          rw [hr] at h
          simp only [Option.some.injEq] at h
          subst h
          simp [itemLoop, hg es out hge, itemLoop_second g hg xs rest hr]
    | null => simp [itemLoop] at h
    | bool b => simp [itemLoop] at h
    | num n => simp [itemLoop] at h
    | str s => simp [itemLoop] at h
    | atom k t => simp [itemLoop] at h
    | list l => simp [itemLoop] at h

theorem checkAllowed_cases (v : DTValue) (av : Allowed) :
    (checkAllowed v av = v ∧ okAllowed v av = true) ∨ (checkAllowed v av = .null ∧ okAllowed v av = false) := by
  rw [checkAllowed_eq]
  cases h : okAllowed v av <;> simp

mutual
theorem checkWith_idem (k : Name → Option (DTValue → DTValue)) (H : Idem k) :
    ∀ (t : ItemDef), WF t → ∀ v, checkWith k t (checkWith k t v) = checkWith k t v
  | .simple t av, _, v => by
    have e : ∀ w, checkWith k (.simple t av) w = if t.accepts w = true then checkAllowed w av else .null :=
      fun w => by simp [checkWith]
    rw [e v]
    by_cases ha : t.accepts v = true
    · rw [if_pos ha]
      rcases checkAllowed_cases v av with ⟨h1, _⟩ | ⟨h1, _⟩
      · rw [h1, e v, if_pos ha, h1]
      · rw [h1, e, accepts_null]; simp
    · rw [if_neg ha, e, accepts_null]; simp
  | .referenced n av, _, v => by
    simp only [checkWith]
    by_cases ha : isAny n = true
    · simp only [if_pos ha]
      rcases checkAllowed_cases v av with ⟨h1, _⟩ | ⟨h1, _⟩
      · rw [h1, h1]
      · rw [h1, checkAllowed_null]
    · simp only [if_neg ha]
      cases hk : k (trim n) with
      | none => simp
      | some f =>
        simp only
        rcases checkAllowed_cases (f v) av with ⟨h1, _⟩ | ⟨h1, _⟩
        · rw [h1, (H (trim n) f hk).2 v, h1]
        · rw [h1, (H (trim n) f hk).1, checkAllowed_null]
  | .component cs av, wf, v => by
    simp only [WF] at wf
    cases v with
    | ctx es =>
      simp only [checkWith]
      cases hl : compLoop k cs es [] with
      | none => simp
      | some out =>
        simp only
        rcases checkAllowed_cases (.ctx out) av with ⟨h1, _⟩ | ⟨h1, _⟩
        · rw [h1]
          simp only
          rw [compLoop_second k cs wf.1 (comps_idem k H cs wf.2) es out hl]
          simp only [h1]
        · rw [h1]
    | null => simp [checkWith]
    | bool b => simp [checkWith]
    | num n => simp [checkWith]
    | str s => simp [checkWith]
    | atom k t => simp [checkWith]
    | list l => simp [checkWith]
  | .collSimple t av, _, v => by
    cases v with
    | list xs =>
      simp only [checkWith]
      by_cases ha : allAccept t xs = true
      · rw [if_pos ha]
        rcases checkAllowed_cases (.list xs) av with ⟨h1, _⟩ | ⟨h1, _⟩
        · rw [h1]; simp only; rw [if_pos ha, h1]
        · rw [h1]
      · rw [if_neg ha]
    | null => simp [checkWith]
    | bool b => simp [checkWith]
    | num n => simp [checkWith]
    | str s => simp [checkWith]
    | atom k t => simp [checkWith]
    | ctx l => simp [checkWith]
  | .collReferenced n av, _, v => by
    cases v with
    | list xs =>
      simp only [checkWith]
      by_cases ha : isAny n = true
      · simp only [if_pos ha]
        rcases checkAllowed_cases (.list xs) av with ⟨h1, _⟩ | ⟨h1, _⟩
        · rw [h1]; simp only [if_pos ha]; exact h1
        · rw [h1]
      · simp only [if_neg ha]
        cases hk : k (trim n) with
        | none => simp
        | some f =>
          simp only [refLoop_eq]
          by_cases hany : ((xs.map f).any fun x => decide (x = DTValue.null)) = true
          · simp [hany]
          · have hany' : ((xs.map f).any fun x => decide (x = DTValue.null)) = false := by simpa using hany
            simp only [hany', Bool.false_eq_true, if_false]
            rcases checkAllowed_cases (.list (xs.map f)) av with ⟨h1, _⟩ | ⟨h1, _⟩
            · rw [h1]
              simp only [if_neg ha, hk, refLoop_eq]
              have : (xs.map f).map f = xs.map f := by
                rw [List.map_map]
                apply List.map_congr_left
                intro x _
                exact (H (trim n) f hk).2 x
              rw [this]
              simp only [hany', Bool.false_eq_true, if_false]
              exact h1
            · rw [h1]
    | null => simp [checkWith]
    | bool b => simp [checkWith]
    | num n => simp [checkWith]
    | str s => simp [checkWith]
    | atom k t => simp [checkWith]
    | ctx l => simp [checkWith]
  | .collComponent cs av, wf, v => by
    simp only [WF] at wf
    cases v with
    | list xs =>
      simp only [checkWith]
      cases hl : itemLoop (fun es => compLoop k cs es []) xs with
      | none => simp
      | some outs =>
        simp only
        rcases checkAllowed_cases (.list outs) av with ⟨h1, _⟩ | ⟨h1, _⟩
        · rw [h1]
          simp only
          rw [itemLoop_second (fun es => compLoop k cs es [])
            (fun es out h => compLoop_second k cs wf.1 (comps_idem k H cs wf.2) es out h) xs outs hl]
          simp only [h1]
        · rw [h1]
    | null => simp [checkWith]
    | bool b => simp [checkWith]
    | num n => simp [checkWith]
    | str s => simp [checkWith]
    | atom k t => simp [checkWith]
    | ctx l => simp [checkWith]
theorem comps_idem (k : Name → Option (DTValue → DTValue)) (H : Idem k) :
    ∀ (cs : List (Name × ItemDef)), WFComps cs →
      ∀ c ∈ cs, ∀ v, checkWith k c.2 (checkWith k c.2 v) = checkWith k c.2 v
  | [], _ => by intro c hc; cases hc
  | (n, t) :: cs, wf => by
    simp only [WFComps] at wf
    intro c hc v
    simp only [List.mem_cons] at hc
    rcases hc with rfl | hc
    · exact checkWith_idem k H t wf.1 v
    · exact comps_idem k H cs wf.2 c hc v
end

/-- All top-level definitions are well-formed. -/
def WFDefs (defs : Defs) : Prop := ∀ e ∈ defs, WF e.2

theorem lookup_mem {defs : Defs} {n : Name} {t : ItemDef} (h : lookup defs n = some t) : (n, t) ∈ defs := by
  induction defs with
  | nil => simp [lookup] at h
  | cons e es ih =>
    obtain ⟨m, t'⟩ := e
    simp only [lookup] at h
    split at h
    · rename_i t'' heq
      cases h
      exact List.mem_cons_of_mem _ (ih heq)
    · split at h
      · rename_i hm; cases h; subst hm; simp
      · cases h

/-- no definition of the name: nothing is found -/
theorem lookup_eq_none_iff {defs : Defs} {n : Name} : lookup defs n = none ↔ n ∉ defs.map Prod.fst := by
  induction defs with
  | nil => simp [lookup]
  | cons e es ih =>
    obtain ⟨m, t⟩ := e
    simp only [lookup, List.map_cons, List.mem_cons, not_or]
    cases h : lookup es n with
    | some t' =>
      constructor
      · intro hc; simp at hc
      · intro ⟨_, hn⟩; rw [ih.mpr hn] at h; cases h
    | none =>
      have hn := ih.mp h
      constructor
      · intro hc
        refine ⟨?_, hn⟩
        intro hnm; subst hnm; simp at hc
      · intro ⟨hnm, _⟩
        have : ¬ m = n := fun e => hnm e.symm
        simp [this]

/-- with one definition per name, a definition is found under its name -/
theorem lookup_of_mem {defs : Defs} {n : Name} {t : ItemDef} (hnd : (defs.map Prod.fst).Nodup)
    (h : (n, t) ∈ defs) : lookup defs n = some t := by
  induction defs with
  | nil => cases h
  | cons e es ih =>
    obtain ⟨m, t'⟩ := e
    simp only [List.map_cons, List.nodup_cons] at hnd
    simp only [lookup]
    rcases List.mem_cons.mp h with heq | hmem
    · cases heq
      have : lookup es n = none := lookup_eq_none_iff.mpr hnd.1
      simp [this]
    · rw [ih hnd.2 hmem]

/-- The registry the loop of inserts builds answers as the last-wins search does. -/
theorem registry_foldl (defs : Defs) (r : Registry) (n : Name) :
    (defs.foldl (fun r e => r.insert e.1 e.2) r) n = (match lookup defs n with | some t => some t | none => r n) := by
  induction defs generalizing r with
  | nil => simp [lookup]
  | cons e es ih =>
    obtain ⟨m, t⟩ := e
    simp only [List.foldl_cons, ih, lookup]
    cases lookup es n with
    | some t' => rfl
    | none =>
      simp only [Registry.insert]
      by_cases hm : m = n
      · simp [hm]
      · simp [hm, Ne.symm hm]

/-- Two arrangements of one set of definitions (one definition per name) resolve every name alike. -/
theorem lookup_perm {defs defs' : Defs} (hp : defs.Perm defs') (hnd : (defs.map Prod.fst).Nodup) (n : Name) :
    lookup defs' n = lookup defs n := by
  have hnd' : (defs'.map Prod.fst).Nodup := (hp.map Prod.fst).nodup_iff.mp hnd
  cases h : lookup defs n with
  | none =>
    have := lookup_eq_none_iff.mp h
    exact lookup_eq_none_iff.mpr (fun hn => this ((hp.map Prod.fst).mem_iff.mpr hn))
  | some t => exact lookup_of_mem hnd' (hp.mem_iff.mp (lookup_mem h))

theorem idem_fuel (defs : Defs) (wf : WFDefs defs) : ∀ fuel, Idem (evaluator defs fuel) := by
  intro fuel
  induction fuel with
  | zero =>
    intro n f hf
    simp only [evaluator, Option.some.injEq] at hf
    subst hf
    exact ⟨rfl, fun _ => rfl⟩
  | succ f ih =>
    intro n g hg
    simp only [evaluator] at hg
    cases hl : lookup defs n with
    | none => rw [hl] at hg; simp at hg
    | some t =>
      rw [hl] at hg
      simp only [Option.some.injEq] at hg
      subst hg
      exact ⟨checkWith_null _ (fun n f h => (ih n f h).1) t,
        fun v => checkWith_idem _ ih t (wf _ (lookup_mem hl)) v⟩

/-! ## the model equals the specified projection -/

def Agree (k kp : Name → Option (DTValue → DTValue)) : Prop :=
  ∀ n, (k n = none ∧ kp n = none) ∨ ∃ f g, k n = some f ∧ kp n = some g ∧ ∀ v, f v = g v

theorem keepAllowed_ctx (es : List (Name × DTValue)) (av : Allowed) :
    keepAllowed (.ctx es) av = checkAllowed (.ctx es) av := by
  simp [keepAllowed, checkAllowed_eq]

theorem keepAllowed_list (xs : List DTValue) (av : Allowed) :
    keepAllowed (.list xs) av = checkAllowed (.list xs) av := by
  simp [keepAllowed, checkAllowed_eq]

theorem keepAllowed_eq (v : DTValue) (av : Allowed) : keepAllowed v av = checkAllowed v av := by
  by_cases hn : v = .null
  · subst hn; simp [keepAllowed, checkAllowed_null]
  · simp [keepAllowed, hn, checkAllowed_eq]

theorem itemLoop_eq_projectItems (g g' : List (Name × DTValue) → Option (List (Name × DTValue)))
    (h : ∀ es, g es = g' es) : ∀ xs, itemLoop g xs = projectItems g' xs
  | [] => rfl
  | x :: xs => by
    cases x <;> simp [itemLoop, projectItems, h, itemLoop_eq_projectItems g g' h xs]

mutual
theorem checkWith_eq_project (k kp : Name → Option (DTValue → DTValue)) (H : Agree k kp) :
    ∀ (t : ItemDef) (v : DTValue), checkWith k t v = projectWith kp t v
  | .simple t av, v => by
    simp only [checkWith, projectWith, checkAllowed_eq]
    by_cases ha : t.accepts v = true <;> by_cases ho : okAllowed v av = true <;> simp [ha, ho]
  | .referenced n av, v => by
    simp only [checkWith, projectWith]
    by_cases ha : isAny n = true
    · simp only [if_pos ha, keepAllowed_eq]
    · simp only [if_neg ha]
      rcases H (trim n) with ⟨h1, h2⟩ | ⟨f, g, h1, h2, h3⟩
      · simp [h1, h2]
      · simp only [h1, h2, h3 v, keepAllowed_eq]
  | .component cs av, v => by
    cases v with
    | ctx es =>
      simp only [checkWith, projectWith, compLoop_eq_projectComps k kp H cs es []]
      cases projectComps kp cs es [] with
      | none => rfl
      | some out => simp only [keepAllowed_ctx]
    | null => simp [checkWith, projectWith]
    | bool b => simp [checkWith, projectWith]
    | num n => simp [checkWith, projectWith]
    | str s => simp [checkWith, projectWith]
    | atom k t => simp [checkWith, projectWith]
    | list l => simp [checkWith, projectWith]
  | .collSimple t av, v => by
    cases v with
    | list xs =>
      simp only [checkWith, projectWith, allAccept_eq, checkAllowed_eq]
      by_cases ha : xs.all t.accepts = true <;> by_cases ho : okAllowed (.list xs) av = true <;> simp [ha, ho]
    | null => simp [checkWith, projectWith]
    | bool b => simp [checkWith, projectWith]
    | num n => simp [checkWith, projectWith]
    | str s => simp [checkWith, projectWith]
    | atom k t => simp [checkWith, projectWith]
    | ctx l => simp [checkWith, projectWith]
  | .collReferenced n av, v => by
    cases v with
    | list xs =>
      simp only [checkWith, projectWith]
      by_cases ha : isAny n = true
      · simp only [if_pos ha, keepAllowed_eq]
      · simp only [if_neg ha]
        rcases H (trim n) with ⟨h1, h2⟩ | ⟨f, g, h1, h2, h3⟩
        · simp [h1, h2]
        · have hm : xs.map f = xs.map g := List.map_congr_left (fun x _ => h3 x)
          simp only [h1, h2, refLoop_eq, hm]
          by_cases hany : ((xs.map g).any fun x => decide (x = DTValue.null)) = true
          · simp [hany]
          · simp [hany, keepAllowed_list]
    | null => simp [checkWith, projectWith]
    | bool b => simp [checkWith, projectWith]
    | num n => simp [checkWith, projectWith]
    | str s => simp [checkWith, projectWith]
    | atom k t => simp [checkWith, projectWith]
    | ctx l => simp [checkWith, projectWith]
  | .collComponent cs av, v => by
    cases v with
    | list xs =>
      have := itemLoop_eq_projectItems (fun es => compLoop k cs es []) (fun es => projectComps kp cs es [])
        (fun es => compLoop_eq_projectComps k kp H cs es []) xs
      simp only [checkWith, projectWith, this]
      cases projectItems (fun es => projectComps kp cs es []) xs with
      | none => rfl
      | some out => simp only [keepAllowed_list]
    | null => simp [checkWith, projectWith]
    | bool b => simp [checkWith, projectWith]
    | num n => simp [checkWith, projectWith]
    | str s => simp [checkWith, projectWith]
    | atom k t => simp [checkWith, projectWith]
    | ctx l => simp [checkWith, projectWith]
theorem compLoop_eq_projectComps (k kp : Name → Option (DTValue → DTValue)) (H : Agree k kp) :
    ∀ (cs : List (Name × ItemDef)) (es acc : List (Name × DTValue)),
      compLoop k cs es acc = projectComps kp cs es acc
  | [], _, _ => rfl
  | (n, t) :: cs, es, acc => by
    simp only [compLoop, projectComps]
    cases ctxGet n es with
    | none => rfl
    | some x =>
      simp only [checkWith_eq_project k kp H t x]
      exact compLoop_eq_projectComps k kp H cs es _
end

theorem agree_fuel (defs : Defs) : ∀ fuel, Agree (evaluator defs fuel) (projector defs fuel) := by
  intro fuel
  induction fuel with
  | zero => intro n; right; exact ⟨_, _, rfl, rfl, fun _ => rfl⟩
  | succ f ih =>
    intro n
    simp only [evaluator, projector]
    cases hl : lookup defs n with
    | none => left; exact ⟨rfl, rfl⟩
    | some t =>
      right
      exact ⟨_, _, rfl, rfl, fun v => checkWith_eq_project _ _ ih t v⟩

end Dmn.ID

/-! ## white space around the type reference of a variable (`VarType.ofRef`) -/

namespace Dmn.ID

theorem dropWhile_ws_all (s : Name) (h : s.all isWs = true) : s.dropWhile isWs = [] := by
  induction s with
  | nil => rfl
  | cons c cs ih =>
    simp only [List.all_cons, Bool.and_eq_true] at h
    simp [List.dropWhile_cons, h.1, ih h.2]

theorem dropWhile_ws_append_left (pre r : Name) (h : pre.all isWs = true) :
    (pre ++ r).dropWhile isWs = r.dropWhile isWs := by
  induction pre with
  | nil => rfl
  | cons c cs ih =>
    simp only [List.all_cons, Bool.and_eq_true] at h
    simp [List.dropWhile_cons, h.1, ih h.2]

theorem dropWhile_ws_append_right (r post : Name) (h : post.all isWs = true) :
    ((r ++ post).dropWhile isWs).reverse.dropWhile isWs = (r.dropWhile isWs).reverse.dropWhile isWs := by
  induction r with
  | nil => simp [dropWhile_ws_all post h]
  | cons c cs ih =>
    by_cases hc : isWs c = true
    · simp only [List.cons_append, List.dropWhile_cons, hc, if_true]
      exact ih
    · have hc' : isWs c = false := by simpa using hc
      simp only [List.cons_append, List.dropWhile_cons, hc', Bool.false_eq_true, if_false,
        List.reverse_cons, List.reverse_append, List.append_assoc]
      exact dropWhile_ws_append_left _ _ (by simpa using h)

/-- `str::trim` does not see white space added around a text. -/
theorem trim_white_space (pre r post : Name) (hpre : pre.all isWs = true) (hpost : post.all isWs = true) :
    trim (pre ++ r ++ post) = trim r := by
  unfold trim
  rw [List.append_assoc, dropWhile_ws_append_left _ _ hpre, dropWhile_ws_append_right _ _ hpost]

/-! ## null through the closures (finding F73-null-item-any-alias) -/

theorem evaluator_null (defs : Defs) : ∀ fuel n f, evaluator defs fuel n = some f → f .null = .null := by
  intro fuel
  induction fuel with
  | zero =>
    intro n f h
    simp only [evaluator, Option.some.injEq] at h
    rw [← h]
  | succ fuel ih =>
    intro n f h
    simp only [evaluator] at h
    cases hl : lookup defs n with
    | none => rw [hl] at h; cases h
    | some t =>
      rw [hl] at h
      simp only [Option.some.injEq] at h
      rw [← h]
      exact checkWith_null _ ih t

theorem refLoop_null (f : DTValue → DTValue) (hf : f .null = .null) (xs : List DTValue) (h : DTValue.null ∈ xs) :
    refLoop f xs = none := by
  induction xs with
  | nil => cases h
  | cons x xs ih =>
    simp only [refLoop]
    by_cases hx : f x = .null
    · rw [if_pos hx]
    · rw [if_neg hx]
      have : DTValue.null ∈ xs := by
        rcases List.mem_cons.mp h with e | e
        · rw [← e] at hx; exact absurd hf hx
        · exact e
      rw [ih this]

end Dmn.ID
