import Dmn.Model.Lexer

/-!
# Lemmas about `consume_name`: the part collector's bookkeeping and the longest-prefix loop
-/

namespace Dmn.Lexer

/-! ## The collector keeps `parts` and `consumed_positions` in step and never panics -/

theorem nameStep_cont_len {inp : List Nat} {s s' : NameSt}
    (h : nameStep inp s = .cont s') (hl : s.positions.length = s.parts.length) :
    s'.positions.length = s'.parts.length := by
  unfold nameStep at h
  split at h <;> (try split at h) <;> (try split at h) <;> (try split at h) <;> (try split at h) <;>
    first
    | (cases h; simp [hl])
    | (cases h; exact hl)
    | cases h

theorem nameStep_brk_len {inp : List Nat} {s s' : NameSt}
    (h : nameStep inp s = .brk s') (hl : s.positions.length = s.parts.length) :
    s'.positions.length = s'.parts.length := by
  unfold nameStep at h
  split at h <;> (try split at h) <;> (try split at h) <;> (try split at h) <;> (try split at h) <;>
    first
    | (cases h; exact hl)
    | cases h

theorem nameLoop_len {inp : List Nat} :
    ∀ (fuel : Nat) (s st : NameSt), nameLoop inp fuel s = .ok st →
      s.positions.length = s.parts.length → st.positions.length = st.parts.length := by
  intro fuel
  induction fuel with
  | zero => intro s st h; simp [nameLoop] at h
  | succ n ih =>
    intro s st h hl
    rw [nameLoop] at h
    split at h
    · rename_i s' hs
      exact ih s' st h (nameStep_cont_len hs hl)
    · rename_i s' hs
      cases h
      exact nameStep_brk_len hs hl
    · cases h

theorem nameLoop_no_panic {inp : List Nat} :
    ∀ (fuel : Nat) (s : NameSt) (site : PanicSite), nameLoop inp fuel s ≠ .panic site := by
  intro fuel
  induction fuel with
  | zero => intro s site h; simp [nameLoop] at h
  | succ n ih =>
    intro s site h
    rw [nameLoop] at h
    split at h
    · exact ih _ _ h
    · cases h
    · cases h

theorem collectParts_len {inp : List Nat} {pos : Nat} {st : NameSt}
    (h : collectParts inp pos = .ok st) : st.positions.length = st.parts.length := by
  unfold collectParts at h
  split at h
  · cases h
  · exact nameLoop_len _ _ _ h rfl

theorem collectParts_no_panic (inp : List Nat) (pos : Nat) (site : PanicSite) :
    collectParts inp pos ≠ .panic site := by
  unfold collectParts
  split
  · intro h; cases h
  · exact nameLoop_no_panic _ _ _

/-! ## `positionOfIn` -/

theorem positionOfIn_lt : ∀ (parts : List (List Nat)) (i : Nat),
    positionOfIn parts = some i → i < parts.length := by
  intro parts
  induction parts with
  | nil => intro i h; simp [positionOfIn] at h
  | cons p ps ih =>
    intro i h
    simp only [positionOfIn] at h
    split at h
    · cases h; simp
    · cases hp : positionOfIn ps with
      | none => simp [hp] at h
      | some j =>
        simp [hp] at h
        have := ih j hp
        subst h
        simp; omega

/-! ## The longest-prefix loop -/

/-- the `Name::new` text of `parts[..k]` is a key of the scope. -/
def isKeyAt (keys : List (List Nat)) (parts : List (List Nat)) (k : Nat) : Bool :=
  keys.contains (nameNew (parts.take k))

/-- No prefix of length `1..n` is a key: the loop falls through. -/
theorem prefixLoop_none (keys : List (List Nat)) (parts : List (List Nat)) (positions : List Nat) :
    ∀ n, n ≤ parts.length → (∀ j, 1 ≤ j → j ≤ n → isKeyAt keys parts j = false) →
      prefixLoop keys parts positions n = .ok none := by
  intro n
  induction n with
  | zero => intro _ _; rfl
  | succ k ih =>
    intro hn hno
    rw [prefixLoop]
    have h1 : ¬ parts.length < k + 1 := by omega
    rw [if_neg h1]
    have h2 := hno (k + 1) (by omega) (by omega)
    unfold isKeyAt at h2
    simp only [h2]
    exact ih (by omega) (fun j hj1 hjk => hno j hj1 (by omega))

/-- The loop started at `n` returns the greatest `k ≤ n` whose prefix is a key. -/
theorem prefixLoop_some (keys : List (List Nat)) (parts : List (List Nat)) (positions : List Nat)
    (hl : positions.length = parts.length) :
    ∀ n k, 1 ≤ k → k ≤ n → n ≤ parts.length → isKeyAt keys parts k = true →
      (∀ j, k < j → j ≤ n → isKeyAt keys parts j = false) →
      ∃ p, positions[k - 1]? = some p ∧
        prefixLoop keys parts positions n = .ok (some (parts.take k, p + 1)) := by
  intro n
  induction n with
  | zero => intro k hk1 hkn; omega
  | succ m ih =>
    intro k hk1 hkn hn hkey hmax
    rw [prefixLoop]
    have h1 : ¬ parts.length < m + 1 := by omega
    rw [if_neg h1]
    by_cases hkm : k = m + 1
    · subst hkm
      unfold isKeyAt at hkey
      simp only [hkey]
      have hlt : m < positions.length := by omega
      refine ⟨positions[m], ?_, ?_⟩
      · simp [List.getElem?_eq_getElem hlt]
      · simp [List.getElem?_eq_getElem hlt]
    · have h2 := hmax (m + 1) (by omega) (by omega)
      unfold isKeyAt at h2
      simp only [h2]
      exact ih k hk1 (by omega) (by omega) hkey (fun j hj hjm => hmax j hj (by omega))

/-- With the bookkeeping in step the loop never panics. -/
theorem prefixLoop_no_panic (keys : List (List Nat)) (parts : List (List Nat)) (positions : List Nat)
    (hl : positions.length = parts.length) :
    ∀ n, n ≤ parts.length → ∀ site, prefixLoop keys parts positions n ≠ .panic site := by
  intro n
  induction n with
  | zero => intro _ site h; simp [prefixLoop] at h
  | succ m ih =>
    intro hn site h
    rw [prefixLoop] at h
    have h1 : ¬ parts.length < m + 1 := by omega
    rw [if_neg h1] at h
    have hlt : m < positions.length := by omega
    by_cases hk : keys.contains (nameNew (parts.take (m + 1))) = true
    · simp only [hk, if_true, List.getElem?_eq_getElem hlt] at h
      cases h
    · simp only [hk] at h
      exact ih (by omega) site h

end Dmn.Lexer
