import Dmn.Model.BifEval

/-! The finite computations on the regenerated dispatch tables behind the named-parameter theorems of
`Props/C08.lean` (kept here so that the build step of the property file stays short). -/

namespace Dmn
namespace Bif

theorem codeSignatures_all_agree : codeSignatures.all agrees = true := by decide

theorem specFormsNotInCode_eq :
    specFormsNotInCode = [("list contains", ["list", "element"]), ("product", ["list"])] := by decide

theorem codeFormsNotInSpec_eq :
    codeFormsNotInSpec.filter (fun s => !["after", "before", "coincides"].contains s.1)
      = [("list contains", ["list", "match"])] := by decide

end Bif
end Dmn
