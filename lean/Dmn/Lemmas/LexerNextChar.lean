import Dmn.Lemmas.LexerProgress

/-!
# `is_next_character` with comments: the budget of the model's loop is never exhausted
-/

namespace Dmn.Lexer

theorem consumeComment_gt {inp : List Nat} {p : Nat} (h : isCommentStart inp p = true) :
    p + 2 ≤ consumeComment inp p := by
  unfold isCommentStart at h
  simp only [Bool.and_eq_true, Bool.or_eq_true, beq_iff_eq] at h
  unfold consumeComment
  rw [h.1]
  rcases h.2 with h2 | h2 <;> rw [h2] <;> simp only <;> omega

/-- Any two budgets above `len − p` give the same answer: `nextCharLoop` never runs out of fuel
under the budget `len − (pos + off) + 1` of `isNextCharacter`. -/
theorem nextCharLoop_fuel (inp chars : List Nat) : ∀ (f1 f2 p : Nat),
    inp.length - p < f1 → inp.length - p < f2 →
    nextCharLoop inp chars f1 p = nextCharLoop inp chars f2 p := by
  intro f1
  induction f1 with
  | zero => intro f2 p h; omega
  | succ n ih =>
    intro f2 p h1 h2
    cases f2 with
    | zero => omega
    | succ m =>
      simp only [nextCharLoop]
      split
      · rfl
      · rename_i ch hch
        have hlt : p < inp.length := (List.getElem?_eq_some_iff.mp hch).1
        split
        · rename_i hs
          have := consumeComment_gt hs
          exact ih m _ (by omega) (by omega)
        · split
          · rfl
          · split
            · rfl
            · exact ih m (p + 1) (by omega) (by omega)

end Dmn.Lexer
