import Dmn.Lemmas.DecBridge
import Dmn.Lemmas.BifsList

/-!
# Order lemmas for the statistics built-ins (`median`, `mode`)

`Dec.cmp` (numeric comparison of `FeelNumber`s) and `modeCmp` (the comparator of the second
sort of `core::mode`) are total preorders (`Std.TransCmp`); `sortBy` (the model of the stable
`slice::sort_by`) is stable: it keeps the relative order of the items of every equivalence
class, for every comparator.
-/

namespace Dmn
namespace Bif

theorem isLE_compare_int (x y : Int) : (compare x y).isLE = true ↔ x ≤ y := by
  cases h : compare x y
  · have := D128.compare_int_lt.mp h; simp [Ordering.isLE]; omega
  · have := D128.compare_int_eq.mp h; simp [Ordering.isLE]; omega
  · have := D128.compare_int_gt.mp h; simp [Ordering.isLE]; omega

/-- three numbers compared on one common scale -/
theorem dec_cmp_three (a b c : Dec) : ∃ x y z : Int,
    Dec.cmp a b = compare x y ∧ Dec.cmp b c = compare y z ∧ Dec.cmp a c = compare x z := by
  have ha : min a.exp (min b.exp c.exp) ≤ (D128.ofDec a).exp := by show _ ≤ a.exp; omega
  have hb : min a.exp (min b.exp c.exp) ≤ (D128.ofDec b).exp := by show _ ≤ b.exp; omega
  have hc : min a.exp (min b.exp c.exp) ≤ (D128.ofDec c).exp := by show _ ≤ c.exp; omega
  refine ⟨D128.scaled (D128.ofDec a) (min a.exp (min b.exp c.exp)), D128.scaled (D128.ofDec b) (min a.exp (min b.exp c.exp)),
    D128.scaled (D128.ofDec c) (min a.exp (min b.exp c.exp)), ?_, ?_, ?_⟩
  · rw [← D128.cmp_ofDec, D128.cmp_at_scale _ _ _ ha hb]
  · rw [← D128.cmp_ofDec, D128.cmp_at_scale _ _ _ hb hc]
  · rw [← D128.cmp_ofDec, D128.cmp_at_scale _ _ _ ha hc]

instance : Std.OrientedCmp Dec.cmp where
  eq_swap := by intro a b; exact D128.dec_cmp_swap a b

instance : Std.TransCmp Dec.cmp where
  isLE_trans := by
    intro a b c h1 h2
    obtain ⟨x, y, z, e1, e2, e3⟩ := dec_cmp_three a b c
    rw [e1, isLE_compare_int] at h1
    rw [e2, isLE_compare_int] at h2
    rw [e3, isLE_compare_int]
    omega

theorem isLE_iff_ne_gt (o : Ordering) : o.isLE = true ↔ o ≠ .gt := by cases o <;> simp [Ordering.isLE]

/-! ## `sortBy` for a total preorder -/

section
variable {α : Type} {cmp : α → α → Ordering} [Std.TransCmp cmp]

theorem sortBy_sorted_isLE (xs : List α) : (sortBy cmp xs).Pairwise (fun a b => (cmp a b).isLE = true) := by
  have h : (sortBy cmp xs).Pairwise (fun a b => cmp a b ≠ .gt) := by
    induction xs with
    | nil => simp [sortBy]
    | cons x xs ih =>
      exact insertBy_sorted cmp
        (fun a b h1 h2 => by
          have := Std.OrientedCmp.lt_of_gt (cmp := cmp) h1
          rw [h2] at this; cases this)
        (fun a b c h1 h2 => by
          rw [← isLE_iff_ne_gt] at h1 h2 ⊢
          exact Std.TransCmp.isLE_trans h1 h2) x _ ih
  exact h.imp (fun h => (isLE_iff_ne_gt _).mpr h)

/-- stability: inserting `x` puts it in front of the items of its class -/
theorem insertBy_filter (x d : α) (ys : List α) :
    (insertBy cmp x ys).filter (fun y => cmp y d == .eq) =
      (if cmp x d == .eq then [x] else []) ++ ys.filter (fun y => cmp y d == .eq) := by
  induction ys with
  | nil => by_cases hx : (cmp x d == .eq) = true <;> simp [insertBy, List.filter, hx]
  | cons y t ih =>
    unfold insertBy
    by_cases hxy : (cmp x y != .gt) = true
    · rw [if_pos hxy]
      by_cases hx : (cmp x d == .eq) = true
      · rw [List.filter_cons, if_pos hx, if_pos hx]; rfl
      · rw [List.filter_cons, if_neg hx, if_neg hx]; rfl
    · rw [if_neg hxy]
      have hgt : cmp x y = .gt := by
        cases h : cmp x y <;> simp [h] at hxy ⊢
      by_cases hx : (cmp x d == .eq) = true
      · -- y < x = d: y is not in the class
        have hxd : cmp x d = .eq := by simpa using hx
        have hyx : cmp y x = .lt := Std.OrientedCmp.lt_of_gt hgt
        have hyd : cmp y d = .lt := Std.TransCmp.lt_of_lt_of_eq hyx hxd
        rw [List.filter_cons, ih, if_pos hx]
        simp [hyd]
      · rw [List.filter_cons, ih, if_neg hx]
        rw [List.filter_cons]
        simp
end

theorem sortBy_filter {α : Type} {cmp : α → α → Ordering} [Std.TransCmp cmp] (d : α) (xs : List α) :
    (sortBy cmp xs).filter (fun y => cmp y d == .eq) = xs.filter (fun y => cmp y d == .eq) := by
  induction xs with
  | nil => rfl
  | cons x xs ih =>
    show (insertBy cmp x (sortBy cmp xs)).filter _ = _
    rw [insertBy_filter, ih, List.filter_cons]
    by_cases hx : (cmp x d == .eq) = true
    · rw [if_pos hx, if_pos hx]; rfl
    · rw [if_neg hx, if_neg hx]; rfl

theorem sortBy_mem {α : Type} (cmp : α → α → Ordering) (xs : List α) (a : α) : a ∈ sortBy cmp xs ↔ a ∈ xs :=
  (sortBy_perm' cmp xs).mem_iff
where
  sortBy_perm' (cmp : α → α → Ordering) (xs : List α) : (sortBy cmp xs).Perm xs := by
    induction xs with
    | nil => exact List.Perm.refl _
    | cons x xs ih => exact (insertBy_perm cmp x _).trans (List.Perm.cons x ih)

theorem sortBy_perm_l {α : Type} (cmp : α → α → Ordering) (xs : List α) : (sortBy cmp xs).Perm xs :=
  sortBy_mem.sortBy_perm' cmp xs

/-! ## the comparator of the second sort of `mode`: count descending, then value ascending -/

theorem modeCmp_isLE (x y : Nat × Dec) :
    (modeCmp x y).isLE = true ↔ y.1 < x.1 ∨ (y.1 = x.1 ∧ (Dec.cmp x.2 y.2).isLE = true) := by
  unfold modeCmp
  cases h : compare y.1 x.1
  · have := Nat.compare_eq_lt.mp h; simp [Ordering.isLE]; omega
  · have := Nat.compare_eq_eq.mp h; simp [this]
  · have := Nat.compare_eq_gt.mp h; simp [Ordering.isLE]; omega

theorem modeCmp_swap (x y : Nat × Dec) : modeCmp x y = (modeCmp y x).swap := by
  unfold modeCmp
  rw [← Nat.compare_swap y.1 x.1]
  cases h : compare y.1 x.1 <;> simp [Ordering.swap]
  exact Std.OrientedCmp.eq_swap

instance : Std.OrientedCmp modeCmp where
  eq_swap := by intro a b; exact modeCmp_swap a b

instance : Std.TransCmp modeCmp where
  isLE_trans := by
    intro a b c h1 h2
    rw [modeCmp_isLE] at h1 h2 ⊢
    rcases h1 with h1 | ⟨e1, h1⟩ <;> rcases h2 with h2 | ⟨e2, h2⟩
    · left; omega
    · left; omega
    · left; omega
    · right; exact ⟨by omega, Std.TransCmp.isLE_trans h1 h2⟩

end Bif
end Dmn
