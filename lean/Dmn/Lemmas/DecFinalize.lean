import Dmn.Lemmas.DecRound

/-! `finalize` rounds correctly: `finalize_rounds`. -/

namespace Dmn
namespace D128

theorem ndigits_34 (q : Nat) (h1 : 10 ^ 33 ≤ q) (h2 : q < 10 ^ 34) : ndigits q = 34 :=
  ndigits_eq q 34 (by omega) h1 h2

/-- a lower bound `10^m·D ≤ N` with `e + m ≥ 6145` means the value is at least `10^6145` -/
theorem overflows_of_bound (N D : Nat) (e : Int) (m : Nat) (hN : 10 ^ m * D ≤ N)
    (he : e + (m : Int) ≥ 6145) : Overflows N D e := by
  by_cases hle : e ≤ eTop
  · obtain ⟨j, hj⟩ : ∃ j : Nat, eTop = e + (j : Int) := ⟨(eTop - e).toNat, by omega⟩
    rw [overflows_le N D e j hj]
    have h1 : 10 ^ 34 * 10 ^ j ≤ 10 ^ m := by
      rw [← pow10_add]; exact pow10_le (by unfold eTop at hj; omega)
    have h2 : 10 ^ 34 * 10 ^ j * D ≤ 10 ^ m * D := Nat.mul_le_mul_right D h1
    rw [Nat.mul_assoc] at h2
    rw [Nat.mul_assoc]
    generalize 10 ^ j * D = KD at *
    generalize 10 ^ m * D = MD at *
    omega
  · obtain ⟨j, hj⟩ : ∃ j : Nat, e = eTop + (j : Int) := ⟨(e - eTop).toNat, by omega⟩
    rw [overflows_ge N D e j hj]
    have h1 : 10 ^ 34 ≤ 10 ^ m * 10 ^ j := by
      rw [← pow10_add]; exact pow10_le (by unfold eTop at hj; omega)
    have h2 : 10 ^ 34 * D ≤ 10 ^ m * 10 ^ j * D := Nat.mul_le_mul_right D h1
    have h3 : 10 ^ m * 10 ^ j * D = 10 ^ m * D * 10 ^ j := by ring
    have h4 : 10 ^ m * D * 10 ^ j ≤ N * 10 ^ j := Nat.mul_le_mul_right _ hN
    rw [Nat.mul_assoc]
    generalize N * 10 ^ j = NJ at *
    omega

/-- rounding up to `10^34` at an exponent `e + k ≥ 6111` means overflow -/
theorem overflows_of_round_up (N D : Nat) (e : Int) (k : Nat)
    (h : 2 * N ≥ (2 * 10 ^ 34 - 1) * (10 ^ k * D)) (he : e + (k : Int) ≥ 6111) : Overflows N D e := by
  by_cases hle : e ≤ eTop
  · obtain ⟨j, hj⟩ : ∃ j : Nat, eTop = e + (j : Int) := ⟨(eTop - e).toNat, by omega⟩
    rw [overflows_le N D e j hj]
    have h1 : 10 ^ j ≤ 10 ^ k := pow10_le (by unfold eTop at hj; omega)
    have h2 : 10 ^ j * D ≤ 10 ^ k * D := Nat.mul_le_mul_right D h1
    rw [Nat.mul_assoc]
    generalize 10 ^ j * D = JD at *
    generalize 10 ^ k * D = KD at *
    omega
  · obtain ⟨j, hj⟩ : ∃ j : Nat, e = eTop + (j : Int) := ⟨(e - eTop).toNat, by omega⟩
    rw [overflows_ge N D e j hj]
    have h1 : D ≤ 10 ^ k * D := Nat.le_mul_of_pos_left D (pow10_pos k)
    have h2 : N ≤ N * 10 ^ j := Nat.le_mul_of_pos_right N (pow10_pos j)
    rw [Nat.mul_assoc]
    generalize N * 10 ^ j = NJ at *
    generalize 10 ^ k * D = KD at *
    omega

/-- **The rounding step is correct.**  If the exact magnitude is `(N/D)·10^e` with
`c ≤ N/D < c + 1` (`sticky` ⇔ `c < N/D`, and then `c` has at least 35 digits), then
`finalize neg c e sticky` is the correctly rounded decimal128 result. -/
theorem finalize_rounds (neg : Bool) (c : Nat) (e : Int) (sticky : Bool) (N D : Nat) (hD : 0 < D)
    (hlo : c * D ≤ N) (hhi : N < (c + 1) * D) (hst : sticky = true ↔ c * D < N)
    (hnd : sticky = true → 35 ≤ ndigits c) (hN : 0 < N) :
    RoundsHalfEven neg N D e (finalize neg c e sticky) := by
  have hc : c ≠ 0 := by
    intro h0; subst h0
    have h1 : sticky = true := hst.mpr (by simpa using hN)
    have h2 := hnd h1
    rw [ndigits_zero] at h2; omega
  obtain ⟨k, hk, hetlo, hndk, hcase⟩ := cutExp_spec c e
  have hkst : sticky = true → 1 ≤ k := fun h => by have := hnd h; omega
  obtain ⟨r1, r2, r3, r4, r5, r6, r7⟩ := divRound_rounds c k sticky N D hD hlo hhi hst hkst
  have hq0lt := div_lt_of_digits c k hndk
  have hcD : 10 ^ (ndigits c - 1) * D ≤ N :=
    Nat.le_trans (Nat.mul_le_mul_right D (ndigits_spec c hc).2.1) hlo
  have hq0B : k + 34 = ndigits c → 10 ^ 33 ≤ c / 10 ^ k := le_div_of_digits c k hc
  have hnd1 := ndigits_pos c hc
  unfold finalize
  rw [if_neg (by intro h; exact hc h.1)]
  have hkk : (cutExp c e - e).toNat = k := by omega
  rw [hkk]
  have hppos := pow10_pos k
  generalize hq : divRound c k sticky = q at *
  generalize het : cutExp c e = et at *
  generalize hq0 : c / 10 ^ k = q0 at *
  have hPDpos : 0 < 10 ^ k * D := Nat.mul_pos hppos hD
  unfold pack
  unfold eTiny at hetlo hcase
  by_cases hcarry : q = 10 ^ 34
  · -- carry out of 34 nines
    simp only [if_pos hcarry]
    have h33 : (10 ^ 33 : Nat) ≠ 0 := by decide
    rw [if_neg h33]
    have hn34 : ndigits (10 ^ 33) = 34 := ndigits_34 _ (Nat.le_refl _) (by decide)
    rw [hn34]
    have hq0' : q0 = 10 ^ 34 - 1 := by omega
    have hr5 := r5 (by omega)
    by_cases hov : et + 1 + ((34 : Nat) : Int) - 1 > eMax
    · rw [if_pos hov]
      refine ⟨rfl, overflows_of_round_up N D e k ?_ (by unfold eMax at hov; omega)⟩
      rw [hq0'] at hr5
      have : 2 * (10 ^ 34 - 1) + 1 = 2 * 10 ^ 34 - 1 := by decide
      rw [this] at hr5
      exact hr5
    · rw [if_neg hov, if_neg (by unfold eTop; unfold eMax at hov; omega)]
      refine ⟨rfl, ⟨by show (10 ^ 33 : Nat) < 10 ^ 34; decide, by show -6176 ≤ et + 1; omega,
        by show et + 1 ≤ 6111; unfold eMax at hov; omega⟩, ?_⟩
      rw [nearestEven_ge N D e _ (k + 1) (by show et + 1 = e + ((k + 1 : Nat) : Int); omega)]
      have hY : (10 ^ 33 : Nat) * (10 ^ (k + 1) * D) = q * (10 ^ k * D) := by
        rw [hcarry, pow10_succ]
        have : (10 : Nat) ^ 34 = 10 ^ 33 * 10 := by decide
        rw [this]; ring
      have hU : 10 ^ (k + 1) * D = 10 * (10 ^ k * D) := by rw [pow10_succ]; ring
      show NECore N ((10 ^ 33 : Nat) * (10 ^ (k + 1) * D)) (10 ^ (k + 1) * D) _
      rw [hY, hU]
      rw [absDiff_le_iff] at r3
      generalize q * (10 ^ k * D) = Y at *
      generalize 10 ^ k * D = PD at *
      refine ⟨?_, fun _ => by show (10 ^ 33 : Nat) % 2 = 0; decide, Or.inr (Or.inl (Nat.le_refl _)), ?_⟩
      · rw [absDiff_le_iff]; omega
      · intro _; omega
  · simp only [if_neg hcarry]
    by_cases hqz : q = 0
    · -- underflow to zero
      rw [if_pos hqz]
      have hety : et = -6176 := by
        rcases hcase with h | h | h
        · subst h
          have := r7 rfl
          rw [hqz] at this
          omega
        · exact h
        · have := hq0B h
          omega
      refine ⟨rfl, ⟨by show (0 : Nat) < 10 ^ 34; decide, by show -6176 ≤ et; omega,
        by show et ≤ 6111; omega⟩, ?_⟩
      rw [nearestEven_ge N D e _ k (by show et = e + (k : Int); omega)]
      show NECore N (0 * (10 ^ k * D)) (10 ^ k * D) _
      rw [hqz] at r3 r4
      refine ⟨r3, fun _ => rfl, Or.inr (Or.inr (by show et = eTiny; unfold eTiny; omega)), ?_⟩
      intro h
      exact absurd h.1 (by show (0 : Nat) ≠ 10 ^ 33; decide)
    · rw [if_neg hqz]
      have hqlt : q < 10 ^ 34 := by omega
      have hnq := ndigits_spec q hqz
      have hnq34 : ndigits q ≤ 34 := ndigits_le_of_lt q 34 hqlt
      by_cases hov : et + ((ndigits q : Nat) : Int) - 1 > eMax
      · -- overflow
        rw [if_pos hov]
        refine ⟨rfl, ?_⟩
        unfold eMax at hov
        rcases hcase with h | h | h
        · subst h
          have hNq := r7 rfl
          have h1 : 10 ^ (ndigits q - 1) * D ≤ N := by
            rw [hNq]
            have : 10 ^ (ndigits q - 1) * D ≤ q * D := Nat.mul_le_mul_right D hnq.2.1
            simpa using this
          exact overflows_of_bound N D e (ndigits q - 1) h1 (by omega)
        · omega
        · by_cases hk0 : k = 0
          · subst hk0
            have hNq := r7 rfl
            have h1 : 10 ^ (ndigits q - 1) * D ≤ N := by
              rw [hNq]
              have : 10 ^ (ndigits q - 1) * D ≤ q * D := Nat.mul_le_mul_right D hnq.2.1
              simpa using this
            exact overflows_of_bound N D e (ndigits q - 1) h1 (by omega)
          · have hq33 : 10 ^ 33 ≤ q := Nat.le_trans (hq0B h) r1
            have hn : ndigits q = 34 := ndigits_34 q hq33 hqlt
            have h1 : ndigits c - 1 = 33 + k := by omega
            rw [h1] at hcD
            exact overflows_of_bound N D e (33 + k) hcD (by rw [hn] at hov; omega)
      · rw [if_neg hov]
        unfold eMax at hov
        -- when digits were dropped above eTiny, the quotient has 34 digits
        have hfull : k ≠ 0 → et ≠ -6176 → 10 ^ 33 ≤ q ∧ ndigits q = 34 := by
          intro hk0 hety
          rcases hcase with h | h | h
          · exact absurd h hk0
          · exact absurd h hety
          · have hq33 : 10 ^ 33 ≤ q := Nat.le_trans (hq0B h) r1
            exact ⟨hq33, ndigits_34 q hq33 hqlt⟩
        by_cases hcl : et > eTop
        · -- clamp: no digit was dropped; pad with zeros
          rw [if_pos hcl]
          unfold eTop at hcl
          have hk0 : k = 0 := by
            by_cases hk0 : k = 0
            · exact hk0
            · have := hfull hk0 (by omega)
              omega
          subst hk0
          have hNq := r7 rfl
          obtain ⟨j, hj⟩ : ∃ j : Nat, et = eTop + (j : Int) := ⟨(et - eTop).toNat, by unfold eTop; omega⟩
          have hjj : (et - eTop).toNat = j := by omega
          rw [hjj]
          have hwf : q * 10 ^ j < 10 ^ 34 := by
            have h1 : q * 10 ^ j < 10 ^ ndigits q * 10 ^ j := Nat.mul_lt_mul_of_pos_right hnq.2.2 (pow10_pos j)
            have h2 : 10 ^ ndigits q * 10 ^ j ≤ 10 ^ 34 := by
              rw [← pow10_add]; exact pow10_le (by unfold eTop at hj; omega)
            omega
          refine ⟨rfl, ⟨hwf, by show -6176 ≤ eTop; unfold eTop; omega, by show eTop ≤ 6111; unfold eTop; omega⟩, ?_⟩
          rw [nearestEven_le N D e _ j (by show e = eTop + (j : Int); omega)]
          show NECore (N * 10 ^ j) (q * 10 ^ j * D) D _
          have hXY : N * 10 ^ j = q * 10 ^ j * D := by rw [hNq]; ring
          rw [hXY]
          refine ⟨by rw [absDiff_self]; omega, ?_, Or.inl rfl, ?_⟩
          · intro h; rw [absDiff_self] at h; omega
          · intro h; exact absurd h.2.1 (Nat.lt_irrefl _)
        · -- the ordinary case
          rw [if_neg hcl]
          unfold eTop at hcl
          refine ⟨rfl, ⟨hqlt, by show -6176 ≤ et; omega, by show et ≤ 6111; omega⟩, ?_⟩
          rw [nearestEven_ge N D e _ k (by show et = e + (k : Int); omega)]
          show NECore N (q * (10 ^ k * D)) (10 ^ k * D) _
          refine ⟨r3, r4, ?_, ?_⟩
          · by_cases hk0 : k = 0
            · exact Or.inl (r7 hk0)
            · by_cases hety : et = -6176
              · exact Or.inr (Or.inr (by show et = eTiny; unfold eTiny; exact hety))
              · exact Or.inr (Or.inl (hfull hk0 hety).1)
          · intro h
            obtain ⟨h1, h2, h3⟩ := h
            have h1' : q = 10 ^ 33 := h1
            have h3' : et ≠ -6176 := by
              intro hh; apply h3; show et = eTiny; unfold eTiny; exact hh
            by_cases hk0 : k = 0
            · have := r7 hk0
              omega
            · have hf := hfull hk0 h3'
              rcases hcase with h | h | h
              · exact absurd h hk0
              · exact absurd h h3'
              · have hq0ge := hq0B h
                have hqq : q = q0 := by omega
                have := r6 hqq
                rw [← hqq] at this
                omega

/-- an exact zero result is representable -/
theorem wf_zero (n : Bool) (e : Int) : WF ⟨n, 0, clampExp e⟩ :=
  ⟨by show (0 : Nat) < 10 ^ 34; decide, (clampExp_range e).1, (clampExp_range e).2⟩

end D128
end Dmn
