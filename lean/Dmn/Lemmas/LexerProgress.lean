import Dmn.Lemmas.LexerTotal

/-!
# Every token other than `YyEof` / `YyUndef` moves the cursor forward
-/

namespace Dmn.Lexer

theorem consumeWhitespace_ge (inp : List Nat) (pos : Nat) : pos ≤ consumeWhitespace inp pos := by
  unfold consumeWhitespace; omega

theorem consumeComment_ge (inp : List Nat) (pos : Nat) : pos ≤ consumeComment inp pos := by
  unfold consumeComment
  split <;> omega

theorem skipLoop_ge (inp : List Nat) : ∀ (fuel pos : Nat), pos ≤ skipLoop inp fuel pos := by
  intro fuel
  induction fuel with
  | zero => intro pos; exact Nat.le_refl _
  | succ n ih =>
    intro pos
    simp only [skipLoop]
    split
    · exact Nat.le_refl _
    · have h1 := consumeWhitespace_ge inp pos
      have h2 := consumeComment_ge inp (consumeWhitespace inp pos)
      have h3 := ih (consumeComment inp (consumeWhitespace inp pos))
      omega

theorem skipBlanks_ge (inp : List Nat) (pos : Nat) : pos ≤ skipBlanks inp pos :=
  skipLoop_ge inp _ pos

theorem countWhile_le (p : Nat → Bool) : ∀ (l : List Nat), countWhile p l ≤ l.length := by
  intro l
  induction l with
  | nil => simp [countWhile]
  | cons c l ih =>
    simp only [countWhile]
    split <;> simp <;> omega

theorem blockCommentLen_le (l : List Nat) : blockCommentLen l ≤ l.length := by
  fun_induction blockCommentLen l
  · simp
  · simp
  · simp only [List.length_cons]; omega

/-- Neither scan moves the cursor beyond the end of the input. -/
theorem consumeWhitespace_le_len (inp : List Nat) (pos : Nat) (h : pos ≤ inp.length) :
    consumeWhitespace inp pos ≤ inp.length := by
  unfold consumeWhitespace
  have := countWhile_le isWhitespace (inp.drop pos)
  simp only [List.length_drop] at this
  omega

theorem consumeComment_le_len (inp : List Nat) (pos : Nat) (h : pos ≤ inp.length) :
    consumeComment inp pos ≤ inp.length := by
  unfold consumeComment
  split
  · rename_i h1 h2
    have hlt : pos + 1 < inp.length := (List.getElem?_eq_some_iff.mp h2).1
    have := countWhile_le (fun c => !isVerticalSpace c) (inp.drop (pos + 2))
    simp only [List.length_drop] at this
    omega
  · rename_i h1 h2
    have hlt : pos + 1 < inp.length := (List.getElem?_eq_some_iff.mp h2).1
    have := blockCommentLen_le (inp.drop (pos + 2))
    simp only [List.length_drop] at this
    omega
  · exact h

/-- The budget of `skipBlanks` suffices: the loop of `read_input` stops at the returned cursor
(one more round of `consume_whitespace; consume_comment` does not move it). -/
theorem skipLoop_settled (inp : List Nat) : ∀ (fuel pos : Nat), pos ≤ inp.length →
    inp.length - pos < fuel →
    consumeComment inp (consumeWhitespace inp (skipLoop inp fuel pos)) = skipLoop inp fuel pos := by
  intro fuel
  induction fuel with
  | zero => intro pos _ h; omega
  | succ n ih =>
    intro pos hle hf
    simp only [skipLoop]
    split
    · assumption
    · rename_i hne
      have h1 := consumeWhitespace_ge inp pos
      have h2 := consumeComment_ge inp (consumeWhitespace inp pos)
      have h3 := consumeComment_le_len inp _ (consumeWhitespace_le_len inp pos hle)
      exact ih _ h3 (by omega)

theorem skipBlanks_settled (inp : List Nat) (pos : Nat) (h : pos ≤ inp.length) :
    consumeComment inp (consumeWhitespace inp (skipBlanks inp pos)) = skipBlanks inp pos :=
  skipLoop_settled inp _ pos h (by omega)

/-! ## Names -/

/-- Everything the collector records lies at or after the first character of the name. -/
def NameInv (p0 : Nat) (s : NameSt) : Prop := p0 ≤ s.pos ∧ ∀ q ∈ s.positions, p0 ≤ q

theorem nameStep_cont_inv {inp : List Nat} {p0 : Nat} {s s' : NameSt}
    (h : nameStep inp s = .cont s') (hi : NameInv p0 s) : NameInv p0 s' := by
  obtain ⟨hp, hq⟩ := hi
  unfold nameStep at h
  have app : ∀ x, p0 ≤ x → ∀ q ∈ s.positions ++ [x], p0 ≤ q := by
    intro x hx q hq'
    rcases List.mem_append.mp hq' with h | h
    · exact hq q h
    · simp at h; omega
  cases hst : s.state <;> simp only [hst] at h
  all_goals (repeat' split at h)
  all_goals first
    | (cases h; exact ⟨by dsimp only; omega, hq⟩)
    | (cases h; exact ⟨hp, app _ hp⟩)
    | (cases h; exact ⟨by dsimp only; omega, app _ (by omega)⟩)
    | (cases h; done)

theorem nameStep_brk_inv {inp : List Nat} {p0 : Nat} {s s' : NameSt}
    (h : nameStep inp s = .brk s') (hi : NameInv p0 s) :
    p0 < s'.pos ∧ ∀ q ∈ s'.positions, p0 ≤ q := by
  obtain ⟨hp, hq⟩ := hi
  unfold nameStep at h
  cases hst : s.state <;> simp only [hst] at h
  all_goals (repeat' split at h)
  all_goals first
    | (cases h; exact ⟨by dsimp only; omega, hq⟩)
    | (cases h; done)

theorem nameLoop_inv {inp : List Nat} {p0 : Nat} :
    ∀ (fuel : Nat) (s st : NameSt), nameLoop inp fuel s = .ok st → NameInv p0 s →
      p0 < st.pos ∧ ∀ q ∈ st.positions, p0 ≤ q := by
  intro fuel
  induction fuel with
  | zero => intro s st h; simp [nameLoop] at h
  | succ n ih =>
    intro s st h hi
    rw [nameLoop] at h
    split at h
    · rename_i s' hs
      exact ih s' st h (nameStep_cont_inv hs hi)
    · rename_i s' hs
      cases h
      exact nameStep_brk_inv hs hi
    · cases h

theorem collectParts_inv {inp : List Nat} {pos : Nat} {st : NameSt}
    (h : collectParts inp pos = .ok st) : pos < st.pos ∧ ∀ q ∈ st.positions, pos ≤ q := by
  unfold collectParts at h
  split at h
  · cases h
  · exact nameLoop_inv _ _ _ h ⟨Nat.le_refl _, fun q hq => by simp at hq⟩

theorem prefixLoop_ok_some (keys : List (List Nat)) (parts : List (List Nat)) (positions : List Nat) :
    ∀ n sub p, prefixLoop keys parts positions n = .ok (some (sub, p)) →
      ∃ q ∈ positions, p = q + 1 := by
  intro n
  induction n with
  | zero => intro sub p h; simp [prefixLoop] at h
  | succ m ih =>
    intro sub p h
    rw [prefixLoop] at h
    split at h
    · cases h
    · simp only at h
      split at h
      · split at h
        · cases h
        · rename_i q hq
          simp only [LexOutcome.ok.injEq, Option.some.injEq, Prod.mk.injEq] at h
          exact ⟨q, List.mem_of_getElem? hq, h.2.symm⟩
      · exact ih sub p h

theorem finishName_progress (l : Lx) (st : NameSt) (p0 : Nat)
    (hpos : p0 < st.pos) (hq : ∀ q ∈ st.positions, p0 ≤ q) (t : Token) (l' : Lx)
    (h : finishName l st = .ok (t, l')) : p0 < l'.pos := by
  unfold finishName at h
  simp only at h
  split at h
  · split at h
    · cases h
    · split at h
      · cases h
      · rename_i p hp
        cases h
        have := hq p (List.mem_of_getElem? hp)
        dsimp only; omega
  · split at h
    · cases h
    · cases h
    · cases h
    · rename_i sub p hh
      cases h
      obtain ⟨q, hqm, hpq⟩ := prefixLoop_ok_some _ _ _ _ _ _ hh
      have := hq q hqm
      dsimp only; omega
    · split at h
      · split at h
        · cases h
        · rename_i p hp
          cases h
          have := hq p (List.mem_of_getElem? hp)
          dsimp only; omega
      · repeat' split at h
        all_goals (cases h; dsimp only; omega)

theorem consumeName_progress (l : Lx) (t : Token) (l' : Lx) (h : consumeName l = .ok (t, l')) :
    l.pos < l'.pos := by
  unfold consumeName at h
  split at h
  · cases h
  · cases h
  · cases h
  · rename_i st hst
    have := collectParts_inv hst
    exact finishName_progress l st l.pos this.1 this.2 t l' h

theorem nameArm_progress (l : Lx) (t : Token) (l' : Lx) (h : nameArm l = .ok (t, l')) :
    l.pos < l'.pos := by
  unfold nameArm at h
  split at h
  · rename_i t0 l0 hh
    cases h
    exact consumeName_progress l _ l0 hh
  · cases h
  · cases h
  · cases h

/-! ## Numbers -/

theorem readBuf_head (inp : List Nat) (pos : Nat) : (readBuf inp pos).getD 0 32 = bufCell inp pos 0 := rfl

theorem digits_nonempty {inp : List Nat} {pos : Nat} (h : isDigit (bufCell inp pos 0) = true) :
    pos < (consumeDigits inp pos).2 := by
  unfold bufCell at h
  split at h
  · rename_i ch hch
    split at h
    · simp [isDigit] at h
    · simp only [Nat.add_zero] at hch
      have hlt : pos < inp.length := (List.getElem?_eq_some_iff.mp hch).1
      have hd : inp.drop pos = ch :: inp.drop (pos + 1) := by
        have := List.drop_eq_getElem_cons hlt
        rw [this]
        have hch' := (List.getElem?_eq_some_iff.mp hch).2
        rw [hch']
      unfold consumeDigits
      simp only [hd, List.takeWhile_cons, h, if_true, List.length_cons]
      omega
  · simp [isDigit] at h

/-! ## `read_next_token` -/

/-- What a successful call achieved. -/
def Advances (l : Lx) (t : Token) (l' : Lx) : Prop :=
  l.pos ≤ l'.pos ∧ (t.tt ≠ .yyEof → t.tt ≠ .yyUndef → l.pos < l'.pos)

theorem ite_ok {c : Prop} [Decidable c] {a b : Out (Token × Lx)} {t : Token} {l' : Lx} {P : Prop}
    (ha : c → a = .ok (t, l') → P) (hb : b = .ok (t, l') → P) :
    (if c then a else b) = .ok (t, l') → P := by
  intro h; split at h
  · exact ha ‹_› h
  · exact hb h

theorem readNextToken_progress (l : Lx) (t : Token) (l' : Lx) :
    readNextToken l = .ok (t, l') → Advances l t l' := by
  have hsk := skipBlanks_ge l.input l.pos
  simp only [readNextToken, advance]
  repeat (refine ite_ok (fun _ h => by cases h; exact ⟨by dsimp only; omega, fun _ _ => by dsimp only; omega⟩) ?_)
  -- `.5`
  refine ite_ok ?_ ?_
  · intro _ h
    cases h
    unfold consumeDigits
    exact ⟨by dsimp only; omega, fun _ _ => by dsimp only; omega⟩
  repeat (refine ite_ok (fun _ h => by cases h; exact ⟨by dsimp only; omega, fun _ _ => by dsimp only; omega⟩) ?_)
  -- the string literal
  refine ite_ok ?_ ?_
  · intro _ h
    split at h
    · rename_i t0 p hh
      cases h
      have := (consumeString_spec _ _).2 _ _ hh
      exact ⟨by dsimp only; omega, fun _ _ => by dsimp only; omega⟩
    · cases h
    · cases h
    · cases h
  repeat (refine ite_ok (fun _ h => by cases h; exact ⟨by dsimp only; omega, fun _ _ => by dsimp only; omega⟩) ?_)
  -- the number
  refine ite_ok ?_ ?_
  · intro hd
    rw [readBuf_head] at hd
    have hdig := digits_nonempty hd
    refine ite_ok ?_ ?_
    · intro _ h
      cases h
      have : (consumeDigits l.input (skipBlanks l.input l.pos)).2 + 1 ≤
          (consumeDigits l.input ((consumeDigits l.input (skipBlanks l.input l.pos)).2 + 1)).2 := by
        unfold consumeDigits; dsimp only; omega
      exact ⟨by dsimp only; omega, fun _ _ => by dsimp only; omega⟩
    · intro h
      cases h
      exact ⟨by dsimp only; omega, fun _ _ => by dsimp only; omega⟩
  -- the name
  refine ite_ok ?_ ?_
  · intro _ h
    have := nameArm_progress _ t l' h
    dsimp only at this
    exact ⟨by omega, fun _ _ => by omega⟩
  -- end of input / undefined
  refine ite_ok ?_ ?_
  · intro _ h
    cases h
    exact ⟨by dsimp only; omega, fun h _ => absurd rfl h⟩
  · intro h
    cases h
    exact ⟨by dsimp only; omega, fun _ h => absurd rfl h⟩

end Dmn.Lexer
