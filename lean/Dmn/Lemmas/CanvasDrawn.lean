import Dmn.Lemmas.CanvasStages
import Dmn.Lemmas.CanvasSearch
import Dmn.Lemmas.RenderAt

/-!
# The text layer of the canvas of a drawing

`canvasOf_shape`, `canvasOf_text`: the canvas of a list of lines is a rectangle, its text layer
holds the characters of the lines, `CHAR_OUTER` beyond their ends and in the last row.
`drawSheet`: `draw` for any sheet; where its lines come from (`drawSheet_body`, `drawSheet_first`,
the information item box).
-/

namespace Dmn.Recog
open Scan (ok error)

/-! ## `canvasOf` -/

theorem length_le_maxLenFrom : ∀ (ls : List Text) (w : Nat) (l : Text), l ∈ ls →
    l.length ≤ maxLenFrom w ls
  | [], _, _, h => by simp at h
  | x :: xs, w, l, h => by
    have h2 : maxLenFrom w (x :: xs) = maxLenFrom (if x.length > w then x.length else w) xs := rfl
    rw [h2]
    rcases List.mem_cons.mp h with rfl | h
    · have := le_maxLenFrom xs (if l.length > w then l.length else w)
      have h3 : l.length ≤ (if l.length > w then l.length else w) := by split <;> omega
      omega
    · exact length_le_maxLenFrom xs _ l h

theorem maxLenFrom_le : ∀ (ls : List Text) (w B : Nat), (∀ l ∈ ls, l.length ≤ B) → w ≤ B →
    maxLenFrom w ls ≤ B
  | [], w, B, _, hw => hw
  | x :: xs, w, B, h, hw => by
    have h2 : maxLenFrom w (x :: xs) = maxLenFrom (if x.length > w then x.length else w) xs := rfl
    rw [h2]
    refine maxLenFrom_le xs _ B (fun l hl => h l (by simp [hl])) ?_
    have := h x (by simp)
    split <;> omega

/-- the character of a list of lines at a position (`CHAR_OUTER` outside) -/
def lineCh (lines : List Text) (y x : Nat) : Char := (lines.getD y []).getD x charOuter

theorem canvasOf_row (lines : List Text) (y : Nat) (hy : y < lines.length + 1) :
    (canvasOf lines)[y]? = some (((lines.getD y []).map textPx).toArray ++
      Array.replicate (maxLen lines - (lines.getD y []).length) (Px.fill charOuter)) := by
  unfold canvasOf rowsOf
  rw [Array.getElem?_map, Array.getElem?_push]
  by_cases hlt : y < lines.length
  · have hne : ¬ y = (List.map (fun l => (List.map textPx l).toArray) lines).toArray.size := by
      simp; omega
    rw [if_neg hne]
    simp [hlt, List.getD_eq_getElem?_getD]
  · have : y = lines.length := by omega
    subst this
    simp [List.getD_eq_getElem?_getD]

theorem canvasOf_shape (lines : List Text) :
    Shape (canvasOf lines) (lines.length + 1) (maxLen lines) := by
  refine ⟨by simp [canvasOf, rowsOf], ?_⟩
  intro y row hr
  have hy : y < lines.length + 1 := by
    obtain ⟨hlt, _⟩ := Array.getElem?_eq_some_iff.mp hr
    simpa [canvasOf, rowsOf] using hlt
  rw [canvasOf_row lines y hy] at hr
  cases hr
  have hle : (lines.getD y []).length ≤ maxLen lines := by
    by_cases hlt : y < lines.length
    · apply length_le_maxLenFrom
      rw [List.getD_eq_getElem?_getD, List.getElem?_eq_getElem hlt]
      exact List.getElem_mem _
    · rw [List.getD_eq_getElem?_getD, List.getElem?_eq_none (by omega)]
      simp
  generalize lines.getD y [] = ln at hle ⊢
  simp
  omega

/-- the text layer of the canvas of a drawing holds the characters of the lines -/
theorem canvasOf_text (lines : List Text) (y x : Nat) (hy : y < lines.length + 1)
    (hx : x < maxLen lines) : chOf (canvasOf lines) .text y x = lineCh lines y x := by
  unfold chOf lineCh
  rw [canvasOf_row lines y hy]
  generalize lines.getD y [] = ln
  simp only
  by_cases hlt : x < ln.length
  · rw [Array.getElem?_append_left (by simpa using hlt)]
    simp [List.getD_eq_getElem?_getD, List.getElem?_eq_getElem hlt, textPx, Px.get]
  · rw [Array.getElem?_append_right (by simpa using Nat.le_of_not_lt hlt)]
    have h2 : x - (ln.map textPx).toArray.size < maxLen lines - ln.length := by simp; omega
    simp only [Array.getElem?_replicate, h2, if_true]
    rw [List.getD_eq_getElem?_getD, List.getElem?_eq_none (by omega)]
    simp [Px.fill, Px.get]

/-! ## `draw` for any sheet -/

/-- `draw` (Model/Plane.lean) for any sheet: the rendered sheet, under the information item box
when there is a name -/
def drawSheet (s : Sheet) (name : Option Text) (boxRight : Nat) : List Text :=
  match name with
  | none => s.render
  | some name =>
    let wbox := boxRight - 1
    let top := '┌' :: (List.replicate wbox '─' ++ ['┐'])
    let txt := (splitLines name).map (fun l => '│' :: (padTo wbox l ++ ['│']))
    match s.render with
    | [] => top :: txt
    | first :: rest => top :: (txt ++ ((first.set 0 '├').modify boxRight addUpArm) :: rest)

theorem draw_eq_drawSheet (d : Decor) (L : Layout) (t : TableSpec) :
    draw d L t = drawSheet (sheetOf d L t) t.infoName L.boxRight := by
  unfold draw drawSheet
  cases t.infoName <;> rfl

/-- the number of lines above the body -/
def boxLines (name : Option Text) : Nat :=
  match name with
  | none => 0
  | some name => 1 + (splitLines name).length

theorem nameLines_eq (t : TableSpec) : nameLines t = boxLines t.infoName := by
  unfold nameLines boxLines; cases t.infoName <;> rfl

theorem render_cons (s : Sheet) : ∃ rest, s.render = s.borderLine 0 :: rest := by
  rw [Sheet.render_eq]
  cases hn : s.nrows with
  | zero => exact ⟨[], by simp⟩
  | succ n =>
    rw [List.range_succ_eq_map]
    refine ⟨(List.range (s.h 0)).map (fun l => s.textLine 0 l) ++
      ((List.map Nat.succ (List.range n)).flatMap s.rowBlock ++ [s.borderLine (n + 1)]), ?_⟩
    simp [Sheet.rowBlock, List.flatMap_cons]

/-- the first line of the body: the top border, under the information item box with `├` and
the up arm of the box's right edge -/
def firstLine (s : Sheet) (name : Option Text) (boxRight : Nat) : Text :=
  match name with
  | none => s.borderLine 0
  | some _ => ((s.borderLine 0).set 0 '├').modify boxRight addUpArm

theorem drawSheet_first (s : Sheet) (name : Option Text) (boxRight : Nat) :
    (drawSheet s name boxRight)[boxLines name]? = some (firstLine s name boxRight) := by
  obtain ⟨rest, hr⟩ := render_cons s
  cases name with
  | none => simp [drawSheet, boxLines, firstLine, hr]
  | some nm =>
    simp only [drawSheet, boxLines, firstLine, hr]
    rw [Nat.add_comm 1, List.getElem?_cons_succ]
    rw [List.getElem?_append_right (by simp)]
    simp

/-- the lines of the body after the first are the lines of the rendered sheet -/
theorem drawSheet_body (s : Sheet) (name : Option Text) (boxRight : Nat) (j : Nat) (hj : 0 < j) :
    (drawSheet s name boxRight)[boxLines name + j]? = s.render[j]? := by
  obtain ⟨rest, hr⟩ := render_cons s
  obtain ⟨j', rfl⟩ : ∃ j', j = j' + 1 := ⟨j - 1, by omega⟩
  cases name with
  | none => simp [drawSheet, boxLines]
  | some nm =>
    simp only [drawSheet, boxLines, hr]
    have : 1 + (splitLines nm).length + (j' + 1) = ((splitLines nm).length + (j' + 1)) + 1 := by omega
    rw [this, List.getElem?_cons_succ]
    rw [List.getElem?_append_right (by simp <;> omega)]
    simp

theorem drawSheet_length (s : Sheet) (name : Option Text) (boxRight : Nat) :
    (drawSheet s name boxRight).length = boxLines name + s.yPos s.nrows + 1 := by
  obtain ⟨rest, hr⟩ := render_cons s
  have hl := s.render_length
  rw [hr] at hl
  simp only [List.length_cons] at hl
  cases name with
  | none => simp [drawSheet, boxLines, hr]; omega
  | some nm => simp [drawSheet, boxLines, hr]; omega

theorem drawSheet_top (s : Sheet) (nm : Text) (boxRight : Nat) :
    (drawSheet s (some nm) boxRight)[0]? = some ('┌' :: (List.replicate (boxRight - 1) '─' ++ ['┐'])) := by
  obtain ⟨rest, hr⟩ := render_cons s
  simp [drawSheet, hr]

theorem drawSheet_boxText (s : Sheet) (nm : Text) (boxRight : Nat) (i : Nat)
    (hi : i < (splitLines nm).length) :
    (drawSheet s (some nm) boxRight)[1 + i]? =
      some ('│' :: (padTo (boxRight - 1) ((splitLines nm).getD i []) ++ ['│'])) := by
  obtain ⟨rest, hr⟩ := render_cons s
  simp only [drawSheet, hr]
  rw [Nat.add_comm 1, List.getElem?_cons_succ]
  rw [List.getElem?_append_left (by simpa using hi)]
  simp [hi, List.getD_eq_getElem?_getD]

end Dmn.Recog
