import Dmn.Lemmas.CanvasRegions

/-!
# Stage 4 of the scanner: vocabulary

* `fixTop`, `bodyLayerOf`: what `remove_information_item_region` writes into the body layer;
  `gridH`, `gridV`: the two passes of `make_grid` as functions of the body layer (each pass rewrites
  a row / column only when it holds a line).
* `SheetGrid`: the grid layer on the drawing of a sheet: the FULL grid of boundary rows and columns.
* `Roomy`, `FullLines`, `TextsFill`: what stage 4 needs beyond a legal drawing.
* `sheetCell`, `cellRow`, `dblRow`, `annRow`, `sheetPlane`: the plane `Canvas::plane` is expected
  to build from the grid of a sheet.
-/

namespace Dmn.Recog
open Scan (ok error)

/-! ## The body and grid layers as functions of the thin layer -/

/-- canvas.rs:201-209: the top row of the body loses the arms that point upwards -/
def fixTop (ch : Char) : Char :=
  if ch = '├' then '┌' else if ch = '┴' then '─' else if ch = '┤' then '┐'
  else if ch = '┼' then '┬' else ch

/-- the body layer after `remove_information_item_region c b .thin .body`, from the thin layer
`thin` and the body layer `body0` before it -/
def bodyLayerOf (thin body0 : Nat → Nat → Char) (b : Rect) (y x : Nat) : Char :=
  if b.left ≤ x ∧ x < b.right then
    if y + 1 < b.top then charOuter
    else if y = b.top then fixTop (thin y x)
    else if b.top < y ∧ y < b.bottom then thin y x
    else body0 y x
  else body0 y x

/-- does row `y` of the body layer hold a `─` between the left and right edge of `b`? -/
def hasH (body : Nat → Nat → Char) (b : Rect) (y : Nat) : Bool :=
  (List.range' b.left (b.right - b.left)).any (fun x => body y x == '─')

/-- the grid layer after the horizontal pass of `make_grid c b .body .grid` (canvas.rs:223-244),
from the body layer `body` -/
def gridH (body : Nat → Nat → Char) (b : Rect) (y x : Nat) : Char :=
  if b.top ≤ y ∧ y < b.bottom ∧ b.left ≤ x ∧ x < b.right ∧ hasH body b y = true then
    (gridHorz (body y x) x b.left b.right).getD (body y x)
  else body y x

/-- does column `x` hold a `│` between the top and bottom edge of `b` after the horizontal pass? -/
def hasV (body : Nat → Nat → Char) (b : Rect) (x : Nat) : Bool :=
  (List.range' b.top (b.bottom - b.top)).any (fun y => gridH body b y x == '│')

/-- the grid layer after both passes of `make_grid c b .body .grid` (canvas.rs:245-266) -/
def gridV (body : Nat → Nat → Char) (b : Rect) (y x : Nat) : Char :=
  if b.top ≤ y ∧ y < b.bottom ∧ b.left ≤ x ∧ x < b.right ∧ hasV body b x = true then
    (gridVert (gridH body b y x) y b.top b.bottom).getD (gridH body b y x)
  else gridH body b y x

/-! ## The grid layer of a drawn sheet -/

/-- The grid layer of a content `c` holds the FULL grid of the sheet `s` drawn `o` lines below the
top: a junction at every vertex (with the arms that stay inside the sheet), `─` along every
boundary row, `│` along every boundary column, blanks inside the grid cells, and no top left
corner above the sheet or in the row below it. -/
structure SheetGrid (c : Content) (s : Sheet) (o : Nat) : Prop where
  vertex : ∀ br bc, br ≤ s.nrows → bc ≤ s.ncols →
    chOf c .grid (o + s.yPos br) (s.xPos bc) =
      J (decide (0 < br)) (decide (br < s.nrows)) (decide (0 < bc)) (decide (bc < s.ncols))
  hseg : ∀ br c' i, br ≤ s.nrows → c' < s.ncols → i < s.w c' →
    chOf c .grid (o + s.yPos br) (s.xPos c' + (1 + i)) = '─'
  sep : ∀ r l bc, r < s.nrows → l < s.h r → bc ≤ s.ncols →
    chOf c .grid (o + (s.yPos r + (1 + l))) (s.xPos bc) = '│'
  cell : ∀ r l c' i, r < s.nrows → l < s.h r → c' < s.ncols → i < s.w c' →
    chOf c .grid (o + (s.yPos r + (1 + l))) (s.xPos c' + (1 + i)) = ' '
  above : ∀ y x, y < o → x < s.xPos s.ncols + 1 → cornersTopLeft.contains (chOf c .grid y x) = false
  last : ∀ x, x < s.xPos s.ncols + 1 →
    cornersTopLeft.contains (chOf c .grid (o + s.yPos s.nrows + 1) x) = false

/-- every column and row of the sheet has an interior -/
def Roomy (s : Sheet) : Prop := (∀ c, c < s.ncols → 1 ≤ s.w c) ∧ (∀ r, r < s.nrows → 1 ≤ s.h r)

/-- every inner boundary row and column carries a line segment somewhere (no two grid rows or
columns could be drawn as one) -/
def FullLines (s : Sheet) : Prop :=
  (∀ br, 0 < br → br < s.nrows → ∃ c, c < s.ncols ∧ s.hSeg br c = true) ∧
  (∀ bc, 0 < bc → bc < s.ncols → ∃ r, r < s.nrows ∧ s.vSeg r bc = true)

/-- every text fills the interior of its region exactly: as many lines as the region has interior
rows, each as long as the interior is wide -/
def TextsFill (s : Sheet) : Prop :=
  ∀ k r0 c0 r1 c1, IsRegion s k r0 c0 r1 c1 →
    (splitLines (s.text k)).length + s.yPos r0 + 1 = s.yPos (r1 + 1) ∧
    ∀ ln ∈ splitLines (s.text k), ln.length + s.xPos c0 + 1 = s.xPos (c1 + 1)

/-! ## The plane of a sheet -/

/-- the rectangle of grid cell `(r, c)` (canvas.rs convention: right / bottom exclusive) -/
def Sheet.cellRect (s : Sheet) (o r c : Nat) : Rect :=
  ⟨s.xPos c, o + s.yPos r, s.xPos (c + 1) + 1, o + s.yPos (r + 1) + 1⟩

/-- the number of the region of key `k`: its rank in reading order, after the information item box -/
def Sheet.regionNo (s : Sheet) (name : Option Text) (k : Key) : Nat :=
  (if name.isSome then 1 else 0) + s.keysInOrder.idxOf k

/-- the plane cell of grid cell `(r, c)`: the region of its key, with number, rectangle and text -/
def sheetCell (s : Sheet) (name : Option Text) (r c : Nat) : SCell :=
  .region (s.regionNo name (s.key r c)) (s.regionRect (boxLines name) (s.key r c)) (s.text (s.key r c))

/-- the cells of grid row `r`: before the cell of grid column `bcX` (the main double line) a `║`
mark, before that of `bc1` (the annotation double line) a `│` mark -/
def cellRow (ncols : Nat) (cellOf : Nat → SCell) (bcX : Nat) (bc1 : Option Nat) : List SCell :=
  (List.range ncols).flatMap fun c =>
    (if c = bcX then [SCell.mark .vOut] else []) ++ (if bc1 = some c then [SCell.mark .vAnn] else []) ++
      [cellOf c]

/-- the width of the plane: the grid cells and the marks -/
def planeWidth (ncols : Nat) (bc1 : Option Nat) : Nat := ncols + 1 + (if bc1.isSome then 1 else 0)

/-- canvas.rs:285-301: the row of the main double line -/
def dblRow (ncols bcX : Nat) (bc1 : Option Nat) : List SCell :=
  (List.range (planeWidth ncols bc1)).map fun i =>
    if i = bcX then SCell.mark .mainX else if bc1.map (· + 1) = some i then SCell.mark .horzX
    else SCell.mark .hOut

/-- canvas.rs:306-316: the row of the annotation double line (rules as columns) -/
def annRow (ncols bcX : Nat) (bc1 : Option Nat) : List SCell :=
  (List.range (planeWidth ncols bc1)).map fun i =>
    if i = bcX then SCell.mark .vertX else SCell.mark .hAnn

/-- The plane `Canvas::plane` builds from a grid of `nrows × ncols` cells: row by row the cells,
before grid row `brX` the row of the main double line, before grid row `br1` the row of the
annotation double line. -/
def gridPlane (nrows ncols : Nat) (cellOf : Nat → Nat → SCell) (bcX brX : Nat) (bc1 br1 : Option Nat) :
    List (List SCell) :=
  (List.range nrows).flatMap fun r =>
    (if r = brX then [dblRow ncols bcX bc1] else []) ++
      (if br1 = some r then [annRow ncols bcX bc1] else []) ++ [cellRow ncols (cellOf r) bcX bc1]

/-- the plane of a drawn sheet -/
def sheetPlane (s : Sheet) (name : Option Text) (bcX brX : Nat) (bc1 br1 : Option Nat) :
    List (List SCell) :=
  gridPlane s.nrows s.ncols (sheetCell s name) bcX brX bc1 br1

/-! ## Region numbers -/

/-- the region number `ids` gives to the region of a key -/
def Ids.ofKey (ids : Ids) : Key → Nat
  | .hp => ids.hp | .hpBlank => ids.hpBlank | .label => ids.label
  | .expr j => ids.expr j | .comp j => ids.comp j | .inVal j => ids.inVal j
  | .outVal j => ids.outVal j | .ann j => ids.ann j | .annBlank j => ids.annBlank j
  | .ruleNo i => ids.ruleNo i
  | .inE i j => ids.inE i j | .outE i j => ids.outE i j | .annE i j => ids.annE i j

/-- the region numbers `ids` are the ranks of the regions of the sheet in reading order (after the
information item box) -/
def IdsMatch (ids : Ids) (s : Sheet) (name : Option Text) : Prop :=
  ∀ r c, r < s.nrows → c < s.ncols → ids.ofKey (s.key r c) = s.regionNo name (s.key r c)

/-! ## The extended legality of a drawing (decidable) -/

/-- `Fits`, and what stage 4 needs beyond it: every column and row has an interior, every text of
the sheet fills the interior of its region EXACTLY (as many lines as the region has interior rows,
each as long as the interior is wide: `draw` neither completes a line with blanks nor cuts it), and
so does every line of the information item name in its box. -/
def fitsExactB (d : Decor) (L : Layout) (t : TableSpec) : Bool :=
  let s := sheetOf d L t
  fitsB d L t &&
  (List.range s.ncols).all (fun c => decide (1 ≤ s.w c)) &&
  (List.range s.nrows).all (fun r => decide (1 ≤ s.h r)) &&
  s.keysInOrder.all (fun k =>
    let ls := splitLines (s.text k)
    ls.length == (s.regionSize k).2 && ls.all (fun ln => ln.length == (s.regionSize k).1)) &&
  (match t.infoName with
   | none => true
   | some nm => (splitLines nm).all (fun ln => ln.length + 1 == L.boxRight))

/-- the drawing is legal and every text fills its region exactly -/
abbrev FitsExact (d : Decor) (L : Layout) (t : TableSpec) : Prop := fitsExactB d L t = true

theorem fits_of_fitsExact (d : Decor) (L : Layout) (t : TableSpec) (h : FitsExact d L t) :
    fitsB d L t = true := by
  unfold FitsExact fitsExactB at h
  simp only [Bool.and_eq_true] at h
  exact h.1.1.1.1

theorem roomy_of_fitsExact (d : Decor) (L : Layout) (t : TableSpec) (h : FitsExact d L t) :
    Roomy (sheetOf d L t) := by
  unfold FitsExact fitsExactB at h
  simp only [Bool.and_eq_true, List.all_eq_true, List.mem_range, decide_eq_true_eq] at h
  exact ⟨h.1.1.1.2, h.1.1.2⟩

end Dmn.Recog
