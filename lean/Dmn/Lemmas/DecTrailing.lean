import Dmn.Lemmas.DecRound

/-! `finalize` on an integer with trailing zeros (`c·10^k`, read back from a plain rendering):
the zeros beyond 34 digits move into the exponent, nothing is lost. -/

namespace Dmn
namespace D128

theorem ndigits_mul_pow (c k : Nat) (hc : c ≠ 0) : ndigits (c * 10 ^ k) = ndigits c + k := by
  obtain ⟨h1, h2, h3⟩ := ndigits_spec c hc
  apply ndigits_eq
  · omega
  · have : ndigits c + k - 1 = (ndigits c - 1) + k := by omega
    rw [this, pow10_add]
    exact Nat.mul_le_mul_right _ h2
  · rw [pow10_add]
    exact Nat.mul_lt_mul_of_pos_right h3 (pow10_pos k)

theorem divRound_exact (c k j : Nat) (hj : j ≤ k) : divRound (c * 10 ^ k) j false = c * 10 ^ (k - j) := by
  have hsplit : c * 10 ^ k = (c * 10 ^ (k - j)) * 10 ^ j := by
    have : k = (k - j) + j := by omega
    rw [Nat.mul_assoc, ← pow10_add, ← this]
  have hp := pow10_pos j
  unfold divRound roundsUp
  simp only []
  rw [hsplit, Nat.mul_div_cancel _ hp, Nat.mul_mod_left]
  simp only [Nat.mul_zero, Bool.false_or]
  generalize 10 ^ j = p at *
  have h1 : ¬ (0 > p) := by omega
  have h2 : ¬ (0 = p) := by omega
  simp only [if_neg h1, if_neg h2]
  simp

/-- reading back `c·10^k` (`c < 10^34`, `k ≤ 6111`): a finite number with exactly that value -/
theorem finalize_trailing (neg : Bool) (c k : Nat) (hc : c ≠ 0) (hc34 : c < 10 ^ 34) (hk : (k : Int) ≤ 6111) :
    ∃ d' : D128, finalize neg (c * 10 ^ k) 0 false = .fin d' ∧ d'.neg = neg ∧ 0 ≤ d'.exp ∧
      d'.coeff * 10 ^ d'.exp.toNat = c * 10 ^ k := by
  have hnd := ndigits_mul_pow c k hc
  have hndc : ndigits c ≤ 34 := ndigits_le_of_lt c 34 hc34
  have hndc1 := ndigits_pos c hc
  have hN0 : c * 10 ^ k ≠ 0 := Nat.mul_ne_zero hc (by have := pow10_pos k; omega)
  by_cases hfit : ndigits c + k ≤ 34
  · have hlt : c * 10 ^ k < 10 ^ 34 := lt_of_ndigits_le _ 34 (by omega)
    exact ⟨⟨neg, c * 10 ^ k, 0⟩, finalize_exact neg _ 0 hlt hN0 (by omega) (by omega), rfl, by simp, by simp⟩
  · obtain ⟨j, hj⟩ : ∃ j, ndigits c + k = 34 + j := ⟨ndigits c + k - 34, by omega⟩
    have hjk : j ≤ k := by omega
    have hcut : cutExp (c * 10 ^ k) 0 = (j : Int) := by
      unfold cutExp eTiny
      simp only []
      rw [hnd]
      have h1 : (((ndigits c + k : Nat) : Int) > 34) := by omega
      rw [if_pos h1]
      have h2 : ¬ ((0 : Int) + (((ndigits c + k : Nat) : Int) - 34) < -6176) := by omega
      rw [if_neg h2]
      omega
    have hq34 : ndigits (c * 10 ^ (k - j)) = 34 := by
      rw [ndigits_mul_pow c (k - j) hc]; omega
    have hqlt : c * 10 ^ (k - j) < 10 ^ 34 := lt_of_ndigits_le _ 34 (by omega)
    have hq0 : c * 10 ^ (k - j) ≠ 0 := Nat.mul_ne_zero hc (by have := pow10_pos (k - j); omega)
    refine ⟨⟨neg, c * 10 ^ (k - j), (j : Int)⟩, ?_, rfl, by simp, ?_⟩
    · unfold finalize
      rw [if_neg (by intro h; exact hN0 h.1), hcut]
      have : ((j : Int) - 0).toNat = j := by omega
      rw [this, divRound_exact c k j hjk]
      unfold pack
      simp only [if_neg (show c * 10 ^ (k - j) ≠ 10 ^ 34 by omega), if_neg hq0, hq34]
      rw [if_neg (by unfold eMax; omega), if_neg (by unfold eTop; omega)]
    · show c * 10 ^ (k - j) * 10 ^ ((j : Int)).toNat = c * 10 ^ k
      have : ((j : Int)).toNat = j := by omega
      rw [this, Nat.mul_assoc, ← pow10_add]
      congr 2
      omega

end D128
end Dmn
